"""C02 - Metropolis-type kernels accept with exactly the Metropolis-Hastings probability.

Spec: specs/MHKernel.tla (+ TraceMHKernel.tla for recorded executions).
Spec -> code: TLC explores every behaviour (Propose / Decide / Tune / SaveLoad / Abort) of the bounded lattice instance for the
kernels RW, CW, PCN, MALA in both interfaces, checks RatioIsMH / DetailedBalance / CacheCoherent / NoNonFiniteAccept /
RejectKeepsState on every state and emits each behaviour with the exact proposal noise, the exact rational log-ratio
and the state predicted after every action.  harness/cuqiverif/mhkernel_real.py realises the tables as
UserDefinedDistribution / Posterior objects, scripts the proposal noise and a uniform just below / above exp(r) and
drives the real samplers one transition at a time (step(); single_update(x, cached...)), fresh, after a real warm-up
tuning step and after get_state -> fresh sampler -> set_state.
Aborted transitions (action Abort, MHKernel.abort.<tier>.cfg): the table target raises at the k-th evaluation of a transition
(every k the spec enumerates: RW/PCN 1, CW 1..d, MALA log-density / drift); afterwards the cached evaluations must equal a
fresh evaluation at the sampler's current point by an un-instrumented target, the point must be one of the kernel states the
spec allows (partial sweep / sweep start) and the following transitions must decide with the spec's ratio.
Randomness sources (field cfg.src, MHKernel.src.<tier>.cfg): the specification enumerates source x kernel x interface for the
options that change where the proposal noise comes from (rng= generator of cuqi.sampler.ULA / MALA, user-supplied proposal
distribution objects of MH / CWMH, callable proposals of CWMH, the prior object of the pCN target; scalar and per-component
scales) in dimension 2; each is realised with a scripted generator that serves the spec's noise component by component (a
request without a size gets ONE component), the recorded calls of the generator show that the draws came from it.
Component-wise sweeps (specs/CWSweep.tla, CWSweep.<tier>.cfg): the sweep of the component-wise kernel as the ordered record of
the points at which the target is evaluated - component j must be evaluated at the CURRENT state (whatever happened to the
earlier components: accepted / rejected / refused as non-finite) with only component j replaced; dimensions 2 and 3, targets
whose support couples the components (band, disc, ring: NaN / -inf outside), every point of the support as initial state,
all 3^d orders of outcomes; replayed on both interfaces through every public entry point that makes a transition
(harness/cuqiverif/cwsweep_real.py).
Chains (harness/cuqiverif/mhchain_real.py): the behaviours that consist of transitions only are also executed through the
public loops sample() / warmup() (stateful) and sample() (stateless), which call step() / single_update() and thread the
state and the cached evaluations.
Re-configured samplers, proposal objects, data layouts (specs/MHReconf.tla EXTENDS MHKernel; harness/cuqiverif/mhreconf_real.py):
a CONSTRUCTED sampler whose public attributes (initial_point / initial_scale / target; x0 / scale / target) are assigned and that
is then re-initialised (reinitialize(); a new sample() call of the stateless interface): point = the configured initial point,
every cached evaluation = the evaluation at that point under the current target, scale = the configured one, first transition
decided with the Metropolis-Hastings ratio from there; the proposal OBJECT of the random-walk kernel (is_symmetric True / False /
None / missing x centre of the increment law): refused, or decided with the ratio of the mechanism it really is; the data LAYOUT
of points and scales (lists, integer arrays, float32, 0-d, (n,1), in-place edit of the array handed over) with the lattice
embedded as real = lattice / 2 so that accepted states are not integral.
Chains started outside the support, boundary uniforms (specs/MHOutside.tla EXTENDS MHKernel): the initial point has log-density
-inf; a finite proposal is accepted whatever the uniform (Metropolis-Hastings ratio +inf), a NaN / -inf proposal never (from a
finite and from a -inf state; the chain stays put and reports no acceptance); decisions with the uniform exactly 0.
Extreme magnitudes (specs/MHMagnitude.tla; harness/cuqiverif/mhmag_real.py): one transition whose log target ratio a, log proposal
ratio b (Hastings term of the Langevin kernel) and cached level are exact quantities 0, +-1 .. +-10^4, +-~1e300 in all sign
combinations (exp(a), exp(b) overflow / underflow, only a + b decides), decided with the uniforms 0, 1e-300, exp(a+b)(1 -/+ 1e-6),
1/2, 1 - 1e-6: the decision must be the one of log alpha = a + b computed in the log domain; a NaN decision variable is never an accept.
Code -> spec: real runs of the Metropolis-type samplers under the recorder log the boolean facets cache_ok /
finite_ok / moved / acc of every transition; TLC validates them against TraceMHKernel.tla.
"""
META = {
    "claimed": True,
    "engine": "MHKernel.tla + CWSweep.tla + MHReconf.tla + MHOutside.tla + MHMagnitude.tla + MHTypes.tla",
    "text": ("TLC checks on every reachable state of the bounded lattice model (d=1: 5 points, d=2: 3x3; quadratic, asymmetric "
             "and NaN/-inf-holed target tables; RW, CW, PCN, MALA x both interfaces; scalar, per-component and re-tuned scales; "
             "state reload) that the log-ratio computed from the caches is the Metropolis-Hastings log-ratio of the proposal "
             "mechanism, detailed balance, cache coherence, reject-keeps-state and that non-finite proposals are never accepted "
             "(named deviations ProposalUsesRawPriorDraw / AcceptsNaN and four mutations must violate them), also after a "
             "transition that aborts at its k-th target evaluation (action Abort; deviation AbortHalfUpdated must violate "
             "CacheCoherent); every emitted "
             "behaviour is replayed on the real samplers with scripted noise and a uniform 1e-6 below / above exp(r), comparing "
             "proposal, decision, next point and caches after every action; in the Abort behaviours the table target raises at "
             "the evaluation the spec names (every kernel, both interfaces, + experimental ULA), then cache = fresh evaluation "
             "at the current point, point in the spec's allowed set, following transitions as specified (stateless interface "
             "also sample(2) after an aborted sample(2) on one sampler object); the configurations carry a randomness source "
             "(constant Sources: numpy's global stream | rng= generator | user-supplied proposal object | callable proposal | "
             "prior object) and every (kernel, interface, source) the spec enumerates is replayed in dimension 2 with a scripted "
             "generator serving the noise component by component on noise vectors with two different components; CWSweep.tla "
             "models the sweep of the component-wise kernel as the ordered record of evaluation points (d = 2, 3; targets with "
             "coupled support band / disc / ring; every initial point of the support; all 3^d orders of accepted / rejected / "
             "refused components; invariants EvalAtOneReplaced, EvalTrace, RatioIsMH, CacheCoherent, NoNonFiniteAccept, "
             "OnlyComponentJ; deviations RefusedStaysInBuffer, ProposalsFromSweepStart, CacheLastEvaluated refuted) and every "
             "emitted sweep is replayed on both interfaces through step / sample / warmup and single_update / sample / "
             "sample_adapt: the evaluation record must contain the spec's points in order, then flags, point and cache; "
             "behaviours made of transitions only are additionally run through the public chain loops (sample / warmup; legacy "
             "sample) and compared state by state; MHReconf.tla (EXTENDS MHKernel) adds the public attributes as configured "
             "(pub = initial point / scale / target), the actions ReX0 / ReSc / ReTgt (assignment to a constructed sampler) and Reinit "
             "(reinitialize() / a new sample() call), the proposal object of the random-walk kernel (kind x is_symmetric flag true / "
             "false / none / missing x centre mu of the increment law; modes sym / refused / hastings) and the data layout of points "
             "and scales; TLC checks RatioIsMH, DetailedBalance, CacheCoherent, ReinitIsFresh, NoNonFiniteAccept over the "
             "re-configured behaviours (0..1 transition before, 1..3 assignments, Reinit, first transition; all kernels x both "
             "interfaces) and RatioIsMHP / DetailedBalanceP (ratio of the mechanism really used) over every proposal object; "
             "deviations ReinitKeepsCacheForSameTarget, ReinitKeepsCurrentCache (-> CacheCoherent), UnknownSymmetryAccepted, "
             "FlagTrustedWhateverTheCentre (-> RatioIsMHP) are refuted; the emitted behaviours are replayed on the real samplers "
             "(stateful: attributes + reinitialize() + step() / sample(); stateless: attributes + sample() on one object, and "
             "single_update with the state threaded): point, cached evaluations against a fresh un-instrumented evaluation, scale, "
             "then proposal / decision / state of the first transition; proposal objects given to the constructor or assigned: "
             "refused, or replayed with a uniform 1e-6 below / above the threshold of the mode the specification emitted; layouts "
             "(python lists, integer arrays, float32, 0-d, (n,1), in-place edit) with the lattice embedded as real = lattice/2; "
             "MHOutside.tla (EXTENDS MHKernel) starts the chains at a point of log-density -inf and gives Decide the kind of uniform "
             "(generic | exactly 0): RatioIsMHO (ratio +inf from zero density), NeverAcceptsNonFinite, MovesOnlyToFinite, StaysInside, "
             "EscapesWithProbabilityOne (deviation InfGuardDropped refuted), every behaviour replayed on all kernels of both "
             "interfaces (step / single_update and the public loops); the uniforms scripted for a non-finite proposal include 0; "
             "MHMagnitude.tla gives the decision a magnitude dimension: configuration = kernel x interface x cached level (0, -10^4) x "
             "log target ratio a (0, +-1, +-50, +-700, +-800, +-10^4, +-4U; U = 2^997 ~ 1.3e300) x log proposal ratio b of the Langevin "
             "kernel (0, +-2, +-50, +-722, +-800, +-10082, +-U: half squares, realised exactly), exact arithmetic on h*U + n, uniform "
             "classes zero / tiny / below / above / mid / near1; invariants DecisionIsMH (the decision of min(0, fl(a + b)) is the "
             "decision of the exact a + b for every uniform), NaNDecisionNeverAccepts, DecisionVariableFinite, CacheCoherent, "
             "RejectKeepsState; deviations ProductOfExponentials (alpha = exp(a) exp(b): inf * 0 = NaN, min(1, NaN) = 1) and "
             "RatioOfDensities (exp(lp(y)) / exp(lp(x)): 0 / 0) are refuted on DecisionIsMH and on NaNDecisionNeverAccepts; every "
             "emitted case is one real transition (two-point table target, drift table, scripted noise and uniform) on all "
             "kernels of both interfaces: proposal, decision, next point, cached values; "
             "MHTypes.tla gives the configuration the TYPE of its numbers: step size as python float / python int / numpy int64 / "
             "int32 / integer array with the integer values 2, 3, 4 (pCN: 3/5, 4/5, integer 1) and - pCN - prior class Gaussian / "
             "Normal x prior mean (0, 2) handed over as float array / python float / python int / numpy float64 / integer array / "
             "list; RatioIsMH, DetailedBalance, CacheCoherent, RejectKeepsState in dimension 2; deviations IntegerReciprocal (1/eps "
             "of the Langevin log-proposal in the type of eps) and ScalarMeanIgnored (pCN takes the prior mean only when it is an "
             "array) are refuted on RatioIsMH; every emitted case is one real transition on all kernels of both interfaces (+ legacy "
             "pCN with the (likelihood, prior) tuple, + ULA of both interfaces on the MALA cases); "
             "recorded real runs are validated by TLC against TraceMHKernel."),
    "note": ("Targets are tables on a finite lattice (the ratio identities do not depend on the table values); a computed ratio "
             "must deviate by more than 1e-6 relative to flip a scripted decision. Legacy CWMH is driven with a copy of x "
             "(its in-place write is finding C14-F1). CWMH of either interface cannot run in dimension 1 (observation). "
             "Warm-up of the stateful interface is one scripted warmup(1) step (real tune()), of the stateless interface a "
             "real sample_adapt(10); the scale is then reset to a lattice value through the public attribute. Whether an "
             "exception of the target reaches the caller is an observation; only the state / decisions afterwards are judged. "
             "Sources: a user-supplied proposal / prior / callable that is not drawn from is a mismatch (docstring 'The proposal to "
             "sample from'); whether the rng= argument of cuqi.sampler.ULA / MALA (not described in their docstrings) is the "
             "stream used, and which stream delivers the uniform, are observations - an unused rng= makes the facet vacuous "
             "(exit 2). The experimental ULA / MALA and PCN / MH have no generator argument. Sweeps: evaluations besides the "
             "component proposals and whether a uniform is drawn for a refused proposal are observations; the uniform served is "
             "chosen by the evaluation made last (evaluate-then-draw is assumed, otherwise exit 2). The columns of a legacy CWMH "
             "chain other than the last are not compared (in-place overwrite = C14-F1). Re-configuration: no transition is modelled "
             "between an assignment and the re-initialisation (undocumented); the symmetry of the conditional proposals of CWMH is "
             "not checked by either interface and not asserted; a flag declared by the caller of a user-defined proposal is taken as "
             "truthful; exceptions under a non-default layout and mismatches under a layout no docstring describes are "
             "observations; what a sampler does with a proposal object whose assignment raised is an observation. A proposal "
             "with log-density +inf (acceptance probability 1 by the formula, not named by the property) is observed only; "
             "chains are not started at a NaN point. Extreme magnitudes: the decision for the uniform exactly 0 is asserted only "
             "when exp(a + b) is a normal double or a + b >= 0 (u <= exp(r) vs u < exp(r) differ on a set of measure zero when "
             "exp(r) underflows); thresholds exp(r)(1 -/+ 1e-6) are scripted only for -708 < r < 0."),
    "technique": "TLA+ specs (MHKernel, CWSweep, MHReconf, MHOutside, MHMagnitude, MHTypes) model-checked with TLC; TLC-generated behaviours replayed into the samplers with scripted randomness; recorded traces validated by TLC",
}

import concurrent.futures, hashlib, json, os, random, time, warnings
import numpy as np

MH_TYPES = ("MH", "CWMH", "PCN", "ULA", "MALA")

DEVIATIONS = (  # cfg, invariant that must be violated
    ("MHKernel.rawprior_ratio.deviation.cfg", "RatioIsMH"),
    ("MHKernel.rawprior_balance.deviation.cfg", "DetailedBalance"),
    ("MHKernel.acceptsnan.deviation.cfg", "NoNonFiniteAccept"),
    ("MHKernel.mut_stalegrad.deviation.cfg", "CacheCoherent"),
    ("MHKernel.mut_loaddrops.deviation.cfg", "CacheCoherent"),
    ("MHKernel.mut_rejectmoves.deviation.cfg", "RejectKeepsState"),
    ("MHKernel.abort_halfupdated.deviation.cfg", "CacheCoherent"),
)

SWEEP_DEVIATIONS = (  # CWSweep.tla: cfg, invariant that must be violated
    ("CWSweep.RefusedStaysInBuffer.deviation.cfg", "EvalAtOneReplaced"),
    ("CWSweep.ProposalsFromSweepStart.deviation.cfg", "EvalAtOneReplaced"),
    ("CWSweep.CacheLastEvaluated.deviation.cfg", "CacheCoherent"),
)


RECONF_DEVIATIONS = (  # MHReconf.tla: cfg, invariant that must be violated
    ("MHReconf.ReinitKeepsCacheForSameTarget.deviation.cfg", "CacheCoherent"),
    ("MHReconf.ReinitKeepsCurrentCache.deviation.cfg", "CacheCoherent"),
    ("MHReconf.UnknownSymmetryAccepted.deviation.cfg", "RatioIsMHP"),
    ("MHReconf.FlagTrustedWhateverTheCentre.deviation.cfg", "RatioIsMHP"),
)

OUTSIDE_DEVIATIONS = (  # MHOutside.tla: cfg, action property that must be violated
    ("MHOutside.InfGuardDropped.deviation.cfg", "NeverAcceptsNonFinite"),
)

MAGNITUDE_DEVIATIONS = (  # MHMagnitude.tla: cfg, invariant that must be violated
    ("MHMagnitude.ProductOfExponentials.deviation.cfg", "DecisionIsMH"),
    ("MHMagnitude.ProductOfExponentials_nan.deviation.cfg", "NaNDecisionNeverAccepts"),
    ("MHMagnitude.RatioOfDensities.deviation.cfg", "DecisionIsMH"),
    ("MHMagnitude.RatioOfDensities_nan.deviation.cfg", "NaNDecisionNeverAccepts"),
)

TYPES_DEVIATIONS = (  # MHTypes.tla: cfg, invariant that must be violated
    ("MHTypes.IntegerReciprocal.deviation.cfg", "RatioIsMH"),
    ("MHTypes.ScalarMeanIgnored.deviation.cfg", "RatioIsMH"),
)

_SERIAL = [0]


def _tlc_retry(ctx, *a, **k):
    """another check's clean-up (`pkill -f tlc2.TLC`) may terminate our JVM (rc=143 / 137): run again.
    Runs are started concurrently from one process: every run gets its own work directory."""
    from cuqiverif.core import MachineryError
    from cuqiverif import tlc
    for attempt in range(4):
        _SERIAL[0] += 1
        k["workdir"] = os.path.join(tlc.WORK, "c02-%d-%d-%d" % (os.getpid(), _SERIAL[0], int(time.time() * 1000) % 10**7))
        try:
            return ctx.tlc(*a, **k)
        except MachineryError as e:
            if ("rc=143" in str(e) or "rc=137" in str(e) or "rc=-15" in str(e)) and attempt < 3:
                time.sleep(1 + attempt)
                continue
            raise


# ----------------------------------------------------------------------------------------------------------------
# code -> spec : recorder facets
# ----------------------------------------------------------------------------------------------------------------
def _same(a, b):
    try:
        a = np.asarray(a, dtype=float).reshape(-1)
        b = np.asarray(b, dtype=float).reshape(-1)
    except (TypeError, ValueError):
        return False
    return a.shape == b.shape and bool(np.all(np.isfinite(a))) and bool(np.allclose(a, b, rtol=1e-10, atol=1e-12))


def _facet_before(s):
    if type(s).__name__ not in MH_TYPES or not type(s).__module__.startswith("cuqi.experimental.mcmc"):
        return None
    return np.array(s.current_point, dtype=float, copy=True).reshape(-1)


def _facet_after(s, before, acc):
    if before is None:
        return {"mh": 0}
    pt = np.array(s.current_point, dtype=float, copy=True).reshape(-1)
    moved = not np.array_equal(pt, before)
    accepted = acc is not None and bool(np.any(np.asarray(acc, dtype=float) > 0))
    st = s.get_state()["state"]
    ok = True
    if "current_target_logd" in st:
        ok = ok and _same(st["current_target_logd"], s.target.logd(pt))
    if "current_target_grad" in st:
        ok = ok and _same(st["current_target_grad"], s.target.gradient(pt))
    if "current_likelihood_logd" in st:
        ok = ok and _same(st["current_likelihood_logd"], s.target.likelihood.logd(pt))
    finite_ok = True
    if moved:
        lp = np.asarray(s.target.logd(pt), dtype=float)
        finite_ok = bool(np.all(np.isfinite(lp)))
    return {"mh": 1, "moved": int(moved), "acc": int(accepted), "cache_ok": int(ok), "finite_ok": int(finite_ok)}


def install_recorder(rec):
    """entry point of harness/cuqiverif/pytest_recorder.py (CUQIVERIF_RECORD=c02)"""
    from cuqiverif import record
    return record.install_sampler_life(rec, step_extra={"before": _facet_before, "after": _facet_after})


def _holed_target(dim=2):
    """smooth inside a box, NaN / -inf outside (log of a negative number / zero density)"""
    def lp(x):
        x = np.asarray(x, dtype=float).reshape(-1)
        if np.max(np.abs(x)) < 1.2:
            return -0.5 * float(x @ x) + 0.3 * float(x[0]) * float(x[-1])
        return float("nan") if x[0] > 0 else float("-inf")

    def gr(x):
        x = np.asarray(x, dtype=float).reshape(-1)
        g = -x.copy()
        g[0] += 0.3 * x[-1]
        g[-1] += 0.3 * x[0]
        return g
    return lp, gr


def record_own_runs(seed):
    """real runs of every Metropolis-type sampler of the zoo and seeded random drivers on a target with NaN / -inf regions"""
    import cuqi, pickle
    from cuqiverif import record, zoo
    M = cuqi.experimental.mcmc
    rec = record.Recorder()
    install_recorder(rec)
    try:
        with zoo.quiet():
            np.random.seed(seed)
            sf = zoo.stateful_factories()
            for name in MH_TYPES:
                s = sf[name](callback=None)
                s.warmup(20).sample(30)
                s.reinitialize()
                s.sample(8)
                st = pickle.loads(pickle.dumps(s.get_state()))
                s2 = sf[name](callback=None)
                s2.initialize()
                s2.set_state(st)
                s2.sample(12)
            lp, gr = _holed_target()
            T = cuqi.distribution.UserDefinedDistribution(dim=2, logpdf_func=lp, gradient_func=gr)
            lik = cuqi.likelihood.UserDefinedLikelihood(dim=2, logpdf_func=lambda x: lp(x), gradient_func=lambda x: gr(x))
            x0 = np.array([0.2, -0.1])
            rnd = np.random.RandomState(seed + 1)
            drivers = [("MH", lambda sc: M.MH(T, scale=sc, initial_point=x0.copy())),
                       ("CWMH", lambda sc: M.CWMH(T, scale=np.array([sc, 0.5 * sc]), initial_point=x0.copy())),
                       ("MALA", lambda sc: M.MALA(T, scale=0.5 * sc, initial_point=x0.copy())),
                       ("ULA", lambda sc: M.ULA(T, scale=0.3 * sc, initial_point=x0.copy()))]
            for m in (0.0, 0.5):
                post = cuqi.distribution.Posterior(lik, cuqi.distribution.Gaussian(m * np.ones(2), 1.0))
                drivers.append(("PCN", lambda sc, post=post: M.PCN(post, scale=min(0.9, sc), initial_point=x0.copy())))
            for name, mk in drivers:
                s = mk(float(rnd.uniform(0.6, 1.2)))
                s.warmup(30).sample(60)
                st = pickle.loads(pickle.dumps(s.get_state()))
                s2 = mk(1.0)
                s2.initialize()
                s2.set_state(st)
                s2.sample(30)
    finally:
        rec.uninstall()
    return rec.trace_list()


TRACE_CFG = """CONSTANTS
  Dims = {1}
  Kernels = {"RW"}
  Ifaces = {"exp"}
  Targets1 = {"quad"}
  Targets2 = {}
  PriorMeans = {0}
  MaxT1 = 1
  MaxT2 = 1
  MaxTunes = 0
  MaxLoads = 0
  MaxAborts = 0
  AllStarts = FALSE
  Hist = FALSE
  Emit = FALSE
  Sources = {"global"}
  ProposalUsesRawPriorDraw = FALSE
  AcceptsNaN = FALSE
  Mutation = "none"
INIT TraceInit
NEXT TraceNext
INVARIANT @@ACCEPT@@
CHECK_DEADLOCK FALSE
"""


def record_repo_tests(workdir, tests=("tests/zexperimental/test_mcmc.py",), timeout=2400):
    import subprocess, sys
    from cuqiverif.core import MachineryError
    repo = os.environ.get("CUQIVERIF_REPO", "/repo")
    out = os.path.join(workdir, "repo_traces_c02.json")
    env = dict(os.environ, CUQIPY_VERIF="1", CUQIVERIF_TRACE_OUT=out, CUQIVERIF_RECORD="c02",
               PYTHONPATH=os.path.join("/verif", "harness") + os.pathsep + repo, TQDM_DISABLE="1")
    p = subprocess.run([sys.executable, "-m", "pytest", "-q", "-p", "no:cacheprovider", "-p", "cuqiverif.pytest_recorder",
                        "--timeout=900"] + list(tests), cwd=repo, env=env, stdout=subprocess.PIPE,
                       stderr=subprocess.STDOUT, text=True, timeout=timeout)
    if not os.path.exists(out):
        raise MachineryError("recorder plugin produced no trace file; pytest tail:\n" + "\n".join(p.stdout.splitlines()[-15:]))
    return json.load(open(out)), p.returncode


def trace_facet(ctx, workdir):
    from cuqiverif import trace
    from cuqiverif.core import MachineryError
    traces = record_own_runs(4000 + ctx.seed)
    src = ["own"] * len(traces)
    if ctx.tier == "thorough":
        rt, rc = record_repo_tests(workdir)
        rt = [t for t in rt if (t.get("meta") or {}).get("cls") in MH_TYPES]
        ctx.observe("repo_tests_recorded", {"traces_of_mh_type_samplers": len(rt), "pytest_returncode": rc})
        traces += rt
        src += ["repo-tests"] * len(rt)
    # a step whose facets could not be computed is logged with `facet_error` and is NOT judged by the trace spec: it must
    # not disappear silently (on a broken tree the facet computation itself may be what fails)
    ferr = [(t.get("meta") or {}, e["facet_error"]) for t in traces for e in t["events"] if e.get("e") == "step" and "facet_error" in e]
    if ferr:
        ctx.observe("trace_steps_without_facets", {"count": len(ferr), "example": [ferr[0][0].get("cls"), ferr[0][1]]})
    n_own_err = sum(1 for t in traces[:src.count("own")] for e in t["events"] if e.get("e") == "step" and "facet_error" in e)
    deferred = None
    if n_own_err:       # raised at the end: the traces that can be judged are judged first
        deferred = "%d recorded steps of the harness's own runs carry no facets (facet computation raised: %s)" % (n_own_err, ferr[0][1])
    verdicts = trace.validate(ctx, traces, "TraceMHKernel", TRACE_CFG, extra_modules=("MHKernel.tla",), label="c02trace")
    judged = 0
    for v, t, sname in zip(verdicts, traces, src):
        nj = sum(1 for e in t["events"] if e["e"] == "step" and e.get("mh") == 1 and e.get("win") == 1)
        ctx.case(("trace", sname, v["tid"], len(t["events"])), nontrivial=nj > 0, facet="trace")
        if v["ok"]:
            ctx.traces += 1
            judged += nj
        else:
            nxt = v["next"] or {}
            failed = [q for q in ("cache_ok", "finite_ok") if nxt.get(q) == 0]
            if nxt.get("moved") != nxt.get("acc"):
                failed.append("moved_iff_acc")
            ctx.mismatch("trace/%s/%s/%s" % (sname, (v["meta"] or {}).get("cls", "?"), "+".join(failed) or nxt.get("e", "end")),
                         {"kind": "trace", "meta": v["meta"], "window": v["window"]},
                         "recorded transition violates the facets MHKernel proves for every Decide step: event %d %s" % (
                             v["matched"] + 1, nxt))
    ctx.observe("traces_recorded", {"own": src.count("own"), "repo-tests": src.count("repo-tests"),
                                    "events": sum(len(t["events"]) for t in traces), "judged_transitions_accepted": judged})
    if judged == 0:
        raise MachineryError("no judged transition in any accepted trace: trace facet is vacuous")
    # demonstrate the binding: corrupt one facet of an accepted trace -> must be rejected
    good = next((t for v, t in zip(verdicts, traces) if v["ok"] and
                 sum(1 for e in t["events"] if e.get("mh") == 1 and e.get("win") == 1 and e.get("moved") == 1) > 1), None)
    if good is None:
        raise MachineryError("no accepted trace with judged moves: binding self-test impossible")

    def last_move(ev):
        return max(j for j, e in enumerate(ev) if e.get("mh") == 1 and e.get("win") == 1 and e.get("moved") == 1)

    def stale(ev):
        ev[last_move(ev)]["cache_ok"] = 0

    def nonfinite(ev):
        ev[last_move(ev)]["finite_ok"] = 0

    def silent_move(ev):
        ev[last_move(ev)]["acc"] = 0
    for nm, mut in (("cache_ok", stale), ("finite_ok", nonfinite), ("moved_without_accept", silent_move)):
        if not trace.corrupt_selftest(ctx, good, "TraceMHKernel", TRACE_CFG, mut, extra_modules=("MHKernel.tla",)):
            raise MachineryError("corrupted trace (%s) was accepted: trace binding is not effective" % nm)
    ctx.observe("binding_selftest_trace", "3 corruptions of an accepted trace rejected (stale cache, non-finite move, move without acceptance)")
    ctx.sample({"trace": good["meta"], "first_events": good["events"][:4]})
    if deferred:
        raise MachineryError(deferred)


# ----------------------------------------------------------------------------------------------------------------
# spec -> code : behaviour replay
# ----------------------------------------------------------------------------------------------------------------
def _cfgkey(c):
    return json.dumps(c, sort_keys=True)


def _edge_keys(beh):
    from cuqiverif.mhkernel_real import split_transitions
    c = beh["cfg"]
    base = (c["k"], c["iface"], c["d"], c["tgt"], c["m"])
    sc, tuned, loaded, prev = c["sc"], False, False, "none"
    x = tuple(c["x0"])
    out = []
    for kind, e in split_transitions(beh["prog"]):
        if kind == "t":
            sc, tuned = e["sc"], True
        elif kind == "s":
            loaded = True
        else:
            ys = tuple(tuple(p["y"]) for p, _ in e)
            cl = tuple(d["cls"] for _, d in e)
            out.append(base + (sc, tuned, loaded, prev, x, ys, cl))
            prev = "acc" if any(d["acc"] for _, d in e) else "rej"
            x = tuple(e[-1][1]["x"])
    return out


def _nontrivial(beh):
    """a behaviour decides something only if at least one of its proposals differs from the point it is made from
    (a proposal y = x is accepted or rejected without any observable difference)"""
    from cuqiverif.mhkernel_real import split_transitions
    x = tuple(beh["cfg"]["x0"])
    for kind, e in split_transitions(beh["prog"]):
        if kind != "T":
            continue
        for p, d in e:
            if tuple(p["y"]) != x:
                return True
            x = tuple(d["x"])
    return False


def select(behs, rnd, limit):
    """every edge (configuration, history class, x, proposal(s), decision class(es)) at least once, then a seeded sample"""
    if limit is None or len(behs) <= limit:
        return list(behs), None
    order = list(range(len(behs)))
    rnd.shuffle(order)
    seen, pick, rest = set(), [], []
    for i in order:
        ks = _edge_keys(behs[i])
        if any(q not in seen for q in ks):
            seen.update(ks)
            pick.append(i)
        else:
            rest.append(i)
    if len(pick) < limit:
        pick += rest[:limit - len(pick)]
    return [behs[i] for i in sorted(pick)], len(seen)


class _Collector:
    """stand-in for the run context in the binding self-test"""
    def __init__(self):
        self.hits = []

    def mismatch(self, sig, *a, **k):
        self.hits.append(sig)
        return True


def replay_facet(ctx, roots, behs, limit):
    from cuqiverif import mhkernel_real as R
    from cuqiverif.core import MachineryError
    rnd = random.Random(ctx.seed)
    chosen, nedges = select(behs, rnd, limit)
    ntrans = 0
    t0 = time.time()
    for n, b in enumerate(chosen):
        root = roots[_cfgkey(b["cfg"])]
        for real in R.realisations(b["cfg"]):
            if real != "user" and n % 3:
                continue                                   # the alternative realisations on a third of the behaviours
            c = b["cfg"]
            ctx.case(("beh", c["k"], c["iface"], c["d"], c["tgt"], c["sc"], c["m"], real,
                      hashlib.sha1(_cfgkey(b["prog"]).encode()).hexdigest()[:12]), nontrivial=_nontrivial(b), facet="replay")
            done = R.run_behaviour(ctx, b, root["rows"], root["sv"], root, real=real, salt=n)
            ntrans += done
            ctx.traces += 1
    ctx.observe("replay", {"behaviours_emitted": len(behs), "behaviours_replayed": len(chosen), "edges_covered": nedges,
                           "real_transitions": ntrans, "wall_s": round(time.time() - t0, 1)})
    if R.UNUSED_DRAWS["transitions"]:
        # conforming transitions that did not consume every scripted draw (number of draws is not fixed by the property)
        ctx.observe("scripted_draws_unused_by_conforming_transitions", dict(R.UNUSED_DRAWS))
    # binding self-test: the opposite uniform must flip the decision and be reported
    flipped = 0
    for b in chosen:
        if b["cfg"]["k"] in ("RW", "MALA") and any(e["a"] == "d" and e["cls"] == "Above" for e in b["prog"]):
            col = _Collector()
            root = roots[_cfgkey(b["cfg"])]
            R.run_behaviour(col, b, root["rows"], root["sv"], root, salt=0, flip=True)
            if not any("/decision/" in h for h in col.hits):
                raise MachineryError("binding self-test: a uniform on the wrong side of exp(r) was not reported (%s)" % _cfgkey(b["cfg"]))
            flipped += 1
            if flipped >= 4:
                break
    if flipped == 0:
        raise MachineryError("binding self-test impossible: no behaviour with an `Above` decision")
    ctx.observe("binding_selftest_replay", "%d behaviours replayed with the uniform of the opposite class: decision mismatch reported each time" % flipped)
    return chosen


# ----------------------------------------------------------------------------------------------------------------
# spec -> code : aborted transitions (action Abort)
# ----------------------------------------------------------------------------------------------------------------
ABORT_EVALS = {"RW": (1,), "PCN": (1,), "CW": (1, 2), "MALA": (1, 2)}     # k of MHKernel!NEvals on the bounded instance


def _abort_entry(beh):
    return next(e for e in beh["prog"] if e["a"] == "x")


def _abort_stratum(beh):
    from cuqiverif.mhkernel_real import split_transitions
    c, a = beh["cfg"], _abort_entry(beh)
    shape = "".join(kind for kind, _ in split_transitions(beh["prog"]))
    return (c["k"], c["iface"], c["d"], c["tgt"], c["sc"], c["m"], shape, a["k"], a["mode"], len(a["alt"]))


def select_abort(behs, rnd, limit):
    """every stratum (configuration x shape of the behaviour x evaluation k x mode) at least once, then a seeded sample"""
    if limit is None or len(behs) <= limit:
        return list(behs)
    order = list(range(len(behs)))
    rnd.shuffle(order)
    seen, pick, rest = set(), [], []
    for i in order:
        q = _abort_stratum(behs[i])
        if q not in seen:
            seen.add(q)
            pick.append(i)
        else:
            rest.append(i)
    if len(pick) < limit:
        pick += rest[:limit - len(pick)]
    return [behs[i] for i in sorted(pick)]


def abort_facet(ctx, roots, behs, limit):
    """replay of the behaviours with an aborted transition: exception injection into the table target"""
    from cuqiverif import mhkernel_real as R
    from cuqiverif.core import MachineryError
    rnd = random.Random(ctx.seed + 77)
    chosen = select_abort(behs, rnd, limit)
    stats = R.new_abort_stats()
    ntrans = 0
    t0 = time.time()
    for n, b in enumerate(chosen):
        c, a = b["cfg"], _abort_entry(b)
        root = roots[_cfgkey(c)]
        first = b["prog"][0]["a"] == "x" or (c["k"] == "CW" and R.split_transitions(b["prog"])[0][0] == "A")
        reals = list(R.realisations(c))
        if c["k"] == "MALA" and c["iface"] == "exp" and first:
            reals.append("ula")                        # the unadjusted Langevin kernel shares the cached state: coherence only
        for real in reals:
            if real != "user" and n % 3:
                continue
            ctx.case(("abort", c["k"], c["iface"], c["d"], c["tgt"], c["sc"], c["m"], real,
                      hashlib.sha1(_cfgkey(b["prog"]).encode()).hexdigest()[:12]), facet="abort")
            ntrans += R.run_behaviour(ctx, b, root["rows"], root["sv"], root, real=real, salt=n, stats=stats)
            ctx.traces += 1
        if c["iface"] == "leg" and first and n % 2 == 0:
            # the stateless interface at the level of the sampler object: sample(2) aborted, sample(2) again
            done = R.run_abort_sample(ctx, b, root["rows"], root["sv"], root, salt=n, stats=stats)
            if done:
                ctx.case(("abort_sample", c["k"], c["d"], c["tgt"], c["sc"], c["m"],
                          hashlib.sha1(_cfgkey(b["prog"]).encode()).hexdigest()[:12]), facet="abort")
                ntrans += done
    # vacuity: every kernel x interface x evaluation k was really aborted and really continued
    for kern, ks in ABORT_EVALS.items():
        for iface in ("exp", "leg"):
            for kk in ks:
                key = "%s/%s/k=%d" % (kern, iface, kk)
                if not stats["realised"].get(key):
                    raise MachineryError("abort facet vacuous: no transition of %s aborted at evaluation %d (%r)" % (key, kk, stats["realised"]))
                if not any(q.startswith(key + "/") for q in stats["continued"]):
                    raise MachineryError("abort facet vacuous: no behaviour continued after an abort of %s (%r)" % (key, stats["continued"]))
    if not stats["unadjusted"] or not stats["sample_level"]:
        raise MachineryError("abort facet vacuous: ULA / sample()-level realisations did not run (%r)" % stats)
    ctx.observe("abort", {"behaviours_emitted": len(behs), "behaviours_replayed": len(chosen), "real_transitions": ntrans,
                          "aborted_transitions": stats["realised"], "continued_after_abort": stats["continued"],
                          "real_state_is_the_other_allowed_state": stats["other_branch"],
                          "modelled_evaluation_not_made": stats["not_reached"], "unadjusted_langevin": stats["unadjusted"],
                          "sample_after_aborted_sample": stats["sample_level"], "wall_s": round(time.time() - t0, 1)})
    # an exception that reaches the caller is acceptable; swallowing it is neither required nor forbidden
    ctx.observe("exception_of_the_target_during_a_transition", stats["outcome"])
    # binding self-test: a cache made stale after the abort must be reported
    tested = 0
    for kern in ("RW", "CW", "PCN", "MALA"):
        b = next((q for q in chosen if q["cfg"]["k"] == kern and q["cfg"]["iface"] == "exp"), None)
        if b is None:
            continue
        col = _Collector()
        root = roots[_cfgkey(b["cfg"])]
        R.run_behaviour(col, b, root["rows"], root["sv"], root, salt=0, corrupt=True)
        if not any(h.endswith("/cache_coherent") for h in col.hits):
            raise MachineryError("binding self-test: a stale cache after an aborted transition was not reported (%s)" % _cfgkey(b["cfg"]))
        tested += 1
    if not tested:
        raise MachineryError("binding self-test of the abort facet impossible")
    ctx.observe("binding_selftest_abort", "%d aborted transitions replayed with the cache made stale afterwards: cache_coherent reported each time" % tested)
    return chosen


# ----------------------------------------------------------------------------------------------------------------
# spec -> code : randomness sources (cfg.src of MHKernel: rng= generator, user-supplied proposal / prior object, callable)
# ----------------------------------------------------------------------------------------------------------------
# the options found by reading cuqi/sampler/*.py and cuqi/experimental/mcmc/*.py; MHKernel!SourcesOf must enumerate at least
# these (cross-check of the specification's table against the reading of the code)
SOURCE_OPTIONS = {("RW", "exp"): ("proposal",), ("RW", "leg"): ("proposal",),
                  ("CW", "exp"): ("proposal", "callable"), ("CW", "leg"): ("proposal", "callable"),
                  ("PCN", "exp"): ("prior",), ("PCN", "leg"): ("prior",),
                  ("MALA", "leg"): ("rng",)}


def select_source(behs, rnd, limit):
    """every stratum (configuration x shape of the behaviour x distinct-noise first transition) at least once, then a seeded
    sample up to `limit` behaviours"""
    from cuqiverif.mhkernel_real import split_transitions, distinct_noise
    order = list(range(len(behs)))
    rnd.shuffle(order)
    seen, pick, rest = set(), [], []
    for i in order:
        c = behs[i]["cfg"]
        items = split_transitions(behs[i]["prog"])
        first = next(e for kind, e in items if kind == "T")
        q = (c["k"], c["iface"], c["src"], c["sc"], c["tgt"], c["m"], "".join(kind for kind, _ in items), distinct_noise(c, first))
        if q not in seen:
            seen.add(q)
            pick.append(i)
        else:
            rest.append(i)
    if len(pick) < limit:
        pick += rest[:limit - len(pick)]
    return [behs[i] for i in sorted(pick)]


def source_facet(ctx, roots, behs):
    """replay of the behaviours of MHKernel.src.<tier>.cfg: every (kernel, interface, source) the specification enumerates is
    realised with a scripted generator that serves the noise component by component (dimension 2)"""
    from cuqiverif import mhkernel_real as R
    from cuqiverif.core import MachineryError
    stats = R.new_source_stats()
    ntrans, nrun = 0, 0
    t0 = time.time()
    emitted = {(b["cfg"]["k"], b["cfg"]["iface"], b["cfg"]["src"]) for b in behs}
    for (kern, iface), srcs in SOURCE_OPTIONS.items():
        for q in srcs:
            if (kern, iface, q) not in emitted:
                raise MachineryError("source facet vacuous: the specification emitted no behaviour of %s/%s with source %s" % (kern, iface, q))
    if any(b["cfg"]["src"] == "global" or b["cfg"]["d"] < 2 for b in behs):
        raise MachineryError("source facet: the source configuration must enumerate non-global sources in dimension >= 2")
    seen_ula = set()
    for n, b in enumerate(behs):
        c = b["cfg"]
        root = roots[_cfgkey(c)]
        for real in R.realisations(c):
            bb = b
            if real == "ula":
                # the unadjusted kernel: the first transition of the behaviour, made from the initial state, finite proposal
                if b["prog"][0]["a"] != "p" or b["prog"][0]["tv"][1] <= 0:
                    continue
                bb = dict(b, prog=b["prog"][:2])
                kk = _cfgkey([c, bb["prog"][0]])
                if kk in seen_ula:
                    continue
                seen_ula.add(kk)
            ctx.case(("source", c["k"], c["iface"], c["src"], c["d"], c["tgt"], c["sc"], c["m"], real,
                      hashlib.sha1(_cfgkey(bb["prog"]).encode()).hexdigest()[:12]), nontrivial=_nontrivial(bb), facet="source")
            ntrans += R.run_behaviour(ctx, bb, root["rows"], root["sv"], root, real=real, salt=n, srcstats=stats)
            ctx.traces += 1
            nrun += 1
    # vacuity: every (kernel, interface, source) of the specification - and every realisation of it - was really driven through
    # the scripted generator (its recorded calls show the noise requests) on a noise vector with two different components;
    # the component-wise kernel also with a per-component scale
    for (kern, iface, q) in sorted(emitted):
        reals = R.realisations({"k": kern, "iface": iface, "src": q, "m": 0, "d": 2})
        for real in reals:
            key = "%s/%s/%s%s" % (kern, iface, q, "" if real == "user" else "/real=" + real)
            if not stats["driven"].get(key) or not stats["distinct"].get(key):
                raise MachineryError(
                    "source facet vacuous: no transition of %s drew its noise from the given generator on a noise vector with two "
                    "different components (driven %r, ignored %r)" % (key, stats["driven"].get(key, 0), stats["ignored"].get(key, 0)))
            if kern == "CW" and not stats["percomp"].get(key):
                raise MachineryError("source facet vacuous: %s was not driven with a per-component scale" % key)
    if ("MALA", "leg", "rng") in emitted and not stats["unadjusted"]:
        raise MachineryError("source facet vacuous: cuqi.sampler.ULA(rng=) did not run")
    ctx.observe("sources", {"enumerated_by_the_spec": sorted("/".join(q) for q in emitted), "behaviours_emitted": len(behs),
                            "behaviours_x_realisations_replayed": nrun, "real_transitions": ntrans,
                            "noise_drawn_from_the_given_generator": stats["driven"],
                            "of_these_with_two_different_noise_components": stats["distinct"],
                            "component_wise_kernel_with_per_component_scale": stats["percomp"],
                            "unadjusted_langevin_rng": stats["unadjusted"], "wall_s": round(time.time() - t0, 1)})
    ctx.observe("source_generator_calls", stats["calls"])                 # (function, shape) of the requests of one transition
    # neither required nor forbidden by a docstring: observations
    ctx.observe("source_uniform_drawn_from", stats["uniform_from"])
    if stats["ignored"]:
        ctx.observe("source_option_not_used_for_the_noise", stats["ignored"])
    if stats["global_also"]:
        ctx.observe("numpy_global_stream_also_consumed_with_a_given_generator", stats["global_also"])
    if stats["over_asked"]:
        ctx.observe("more_normals_requested_than_noise_components", stats["over_asked"])
    # binding self-tests: (1) a generator that hands ONE value to all components (the class of failure this facet exists for)
    # must be reported as a proposal mismatch for every (kernel, interface, source); (2) a sampler that is not given the
    # documented source option draws from the global stream and must be reported
    tested, dropped = 0, 0
    for (kern, iface, q) in sorted(emitted):
        def fit(x):
            # one transition from the initial state whose noise components are all different from each other and from 0 (the
            # wrong proposal of a collapsed draw is then a point no component of the sweep evaluates)
            if (x["cfg"]["k"], x["cfg"]["iface"], x["cfg"]["src"]) != (kern, iface, q) or x["cfg"]["m"] != 0:
                return False
            items = R.split_transitions(x["prog"])
            if items[0][0] != "T":
                return False
            z = R.noise_vector(x["cfg"], items[0][1])
            return len(set(z)) == len(z) and all(v != 0 for v in z)
        b = next((x for x in behs if fit(x)), None)
        if b is not None:
            b = dict(b, prog=b["prog"][:2 * len(R.split_transitions(b["prog"])[0][1])])      # its first transition
        if b is None:
            raise MachineryError("binding self-test of the source facet impossible for %s/%s/%s" % (kern, iface, q))
        root = roots[_cfgkey(b["cfg"])]
        col = _Collector()
        R.run_behaviour(col, b, root["rows"], root["sv"], root, salt=0, collapse=True)
        if not any(h.endswith("/src=%s/proposal" % q) for h in col.hits):
            raise MachineryError("binding self-test: a generator handing one value to all components was not reported for %s/%s/%s (%r)" % (
                kern, iface, q, col.hits))
        tested += 1
        if q in R.SOURCE_DOC:
            col = _Collector()
            R.run_behaviour(col, b, root["rows"], root["sv"], root, salt=0, drop_source=True)
            if not any(h.endswith("/src=%s/source" % q) for h in col.hits):
                raise MachineryError("binding self-test: a sampler not given the %s option was not reported for %s/%s (%r)" % (q, kern, iface, col.hits))
            dropped += 1
    ctx.observe("binding_selftest_source", "%d (kernel, interface, source) replayed with a generator that hands one value to all "
                "components: proposal mismatch reported each time; %d replayed without handing over the documented option: "
                "source mismatch reported each time" % (tested, dropped))
    return behs


# ----------------------------------------------------------------------------------------------------------------
# spec -> code : the component-wise sweep as a record of evaluation points (CWSweep.tla)
# ----------------------------------------------------------------------------------------------------------------
def select_sweeps(behs, rnd, limit):
    """every stratum (dimension, target, scale, outcome pattern of every sweep) at least once, then a seeded sample"""
    from cuqiverif.cwsweep_real import split_sweeps, pattern
    if limit is None or len(behs) <= limit:
        return list(behs)
    order = list(range(len(behs)))
    rnd.shuffle(order)
    seen, pick, rest = set(), [], []
    for i in order:
        c = behs[i]["cfg"]
        q = (c["d"], c["tgt"], c["sc"], tuple(pattern(sw) for sw in split_sweeps(behs[i]["prog"])))
        if q not in seen:
            seen.add(q)
            pick.append(i)
        else:
            rest.append(i)
    if len(pick) < limit:
        pick += rest[:limit - len(pick)]
    return [behs[i] for i in sorted(pick)]


def sweep_facet(ctx, roots, behs, limit):
    """replay of the behaviours of CWSweep.<tier>.cfg on the component-wise kernels of both interfaces, through every public
    entry point that makes a transition (step / sample / warmup; single_update / sample / sample_adapt)"""
    from cuqiverif import cwsweep_real as W
    from cuqiverif.core import MachineryError
    rnd = random.Random(ctx.seed + 311)
    chosen = select_sweeps(behs, rnd, limit)
    stats = W.new_stats()
    t0 = time.time()
    nrun = 0
    for n, b in enumerate(chosen):
        c = b["cfg"]
        root = roots[_cfgkey(c)]
        nsw = len(W.split_sweeps(b["prog"]))
        for iface in ("exp", "leg"):
            entries = [W.ENTRIES[iface][0]]
            if n % 3 == 0:
                alt = W.ENTRIES[iface][1 + (n // 3) % 2]
                entries.append(alt)
            for entry in entries:
                bb = b
                if entry == "sample_adapt" and nsw > 1:
                    bb = dict(b, prog=W.split_sweeps(b["prog"])[0])     # the adaptive loop changes the scale after every sweep: first sweep only
                ctx.case(("sweep", iface, entry, c["d"], c["tgt"], c["sc"], tuple(c["x0"]),
                          hashlib.sha1(_cfgkey(bb["prog"]).encode()).hexdigest()[:12]), facet="sweep")
                W.run_sweeps(ctx, bb, root, iface, entry, salt=n, stats=stats)
                ctx.traces += 1
                nrun += 1
    # vacuity: every order of accepted / rejected / refused components was really driven in both interfaces and both
    # dimensions; a refused component FOLLOWED by a later component on every coupled-support target; every entry point
    for iface in ("exp", "leg"):
        for d in sorted({b["cfg"]["d"] for b in behs}):
            have = {k.split("/")[2] for k in stats["patterns"] if k.startswith("%s/d=%d/" % (iface, d))}
            if len(have) != 3 ** d:
                raise MachineryError("sweep facet vacuous: %d of %d outcome patterns (accept / reject / refused per component) "
                                     "driven for %s, d=%d" % (len(have), 3 ** d, iface, d))
            for tgt in sorted({b["cfg"]["tgt"] for b in behs}):
                if not stats["refused_then_later"].get("%s/d=%d/tgt=%s" % (iface, d, tgt)):
                    raise MachineryError("sweep facet vacuous: no sweep with a refused component followed by a later component "
                                         "(%s, d=%d, %s)" % (iface, d, tgt))
        for entry in W.ENTRIES[iface]:
            if not stats["entries"].get("%s/%s" % (iface, entry)):
                raise MachineryError("sweep facet vacuous: entry point %s/%s was not driven" % (iface, entry))
    if {b["cfg"]["d"] for b in behs} != {2, 3}:
        raise MachineryError("sweep facet: the specification must enumerate dimensions 2 and 3")
    ctx.observe("sweeps", {"behaviours_emitted": len(behs), "behaviours_replayed": len(chosen), "runs": nrun,
                           "real_sweeps_compared": stats["sweeps"], "entry_points": stats["entries"],
                           "outcome_patterns_driven": len(stats["patterns"]),
                           "sweeps_with_a_refused_component_followed_by_a_later_one": stats["refused_then_later"],
                           "wall_s": round(time.time() - t0, 1)})
    # neither required nor forbidden: observations
    ctx.observe("sweep_observations", {"sweeps_with_evaluations_besides_the_component_proposals": stats["extra_evaluations"],
                                       "sweeps_in_which_no_uniform_was_drawn_for_a_refused_proposal": stats["uniform_not_drawn_for_refused"],
                                       "uniforms_requested_after_an_unmodelled_evaluation": stats["uniform_after_unmodelled_evaluation"]})
    # binding self-test: the expectation of a later component replaced by the prediction of the deviation RefusedStaysInBuffer
    # (the refused value kept) - the real kernel does not evaluate there and that must be reported
    tested = 0
    for iface in ("exp", "leg"):
        for d in (2, 3):
            def fit(b):
                sw = W.split_sweeps(b["prog"])[0]
                return b["cfg"]["d"] == d and sw[0]["cls"] == "Any"
            b = next((q for q in chosen if fit(q)), None)
            if b is None:
                raise MachineryError("binding self-test of the sweep facet impossible (d=%d)" % d)

            def tamper(sweeps):
                sweeps[0][1]["at"] = list(sweeps[0][1]["at"])
                sweeps[0][1]["at"][0] = sweeps[0][0]["v"]
                return sweeps
            col = _Collector()
            W.run_sweeps(col, b, roots[_cfgkey(b["cfg"])], iface, W.ENTRIES[iface][0], salt=0, tamper=tamper)
            if not any("/eval_point/j=2" in h for h in col.hits) and not ctx.violations:
                raise MachineryError("binding self-test: an expected evaluation point the kernel does not visit was not reported (%s, d=%d: %r)" % (
                    iface, d, col.hits))
            tested += 1
    ctx.observe("binding_selftest_sweep", "%d sweeps replayed against an expectation corrupted as the deviation RefusedStaysInBuffer "
                "predicts: eval_point mismatch reported each time" % tested)
    return chosen


# ----------------------------------------------------------------------------------------------------------------
# spec -> code : the public chain loops (sample / warmup of the stateful, sample of the stateless interface)
# ----------------------------------------------------------------------------------------------------------------
def chain_facet(ctx, roots, behs):
    """the behaviours that consist of transitions only, executed through the loops that call step() / single_update()
    (the replay facet calls these one at a time and threads the state of the stateless interface itself)"""
    from cuqiverif import mhchain_real as C
    from cuqiverif.core import MachineryError
    pure = [b for b in behs if C.pure_transitions(b)]
    t0 = time.time()
    done, ntrans = {}, 0
    for n, b in enumerate(pure):
        if (n + ctx.seed) % 2:
            continue                                   # every other behaviour (rotating with the seed)
        c = b["cfg"]
        root = roots[_cfgkey(c)]
        entry = "sample" if (c["iface"] == "leg" or n % 4 < 2) else "warmup"
        ctx.case(("chain", c["k"], c["iface"], c["d"], c["tgt"], c["sc"], c["m"], entry,
                  hashlib.sha1(_cfgkey(b["prog"]).encode()).hexdigest()[:12]), nontrivial=_nontrivial(b), facet="chain")
        k = C.run_chain(ctx, b, root["rows"], root["sv"], root, entry, salt=n)
        ntrans += k
        ctx.traces += 1
        key = "%s/%s/%s" % (c["k"], c["iface"], entry)
        done[key] = max(done.get(key, 0), len(C.pure_transitions(b)))
    for kern in ("RW", "CW", "PCN", "MALA"):
        for iface, entries in (("exp", ("sample", "warmup")), ("leg", ("sample",))):
            for entry in entries:
                need = 1 if kern == "CW" else 2
                if done.get("%s/%s/%s" % (kern, iface, entry), 0) < need and not ctx.violations:
                    raise MachineryError("chain facet vacuous: no chain of %d transitions of %s/%s through %s() (%r)" % (need, kern, iface, entry, done))
    ctx.observe("chains", {"behaviours_of_transitions_only": len(pure), "transitions_through_the_public_loops": ntrans,
                           "longest_chain_per_kernel_interface_entry": done, "wall_s": round(time.time() - t0, 1)})


# ----------------------------------------------------------------------------------------------------------------
# spec -> code : re-configuration + re-initialisation, proposal objects, data layouts (MHReconf.tla)
# ----------------------------------------------------------------------------------------------------------------
def _rkey(c):
    return json.dumps([c["cfg"], c["lay"], c["prop"], c.get("how", "ctor")], sort_keys=True)


def _rshape(b):
    """(attributes assigned, outcome of the transition before the re-configuration, decision classes after it)"""
    from cuqiverif.mhkernel_real import split_transitions
    items = split_transitions(b["prog"])
    ri = next((i for i, (k, _) in enumerate(items) if k == "r"), len(items))
    pre = [e for k, e in items[:ri] if k == "T"]
    post = [e for k, e in items[ri + 1:] if k == "T"] if ri < len(items) else pre
    attrs = tuple(e["attr"] for k, e in items if k == "c")
    preo = "none" if not pre or ri == len(items) else ("acc" if any(d["acc"] for _, d in pre[-1]) else "rej")
    return attrs, preo, tuple(tuple(d["cls"] for _, d in t) for t in post), any(k == "t" for k, _ in items)


def select_reconf(behs, rnd, limit, with_start=False, roots=None):
    """every stratum (configuration x layout x attributes assigned x outcome before x decision classes after) at least once,
    then a seeded sample up to `limit`"""
    if limit is None or len(behs) <= limit:
        return list(behs)
    order = list(range(len(behs)))
    rnd.shuffle(order)
    seen, pick, rest = set(), [], []
    for i in order:
        c = behs[i]["cfg"]
        q = (c["k"], c["iface"], c["d"], c["m"], behs[i]["lay"]) + _rshape(behs[i])
        if with_start:
            q += (c["tgt"], c["sc"])
        if roots is not None:
            from cuqiverif.mhreconf_real import int_visible
            q += (int_visible(behs[i], roots[_rkey(behs[i])]),)
        if q not in seen:
            seen.add(q)
            pick.append(i)
        else:
            rest.append(i)
    if len(pick) < limit:
        pick += rest[:limit - len(pick)]
    return [behs[i] for i in sorted(pick)]


REQUIRED_ATTRS = ("x0", "sc", "tgt", "x0+sc", "x0+tgt", "sc+tgt", "none")
REQUIRED_LAYOUTS = {"x": ("f64", "int", "f32", "inplace", "list"), "s": ("float", "int", "f32")}


def reconf_facets(ctx, res):
    """replay of the behaviours of MHReconf.<tier>.cfg (re-configured and re-initialised samplers), MHReconf.layout.<tier>.cfg
    (data layouts) and MHReconf.propsym.<tier>.cfg (proposal objects of the random-walk kernel)"""
    from cuqiverif import mhreconf_real as M, mhkernel_real as R
    from cuqiverif.core import MachineryError
    tier = ctx.tier
    ctx.model_must_hold(res["reconf"], "MHReconf")
    ctx.model_must_hold(res["relayout"], "MHReconf(layouts)")
    ctx.model_must_hold(res["propsym"], "MHReconf(proposal objects)")
    out = {}
    # ---- (1) re-configuration + re-initialisation ---------------------------------------------------------------------
    t0 = time.time()
    roots = {}
    for c in res["reconf"].cases:
        if c["kind"] == "rroot":
            roots.setdefault(_rkey(c), c)
    behs = [c for c in res["reconf"].cases if c["kind"] == "rbeh"]
    if not behs or not roots:
        raise MachineryError("no behaviours emitted by MHReconf")
    limit = 3200 if tier == "quick" else 20000
    chosen = select_reconf(behs, random.Random(ctx.seed + 911), limit, with_start=tier != "quick")
    stats = M.new_stats()
    nloop = 0
    for n, b in enumerate(chosen):
        c = b["cfg"]
        root = roots[_rkey(b)]
        # stateful interface: step() on every behaviour, the public loops on a quarter; stateless interface: the re-initialisation
        # IS a new sample() call on the sampler object - every behaviour through it, single_update (state threaded by the
        # harness) on half of them
        tuned = _rshape(b)[3]
        if c["iface"] == "exp" or tuned:
            vias = ["step"] + (["sample"] if (n + ctx.seed) % 4 == 0 and not tuned else [])
        else:
            vias = ["sample"] + (["step"] if (n + ctx.seed) % 2 == 0 else [])
        for via in vias:
            ctx.case(("reconf", via, c["k"], c["iface"], c["d"], c["tgt"], c["sc"], c["m"],
                      hashlib.sha1(_cfgkey(b["prog"]).encode()).hexdigest()[:12]), facet="reconf")
            M.run_rbeh(ctx, b, root, "reconf", salt=n, stats=stats, via=via)
            ctx.traces += 1
            nloop += via == "sample"
    for kern in ("RW", "CW", "PCN", "MALA"):
        for iface in ("exp", "leg"):
            for a in REQUIRED_ATTRS:
                for pre in (0, 1):
                    if a == "none" and pre == 0:
                        continue
                    if not stats["attrs"].get("%s/%s/%s/pre=%d" % (kern, iface, a, pre)) and not ctx.violations:
                        raise MachineryError("re-configuration facet vacuous: no re-initialisation of %s/%s after assigning %s with %d "
                                             "transition(s) before (%r)" % (kern, iface, a, pre, sorted(stats["attrs"])))
            if not stats["via"].get("%s/%s" % (kern, iface)) and not ctx.violations:
                raise MachineryError("re-configuration facet vacuous: the public loops of %s/%s were not driven" % (kern, iface))
    # binding self-test: a cache made stale right after the re-initialisation must be reported
    tested = 0
    for kern in ("RW", "CW", "PCN", "MALA"):
        for iface in ("exp", "leg"):
            b = next((q for q in chosen if q["cfg"]["k"] == kern and q["cfg"]["iface"] == iface), None)
            if b is None:
                raise MachineryError("binding self-test of the re-configuration facet impossible for %s/%s" % (kern, iface))
            col = _Collector()
            M.run_rbeh(col, b, roots[_rkey(b)], "reconf", salt=0, tamper=lambda drv: drv.corrupt_cache())
            if not any(h.endswith("/reinit/cache_coherent") for h in col.hits) and not ctx.violations:
                raise MachineryError("binding self-test: a stale cache after the re-initialisation was not reported (%s/%s: %r)" % (kern, iface, col.hits))
            tested += 1
    out["reconfiguration"] = {"behaviours_emitted": len(behs), "behaviours_replayed": len(chosen), "of_these_also_through_the_public_loops": nloop,
                              "real_transitions": stats["transitions"], "reinitialisations_per_kernel_interface": stats["reinit"],
                              "attributes_assigned_x_transitions_before": stats["attrs"], "binding_selftests": tested,
                              "wall_s": round(time.time() - t0, 1)}
    rb = next((b for b in chosen if b["cfg"]["k"] == "RW" and _rshape(b)[0] == ("x0",) and _rshape(b)[1] == "acc"), chosen[0])
    ctx.sample({"reconfigured_behaviour": {"cfg": rb["cfg"], "prog": rb["prog"]}})
    # ---- (2) data layouts -------------------------------------------------------------------------------------------------
    t0 = time.time()
    lroots = {}
    for c in res["relayout"].cases:
        if c["kind"] == "rroot":
            lroots.setdefault(_rkey(c), c)
    lbehs = [c for c in res["relayout"].cases if c["kind"] == "rbeh"]
    lays = {c["lay"] for c in lbehs}
    if not {"base", "ints", "lists", "f32", "inplace"} <= lays:
        raise MachineryError("layout facet vacuous: the specification enumerated the layouts %r only" % sorted(lays))
    llimit = 2400 if tier == "quick" else 12000
    lchosen = select_reconf(lbehs, random.Random(ctx.seed + 912), llimit, roots=lroots)
    lstats = M.new_stats()
    for n, b in enumerate(lchosen):
        c = b["cfg"]
        tuned = _rshape(b)[3]
        if c["iface"] == "exp" or tuned:
            vias = ["step"] + (["sample"] if (n + ctx.seed) % 5 == 0 and not tuned else [])
        else:
            vias = ["sample"] + (["step"] if (n + ctx.seed) % 3 == 0 else [])
        for via in vias:
            ctx.case(("layout", via, b["lay"], c["k"], c["iface"], c["d"], c["tgt"], c["sc"], c["m"],
                      hashlib.sha1(_cfgkey(b["prog"]).encode()).hexdigest()[:12]), facet="layout")
            M.run_rbeh(ctx, b, lroots[_rkey(b)], "layout", salt=n, stats=lstats, via=via)
            ctx.traces += 1
    for kern in ("RW", "CW", "PCN", "MALA"):
        for iface in ("exp", "leg"):
            for ax, need in REQUIRED_LAYOUTS.items():
                for q in need:
                    if ax == "s" and ((kern == "PCN" and q != "float") or (kern == "CW" and q == "f32")):
                        continue                # the lattice scales of the pCN kernel (3/5, 4/5) are neither integers nor float32 numbers
                    if not lstats["layouts"].get("%s/%s/%s=%s" % (kern, iface, ax, q)) and not ctx.violations:
                        raise MachineryError("layout facet vacuous: %s/%s was not driven with %s layout %s (%r)" % (kern, iface, ax, q, sorted(lstats["layouts"])))
            if not lstats["int_nonintegral_accept"].get("%s/%s/via=%s" % (kern, iface, "step" if iface == "exp" else "sample")) and not ctx.violations:
                raise MachineryError("layout facet vacuous: no accepted non-integral state from an integer-typed initial point for %s/%s (%r)" % (
                    kern, iface, lstats["int_nonintegral_accept"]))
    out["layouts"] = {"behaviours_emitted": len(lbehs), "behaviours_replayed": len(lchosen), "real_transitions": lstats["transitions"],
                      "layouts_really_used": lstats["layouts"],
                      "accepted_non_integral_states_from_an_integer_initial_point": lstats["int_nonintegral_accept"],
                      "wall_s": round(time.time() - t0, 1)}
    # neither required nor forbidden: a layout the sampler refuses, a mismatch under a layout no docstring describes
    ctx.observe("layout_refused_by_the_sampler", lstats["layout_refused"])
    if lstats["layout_unasserted_mismatch"]:
        ctx.observe("mismatch_under_a_layout_outside_the_documentation", lstats["layout_unasserted_mismatch"])
    # ---- (3) proposal objects of the random-walk kernel -----------------------------------------------------------------
    t0 = time.time()
    proots = {}
    for c in res["propsym"].cases:
        if c["kind"] == "rroot":
            proots.setdefault(_rkey(c), dict(c))
    pbehs = [c for c in res["propsym"].cases if c["kind"] == "rbeh"]
    def differs(b):
        return any(e["a"] == "p" and e["tv"][1] > 0 and e["r"] != e["rsym"] for e in b["prog"])
    for flag in ("none", "false", "missing", "true"):
        if not any(b["prop"]["flag"] == flag and b["prop"]["mu"] == 1 and b["mode"] == "hastings" and differs(b) for b in pbehs):
            raise MachineryError("proposal facet vacuous: the specification emitted no behaviour of an asymmetric proposal object with flag %s whose "
                                 "Hastings ratio differs from the symmetric one" % flag)
    if not any(b["mode"] == "sym" for b in pbehs) or any(b["mode"] == "sym" and (b["prop"]["mu"] != 0 or b["prop"]["flag"] != "true") for b in pbehs):
        raise MachineryError("proposal facet: mode sym must be emitted exactly for the objects known to be symmetric about zero")
    pstats = M.new_stats()
    admitted = {}
    plimit = None if tier == "quick" else 12000
    pchosen = select_reconf(pbehs, random.Random(ctx.seed + 913), plimit)
    for n, b in enumerate(pchosen):
        c, kk = b["cfg"], _rkey(b)
        root = proots[kk]
        if kk not in admitted:
            ctx.case(("propsym_admission", c["iface"], c["d"], c["sc"], c["tgt"], b.get("how"), json.dumps(b["prop"], sort_keys=True)), facet="propsym")
            admitted[kk] = M.admission(ctx, root, pstats)
        if not admitted[kk]:
            continue
        ctx.case(("propsym", c["iface"], c["d"], c["sc"], c["tgt"], b.get("how"), json.dumps(b["prop"], sort_keys=True),
                  hashlib.sha1(_cfgkey(b["prog"]).encode()).hexdigest()[:12]), facet="propsym")
        M.run_rbeh(ctx, b, root, "propsym", salt=n, stats=pstats)
        ctx.traces += 1
    for iface in ("exp", "leg"):
        for q in ("ctor/kind=gauss/flag=true/mu=0", "ctor/kind=user/flag=true/mu=0", "assign/kind=gauss/flag=true/mu=0", "assign/kind=user/flag=true/mu=0"):
            if not pstats["admitted"].get("%s/%s" % (iface, q)) and not ctx.violations:
                raise MachineryError("proposal facet vacuous: %s/%s was not admitted and driven (%r)" % (iface, q, pstats["admitted"]))
    # binding self-test: an asymmetric object that IS admitted (its flag claims symmetry) and decided with the symmetric ratio
    # must be reported
    tested = 0
    for iface in ("exp", "leg"):
        for d in sorted({b["cfg"]["d"] for b in pbehs}):
            b = next((q for q in pbehs if q["cfg"]["iface"] == iface and q["cfg"]["d"] == d and q["prop"]["flag"] == "none" and
                      q["prop"]["mu"] == 1 and q["mode"] == "hastings" and differs(q)), None)
            if b is None:
                raise MachineryError("binding self-test of the proposal facet impossible (%s, d=%d)" % (iface, d))
            col = _Collector()
            M.run_rbeh(col, b, proots[_rkey(b)], "propsym", salt=0, force_flag=True)
            if not any("/decision/" in h for h in col.hits) and not ctx.violations:
                raise MachineryError("binding self-test: an admitted asymmetric proposal object decided with the symmetric ratio was not "
                                     "reported (%s, d=%d: %r)" % (iface, d, col.hits))
            tested += 1
    out["proposal_objects"] = {"behaviours_emitted": len(pbehs), "objects_x_configurations": len(admitted),
                               "refused_by_the_sampler": pstats["refused"], "admitted_by_the_sampler": pstats["admitted"],
                               "real_transitions": pstats["transitions"],
                               "transitions_whose_hastings_ratio_differs_from_the_symmetric_one": pstats["hastings_differs"],
                               "binding_selftests": tested, "wall_s": round(time.time() - t0, 1)}
    if pstats["refused_assignment_keeps_object"]:
        ctx.observe("refused_proposal_assignment_leaves_the_object_installed", pstats["refused_assignment_keeps_object"])
    pb = next((b for b in pbehs if b["prop"]["flag"] == "none" and b["prop"]["mu"] == 1 and differs(b)), pbehs[0])
    ctx.sample({"proposal_object_behaviour": {"cfg": pb["cfg"], "prop": pb["prop"], "mode": pb["mode"], "prog": pb["prog"]}})
    ctx.observe("reconfiguration_layouts_proposal_objects", out)
    ctx.observe("named_deviations_reconf", {cfg: inv for cfg, inv in RECONF_DEVIATIONS})
    return {"reconf": (len(behs), len(chosen), limit), "layout": (len(lbehs), len(lchosen), llimit), "propsym": (len(pbehs), len(pchosen), plimit)}


# ----------------------------------------------------------------------------------------------------------------
# spec -> code : chains started outside the support, boundary uniforms (MHOutside.tla)
# ----------------------------------------------------------------------------------------------------------------
def outside_facet(ctx, res):
    """replay of the behaviours of MHOutside.<tier>.cfg: initial point of log-density -inf (finite proposals accepted whatever the
    uniform, NaN / -inf proposals never), decisions with the uniform exactly 0"""
    from cuqiverif import mhkernel_real as R
    from cuqiverif.core import MachineryError
    ctx.model_must_hold(res["outside"], "MHOutside")
    roots = {_cfgkey(c["cfg"]): c for c in res["outside"].cases if c["kind"] == "root"}
    behs = [c for c in res["outside"].cases if c["kind"] == "beh"]
    if not behs or not roots:
        raise MachineryError("no behaviours emitted by MHOutside")
    seen = {"out_finite": set(), "out_neginf": set(), "out_nan": set(), "zero_any": set(), "zero_below": set()}
    for b in behs:
        kk = (b["cfg"]["k"], b["cfg"]["iface"])
        prog = b["prog"]
        for i in range(0, len(prog) - 1, 2):
            p, d = prog[i], prog[i + 1]
            if p["r"] == [2, 0]:
                p["r"] = [0, 1]              # log-ratio +inf: threshold exp(min(0, r)) = 1, accepted for every uniform (Below: u -> 1)
            if p.get("out"):
                seen["out_finite" if p["tv"][1] > 0 else ("out_nan" if p["tv"] == [0, 0] else "out_neginf")].add(kk)
            if d.get("u") == "zero":
                seen["zero_any" if d["cls"] == "Any" else "zero_below"].add(kk)
    every = {(k, i) for k in ("RW", "CW", "PCN", "MALA") for i in ("exp", "leg")}
    for what, have in seen.items():
        if what == "out_nan":
            have = have | {("CW", "exp"), ("CW", "leg")}      # d = 2: no single-component move leads from the -inf point to the NaN point
        if have != every:
            raise MachineryError("outside facet vacuous: %s emitted for %r only" % (what, sorted(have)))
    limit = None if ctx.tier == "quick" else 20000
    rnd = random.Random(ctx.seed + 1201)
    chosen = behs
    if limit is not None and len(behs) > limit:
        chosen, _ = select(behs, rnd, limit)
    t0 = time.time()
    ntrans = 0
    for n, b in enumerate(chosen):
        c = b["cfg"]
        root = roots[_cfgkey(c)]
        ctx.case(("outside", c["k"], c["iface"], c["d"], c["tgt"], c["sc"], c["m"], tuple(c["x0"]),
                  hashlib.sha1(_cfgkey(b["prog"]).encode()).hexdigest()[:12]), nontrivial=True, facet="outside")
        ntrans += R.run_behaviour(ctx, b, root["rows"], root["sv"], root, sigprefix="outside", salt=n)
        ctx.traces += 1
    # the same behaviours through the public loops (sample / warmup; legacy sample): the initial evaluation -inf is threaded
    from cuqiverif import mhchain_real as C
    nchain = 0
    for n, b in enumerate(chosen):
        if (n + ctx.seed) % 3 or not C.pure_transitions(b):
            continue
        c = b["cfg"]
        root = roots[_cfgkey(c)]
        entry = "sample" if (c["iface"] == "leg" or n % 2) else "warmup"
        ctx.case(("outside_chain", c["k"], c["iface"], c["d"], c["sc"], c["m"], entry,
                  hashlib.sha1(_cfgkey(b["prog"]).encode()).hexdigest()[:12]), facet="outside")
        nchain += C.run_chain(ctx, b, root["rows"], root["sv"], root, entry, salt=n, sigprefix="outside_chain")
    # binding self-test: the expectation "refused" of a non-finite proposal made from outside replaced by "accepted"
    tested = 0
    for kern, iface in sorted(every):
        b = next((q for q in chosen if (q["cfg"]["k"], q["cfg"]["iface"]) == (kern, iface) and q["prog"][0].get("out")
                  and q["prog"][1]["cls"] == "Any"), None)
        if b is None:
            raise MachineryError("binding self-test of the outside facet impossible for %s/%s" % (kern, iface))
        bad = json.loads(json.dumps(b))
        bad["prog"][1]["acc"] = 1
        col = _Collector()
        root = roots[_cfgkey(b["cfg"])]
        R.run_behaviour(col, bad, root["rows"], root["sv"], root, sigprefix="outside", salt=0)
        if not any("/decision/" in h for h in col.hits) and not ctx.violations:
            raise MachineryError("binding self-test: a wrong expectation for a non-finite proposal from outside was not reported (%s/%s)" % (kern, iface))
        tested += 1
    ctx.observe("outside", {"behaviours_emitted": len(behs), "behaviours_replayed": len(chosen), "real_transitions": ntrans,
                            "transitions_through_the_public_loops": nchain, "binding_selftests": tested,
                            "wall_s": round(time.time() - t0, 1)})
    ob = next((b for b in chosen if b["cfg"]["k"] == "RW" and b["prog"][0]["tv"] == [-1, 0] and b["prog"][1].get("u") == "zero"), chosen[0])
    ctx.sample({"outside_behaviour": {"cfg": ob["cfg"], "prog": ob["prog"]}})
    ctx.observe("named_deviations_outside", {cfg: inv for cfg, inv in OUTSIDE_DEVIATIONS})
    return len(behs), len(chosen)

# ----------------------------------------------------------------------------------------------------------------
# spec -> code : the decision at extreme magnitudes (MHMagnitude.tla)
# ----------------------------------------------------------------------------------------------------------------
def magnitude_facet(ctx, res):
    """replay of the cases of MHMagnitude.<tier>.cfg: one transition whose log target ratio a, log proposal ratio b (Langevin
    kernel) and cached level are the exact quantities of the specification (0, 1 .. 10^4, ~1e300, all sign combinations),
    decided with the uniforms 0 / 1e-300 / exp(a+b)(1 -/+ 1e-6) / 1/2 / 1 - 1e-6"""
    from cuqiverif import mhmag_real as G
    from cuqiverif.core import MachineryError
    ctx.model_must_hold(res["magnitude"], "MHMagnitude")
    cases = [c for c in res["magnitude"].cases if c["kind"] == "mag"]
    if not cases:
        raise MachineryError("no cases emitted by MHMagnitude")
    cases.sort(key=lambda c: json.dumps(c, sort_keys=True))
    every = {(k, i) for k in ("RW", "CW", "PCN", "MALA") for i in ("exp", "leg")}
    seen = {"below": set(), "above": set(), "tiny": set(), "zero_accept": set(), "near1_accept": set(), "near1_reject": set(),
            "low_level": set(), "huge_plus": set(), "huge_minus": set()}
    hast = {"overflow_a_underflow_b_rejected": set(), "overflow_a_underflow_b_accepted": set(), "underflow_a_overflow_b_representable": set(),
            "huge_opposite": set()}
    for c in cases:
        kk = (c["cfg"]["k"], c["cfg"]["iface"])
        a, b, r = c["a"], c["b"], c["r"]
        if c["u"] in ("below", "above", "tiny"):
            seen[c["u"]].add(kk)
        if c["u"] == "zero" and c["acc"] == 1:
            seen["zero_accept"].add(kk)
        if c["u"] == "near1":
            seen["near1_accept" if c["acc"] == 1 else "near1_reject"].add(kk)
        if c["cfg"]["lev"]:
            seen["low_level"].add(kk)
        if a[0] > 0:
            seen["huge_plus"].add(kk)
        if a[0] < 0:
            seen["huge_minus"].add(kk)
        if kk[0] == "MALA":
            av, bv = G.val(a), G.val(b)
            if av > 709.8 and bv < -745.2:
                hast["overflow_a_underflow_b_rejected" if c["acc"] == 0 else "overflow_a_underflow_b_accepted"].add(kk[1])
            if av < -745.2 and bv > 709.8 and c["rep"]:
                hast["underflow_a_overflow_b_representable"].add(kk[1])
            if a[0] * b[0] < 0:
                hast["huge_opposite"].add(kk[1])
    for what, have in seen.items():
        if have != every:
            raise MachineryError("magnitude facet vacuous: %s emitted for %r only" % (what, sorted(have)))
    for what, have in hast.items():
        if have != {"exp", "leg"}:
            raise MachineryError("magnitude facet vacuous: Langevin cases %s emitted for %r only" % (what, sorted(have)))
    t0 = time.time()
    stats, nok = {}, 0
    for c in cases:
        f = c["cfg"]
        ctx.case(("mag", f["k"], f["iface"], f["lev"], G.name_of(c["a"]), G.name_of(c["b"]), c["u"]), nontrivial=True, facet="magnitude")
        nok += bool(G.run_case(ctx, c, stats))
        ctx.traces += 1
    # binding self-test: the expectation of an asserted decision turned round must be reported
    tested = 0
    for kern, iface in sorted(every):
        for want in (0, 1):
            c = next((q for q in cases if (q["cfg"]["k"], q["cfg"]["iface"]) == (kern, iface) and q["acc"] == want
                      and q["u"] in ("mid", "below", "above")), None)
            if c is None:
                raise MachineryError("binding self-test of the magnitude facet impossible for %s/%s" % (kern, iface))
            bad = dict(c, acc=1 - want)
            col = _Collector()
            G.run_case(col, bad, {})
            if not any(h.endswith("/decision") for h in col.hits) and not ctx.violations:
                raise MachineryError("binding self-test: a wrong expectation of the magnitude facet was not reported (%s/%s)" % (kern, iface))
            tested += 1
    ctx.observe("magnitude", dict(stats, cases_emitted=len(cases), cases_replayed=len(cases), conforming=nok, binding_selftests=tested,
                                  wall_s=round(time.time() - t0, 1)))
    mc = next((c for c in cases if c["cfg"]["k"] == "MALA" and c["cfg"]["iface"] == "leg" and c["a"] == [0, 800] and c["b"] == [0, -10082]
               and c["u"] == "mid"), cases[0])
    ctx.sample({"magnitude_case": mc})
    ctx.observe("named_deviations_magnitude", {cfg: inv for cfg, inv in MAGNITUDE_DEVIATIONS})
    return len(cases), len(cases)


def types_facet(ctx, res):
    """replay of the cases of MHTypes.<tier>.cfg: one transition in dimension 2 per kernel x interface x step size handed over as
    python float / python int / numpy int64 / numpy int32 / integer array (values >= 2) and - pCN - prior class (Gaussian / Normal)
    x type of the prior mean (array / python float / python int / numpy float64 / integer array / list) x mean (0, 2)"""
    from cuqiverif import mhtypes_real as Y
    from cuqiverif.core import MachineryError
    ctx.model_must_hold(res["types"], "MHTypes")
    cases = [c for c in res["types"].cases if c["kind"] == "typ"]
    if not cases:
        raise MachineryError("no cases emitted by MHTypes")
    cases.sort(key=lambda c: json.dumps(c, sort_keys=True))
    # vacuity guards on the emission: integer-typed step sizes >= 2 with both decision classes for every kernel x interface,
    # every prior class x mean type with a non-zero mean for both pCN interfaces
    ints, means = {}, set()
    for c in cases:
        f = c["cfg"]
        if f["k"] != "PCN" and f["st"] in Y.INT_TYPES and f["sc"][0] >= 2 and f["sc"][1] == 1:
            ints.setdefault((f["k"], f["iface"], f["st"]), set()).add(c["cls"])
        if f["k"] == "PCN" and f["m"] != 0 and c["cfg"]["x0"] != c["cfg"]["y"]:
            means.add((f["iface"], f["pc"], f["mt"]))
    for kern in ("RW", "CW", "MALA"):
        for iface in ("exp", "leg"):
            for st in ("pyint", "npint64", "npint32") + (("intarr",) if kern == "CW" else ()):
                if ints.get((kern, iface, st)) != {"Below", "Above"}:
                    raise MachineryError("types facet vacuous: %s/%s with a step size of type %s >= 2: classes %r" % (
                        kern, iface, st, sorted(ints.get((kern, iface, st), ()))))
    for iface in ("exp", "leg"):
        for pc in ("Gaussian", "Normal"):
            for mt in ("arr", "pyfloat", "pyint", "npfloat64", "intarr", "list"):
                if (iface, pc, mt) not in means:
                    raise MachineryError("types facet vacuous: no pCN case %s/%s with a non-zero mean of type %s" % (iface, pc, mt))
    t0 = time.time()
    stats, nok, n = {}, 0, 0
    for c in cases:
        f = c["cfg"]
        reals = [None]
        if f["k"] == "PCN" and f["iface"] == "leg":
            reals.append("tuple")           # legacy target form (likelihood, prior)
        if f["k"] == "MALA" and c["cls"] == "Below":
            reals.append("ula")             # the unadjusted kernel shares proposal and caches with MALA
        for real in reals:
            ctx.case(("typ", f["k"], f["iface"], tuple(f["sc"]), f["st"], f["pc"], f["mt"], f["m"], tuple(f["x0"]), tuple(f["y"]),
                      c["cls"], real or ""), nontrivial=f["x0"] != f["y"], facet="types")
            nok += bool(Y.run_case(ctx, c, stats, real=real))
            n += 1
            ctx.traces += 1
    # binding self-test: an expected decision turned round must be reported
    tested = 0
    for kern in ("RW", "CW", "PCN", "MALA"):
        for iface in ("exp", "leg"):
            for want in (0, 1):
                c = next((q for q in cases if (q["cfg"]["k"], q["cfg"]["iface"]) == (kern, iface) and q["acc"] == want
                          and q["cfg"]["x0"] != q["cfg"]["y"]), None)
                if c is None:
                    raise MachineryError("binding self-test of the types facet impossible for %s/%s" % (kern, iface))
                col = _Collector()
                Y.run_case(col, dict(c, acc=1 - want), {})
                if not any(h.endswith("/decision") for h in col.hits) and not ctx.violations:
                    raise MachineryError("binding self-test: a wrong expectation of the types facet was not reported (%s/%s)" % (kern, iface))
                tested += 1
    ctx.observe("types", dict(stats, cases_emitted=len(cases), transitions=n, conforming=nok, binding_selftests=tested,
                              wall_s=round(time.time() - t0, 1)))
    mc = next((c for c in cases if c["cfg"]["k"] == "MALA" and c["cfg"]["iface"] == "leg" and c["cfg"]["st"] == "pyint"
               and c["cls"] == "Above"), cases[0])
    ctx.sample({"types_case": mc})
    pc = next((c for c in cases if c["cfg"]["k"] == "PCN" and c["cfg"]["pc"] == "Normal" and c["cfg"]["mt"] == "pyfloat"
               and c["cfg"]["m"] == 2 and c["cfg"]["x0"] != c["cfg"]["y"]), cases[0])
    ctx.sample({"types_case": pc})
    ctx.observe("named_deviations_types", {cfg: inv for cfg, inv in TYPES_DEVIATIONS})
    return len(cases), n


def posinf_probe(ctx):
    """a proposal whose log-density is +inf: the Metropolis-Hastings formula gives acceptance probability 1, the property names
    NaN and -inf only - what the kernels do is recorded, not asserted"""
    import cuqi
    from cuqiverif.script_rng import scripted
    from cuqiverif.zoo import quiet
    obs = {}

    def lp(x):
        x = np.asarray(x, dtype=float).reshape(-1)
        return float("inf") if np.any(x > 0.5) else -0.5 * float(x @ x)

    def gr(x):
        return -np.asarray(x, dtype=float).reshape(-1)
    T = cuqi.distribution.UserDefinedDistribution(dim=2, logpdf_func=lp, gradient_func=gr)
    lik = cuqi.likelihood.UserDefinedLikelihood(dim=2, logpdf_func=lp, gradient_func=gr)
    post = cuqi.distribution.Posterior(lik, cuqi.distribution.Gaussian(np.zeros(2), 1.0))
    x0 = np.zeros(2)
    E, L = cuqi.experimental.mcmc, cuqi.sampler
    runs = (("experimental.MH", lambda: E.MH(T, scale=1.0, initial_point=x0.copy()), True),
            ("experimental.CWMH", lambda: E.CWMH(T, scale=1.0, initial_point=x0.copy()), True),
            ("experimental.PCN", lambda: E.PCN(post, scale=0.8, initial_point=x0.copy()), True),
            ("experimental.MALA", lambda: E.MALA(T, scale=1.0, initial_point=x0.copy()), True),
            ("sampler.MH", lambda: L.MH(T, scale=1.0, x0=x0.copy()), False),
            ("sampler.CWMH", lambda: L.CWMH(T, scale=1.0, x0=x0.copy()), False),
            ("sampler.pCN", lambda: L.pCN(post, scale=0.8, x0=x0.copy()), False),
            ("sampler.MALA", lambda: L.MALA(T, scale=1.0, x0=x0.copy()), False))
    for name, mk, stateful in runs:
        try:
            with quiet(), scripted({"normal": [np.ones(2)], "uniform": [0.5, 0.5]}):
                s = mk()
                if stateful:
                    s.initialize()
                    s.step()
                    moved = not np.allclose(np.asarray(s.current_point, dtype=float), x0)
                else:
                    X = np.asarray(s.sample(2).samples, dtype=float)
                    moved = not np.allclose(X[:, 1], x0)
            obs[name] = "accepted" if moved else "refused"
        except Exception as ex:
            obs[name] = "raises %s: %s" % (type(ex).__name__, str(ex)[:60])
    ctx.observe("proposal_with_log_density_plus_infinity", obs)


def probes(ctx):
    """things neither required nor forbidden by the property: recorded as observations"""
    import cuqi
    from cuqiverif.zoo import quiet
    obs = {}
    T = cuqi.distribution.UserDefinedDistribution(dim=1, logpdf_func=lambda x: -0.5 * float(np.sum(np.asarray(x) ** 2)))
    for name, mk in (("experimental.CWMH", lambda: cuqi.experimental.mcmc.CWMH(T, scale=1.0, initial_point=np.array([0.0])).sample(2)),
                     ("sampler.CWMH", lambda: cuqi.sampler.CWMH(T, scale=1.0, x0=np.array([0.0])).sample(3))):
        try:
            with quiet():
                np.random.seed(1)
                mk()
            obs[name + " dim=1"] = "runs"
        except Exception as ex:
            obs[name + " dim=1"] = "raises %s: %s" % (type(ex).__name__, str(ex)[:80])
    ctx.observe("cwmh_dimension_1", obs)
    posinf_probe(ctx)


def _behaviour_stats(behs):
    acts = {}
    for b in behs:
        for e in b["prog"]:
            key = e["a"] + ("/" + e["cls"] if e["a"] == "d" else "")
            acts[key] = acts.get(key, 0) + 1
    return acts


def run(ctx):
    import cuqi  # noqa
    from cuqiverif.core import MachineryError
    os.environ.setdefault("TQDM_DISABLE", "1")
    warnings.filterwarnings("ignore")
    tier = ctx.tier
    workdir = os.path.join(os.path.dirname(os.path.dirname(os.path.dirname(os.path.dirname(os.path.abspath(__file__))))), ".work",
                           "c02-%d" % os.getpid())
    os.makedirs(workdir, exist_ok=True)
    # 1. model checking and behaviour emission - these TLC runs concurrently; the named-deviation runs (small, many) are started
    #    when the emitting runs are done and proceed while the replays below occupy this thread
    jobs = {}
    rk = dict(extra_modules=("MHKernel.tla",), timeout=3000)
    ALLDEV = ([(c, i, "MHKernel", {"timeout": 2400}) for c, i in DEVIATIONS] + [(c, i, "CWSweep", {"timeout": 2400}) for c, i in SWEEP_DEVIATIONS] +
              [(c, i, "MHReconf", rk) for c, i in RECONF_DEVIATIONS] + [(c, i, "MHOutside", rk) for c, i in OUTSIDE_DEVIATIONS] +
              [(c, i, "MHMagnitude", {"timeout": 2400}) for c, i in MAGNITUDE_DEVIATIONS] +
              [(c, i, "MHTypes", {"timeout": 2400}) for c, i in TYPES_DEVIATIONS])
    devpool = concurrent.futures.ThreadPoolExecutor(max_workers=8)
    with concurrent.futures.ThreadPoolExecutor(max_workers=12) as pool:
        jobs["main"] = pool.submit(_tlc_retry, ctx, "MHKernel", cfg="MHKernel.%s.cfg" % tier, workers=8, timeout=3000)
        jobs["deep"] = pool.submit(_tlc_retry, ctx, "MHKernel", cfg="MHKernel.deep.%s.cfg" % tier, workers=8, timeout=3000)
        jobs["outside"] = pool.submit(_tlc_retry, ctx, "MHOutside", cfg="MHOutside.%s.cfg" % tier, workers=2, **rk)
        jobs["magnitude"] = pool.submit(_tlc_retry, ctx, "MHMagnitude", cfg="MHMagnitude.%s.cfg" % tier, workers=2, timeout=2400)
        jobs["types"] = pool.submit(_tlc_retry, ctx, "MHTypes", cfg="MHTypes.%s.cfg" % tier, workers=2, timeout=2400)
        jobs["reconf"] = pool.submit(_tlc_retry, ctx, "MHReconf", cfg="MHReconf.%s.cfg" % tier, workers=4, **rk)
        jobs["relayout"] = pool.submit(_tlc_retry, ctx, "MHReconf", cfg="MHReconf.layout.%s.cfg" % tier, workers=2, **rk)
        jobs["propsym"] = pool.submit(_tlc_retry, ctx, "MHReconf", cfg="MHReconf.propsym.%s.cfg" % tier, workers=2, **rk)
        jobs["abort"] = pool.submit(_tlc_retry, ctx, "MHKernel", cfg="MHKernel.abort.%s.cfg" % tier, workers=8, timeout=3000)
        jobs["src"] = pool.submit(_tlc_retry, ctx, "MHKernel", cfg="MHKernel.src.%s.cfg" % tier, workers=4, timeout=3000)
        jobs["sweep"] = pool.submit(_tlc_retry, ctx, "CWSweep", cfg="CWSweep.%s.cfg" % tier, workers=4, timeout=3000)
        jobs["m0"] = pool.submit(_tlc_retry, ctx, "MHKernel", cfg="MHKernel.rawprior_m0.cfg", workers=2, timeout=2400)
        if tier == "thorough":
            jobs["sim"] = pool.submit(_tlc_retry, ctx, "MHKernel", cfg="MHKernel.sim.thorough.cfg", workers=4, mode="simulate",
                                      simulate="num=500", depth=40, seed=1000 + ctx.seed, timeout=3000)
        # 3. code -> spec (recorded runs + trace validation) while the model-checking runs are in progress
        trace_error = None
        try:
            trace_facet(ctx, workdir)
        except BaseException as ex:      # re-raised below, after the TLC jobs have been collected
            trace_error = ex
        # the facets of MHOutside / MHReconf (short TLC runs) are replayed while the large model-checking runs are still in progress
        res = {}
        reconf_error, rcounts, ocounts, mcounts, tcounts = None, None, None, None, None
        try:
            if trace_error is None or isinstance(trace_error, MachineryError):
                res["outside"] = jobs["outside"].result()
                ocounts = outside_facet(ctx, res)
                res["magnitude"] = jobs["magnitude"].result()
                mcounts = magnitude_facet(ctx, res)
                res["types"] = jobs["types"].result()
                tcounts = types_facet(ctx, res)
                for k in ("reconf", "relayout", "propsym"):
                    res[k] = jobs[k].result()
                rcounts = reconf_facets(ctx, res)
        except BaseException as ex:
            reconf_error = ex
        job_error = None
        for k, f in jobs.items():
            try:
                res[k] = f.result()
            except BaseException as ex:
                job_error = job_error or ex
        for cfg, inv, spec, kw in ALLDEV:
            jobs[cfg] = devpool.submit(_tlc_retry, ctx, spec, cfg=cfg, workers=1, expect_violation=True, **kw)
    try:
        if job_error is not None:
            raise job_error
        if trace_error is not None and not isinstance(trace_error, MachineryError):
            raise trace_error
        if reconf_error is not None:
            raise reconf_error
        ctx.model_must_hold(res["main"], "MHKernel")
        ctx.model_must_hold(res["deep"], "MHKernel(deep)")
        ctx.model_must_hold(res["m0"], "MHKernel(raw prior draw, m=0)")
        ctx.model_must_hold(res["abort"], "MHKernel(abort)")
        ctx.model_must_hold(res["src"], "MHKernel(sources)")
        ctx.model_must_hold(res["sweep"], "CWSweep")
        cases = list(res["main"].cases) + (list(res["sim"].cases) if "sim" in res else [])
        roots = {_cfgkey(c["cfg"]): c for c in list(res["abort"].cases) + list(res["src"].cases) + cases if c["kind"] == "root"}
        abehs = [c for c in res["abort"].cases if c["kind"] == "beh"]
        sbehs = [c for c in res["src"].cases if c["kind"] == "beh"]
        seenb, behs = set(), []
        for c in cases:
            if c["kind"] == "beh":
                kk = _cfgkey([c["cfg"], c["prog"]])
                if kk not in seenb:
                    seenb.add(kk)
                    behs.append(c)
        acts = _behaviour_stats(behs)
        for need in ("p", "d/Below", "d/Above", "d/Any", "t", "s"):
            if not acts.get(need):
                raise MachineryError("vacuous model: no emitted behaviour contains action %s (%r)" % (need, acts))
        aacts = _behaviour_stats(abehs)
        amodes = {(b["cfg"]["k"], e["k"], e["mode"], len(e["alt"])) for b in abehs for e in b["prog"] if e["a"] == "x"}
        if not aacts.get("x") or any(sum(1 for e in b["prog"] if e["a"] == "x") != 1 for b in abehs):
            raise MachineryError("vacuous model: the abort configuration emitted no behaviour with exactly one Abort (%r)" % aacts)
        if ("CW", 2, "keep", 2) not in amodes or ("CW", 2, "rollback", 2) not in amodes:
            raise MachineryError("vacuous model: no aborted sweep with an accepted component in both modes (%r)" % sorted(amodes))
        acts["x (abort cfg)"] = aacts["x"]
        ctx.observe("emitted_actions", acts)
        ctx.observe("named_deviations", {cfg: inv for cfg, inv in DEVIATIONS + SWEEP_DEVIATIONS})
        if not behs or not roots:
            raise MachineryError("no behaviours emitted by MHKernel")
        # 2. spec -> code
        limit = None if tier == "quick" else 150000
        chosen = replay_facet(ctx, roots, behs, limit)
        chain_facet(ctx, roots, chosen)
        alimit = None if tier == "quick" else 40000
        achosen = abort_facet(ctx, roots, abehs, alimit)
        slimit = None if tier == "quick" else 8000
        nsrc = len(sbehs)
        if slimit is not None and len(sbehs) > slimit:
            sbehs = select_source(sbehs, random.Random(ctx.seed + 5), slimit)
        schosen = source_facet(ctx, roots, sbehs)
        wroots = {_cfgkey(c["cfg"]): c for c in res["sweep"].cases if c["kind"] == "root"}
        wbehs = [c for c in res["sweep"].cases if c["kind"] == "sweeps"]
        if not wbehs or not wroots:
            raise MachineryError("no behaviours emitted by CWSweep")
        wlimit = None if tier == "quick" else 15000
        wchosen = sweep_facet(ctx, wroots, wbehs, wlimit)
        wb = next((b for b in wchosen if b["cfg"]["d"] == 3 and b["prog"][0]["cls"] == "Any" and b["prog"][1]["acc"] == 1), wchosen[0])
        ctx.sample({"sweep_behaviour": {"cfg": wb["cfg"], "prog": wb["prog"]}})
        sb = next((b for b in schosen if b["cfg"]["src"] == "rng"), schosen[0])
        ctx.sample({"source_behaviour": {"cfg": sb["cfg"], "prog": sb["prog"][:2]}})
        ab = next((b for b in achosen if b["cfg"]["k"] == "CW" and _abort_entry(b)["mode"] == "rollback"), achosen[0])
        ctx.sample({"abort_behaviour": {"cfg": ab["cfg"], "prog": ab["prog"][:4]}})
        mid = chosen[len(chosen) // 2]
        ctx.sample({"behaviour": {"cfg": mid["cfg"], "prog": mid["prog"][:4]}})
        pcn = next((b for b in chosen if b["cfg"]["k"] == "PCN" and b["cfg"]["m"] == 1), None)
        if pcn:
            ctx.sample({"behaviour": {"cfg": pcn["cfg"], "prog": pcn["prog"][:2]}})
        probes(ctx)
        # the named deviations: every one must be refuted by TLC on the invariant / property it is aimed at
        for cfg, inv, spec, kw in ALLDEV:
            res[cfg] = r = jobs[cfg].result()
            if r.ok or r.violated != inv:
                raise MachineryError("deviation %s did not violate %s (got %r): invariant is vacuous" % (cfg, inv, r.violated))
        if trace_error is not None:     # machinery problem of the trace facet: reported after the replay facet has run
            raise trace_error
    finally:
        from cuqiverif import tlc
        import shutil
        devpool.shutdown(wait=True)
        for cfg, inv, spec, kw in ALLDEV:
            f = jobs.get(cfg)
            if f is not None and cfg not in res and f.exception() is None:
                res[cfg] = f.result()
        for r in res.values():
            tlc.cleanup(r)
        shutil.rmtree(workdir, ignore_errors=True)
        import glob
        for d in glob.glob(os.path.join(tlc.WORK, "c02-%d-*" % os.getpid())):     # work directories of failed / retried TLC runs
            tlc.cleanup(d)
    ctx.rule = ("behaviour = one terminal path of the bounded MHKernel instance (configuration x initial point x sequence of "
                "Propose/Decide/Tune/SaveLoad) emitted by TLC with exact noise, ratio and predicted states; replayed per realisation "
                "(quick: all; thorough: edge cover + seeded sample of %d, + simulated deep behaviours); distinct = behaviour x "
                "realisation, non-trivial = at least one proposal differs from the point it is made from; plus the behaviours with "
                "one aborted transition of MHKernel.abort.<tier>.cfg (quick: all; thorough: stratum cover + seeded sample of %d; "
                "target raising at the evaluation the spec names); plus the behaviours of MHKernel.src.<tier>.cfg (randomness "
                "sources other than the global stream, dimension 2; every realisation of the source; quick: all; thorough: stratum "
                "cover + seeded sample of %d); plus the sweeps of CWSweep.<tier>.cfg (component-wise kernel, dimensions 2 and 3, "
                "coupled-support targets, every initial point of the support x proposed moves x decision classes; both interfaces, "
                "primary entry point on every behaviour + the public loops on a third; quick: all; thorough: stratum cover + seeded "
                "sample of %d); plus the behaviours of MHReconf.<tier>.cfg (assignments of initial point / scale / target to a "
                "constructed sampler, re-initialisation, first transition; %d emitted, stratum cover (kernel x interface x attributes "
                "assigned x outcome before x decision classes after) + seeded sample: %d replayed), MHReconf.layout.<tier>.cfg (data "
                "layouts of points and scales; %d emitted, %d replayed) and MHReconf.propsym.<tier>.cfg (proposal objects of the "
                "random-walk kernel: symmetry flag x centre; %d emitted, every admitted object replayed); plus the behaviours of "
                "MHOutside.<tier>.cfg (initial point of log-density -inf, uniform exactly 0; %d emitted, %d replayed); plus the cases of "
                "MHMagnitude.<tier>.cfg (kernel x interface x level x log target ratio x log proposal ratio x uniform class; %d "
                "emitted, %d replayed); plus the cases of MHTypes.<tier>.cfg (kernel x interface x type of the step size (python / "
                "numpy integers >= 2, integer arrays) x - pCN - prior class x type of the prior mean; %d emitted, %d transitions); "
                "plus recorded traces (non-trivial = contains a judged transition)" % (
                    limit or len(behs), alimit or len(abehs), slimit or len(sbehs), wlimit or len(wbehs),
                    rcounts["reconf"][0], rcounts["reconf"][1], rcounts["layout"][0], rcounts["layout"][1], rcounts["propsym"][0],
                    ocounts[0], ocounts[1], mcounts[0], mcounts[1], tcounts[0], tcounts[1]))
    # every behaviour of the bounded emission instances was replayed
    ctx.exhaustive = (limit is None or len(behs) <= limit) and (alimit is None or len(abehs) <= alimit) and (
        slimit is None or nsrc <= slimit) and (wlimit is None or len(wbehs) <= wlimit) and all(
        a <= b for a, b, _ in rcounts.values())
    ctx.assumptions += ["acceptance thresholds are placed 1e-6 (relative) below / above exp(r): a ratio error below 1e-6 is not detected",
                        "table targets on finite lattices; off-lattice evaluations use a smooth finite fallback",
                        "trace facets compare caches with a fresh evaluation of the sampler's own target (rtol 1e-10)",
                        "randomness sources: the generator given to the code serves standard-normal / uniform requests (randn, "
                        "standard_normal, normal, rand, random, uniform) in the order of the noise components; other kinds of "
                        "draws are a machinery error",
                        "component-wise sweeps (CWSweep): the kernel evaluates a component proposal before it draws the uniform of "
                        "its decision (the uniform served is the one of the proposal evaluated last; a uniform requested without an "
                        "evaluation before it is a machinery error); evaluations besides the component proposals are allowed",
                        "re-configured samplers / layouts: the lattice is embedded as real = h * lattice with h = 1/2 whenever every "
                        "initial point of the behaviour has even coordinates (h = 1 otherwise); comparisons in lattice units; an "
                        "exception under a layout other than float64 arrays / python floats is an observation, a mismatch under a "
                        "layout no docstring describes (0-d, (n,1), tuples, list scales, list points of the stateless interface and "
                        "of CWMH) too",
                        "outside starts: the initial point is a lattice point of log-density -inf with a finite drift; the log-ratio "
                        "+inf is replayed as threshold 1 (uniform 1 - 1e-6) and with the uniform exactly 0",
                        "extreme magnitudes: two-point table targets; the Langevin proposal is realised with scale 1, integer (or 2^499) "
                        "misfits and a drift table, so that the log proposal ratio is exactly the specification's half square in double "
                        "precision; the decision with the uniform exactly 0 is not asserted when exp(a + b) is not a normal double",
                        "types of step size / prior mean (MHTypes): dimension 2, two-point table target (values of the spec at x and y, "
                        "smooth fallback elsewhere); the Langevin increment w of the spec is scripted as the standard-normal value "
                        "w / sqrt(eps); 0-d arrays and GMRF priors are not driven (refused / not N(m, I))",
                        "proposal objects: the increments of the catalogue are Gaussian N(mu, I) with mu in {0, 1}; a flag declared "
                        "by the caller of a user-defined distribution is truthful",
                        "aborted transitions: the failure is an exception raised by the target's log-density / drift / forward map "
                        "at the evaluation the spec names, once; failures of other calls (proposal, random stream) are not injected"]


def replay(ctx, case):
    from cuqiverif import mhkernel_real as R
    os.environ.setdefault("TQDM_DISABLE", "1")
    warnings.filterwarnings("ignore")
    kind = case.get("kind")
    if kind == "beh":
        R.run_behaviour(ctx, case, case["rows"], case["sv0"], case["root"], real=case.get("real", "user"), salt=case.get("salt", 0))
        return
    if kind == "rbeh":
        from cuqiverif import mhreconf_real as M
        M.run_rbeh(ctx, case, case["root"], case.get("facet", "reconf"), salt=case.get("salt", 0), via=case.get("via", "step"))
        return
    if kind == "rroot":
        from cuqiverif import mhreconf_real as M
        M.admission(ctx, case["root"], M.new_stats())
        return
    if kind == "mag":
        from cuqiverif import mhmag_real as G
        G.run_case(ctx, case, {})
        return
    if kind == "typ":
        from cuqiverif import mhtypes_real as Y
        Y.run_case(ctx, case, {}, real=case.get("real"))
        return
    if kind == "chain":
        from cuqiverif import mhchain_real as C
        C.run_chain(ctx, case, case["rows"], case["sv0"], case["root"], case["entry"], salt=case.get("salt", 0))
        return
    if kind == "sweeps":
        from cuqiverif import cwsweep_real as W
        W.run_sweeps(ctx, case, case["root"], case["iface"], case["entry"], salt=case.get("salt", 0))
        return
    if kind == "abort_sample":
        R.run_abort_sample(ctx, case, case["rows"], case["sv0"], case["root"], real=case.get("real", "user"), salt=case.get("salt", 0))
        return
    if kind == "trace":
        from cuqiverif import trace
        traces = record_own_runs(4000 + ctx.seed)
        verdicts = trace.validate(ctx, traces, "TraceMHKernel", TRACE_CFG, extra_modules=("MHKernel.tla",), label="c02replay")
        for v in verdicts:
            if not v["ok"]:
                nxt = v["next"] or {}
                failed = [q for q in ("cache_ok", "finite_ok") if nxt.get(q) == 0]
                if nxt.get("moved") != nxt.get("acc"):
                    failed.append("moved_iff_acc")
                ctx.mismatch("trace/own/%s/%s" % ((v["meta"] or {}).get("cls", "?"), "+".join(failed) or nxt.get("e", "end")),
                             {"kind": "trace", "meta": v["meta"], "window": v["window"]},
                             "recorded transition violates the facets of MHKernel: event %d %s" % (v["matched"] + 1, nxt))
        return
    if kind == "model":
        r = _tlc_retry(ctx, "MHKernel", cfg="MHKernel.quick.cfg", workers=8)
        ctx.model_must_hold(r, "MHKernel")
