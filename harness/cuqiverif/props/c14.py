"""C14 - chains are continuous, resumable from a checkpoint, and recorded faithfully.

Spec: specs/SamplerLife.tla (+ TraceSamplerLife.tla for recorded executions).
Spec -> code: TLC enumerates life-cycle behaviours (Sample(n) splits, Save / FreshLoad at every position, Reinit,
with/without warm-up; stateless LegacySample(N, Nb)) and emits the chain predicted after every operation as indices
into the uninterrupted reference chain S(0), S(1), ...; the harness realises S(k) by running the real sampler once
without interruption (recording state and random-stream position after every transition) and then executes every
behaviour on fresh samplers.
Code -> spec: life-cycle events of real runs (drivers below and the repository's own sampler tests under the
recorder plugin, thorough tier) are validated by TLC against TraceSamplerLife.tla.
"""
META = {
    "claimed": True,
    "engine": "SamplerLife.tla + SamplerHist.tla",
    "text": ("TLC explores every life-cycle behaviour of the bounded instance (all splits of Sample(n), Save/FreshLoad at every "
             "position, Reinit, warm-up on/off, all (N, Nb) of the stateless interface), checks Consecutive / Tracks / CallbackOnce "
             "/ Length / AppendOnly / LegacyOK on every intermediate state (three named deviations are required to violate them), "
             "and every emitted behaviour is replayed on all samplers of both interfaces against an uninterrupted reference run; "
             "recorded executions are validated against the trace refinement of the same spec. BayesianProblem.sample_posterior is "
             "run on every dispatch branch x both sampler families: the chain handed to the user is the last Ns states produced (the "
             "LegacySample rule of the spec), seen through the documented callback. SamplerHist.tla (EXTENDS SamplerLife) carries the RECORD "
             "over with the checkpoint (SaveAll / FreshLoadAll = get_state + get_history / set_state + set_history into a fresh sampler): "
             "Consecutive, Tracks, CallbackOnceH, LengthH, LoadedIsSaved on every state, two named deviations refuted; its behaviours "
             "that load a non-empty record and sample on are replayed on every stateful sampler."),
    "note": ("Targets are small (dim 1-4); chains compared at rtol 1e-9 (RegularizedLinearRTO re-estimates its step size); the "
             "random stream is restored to the position of the checkpoint as the property presupposes. HybridGibbs offers no "
             "checkpoint / reinitialize / callback API: only continuity, length and append-only are decided for it."),
    "technique": "TLA+ specs (SamplerLife, SamplerHist, BatchQueue) model-checked with TLC; TLC-generated behaviours replayed into the samplers; recorded traces validated by TLC",
}

import copy, os, pickle, random, warnings
import numpy as np

VERIF_ROOT = os.path.dirname(os.path.dirname(os.path.dirname(os.path.dirname(os.path.abspath(__file__)))))
HARNESS = os.path.join(VERIF_ROOT, "harness")

RTOL = 1e-9
# stateless samplers whose plain sample(N, Nb) adapts during burn-in: sample(N, Nb) is not a suffix of sample(N+Nb, 0),
# so their chain is reconstructed from the states reported at transition time instead of an independent second run
ADAPTS_IN_SAMPLE = {"NUTS"}
# attributes of the stateful samplers that a transition reads and replaces (compared after a checkpoint is loaded)
STATE_ATTRS = ("current_point", "current_target_logd", "current_target_grad", "current_likelihood_logd", "scale",
               "lambd", "_epsilon", "_epsilon_bar", "max_depth")
# quantities only the warm-up adaptation reads: the property speaks of a checkpoint taken in the SAMPLING phase followed by
# the transitions of the uninterrupted run, which do not depend on them; a difference is logged, not a violation
TUNING_ATTRS = ("_scale_temp", "_H_bar")            # (NUTS reads _epsilon_bar in its first sampling transition)
TAIL = 6     # extra transitions made after a behaviour that loaded a checkpoint (divergence may need a few steps to show)


def _cols(A):
    A = np.asarray(A, dtype=float)
    if A.ndim == 1:
        A = A.reshape(1, -1)
    return A


def _eq(a, b):
    try:
        a, b = np.asarray(a, dtype=float), np.asarray(b, dtype=float)
    except (TypeError, ValueError):
        return type(a) == type(b) and a == b        # non-numeric state entries (strings, flags)
    return a.shape == b.shape and np.allclose(a, b, rtol=RTOL, atol=1e-12, equal_nan=True)


# ----------------------------------------------------------------------------------------------------------
# drivers: a uniform face on the three kinds of stateful objects
# ----------------------------------------------------------------------------------------------------------
class SamplerDriver:
    """cuqi.experimental.mcmc.Sampler subclasses."""
    has_ckpt = True
    has_cb = True

    def __init__(self, factory, workdir):
        self.factory, self.workdir = factory, workdir
        self.cblog = []
        self.obj = None

    def construct(self):
        self.cblog = []
        log = self.cblog
        self.obj = self.factory(callback=lambda s, i: log.append((np.array(s, dtype=float, copy=True).reshape(-1), int(i))))
        return self

    def hook_steps(self, rec):
        from cuqiverif.core import MachineryError
        if not callable(getattr(self.obj, "step", None)):
            raise MachineryError("wrapper target %s.step is missing" % type(self.obj).__name__)
        obj, orig = self.obj, self.obj.step

        def step(*a, **k):
            if not rec["rng"]:
                rec["rng"].append(np.random.get_state())
                rec["pt"].append(None)
            out = orig(*a, **k)
            rec["rng"].append(np.random.get_state())
            rec["pt"].append(self.point())
            return out
        obj.step = step

    def point(self):
        return np.array(self.obj.current_point, dtype=float, copy=True).reshape(-1)

    def warmup(self, n):
        self.obj.warmup(n)

    def sample(self, n):
        self.obj.sample(n)

    def chain(self):
        if len(self.obj._samples) == 0:
            return np.zeros((0, 0))
        A = _cols(self.obj.get_samples().samples)
        return A

    def save(self, tag, how):
        if how == "file":
            p = os.path.join(self.workdir, "ckpt_%s.pickle" % tag)
            self.obj.save_checkpoint(p)
            return ("file", p)
        if not getattr(self.obj, "_is_initialized", True):
            self.obj.initialize()      # get_state() is defined on an initialised sampler (save_checkpoint initialises itself)
        return ("mem", pickle.loads(pickle.dumps(self.obj.get_state())))

    def history_snapshot(self):
        """the record as get_history() returns it, detached from the live lists (get_history hands out the lists themselves)"""
        import copy
        return copy.deepcopy(self.obj.get_history())

    def fresh_load(self, saved):
        self.construct()
        if saved[0] == "file":
            self.obj.load_checkpoint(saved[1])
        else:
            self.obj.initialize()
            self.obj.set_state(saved[1])

    def reinit(self):
        self.obj.reinitialize()
        self.cblog.clear()

    def state(self):
        return self.obj.get_state()["state"]

    def fresh_state(self):
        o = self.factory(callback=None)
        o.initialize()
        return o.get_state()["state"]

    def stream_after_initialize(self, rng_before):
        o = self.factory(callback=None)
        np.random.set_state(rng_before)
        o.initialize()
        return np.random.get_state()


class HybridGibbsDriver(SamplerDriver):
    has_ckpt = False
    has_cb = False

    def construct(self):
        self.obj = self.factory()
        return self

    def point(self):
        o = self.obj
        return np.concatenate([np.asarray(o.current_samples[p], dtype=float).reshape(-1) for p in o.par_names])

    def chain(self):
        o = self.obj
        if len(o.samples[o.par_names[0]]) == 0:
            return np.zeros((0, 0))
        js = o.get_samples()
        return np.vstack([_cols(js[p].samples) for p in o.par_names])


class LegacyGibbsDriver(HybridGibbsDriver):
    """cuqi.sampler.Gibbs: cumulative sample(Ns, Nb); warm-up only in the first call."""

    def construct(self):
        self.obj = self.factory()
        self._last = None
        self._cur = None
        return self

    def hook_steps(self, rec):
        from cuqiverif.core import MachineryError
        if not callable(getattr(self.obj, "step", None)):
            raise MachineryError("wrapper target %s.step is missing" % type(self.obj).__name__)
        obj, orig = self.obj, self.obj.step

        def step(cur):
            if not rec["rng"]:
                rec["rng"].append(np.random.get_state())
                rec["pt"].append(None)
            out = orig(cur)
            rec["rng"].append(np.random.get_state())
            rec["pt"].append(np.concatenate([np.asarray(out[p], dtype=float).reshape(-1) for p in obj.par_names]))
            return out
        obj.step = step

    def warmup(self, n):
        self._pending_nb = n       # executed together with the first sample call

    def sample(self, n):
        nb = getattr(self, "_pending_nb", 0)
        self._pending_nb = 0
        self._last = self.obj.sample(n, nb) if nb else self.obj.sample(n)

    def chain(self):
        if self._last is None:
            return np.zeros((0, 0))
        return np.vstack([_cols(self._last[p].samples) for p in self.obj.par_names])


# ----------------------------------------------------------------------------------------------------------
def reference_run(driver, seed, warm, K):
    """Uninterrupted run: seed . construct . [warmup(warm)] . sample(K).  Returns rec with rec['pt'][k], rec['rng'][k]."""
    np.random.seed(seed)
    driver.construct()
    rec = {"rng": [], "pt": []}
    driver.hook_steps(rec)
    if warm:
        driver.warmup(warm)
    driver.sample(K)
    full = driver.chain()
    return rec, full


def run_behaviour(ctx, name, driver_cls, factory, case, seed, workdir, ref_cache, legacy_gibbs=False):
    """Execute one TLC behaviour (stateful interface) on fresh instances; compare after every operation."""
    from cuqiverif.core import MachineryError
    warm, prog = case["warm"], case["prog"]
    case = dict(case, seed=seed)          # the replay file must reproduce this run whatever VERIF_SEED the replay is given
    K = max([e["k"] for e in prog] + [1]) + 1 + TAIL

    def get_ref(w):
        """reference run (uninterrupted, warm-up length w) -> (S, RNG), or None if it cannot be made"""
        key = (name, w)
        if key not in ref_cache or (ref_cache[key] is not None and len(ref_cache[key][0]["pt"]) <= K):
            try:
                ref_cache[key] = reference_run(driver_cls(factory, workdir), seed, w, max(K, 22))
            except MachineryError:
                raise
            except Exception as ex:
                # the plain uninterrupted run  construct . [warmup(W)] . sample(K)  does not deliver a chain
                ref_cache[key] = None
                ctx.mismatch("stateful/%s/error/reference" % name, dict(case, sampler=name),
                             "the uninterrupted run warmup(%d).sample(%d) raised %s: %s" % (w, max(K, 22), type(ex).__name__, str(ex)[:200]))
        if ref_cache[key] is None:
            return None
        return ref_cache[key][0]["pt"], ref_cache[key][0]["rng"]

    def sig(clause):
        return "stateful/%s/%s" % (name, clause)

    ref = get_ref(warm)
    if ref is None:
        return
    S, RNG = ref
    ref_warm = warm             # warm-up length of the reference run the indices currently refer to
    saved_ref_warm = warm

    drv = driver_cls(factory, workdir)
    np.random.seed(seed)
    drv.construct()
    saved = None
    seen_prefix = None          # chain as returned after the previous op of this instance
    import zlib
    how = "file" if (zlib.crc32(str(prog).encode()) % 2 == 0) else "mem"      # deterministic (no PYTHONHASHSEED dependence)
    warm_offset = 0
    for pos, e in enumerate(prog):
        op = e["op"]
        try:
            if op == "warmup":
                drv.warmup(e["n"])
                if legacy_gibbs:
                    continue          # executed with the first sample call; legacy Gibbs keeps warm-up samples apart
            elif op == "sample":
                drv.sample(e["n"])
            elif op == "save":
                if not drv.has_ckpt:
                    return
                saved = drv.save("%s_%d" % (name, os.getpid()), how)
                saved_k = e["k"]
                saved_ref_warm = ref_warm
            elif op == "saveall":
                # SamplerHist.tla: checkpoint AND a snapshot of the record (get_history), taken at the same idle moment
                if not drv.has_ckpt:
                    return
                saved = drv.save("%s_%d" % (name, os.getpid()), how)
                saved_k = e["k"]
                saved_ref_warm = ref_warm
                saved_hist = drv.history_snapshot()
            elif op in ("freshload", "freshloadall"):
                if not drv.has_ckpt:
                    return
                drv.fresh_load(saved)
                if op == "freshloadall":
                    # set_history installs the lists it is given (a later transition appends to them): every load gets its own copy
                    import copy as _copy
                    drv.obj.set_history(_copy.deepcopy(saved_hist))
                if saved_ref_warm != ref_warm:          # the checkpoint was taken before a reinitialize(): back to that run
                    ref_warm = saved_ref_warm
                    ref = get_ref(ref_warm)
                    if ref is None:
                        return
                    S, RNG = ref
                # the loaded sampler must be in the state of the uninterrupted run at the checkpoint: compare the attributes
                # a transition reads (chain point, cached evaluations, tuned parameters) with a twin run uninterrupted to k
                twin = driver_cls(factory, workdir)
                np.random.seed(seed)
                twin.construct()
                if ref_warm:
                    twin.warmup(ref_warm)
                if e["k"] - ref_warm > 0:
                    twin.sample(e["k"] - ref_warm)
                for attr in STATE_ATTRS + TUNING_ATTRS:
                    if hasattr(twin.obj, attr) and hasattr(drv.obj, attr):
                        a, b = getattr(twin.obj, attr), getattr(drv.obj, attr)
                        if a is None or b is None or callable(a):
                            continue
                        if not _eq(a, b):
                            if attr in TUNING_ATTRS:
                                ctx.observations.setdefault("tuning_state_not_restored", {})["%s/%s" % (name, attr)] = True
                                continue
                            ctx.mismatch(sig("resume_state/" + attr), dict(case, sampler=name, pos=pos),
                                         "after loading the checkpoint taken at k=%d into a fresh sampler, %s differs from the "
                                         "uninterrupted run at that point" % (e["k"], attr), a, b)
                            return
                np.random.set_state(RNG[e["k"]])      # RestoreStream: position of the uninterrupted run at the checkpoint
                seen_prefix = None
            elif op == "reinit":
                if not drv.has_ckpt:
                    return
                # both initialisations read the same random stream (some samplers draw while initialising)
                rng_before = np.random.get_state()
                drv.reinit()
                st = drv.state()
                rng_after_reinit = np.random.get_state()
                np.random.set_state(rng_before)
                fr = drv.fresh_state()
                # what initialize() of a freshly CONSTRUCTED sampler consumes from the same position (the constructor itself may
                # draw, e.g. to validate its target: that is not part of a re-initialisation)
                rng_after_fresh = drv.stream_after_initialize(rng_before)
                # ... and consume the same part of it: a re-initialised sampler continues exactly like a fresh one
                if not (rng_after_reinit[2] == rng_after_fresh[2] and np.array_equal(rng_after_reinit[1], rng_after_fresh[1])):
                    ctx.mismatch(sig("reinit_stream"), dict(case, sampler=name, pos=pos),
                                 "reinitialize() does not consume the random numbers a fresh initialisation consumes (a re-initialised "
                                 "sampler then continues differently from a fresh one on the same stream)")
                    return
                ok = set(st) == set(fr) and all(
                    (st[q] is None and fr[q] is None) or (st[q] is not None and fr[q] is not None and _eq(st[q], fr[q]))
                    for q in st)
                if not ok:
                    ctx.mismatch(sig("reinit"), dict(case, sampler=name, pos=pos),
                                 "state after reinitialize() differs from a freshly initialised sampler",
                                 expected={q: fr[q] for q in fr}, observed={q: st.get(q) for q in fr})
                if not ok:
                    return
                if ref_warm != 0:
                    # the warm-up is discarded with everything else: from here on the run of an un-warmed fresh sampler
                    ref_warm = 0
                    ref = get_ref(0)
                    if ref is None:
                        return
                    S, RNG = ref
                np.random.set_state(RNG[0])
                seen_prefix = None
        except MachineryError:
            raise
        except Exception as ex:
            ctx.mismatch(sig("error/" + op), dict(case, sampler=name, pos=pos),
                         "operation %s raised %s: %s" % (op, type(ex).__name__, str(ex)[:200]))
            return
        # ---- compare the projected state with the spec's prediction after this operation ----
        hist = e["hist"]
        if legacy_gibbs:
            hist = [h for h in hist if h > ref_warm]      # warm-up sweeps are not part of the returned chain
        chain = drv.chain()
        ncol = chain.shape[1] if chain.size else 0
        clause = "resume" if e["start"] > 0 else ("continuity" if sum(1 for q in prog[:pos + 1] if q["op"] == "sample" and q["n"] > 0) > 1 else "chain")
        if ncol != len(hist):
            ctx.mismatch(sig("length"), dict(case, sampler=name, pos=pos),
                         "recorded chain has %d states, requested %d" % (ncol, len(hist)), len(hist), ncol)
            return
        for j, kidx in enumerate(hist):
            if not _eq(chain[:, j], S[kidx]):
                ctx.mismatch(sig(clause), dict(case, sampler=name, pos=pos),
                             "recorded state %d is not state S(%d) of the uninterrupted run" % (j, kidx),
                             expected=S[kidx], observed=chain[:, j])
                return
        if seen_prefix is not None and seen_prefix.size and not (
                chain.shape[1] >= seen_prefix.shape[1] and np.array_equal(chain[:, :seen_prefix.shape[1]], seen_prefix)):
            ctx.mismatch(sig("appendonly"), dict(case, sampler=name, pos=pos),
                         "entries returned earlier were altered by later transitions")
            return
        seen_prefix = chain.copy()
        if drv.has_cb:
            cb = drv.cblog
            if len(cb) != e["ncb"]:
                ctx.mismatch(sig("callback"), dict(case, sampler=name, pos=pos),
                             "callback invoked %d times, %d transition-produced states" % (len(cb), e["ncb"]), e["ncb"], len(cb))
                return
            cbbase = len(hist) - e["ncb"]       # entries of the record that were loaded with set_history (SamplerHist.tla), else 0
            for j, (val, idx) in enumerate(cb):
                if idx != cbbase + j or not _eq(val, S[hist[cbbase + j]]):
                    ctx.mismatch(sig("callback"), dict(case, sampler=name, pos=pos),
                                 "callback %d received (state, index) other than (S(%d), %d)" % (j, hist[cbbase + j], cbbase + j),
                                 expected=[S[hist[cbbase + j]], cbbase + j], observed=[val, idx])
                    return
    if drv.has_ckpt and any(e["op"] in ("freshload", "freshloadall") for e in prog) and prog[-1]["k"] + TAIL < len(S):
        e = prog[-1]
        try:
            drv.sample(TAIL)
            chain = drv.chain()
        except Exception as ex:
            ctx.mismatch(sig("error/tail"), dict(case, sampler=name), "sampling after the behaviour raised %s" % type(ex).__name__)
            return
        for j in range(TAIL):
            kidx = e["k"] + 1 + j
            col = len(e["hist"]) + j
            if chain.shape[1] <= col or not _eq(chain[:, col], S[kidx]):
                ctx.mismatch(sig("resume"), dict(case, sampler=name, tail=j),
                             "state %d after the loaded checkpoint is not state S(%d) of the uninterrupted run" % (col, kidx),
                             S[kidx], chain[:, col] if chain.shape[1] > col else None)
                return
    ctx.traces += 1


def probe_recorded_faithfully(ctx, name, driver_cls, factory, workdir, seed):
    """The recorded chain lists exactly the states the transitions produced (judged against an independent record of
    the sampler's point after every transition), also when the same object is re-initialised and run again for the SAME
    number of steps on a DIFFERENT random stream, and when get_samples() is called repeatedly in between."""
    drv = driver_cls(factory, workdir)
    np.random.seed(seed)
    drv.construct()
    rec = {"rng": [], "pt": []}
    drv.hook_steps(rec)
    case = {"kind": "probe", "sampler": name}

    def same(tag):
        chain = drv.chain()
        pts = [p for p in rec["pt"] if p is not None]
        n = chain.shape[1] if chain.size else 0
        if n != len(pts) or any(not _eq(chain[:, j], pts[j]) for j in range(n)):
            ctx.mismatch("stateful/%s/recorded/%s" % (name, tag), dict(case, step=tag),
                         "get_samples() does not list the states the transitions produced (%s)" % tag,
                         [list(p) for p in pts], chain.T.tolist() if chain.size else [])
            return False
        return True
    try:
        drv.sample(3)
        if not same("sample3"):
            return
        drv.chain()
        drv.sample(2)
        if not same("sample3+2"):
            return
        if drv.has_ckpt:
            drv.reinit()
            rec["pt"].clear()
            rec["rng"].clear()
            np.random.seed(seed + 12345)           # another stream: the new chain differs from the old one
            drv.sample(5)
            if not same("reinit.sample5"):
                return
    except Exception as ex:
        ctx.mismatch("stateful/%s/recorded/error" % name, case, "probe raised %s: %s" % (type(ex).__name__, str(ex)[:150]))
        return
    ctx.traces += 1


# ----------------------------------------------------------------------------------------------------------
# stateless interface
# ----------------------------------------------------------------------------------------------------------
def run_legacy(ctx, name, factory, N, Nb, seed, expected_ret, method="sample"):
    def sig(clause):
        return "legacy/%s/%s/%s" % (name, method, clause)
    case = {"kind": "legacy", "sampler": name, "N": N, "Nb": Nb, "method": method, "seed": seed}
    from cuqiverif.zoo import quiet
    log = []
    cb = lambda s, i: log.append((np.array(s, dtype=float, copy=True).reshape(-1), int(i)))
    try:
        with quiet():
            np.random.seed(seed)
            smp = factory(callback=cb)
            x0 = np.array(smp.x0, dtype=float, copy=True).reshape(-1)
            out = getattr(smp, method)(N, Nb)
    except Exception as ex:
        ctx.observations.setdefault("legacy_errors", {})["%s/%s/N=%d/Nb=%d" % (name, method, N, Nb)] = "%s: %s" % (type(ex).__name__, str(ex)[:100])
        if log:
            # not a refusal of the request (those are raised before anything is sampled, e.g. NUTS with adaptation and
            # Nb = 0): transitions were made and reported to the callback, but no chain was delivered
            ctx.case(("legacy", name, method, N, Nb))
            ctx.mismatch(sig("error"), case, "%s(%d, %d) failed after %d transitions with %s: %s" % (
                method, N, Nb, len(log), type(ex).__name__, str(ex)[:150]), "a chain of %d states" % N, "exception")
        return
    if not hasattr(out, "samples"):        # N + Nb == 1: the stateless interface returns a bare array
        a = np.asarray(out, dtype=float)
        ret = a.reshape(-1, N) if (N > 0 and a.size) else np.zeros((len(x0), 0))
    else:
        ret = _cols(out.samples)
    ctx.case(("legacy", name, method, N, Nb))
    if ret.shape[1] != N:
        ctx.mismatch(sig("length"), case, "returned chain has %d states, requested N=%d" % (ret.shape[1], N), N, ret.shape[1])
        return
    # the chain S(0..N+Nb-1): S(0) = x0; S(i), i >= 1, as reported to the callback at the time of the transition
    total = N + Nb
    adaptive = method != "sample" or name in ADAPTS_IN_SAMPLE
    if not adaptive:
        # independent reference: same stream, no burn-in discarded
        with quiet():
            np.random.seed(seed)
            ref = _cols(factory(callback=None).sample(total, 0).samples) if total > 1 else x0.reshape(-1, 1)
        if not _eq(ref[:, 0], x0):
            ctx.mismatch(sig("initial"), case, "chain does not begin with the initial point", x0, ref[:, 0])
            return
        for j, kidx in enumerate(expected_ret):
            if not _eq(ret[:, j], ref[:, kidx]):
                ctx.mismatch(sig("burnin"), case, "returned state %d is not state S(%d) of the chain" % (j, kidx),
                             ref[:, kidx], ret[:, j])
                return
        S = [ref[:, i] for i in range(total)]
    else:
        S = [x0] + [v for v, _ in log]
    if len(log) != total - 1:
        ctx.mismatch(sig("callback_count"), case, "callback invoked %d times for %d transitions" % (len(log), total - 1),
                     total - 1, len(log))
        return
    for i, (val, idx) in enumerate(log):
        if idx != i + 1:
            ctx.mismatch(sig("callback_index"), case, "callback %d received index %d" % (i, idx), i + 1, idx)
            return
        if not adaptive and not _eq(val, S[i + 1]):
            ctx.mismatch(sig("callback_state"), case, "callback %d received a state other than S(%d)" % (i, i + 1), S[i + 1], val)
            return
    # recorded entries equal the states reported at transition time (never altered afterwards)
    for j, kidx in enumerate(expected_ret):
        if kidx < len(S) and not _eq(ret[:, j], S[kidx]):
            ctx.mismatch(sig("altered"), case,
                         "recorded state %d differs from the state S(%d) produced/reported by its transition" % (j, kidx),
                         S[kidx], ret[:, j])
            return
    ctx.traces += 1


def run_legacy_repeat(ctx, name, factory, seed):
    """Stateless interface, one object used twice: every call begins again with the initial point, and (no adaptation)
    the same random stream gives the same chain - nothing is carried over from the previous call."""
    from cuqiverif.zoo import quiet
    case = {"kind": "legacy_repeat", "sampler": name, "seed": seed}
    try:
        with quiet():
            smp = factory(callback=None)
            x0 = np.array(smp.x0, dtype=float, copy=True).reshape(-1)
            np.random.seed(seed)
            a = _cols(smp.sample(4, 1).samples)
            np.random.seed(seed)
            b = _cols(smp.sample(4, 1).samples)
            np.random.seed(seed + 1)
            c = _cols(smp.sample(3, 0).samples)
    except Exception as ex:
        ctx.observations.setdefault("legacy_errors", {})["%s/repeat" % name] = "%s: %s" % (type(ex).__name__, str(ex)[:100])
        return
    ctx.case(("legacy_repeat", name))
    if name not in ADAPTS_IN_SAMPLE and (a.shape != b.shape or not np.allclose(a, b, rtol=RTOL, atol=1e-12)):
        ctx.mismatch("legacy/%s/sample/repeat" % name, case, "a second sample() call on the same object with the same random stream "
                     "gives another chain (state carried over between calls of the stateless interface)", a, b)
        return
    if name != "CWMH" and not _eq(c[:, 0], x0):       # legacy CWMH: known finding C14-F1 (judged in run_legacy)
        ctx.mismatch("legacy/%s/sample/repeat_initial" % name, case, "a later sample() call does not begin with the initial point", x0, c[:, 0])


# ----------------------------------------------------------------------------------------------------------
# code -> spec: recorded executions validated by TLC against TraceSamplerLife.tla
# ----------------------------------------------------------------------------------------------------------
TRACE_CFG = """CONSTANTS
  Sizes <- AnyN
  Warm <- AnyN
  MaxOps = 1000000
  LegN = {0}
  LegNb = {0}
  Strict = FALSE
  Emit = FALSE
  DevLoadRestarts = FALSE
  DevCallbackBeforeAppend = FALSE
  DevLegacyDropsInitial = FALSE
INIT TraceInit
NEXT TraceNext
INVARIANT @@ACCEPT@@
CHECK_DEADLOCK FALSE
"""


def record_own_runs(seed):
    """Drive every stateful sampler (and HybridGibbs, whose block samplers are stepped directly) under the recorder."""
    from cuqiverif import record, zoo
    rec = record.Recorder()
    record.install_sampler_life(rec)
    try:
        with zoo.quiet():
            np.random.seed(seed)
            for name, fac in zoo.stateful_factories().items():
                s = fac(callback=lambda x, i: None)
                s.warmup(7, 0.3).sample(4)        # tuning interval int(0.3 * 7) = 2: tuning is due after steps 2, 4, 6 only
                s.get_samples()
                s.sample(0).sample(2)
                s.get_samples()
                s.reinitialize()
                s.sample(2).warmup(2)
                s.get_samples()
            for name, fac in zoo.hybrid_gibbs_factories().items():
                g = fac()
                g.warmup(2).sample(3)
    finally:
        rec.uninstall()
    return rec.trace_list()


def record_repo_tests(workdir, tests=("tests/zexperimental/test_mcmc.py",), timeout=1500):
    """Run the repository's own sampler tests under the recorder plugin; returns the recorded traces."""
    import json, subprocess, sys
    from cuqiverif.core import MachineryError
    repo = os.environ.get("CUQIVERIF_REPO", "/repo")
    out = os.path.join(workdir, "repo_traces.json")
    # the tests write files relative to the current directory (checkpoint.pickle, CUQI_samples/): run them in a scratch
    # directory, so that nothing is left in the repository and concurrent checks cannot read each other's checkpoint
    cwd = os.path.join(workdir, "pytest_cwd")
    os.makedirs(cwd, exist_ok=True)
    env = dict(os.environ, CUQIPY_VERIF="1", CUQIVERIF_TRACE_OUT=out, CUQIVERIF_RECORD="life",
               PYTHONPATH=HARNESS + os.pathsep + repo, TQDM_DISABLE="1", PYTHONDONTWRITEBYTECODE="1")
    try:
        p = subprocess.run([sys.executable, "-m", "pytest", "-q", "-p", "no:cacheprovider", "-p", "cuqiverif.pytest_recorder",
                            "--timeout=900", "--rootdir", repo] + [os.path.join(repo, t) for t in tests], cwd=cwd, env=env,
                           stdout=subprocess.PIPE, stderr=subprocess.STDOUT, text=True, timeout=timeout)
    except subprocess.TimeoutExpired:
        raise MachineryError("recording the repository's tests timed out after %ss" % timeout)
    if not os.path.exists(out):
        raise MachineryError("recorder plugin produced no trace file; pytest tail:\n" + "\n".join(p.stdout.splitlines()[-15:]))
    # a test failing under the recorder does not cut the recording short (no -x); which ones failed is logged - the
    # recorder must be transparent, so a test that passes without it and fails with it is a defect of the recorder
    failed = [l.split(" ")[1] for l in p.stdout.splitlines() if l.startswith("FAILED ") and " " in l][:20]
    return json.load(open(out)), {"returncode": p.returncode, "failed": failed}


def trace_facet(ctx, workdir):
    from cuqiverif import trace
    from cuqiverif.core import MachineryError
    traces = record_own_runs(3000 + ctx.seed)
    src = ["own"] * len(traces)
    if ctx.tier == "thorough":
        rt, rc = record_repo_tests(workdir)
        ctx.observe("repo_tests_recorded", {"traces": len(rt), "pytest": rc})
        traces += rt
        src += ["repo-tests"] * len(rt)
    verdicts = trace.validate(ctx, traces, "TraceSamplerLife", TRACE_CFG, extra_modules=("SamplerLife.tla",), label="c14trace")
    for v, t, sname in zip(verdicts, traces, src):
        ctx.case(("trace", sname, v["tid"], len(t["events"])), nontrivial=len(t["events"]) > 2)
        if v["ok"]:
            ctx.traces += 1
        else:
            nxt = v["next"] or {}
            ctx.mismatch("trace/%s/%s" % ((v["meta"] or {}).get("cls", "?"), nxt.get("e", "end")),
                         {"kind": "trace", "meta": v["meta"], "window": v["window"]},
                         "recorded execution is not a behaviour of SamplerLife: event %d (%s) cannot follow %s" % (
                             v["matched"] + 1, nxt, v["last"]))
    ctx.observe("traces_recorded", {"own": src.count("own"), "repo-tests": src.count("repo-tests"),
                                    "events": sum(len(t["events"]) for t in traces)})
    # demonstrate the binding: corrupt one field / remove one event of an accepted trace -> must be rejected
    good = next((t for v, t in zip(verdicts, traces) if v["ok"] and any(e["e"] == "cb" for e in t["events"])), None)
    if good is None:
        if ctx.violations:
            return          # every trace of a broken tree is rejected: the violations stand, nothing to self-test
        raise MachineryError("no accepted trace with a callback event: trace facet is vacuous")

    def bump_idx(ev):
        i = max(j for j, e in enumerate(ev) if e["e"] == "cb")
        ev[i]["idx"] += 1

    def drop_cb(ev):
        i = max(j for j, e in enumerate(ev) if e["e"] == "cb")
        del ev[i]

    def alter_entry(ev):
        gi = [j for j, e in enumerate(ev) if e["e"] == "get" and e["ids"]]
        if gi:
            ev[gi[-1]]["ids"][0] += 1
        else:
            bump_idx(ev)
    def wrong_tune(ev):
        ti = [j for j, e in enumerate(ev) if e["e"] == "tune" and e.get("win") == 1]
        if ti:
            ev[ti[-1]]["count"] += 1
        else:
            bump_idx(ev)

    def missing_tune(ev):
        ti = [j for j, e in enumerate(ev) if e["e"] == "tune" and e.get("win") == 1]
        if ti:
            del ev[ti[0]]
        else:
            drop_cb(ev)
    tuned = next((t for v, t in zip(verdicts, traces) if v["ok"] and any(e["e"] == "tune" and e.get("win") == 1 for e in t["events"])), None)
    if tuned is None:
        raise MachineryError("no accepted trace with a tuning event inside a warm-up window")
    for nm, mut in (("wrong_tune", wrong_tune), ("missing_tune", missing_tune)):
        if not trace.corrupt_selftest(ctx, tuned, "TraceSamplerLife", TRACE_CFG, mut, extra_modules=("SamplerLife.tla",)):
            raise MachineryError("corrupted trace (%s) was accepted: binding is not effective" % nm)
    for nm, mut in (("bump_idx", bump_idx), ("drop_cb", drop_cb), ("alter_entry", alter_entry)):
        if not trace.corrupt_selftest(ctx, good, "TraceSamplerLife", TRACE_CFG, mut, extra_modules=("SamplerLife.tla",)):
            raise MachineryError("corrupted trace (%s) was accepted: binding is not effective" % nm)
    ctx.observe("binding_selftest", "5 corruptions of accepted traces rejected (callback index, missing callback, altered entry, "
                "wrong tuning counter, missing tuning call)")
    ctx.sample({"trace": good["meta"], "first_events": good["events"][:8]})


# ----------------------------------------------------------------------------------------------------------
# growth beyond the listed property: batches written to disk (BatchQueue.tla)
# ----------------------------------------------------------------------------------------------------------
def batch_facet(ctx, workdir):
    import glob
    from cuqiverif import zoo
    res = ctx.tlc("BatchQueue", cfg="BatchQueue.cfg", workers=4)
    ctx.model_must_hold(res, "BatchQueue")
    fac = zoo.stateful_factories()["MH"]
    for c in res.cases:
        b, n = c["b"], c["n"]
        path = os.path.join(workdir, "batches_%d_%d" % (b, n)) + "/"
        with zoo.quiet():
            np.random.seed(11)
            s = fac()
            s.sample(n, batch_size=b, sample_path=path)
        chain = _cols(s.get_samples().samples)
        # the reference is the same run WITHOUT batches (same seed): writing batches to disk changes nothing in the chain
        with zoo.quiet():
            np.random.seed(11)
            ref = fac()
            ref.sample(n)
        ref_chain = _cols(ref.get_samples().samples)
        if chain.shape != ref_chain.shape or not np.array_equal(chain, ref_chain):
            ctx.mismatch("batch/b=%d/chain" % b, dict(c), "with batches written to disk the recorded chain is not the chain of the same run without "
                         "batches (%d states, %d expected)" % (chain.shape[1], ref_chain.shape[1]), ref_chain, chain)
            continue
        import re as _re
        files = sorted(glob.glob(path + "batch_*.npz"),
                       key=lambda f: [int(t) if t.isdigit() else t for t in _re.split(r"(\d+)", os.path.basename(f))])
        ctx.case(("batch", b, n))
        sig = "batch/b=%d" % b
        if len(files) < len(c["dumped"]):
            ctx.mismatch(sig + "/missing", dict(c), "fewer batch files than complete batches", len(c["dumped"]), len(files))
            continue
        for i, exp in enumerate(c["dumped"]):
            z = np.load(files[i])
            got = np.asarray(z["samples"], dtype=float)
            want = chain[:, [k - 1 for k in exp]].T
            if int(z["batch_id"]) != i or got.shape != want.shape or not np.array_equal(got, want):
                ctx.mismatch(sig + "/content", dict(c, batch=i), "batch %d does not hold samples %s of the chain in order" % (i, exp), want, got)
                break
        if len(files) > len(c["dumped"]):
            z = np.load(files[len(c["dumped"])])
            want = chain[:, [k - 1 for k in c["pending"]]].T
            if not np.array_equal(np.asarray(z["samples"], dtype=float), want):
                ctx.mismatch(sig + "/tail", dict(c), "extra batch does not hold the pending samples", want, z["samples"])
        ctx.observations.setdefault("partial_last_batch_flushed", {})["b=%d,n=%d" % (b, n)] = len(files) > len(c["dumped"])


# ----------------------------------------------------------------------------------------------------------
# ----------------------------------------------------------------------------------------------------------
# growth beyond the listed checkpoint: the record carried over with get_history / set_history (SamplerHist.tla)
# ----------------------------------------------------------------------------------------------------------
def hist_facet(ctx, sf, rnd, workdir, ref_cache):
    from cuqiverif import zoo
    from cuqiverif.core import MachineryError
    import json as _json
    res = ctx.tlc("SamplerHist", cfg="SamplerHist.%s.cfg" % ctx.tier, workers=8, extra_modules=["SamplerLife.tla"],
                  require_actions=["SaveAll", "FreshLoadAll"])
    ctx.model_must_hold(res, "SamplerHist")
    for cfg, inv in (("dev_notloaded", "Tracks"), ("dev_aliased", "Tracks")):
        r = ctx.tlc("SamplerHist", cfg="SamplerHist.%s.cfg" % cfg, workers=4, extra_modules=["SamplerLife.tla"], expect_violation=True)
        if r.ok or r.violated != inv:
            raise MachineryError("deviation %s of SamplerHist did not violate %s (got %r): invariant is vacuous" % (cfg, inv, r.violated))
    cases = sorted(res.cases, key=lambda c: _json.dumps(c, sort_keys=True))
    if not cases:
        raise MachineryError("SamplerHist emitted no behaviours")

    def core(c):
        # the record is loaded and the new instance then produces states (the callback index and the continuation are exercised)
        ops = [e["op"] for e in c["prog"]]
        i = ops.index("freshloadall")
        return len(c["prog"][i]["hist"]) > 0 and any(e["op"] == "sample" and e["n"] > 0 for e in c["prog"][i + 1:])
    keep = [c for c in cases if core(c)]
    limit = 12 if ctx.tier == "quick" else 150
    ran = 0
    for name, fac in sf.items():
        sel = keep if len(keep) <= limit else rnd.sample(keep, limit)
        for c in sel:
            ctx.case(("hist", name, c["warm"], tuple((e["op"], e["n"]) for e in c["prog"])))
            with zoo.quiet():
                run_behaviour(ctx, name, SamplerDriver, fac, c, 1000 + ctx.seed, workdir, ref_cache)
            ran += 1
    if ran == 0:
        raise MachineryError("vacuous: no SamplerHist behaviour was replayed")
    ctx.facets["hist/behaviours"] = ctx.facets.get("hist/behaviours", 0) + ran


def bp_problems():
    """one small Bayesian problem per dispatch branch of BayesianProblem.sample_posterior"""
    import cuqi
    from cuqi.distribution import Gaussian, GMRF, LMRF
    n = 4
    A = np.eye(n) + 0.3 * np.diag(np.ones(n - 1), 1)
    lin = cuqi.model.LinearModel(A)
    data = A @ np.array([0.3, -0.5, 0.8, 0.1]) + 0.01
    nonlin = lambda z: np.tanh(z) + 0.1 * z ** 3
    out = {}

    def mk(name, prior, model, sigma2=0.05 ** 2):
        def f():
            x = prior()
            y = Gaussian(model()(x), sigma2)
            return cuqi.problem.BayesianProblem(y, x).set_data(y=np.array(data, copy=True))
        out[name] = f
    mk("direct", lambda: Gaussian(np.zeros(n), 1.0), lambda: cuqi.model.LinearModel(A))
    mk("LinearRTO", lambda: GMRF(np.zeros(n), 4.0), lambda: cuqi.model.LinearModel(A))
    mk("UGLA", lambda: LMRF(0, 0.5, geometry=n), lambda: cuqi.model.LinearModel(A))
    mk("NUTS", lambda: Gaussian(np.zeros(n), 1.0),
       lambda: cuqi.model.Model(nonlin, range_geometry=n, domain_geometry=n, gradient=lambda d, z: d * (1 - np.tanh(z) ** 2 + 0.3 * z ** 2)))
    mk("pCN", lambda: Gaussian(np.zeros(n), 1.0), lambda: cuqi.model.Model(nonlin, range_geometry=n, domain_geometry=n))
    mk("RegularizedLinearRTO", lambda: cuqi.implicitprior.RegularizedGaussian(np.zeros(n), 1.0, constraint="nonnegativity"),
       lambda: cuqi.model.LinearModel(A))
    return out


def bp_facet(ctx):
    """BayesianProblem.sample_posterior(Ns, Nb) wraps a sampler run: what it hands to the user is governed by the same rule as the
    stateless interface of SamplerLife.tla (LegacySample: `ret = SubSeq(chain, Nb + 1, N + Nb)`, burn-in discarded, the last N
    states) - for every dispatch branch, both sampler families, with the states produced seen through the documented callback."""
    from cuqiverif import zoo
    for name, fac in bp_problems().items():
        for experimental in (False, True):
            for Ns, Nb in ((12, 3), (10, 0), (10, None), (11, 5)):      # the adaptive stateless samplers need N >= 10
                states = []

                def callback(sample, idx):
                    states.append(np.array(sample, dtype=float).reshape(-1).copy())
                case = {"kind": "bp", "problem": name, "experimental": experimental, "Ns": Ns, "Nb": Nb}
                ctx.case(("bp", name, experimental, Ns, Nb))
                try:
                    with zoo.quiet():
                        np.random.seed(4100 + ctx.seed)
                        bp = fac()
                        if Nb is None:
                            res = bp.sample_posterior(Ns, callback=callback, experimental=experimental)
                        else:
                            res = bp.sample_posterior(Ns, Nb, callback=callback, experimental=experimental)
                except Exception as ex:
                    k = "bp_refused/%s/%s" % (name, "exp" if experimental else "leg")
                    ctx.observations[k] = "%s: %s" % (type(ex).__name__, str(ex)[:80])
                    continue
                R = np.asarray(res.samples, dtype=float)
                R = R.reshape(1, -1) if R.ndim == 1 else R
                sig = "bp/%s/%s/Ns=%d/Nb=%s" % (name, "exp" if experimental else "leg", Ns, Nb)
                ctx.facets["bp/" + name + ("/exp" if experimental else "/leg")] = ctx.facets.get("bp/" + name + ("/exp" if experimental else "/leg"), 0) + 1
                if R.shape[1] != Ns:
                    ctx.mismatch(sig + "/length", case, "sample_posterior(Ns=%d, Nb=%s) returned %d states" % (Ns, Nb, R.shape[1]), Ns, R.shape[1])
                    continue
                C = states
                if len(C) >= Ns:
                    exp = np.array(C[-Ns:]).T
                    got = R
                elif len(C) == Ns - 1 and Ns > 1:
                    exp = np.array(C).T
                    got = R[:, 1:]
                else:
                    ctx.facets["bp_callback_not_per_state/" + name] = ctx.facets.get("bp_callback_not_per_state/" + name, 0) + 1
                    continue
                if exp.shape != got.shape or not np.array_equal(exp, got):
                    ctx.mismatch(sig + "/states", case, "the chain handed to the user is not the last Ns states the sampler produced "
                                 "(as seen through the callback)", exp, got)
                ctx.traces += 1


def _select(cases, rnd, limit):
    if limit is None or len(cases) <= limit:
        return cases
    # always keep the behaviours that load a checkpoint and then sample again (every checkpoint position, with and
    # without warm-up) and those that re-initialise; sample the rest
    def core(c):
        ops = [e["op"] for e in c["prog"]]
        if "reinit" in ops:
            return True
        if "freshload" in ops:
            i = ops.index("freshload")
            return any(e["op"] == "sample" and e["n"] > 0 for e in c["prog"][i + 1:])
        return False
    keep = [c for c in cases if core(c)]
    if len(keep) > limit:
        keep = rnd.sample(keep, limit)
    rest = [c for c in cases if not core(c)]
    return keep + rnd.sample(rest, min(len(rest), max(limit - len(keep), limit // 3)))


def run(ctx):
    import cuqi  # noqa
    from cuqiverif import zoo
    from cuqiverif.core import MachineryError
    os.environ.setdefault("TQDM_DISABLE", "1")
    warnings.filterwarnings("ignore")
    # 1. model checking + behaviour emission
    res = ctx.tlc("SamplerLife", cfg="SamplerLife.%s.cfg" % ctx.tier, workers=16,
                  require_actions=["BeginWarmup", "BeginSample", "Step", "Save", "FreshLoad", "Reinit", "LegacySample"])
    ctx.model_must_hold(res, "SamplerLife")
    # 2. non-vacuity: every named deviation must violate its invariant
    for cfg, inv in (("dev_load", "Tracks"), ("dev_cb", "CallbackOnce"), ("dev_legacy", "LegacyOK")):
        r = ctx.tlc("SamplerLife", cfg="SamplerLife.%s.cfg" % cfg, workers=4, expect_violation=True)
        if r.ok or r.violated != inv:
            raise MachineryError("deviation %s did not violate %s (got %r): invariant is vacuous" % (cfg, inv, r.violated))
    import json as _json
    allcases = sorted(res.cases, key=lambda c: _json.dumps(c, sort_keys=True))     # TLC's workers emit in scheduling order
    stateful = [c for c in allcases if c["iface"] == "stateful"]
    legacy = [c for c in allcases if c["iface"] == "legacy"]
    if not stateful or not legacy:
        raise MachineryError("SamplerLife emitted no behaviours (stateful %d, stateless %d)" % (len(stateful), len(legacy)))
    rnd = random.Random(ctx.seed)
    workdir = os.path.join(VERIF_ROOT, ".work", "c14-%d" % os.getpid())
    os.makedirs(workdir, exist_ok=True)
    limit = 60 if ctx.tier == "quick" else 600
    ref_cache = {}
    try:
        with zoo.quiet():
            sf = zoo.stateful_factories()
            hf = zoo.hybrid_gibbs_factories()
            lg = zoo.legacy_gibbs_factory()
            lf = zoo.legacy_factories()
        plan = [(n, SamplerDriver, f, False) for n, f in sf.items()] + \
               [(n, HybridGibbsDriver, f, False) for n, f in hf.items()] + \
               [("legacy.Gibbs", LegacyGibbsDriver, lg, True)]
        for name, cls, fac, isleg in plan:
            cases = stateful
            if not cls.has_ckpt:
                cases = [c for c in cases if all(e["op"] in ("warmup", "sample") for e in c["prog"])]
            if isleg:
                # warm-up of cuqi.sampler.Gibbs happens inside the first sample call: behaviours whose first sample is non-empty
                cases = [c for c in cases if c["warm"] == 0 or
                         [e for e in c["prog"] if e["op"] == "sample"][0]["n"] > 0]
            ctx.case(("probe", name))
            with zoo.quiet():
                probe_recorded_faithfully(ctx, name, cls, fac, workdir, 1500 + ctx.seed)
            for c in _select(cases, rnd, limit):
                ctx.case(("stateful", name, c["warm"], tuple((e["op"], e["n"]) for e in c["prog"])))
                with zoo.quiet():
                    run_behaviour(ctx, name, cls, fac, c, 1000 + ctx.seed, workdir, ref_cache, legacy_gibbs=isleg)
        ctx.sample({"sampler": "MH", "behaviour": stateful[len(stateful) // 2]})
        hist_facet(ctx, sf, rnd, workdir, ref_cache)
        for name, fac in lf.items():
            for c in legacy:
                e = c["prog"][0]
                run_legacy(ctx, name, fac, e["n"], e["nb"], 2000 + ctx.seed, e["ret"], "sample")
            run_legacy_repeat(ctx, name, fac, 2100 + ctx.seed)
            for (N, Nb) in ((10, 0), (10, 3), (12, 5)):
                run_legacy(ctx, name, fac, N, Nb, 2000 + ctx.seed, list(range(Nb, N + Nb)), "sample_adapt")
        ctx.sample({"sampler": "legacy MH", "behaviour": legacy[-1]})
        trace_facet(ctx, workdir)
        batch_facet(ctx, workdir)
        bp_facet(ctx)
        if sum(1 for k in ctx.facets if k.startswith("bp/")) < 8:
            raise MachineryError("vacuous: BayesianProblem.sample_posterior facet ran on fewer than 8 (branch, interface) pairs")
    finally:
        import shutil
        shutil.rmtree(workdir, ignore_errors=True)
    ctx.rule = ("behaviours = all op sequences of the bounded SamplerLife instance emitted by TLC (terminal states); each is "
                "replayed per sampler (quick: seeded subset of %s per sampler; thorough: up to 600); distinct = (sampler, warm, op sequence)" % limit)
    ctx.exhaustive = False
    ctx.assumptions += ["numpy global random stream restored with np.random.set_state at the checkpoint position",
                        "sample_adapt of the stateless interface needs N >= 10 (its adaptation interval is int(0.1 N))"]


def replay(ctx, case):
    from cuqiverif import zoo
    from cuqiverif.core import MachineryError
    import shutil
    os.environ.setdefault("TQDM_DISABLE", "1")
    warnings.filterwarnings("ignore")
    kind = case.get("kind")
    if kind in ("trace", "model", "batch"):
        # recorded executions / model runs / batch layouts are regenerated, not stored: re-run those facets
        workdir = os.path.join(VERIF_ROOT, ".work", "c14-replay-%d" % os.getpid())
        os.makedirs(workdir, exist_ok=True)
        try:
            if kind == "trace":
                trace_facet(ctx, workdir)
            elif kind == "batch":
                batch_facet(ctx, workdir)
            else:
                res = ctx.tlc("SamplerLife", cfg="SamplerLife.%s.cfg" % ctx.tier, workers=16)
                ctx.model_must_hold(res, "SamplerLife")
        finally:
            shutil.rmtree(workdir, ignore_errors=True)
        return
    workdir = os.path.join(VERIF_ROOT, ".work", "c14-replay-%d" % os.getpid())
    os.makedirs(workdir, exist_ok=True)
    name = case.get("sampler")
    seed = case.get("seed", 1000 + ctx.seed)
    try:
        with zoo.quiet():
            if kind == "legacy":
                lf = zoo.legacy_factories()
                if name not in lf:
                    raise MachineryError("replay: unknown stateless sampler %r" % name)
                N, Nb = case["N"], case["Nb"]
                run_legacy(ctx, name, lf[name], N, Nb, case["seed"], list(range(Nb, N + Nb)), case["method"])
                return
            sf = zoo.stateful_factories()
            hf = zoo.hybrid_gibbs_factories()
            if name in sf:
                run_behaviour(ctx, name, SamplerDriver, sf[name], case, seed, workdir, {})
            elif name in hf:
                run_behaviour(ctx, name, HybridGibbsDriver, hf[name], case, seed, workdir, {})
            elif name == "legacy.Gibbs":
                run_behaviour(ctx, name, LegacyGibbsDriver, zoo.legacy_gibbs_factory(), case, seed, workdir, {}, legacy_gibbs=True)
            else:
                raise MachineryError("replay: unknown sampler %r" % name)
    finally:
        shutil.rmtree(workdir, ignore_errors=True)
