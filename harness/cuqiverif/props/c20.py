"""C20 - difference operators and the Markov-random-field priors built on them.

Spec: specs/DiffOps.tla.  TLC enumerates every configuration (dimension, node count, boundary condition, order,
wrap multiplicity), checks the structural invariants on the specification and emits the exact integer matrices;
this module compares the implementation with them entry by entry and checks that GMRF / LMRF / CMRF are built on
exactly these operators.
"""
META = {
    "claimed": True,
    "engine": "DiffOps.tla",
    "text": ("TLC checks symmetry, x'Px=|Dx|^2>=0, exact null space (rational Gauss-Jordan rank), documented bands and the "
             "Kronecker stacking on every configuration of the bounded instance (1-D n<=6/9, 2-D n<=3/4, all boundary "
             "conditions, orders 1-2) and emits the integer operators; the harness compares the real operators, "
             "PrecisionFiniteDifference and the GMRF/LMRF/CMRF quantities with them for every configuration."),
    "note": ("Bounded sizes; sign convention of `backward` rows and multiplicity of the periodic wrap row are not documented "
             "and are recorded as observations, not asserted. log pseudo-determinant evaluated numerically from TLC's "
             "integer precision matrix."),
    "technique": "TLA+ spec (DiffOps) model-checked with TLC; TLC-emitted cases replayed into cuqi.operator / MRF priors",
}

import itertools, math
import numpy as np


def _arr(M, ncols):
    if len(M) == 0:
        return np.zeros((0, ncols))
    return np.array(M, dtype=float)


def _rows_multiset(A):
    return sorted(tuple(int(round(v)) for v in row) for row in A)


def _key(c):
    return "pd=%d/n=%d/bc=%s/order=%d" % (c["pd"], c["n"], c["bc"], c["order"])


def _build_op(c, dx=None):
    import cuqi
    n = c["n"]
    nn = n if c["pd"] == 1 else (n, n)
    cls = cuqi.operator.FirstOrderFiniteDifference if c["order"] == 1 else cuqi.operator.SecondOrderFiniteDifference
    if dx is None:
        return cls(nn, bc_type=c["bc"])
    return cls(nn, bc_type=c["bc"], dx=dx)


def check_operator(ctx, c, variants):
    """c: TLC case (wm variant chosen among `variants` for periodic).  Returns the variant the code follows."""
    dim = c["n"] if c["pd"] == 1 else c["n"] ** 2
    op = _build_op(c)
    A = np.asarray(op.get_matrix().todense() if hasattr(op.get_matrix(), "todense") else op.get_matrix(), dtype=float)
    chosen = None
    for v in variants:
        D = _arr(v["D"], dim)
        if A.shape == D.shape and _rows_multiset(A) == _rows_multiset(D):
            chosen = v
            break
    sig = "operator/" + _key(c)
    if chosen is None:
        ctx.mismatch(sig, c, "rows of the difference operator differ from the stencil rows of the specification",
                     expected=[v["D"] for v in variants], observed=A)
        return None
    D = _arr(chosen["D"], dim)
    if c["bc"] == "backward":
        # sign of a row is not documented for `backward`: compare up to a sign per row, keep order
        same = A.shape == D.shape and all(np.array_equal(A[i], D[i]) or np.array_equal(A[i], -D[i]) for i in range(len(D)))
        ctx.observe("backward_row_signs_as_spec", bool(np.array_equal(A, D)))
    else:
        same = np.array_equal(A, D)
    if not same:
        ctx.mismatch(sig, c, "difference operator differs entry-wise (row order / sign) from the specification",
                     expected=D, observed=A)
    # action on vectors: matmul protocol
    x = np.arange(1, dim + 1, dtype=float) ** 2 % 7 - 3
    if not np.allclose(op @ x, A @ x, atol=1e-12):
        ctx.mismatch("matmul/" + _key(c), c, "operator @ x differs from get_matrix() @ x", A @ x, op @ x)
    # grid spacing (1-D only; 2-D refuses dx)
    if c["pd"] == 1:
        for dx in (0.5, 2.0):
            Adx = np.asarray(_build_op(c, dx).get_matrix().todense(), dtype=float)
            exp = A / dx ** c["order"]
            ctx.case(("dx", _key(c), dx))
            if not np.allclose(Adx, exp, rtol=1e-14, atol=0):
                ctx.mismatch("dx/" + _key(c) + "/dx=%g" % dx, c, "operator with grid spacing dx is not stencil/dx^order",
                             expected=exp, observed=Adx)
    return chosen


def check_precision(ctx, c, chosen, order):
    import cuqi
    dim = c["n"] if c["pd"] == 1 else c["n"] ** 2
    nn = c["n"] if c["pd"] == 1 else (c["n"], c["n"])
    P = _arr(chosen["P"], dim)
    op = cuqi.operator.PrecisionFiniteDifference(nn, bc_type=c["bc"], order=order)
    Pc = np.asarray(op.get_matrix().todense(), dtype=float)
    ctx.case(("prec", _key(c), order))
    if not np.array_equal(Pc, P):
        ctx.mismatch("precision/" + _key(c).replace("order=%d" % c["order"], "order=%d" % order), c,
                     "PrecisionFiniteDifference is not D^T D of the specification", P, Pc)


def _pdet(P, rank):
    w = np.linalg.eigvalsh(P)
    w = np.sort(w)[::-1][:rank]
    return float(np.sum(np.log(w)))


def check_priors(ctx, c, chosen, order):
    """GMRF (order 0..2), and for first-order operators LMRF / CMRF, on the configuration's grid."""
    import cuqi, io, contextlib
    n, pd, bc = c["n"], c["pd"], c["bc"]
    dim = n if pd == 1 else n * n
    if dim < 2 or bc not in ("zero", "periodic", "neumann"):
        return
    geom = cuqi.geometry.Continuous1D(n) if pd == 1 else cuqi.geometry.Image2D((n, n))
    P = _arr(chosen["P"], dim)
    D = _arr(chosen["D"], dim)
    rank = chosen["rank"]
    rng = np.random.RandomState(1000 + dim)
    mean = rng.randint(-2, 3, size=dim).astype(float)
    x = rng.randint(-3, 4, size=dim).astype(float) / 2
    keyo = "pd=%d/n=%d/bc=%s/order=%d" % (pd, n, bc, order)
    deltas = (1.0, 4.0)
    vals = []
    try:
        with contextlib.redirect_stdout(io.StringIO()):
            gm = [cuqi.distribution.GMRF(mean, d, bc_type=bc, order=order, geometry=geom) for d in deltas]
    except Exception as e:
        ctx.mismatch("gmrf_construct/" + keyo, c, "GMRF cannot be constructed for a documented configuration: %r" % e)
        return
    ctx.case(("gmrf", keyo))
    # rank: from the dependence of the normalising constant on delta  (public API only)
    l1, l2 = gm[0].logpdf(mean), gm[1].logpdf(mean)
    rank_code = 2 * (l2 - l1) / (math.log(deltas[1]) - math.log(deltas[0]))
    if abs(rank_code - rank) > 1e-6:
        ctx.mismatch("gmrf_rank/" + keyo, c, "rank used in the GMRF normalising constant is not the rank of its precision",
                     expected=rank, observed=rank_code)
    else:
        # log-determinant: logpdf(mean) at delta = 1 is  -rank/2 log(2 pi) + logdet/2
        logdet_code = 2 * (l1 + 0.5 * rank * math.log(2 * math.pi))
        logdet = _pdet(P, rank)
        if not np.isfinite(logdet_code) or abs(logdet_code - logdet) > 1e-6 * max(1, abs(logdet)):
            ctx.mismatch("gmrf_logdet/" + keyo, c, "log-determinant in the GMRF normalising constant is not the log "
                         "pseudo-determinant of its precision", expected=logdet, observed=logdet_code)
    # quadratic form uses P and the shifted variable
    for g, d in zip(gm, deltas):
        q_code = -2 * (g.logpdf(x) - g.logpdf(mean))
        q = d * (x - mean) @ P @ (x - mean)
        if abs(q_code - q) > 1e-9 * max(1, abs(q)):
            ctx.mismatch("gmrf_quadratic/" + keyo, c, "GMRF quadratic form is not delta (x-mean)' P (x-mean)", q, q_code)
    # square-root precision
    S = gm[1].sqrtprec
    S = np.asarray(S.todense() if hasattr(S, "todense") else S, dtype=float)
    tol = 1e-12 if bc == "zero" else 1e-6   # non-zero BCs: documented jitter sqrt(eps) on the diagonal
    if not np.allclose(S.T @ S, deltas[1] * P, atol=tol * deltas[1] * max(1, np.abs(P).max())):
        ctx.mismatch("gmrf_sqrtprec/" + keyo, c, "sqrtprec' sqrtprec is not delta P", deltas[1] * P, S.T @ S)
    if order != 1:
        return
    # LMRF / CMRF evaluate D (x - location)
    loc = mean
    for scale in (0.5, 2.0):
        Dx = D @ (x - loc)
        k = len(Dx)
        try:
            lm = cuqi.distribution.LMRF(loc, scale, bc_type=bc, geometry=geom)
            cm = cuqi.distribution.CMRF(loc, scale, bc_type=bc, geometry=geom)
        except Exception as e:
            ctx.mismatch("mrf_construct/" + keyo, c, "LMRF/CMRF cannot be constructed: %r" % e)
            return
        ctx.case(("lmrf_cmrf", keyo, scale))
        exp_l = k * (-math.log(2 * scale)) - np.abs(Dx).sum() / scale
        got_l = float(lm.logpdf(x))
        if abs(exp_l - got_l) > 1e-9 * max(1, abs(exp_l)):
            ctx.mismatch("lmrf_logpdf/" + keyo, c, "LMRF.logpdf is not the Laplace density of D(x-location)", exp_l, got_l)
        exp_c = float(np.sum(np.log(scale / (math.pi * (scale ** 2 + Dx ** 2)))))
        got_c = float(cm.logpdf(x))
        if abs(exp_c - got_c) > 1e-9 * max(1, abs(exp_c)):
            ctx.mismatch("cmrf_logpdf/" + keyo, c, "CMRF.logpdf is not the Cauchy density of D(x-location)", exp_c, got_c)


def run_config(ctx, variants):
    """variants: the TLC cases of one (pd, n, bc, order) (one per wrap multiplicity)."""
    c = variants[0]
    ctx.case(("operator", _key(c)))
    chosen = check_operator(ctx, c, variants)
    if chosen is None:
        return
    if c["bc"] == "periodic":
        ctx.observations.setdefault("periodic_wrap_multiplicity", {})[_key(c)] = chosen["wm"]
    if c["bc"] in ("zero", "periodic", "neumann"):
        check_precision(ctx, c, chosen, c["order"])
        check_priors(ctx, c, chosen, c["order"])
    if c["bc"] == "none" and c["order"] == 1:
        # order 0 precision / GMRF = identity operator, for every boundary condition name
        for bc in ("zero", "periodic", "neumann"):
            c0 = dict(c, bc=bc)
            ch0 = dict(chosen, rank=(c["n"] if c["pd"] == 1 else c["n"] ** 2))
            check_precision(ctx, c0, ch0, 0)
            check_priors(ctx, c0, ch0, 0)


def run(ctx):
    res = ctx.tlc("DiffOps", cfg="DiffOps.%s.cfg" % ctx.tier, workers=16, timeout=1500)
    ctx.model_must_hold(res, "DiffOps")
    groups = {}
    for c in res.cases:
        groups.setdefault(_key(c), []).append(c)
    if not groups:
        from cuqiverif.core import MachineryError
        raise MachineryError("no cases emitted by DiffOps")
    for k in sorted(groups):
        run_config(ctx, groups[k])
    ctx.sample({"case": {k: groups[sorted(groups)[3]][0][k] for k in ("pd", "n", "bc", "order", "wm", "D", "P", "rank")}})
    ctx.sample({"case": {k: groups[sorted(groups)[-1]][0][k] for k in ("pd", "n", "bc", "order", "wm", "rank", "nullbasis")}})
    ctx.rule = ("one case per (physical dim, n, boundary condition, order) emitted by TLC from DiffOps.tla with exact integer "
                "D, P, null basis, rank; non-trivial = distinct configuration x check kind (operator, dx, precision, gmrf, lmrf/cmrf)")
    ctx.exhaustive = True
    ctx.traces = len(groups)
    ctx.assumptions += ["numpy.linalg.eigvalsh for the log pseudo-determinant of TLC's integer precision matrix",
                        "sizes bounded by the cfg (MaxN1, MaxN2)"]


def replay(ctx, case):
    if case.get("kind") == "model":
        return run(ctx)
    # re-emit this configuration's variants from TLC to stay spec-driven
    res = ctx.tlc("DiffOps", cfg="DiffOps.thorough.cfg", workers=16, timeout=1500)
    variants = [c for c in res.cases if _key(c) == _key(case) or (c["pd"], c["n"]) == (case["pd"], case["n"]) and c["bc"] == "none" and case["order"] == 0 and c["order"] == 1]
    groups = {}
    for c in variants:
        groups.setdefault(_key(c), []).append(c)
    for k in groups:
        run_config(ctx, groups[k])
