"""C20 - difference operators and the Markov-random-field priors built on them.

Spec: specs/DiffOps.tla.  TLC enumerates every configuration (dimension, node count, boundary condition, order,
wrap multiplicity), checks the structural invariants on the specification and emits the exact integer matrices;
this module compares the implementation with them entry by entry and checks that GMRF / LMRF / CMRF are built on
exactly these operators.
"""
META = {
    "claimed": True,
    "engine": "DiffOps.tla",
    "text": ("TLC checks symmetry, x'Px=|Dx|^2>=0, exact null space (rational Gauss-Jordan rank), documented bands and the "
             "Kronecker stacking on every configuration of the bounded instance (1-D n<=6/9, 2-D n<=3/4, all boundary "
             "conditions, orders 1-2) and emits the integer operators; a named deviation (rank claimed from the boundary "
             "condition alone) must be refuted by the exact rank. The harness compares the real operators (entries, action "
             "on a vector, grid spacing), PrecisionFiniteDifference and the GMRF (rank, log pseudo-determinant, quadratic "
             "form, sqrtprec, orders 0-2) / LMRF / CMRF (vector and scalar location, every boundary condition of the "
             "first-order operator) quantities with them for every configuration. Reassign part (Evaluate / Assign on ONE prior "
             "object, invariant RePriorFresh, deviation StaleCacheAfterAssign refuted): mean / location and precision / scale of one "
             "GMRF (orders 0-2) / LMRF / CMRF object are replaced through the public attributes, cold, warm and evaluating after "
             "each assignment; log-density (rank, log pseudo-determinant, quadratic form), sqrtprec, rank and D(x - location) must be "
             "those of the current parameters (integer facts emitted by TLC). Live part (specs/DiffOpsLive.tla; oracle: the density an "
             "object reports is the documented density at the parameter values it reports through its public getters at that moment): "
             "every parameter of every family is tagged Live / Snapshot / Scalar in the spec (LvTags); behaviours Evaluate(logpdf | "
             "gradient) / Edit(slice | item by item | += | through the array the caller handed in) / Assign on ONE object, invariant "
             "LvReportedIsUsed, deviation DevKeepsDerived refuted; the mean of GMRF (orders 0-2) and the location of LMRF / CMRF (vector, "
             "list, scalar) are edited IN PLACE through the getter-returned array and logpdf / gradient (LMRF: pdf) must be those of "
             "D (x - location) for the location the getter reports (four locations x two scales per configuration, integer facts)."),
    "note": ("Bounded sizes; sign convention of `backward` rows and multiplicity of the periodic wrap row are not documented "
             "and are recorded as observations, not asserted. log pseudo-determinant evaluated numerically from TLC's "
             "integer precision matrix."),
    "technique": "TLA+ spec (DiffOps) model-checked with TLC; TLC-emitted cases replayed into cuqi.operator / MRF priors",
}

import itertools, json, math
import numpy as np


def _arr(M, ncols):
    if len(M) == 0:
        return np.zeros((0, ncols))
    return np.array(M, dtype=float)


def _rows_multiset(A, up_to_sign=False):
    rows = [tuple(int(round(v)) for v in row) for row in A]
    if up_to_sign:       # normalise every row so that its first non-zero entry is positive
        rows = [tuple(-v for v in r) if next((v for v in r if v != 0), 1) < 0 else r for r in rows]
    return sorted(rows)


def _integer_valued(A):
    return bool(np.all(np.isfinite(A)) and np.array_equal(A, np.round(A)))


def _key(c):
    return "pd=%d/n=%d/bc=%s/order=%d" % (c["pd"], c["n"], c["bc"], c["order"])


def _build_op(c, dx=None):
    import cuqi
    n = c["n"]
    nn = n if c["pd"] == 1 else (n, n)
    cls = cuqi.operator.FirstOrderFiniteDifference if c["order"] == 1 else cuqi.operator.SecondOrderFiniteDifference
    if dx is None:
        return cls(nn, bc_type=c["bc"])
    return cls(nn, bc_type=c["bc"], dx=dx)


def check_operator(ctx, c, variants):
    """c: TLC case (wm variant chosen among `variants` for periodic).  Returns the variant the code follows."""
    dim = c["n"] if c["pd"] == 1 else c["n"] ** 2
    sig = "operator/" + _key(c)
    try:
        op = _build_op(c)
        A = np.asarray(op.get_matrix().todense() if hasattr(op.get_matrix(), "todense") else op.get_matrix(), dtype=float)
    except Exception as e:      # a documented (size, boundary condition, order) must yield an operator
        ctx.mismatch(sig + "/raises", c, "the difference operator cannot be constructed: %r" % e)
        return None
    chosen = None
    uts = c["bc"] == "backward"      # the sign of a `backward` row is not documented: rows are compared up to a sign
    for v in variants:
        D = _arr(v["D"], dim)
        if A.shape == D.shape and _integer_valued(A) and _rows_multiset(A, uts) == _rows_multiset(D, uts):
            chosen = v
            break
    if chosen is None:
        ctx.mismatch(sig, c, "rows of the difference operator differ from the stencil rows of the specification",
                     expected=[v["D"] for v in variants], observed=A)
        return None
    D = _arr(chosen["D"], dim)
    if c["bc"] == "backward":
        # sign of a row is not documented for `backward`: compare up to a sign per row, keep order
        same = A.shape == D.shape and all(np.array_equal(A[i], D[i]) or np.array_equal(A[i], -D[i]) for i in range(len(D)))
        ctx.observe("backward_row_signs_as_spec", bool(np.array_equal(A, D)))
    else:
        same = np.array_equal(A, D)
    if not same:
        ctx.mismatch(sig, c, "difference operator differs entry-wise (row order / sign) from the specification",
                     expected=D, observed=A)
    # action on vectors: matmul protocol
    x = np.arange(1, dim + 1, dtype=float) ** 2 % 7 - 3
    try:
        y = np.asarray(op @ x, dtype=float).ravel()
    except Exception as e:
        y = None
        ctx.mismatch("matmul/" + _key(c) + "/raises", c, "operator @ x raises: %r" % e)
    if y is not None and (y.shape != (A.shape[0],) or not np.allclose(y, A @ x, atol=1e-12)):
        ctx.mismatch("matmul/" + _key(c), c, "operator @ x differs from get_matrix() @ x", A @ x, y)
    # grid spacing (1-D only; 2-D refuses dx)
    if c["pd"] == 1:
        for dx in (0.5, 2.0):
            exp = A / dx ** c["order"]
            ctx.case(("dx", _key(c), dx), facet="grid_spacing")
            try:
                M = _build_op(c, dx).get_matrix()
                Adx = np.asarray(M.todense() if hasattr(M, "todense") else M, dtype=float)
            except Exception as e:
                ctx.mismatch("dx/" + _key(c) + "/dx=%g/raises" % dx, c, "operator with grid spacing dx cannot be constructed: %r" % e)
                continue
            if Adx.shape != exp.shape or not np.allclose(Adx, exp, rtol=1e-14, atol=0):
                ctx.mismatch("dx/" + _key(c) + "/dx=%g" % dx, c, "operator with grid spacing dx is not stencil/dx^order",
                             expected=exp, observed=Adx)
    return chosen


def check_precision(ctx, c, chosen, order):
    import cuqi
    dim = c["n"] if c["pd"] == 1 else c["n"] ** 2
    nn = c["n"] if c["pd"] == 1 else (c["n"], c["n"])
    P = _arr(chosen["P"], dim)
    op = cuqi.operator.PrecisionFiniteDifference(nn, bc_type=c["bc"], order=order)
    Pc = np.asarray(op.get_matrix().todense(), dtype=float)
    ctx.case(("prec", _key(c), order), facet="precision")
    if not np.array_equal(Pc, P):
        ctx.mismatch("precision/" + _key(c).replace("order=%d" % c["order"], "order=%d" % order), c,
                     "PrecisionFiniteDifference is not D^T D of the specification", P, Pc)


def _pdet(P, rank):
    w = np.linalg.eigvalsh(P)
    w = np.sort(w)[::-1][:rank]
    return float(np.sum(np.log(w)))


def _num(v):
    """value returned by logpdf -> float (nan when it is not a single finite-or-infinite number)"""
    a = np.asarray(v, dtype=float)
    return float(a.ravel()[0]) if a.size == 1 else float("nan")


def check_mrf_logpdfs(ctx, c, D, bc, geom, x, loc, keyo, documented=True):
    """LMRF / CMRF evaluate D (x - location) (vector location and scalar location, two scales).
    documented=False (`backward`, `none`: the class docstrings only say "the boundary conditions of the difference
    operator"): a refusal to construct is an observation, the density of a constructed object is still judged."""
    import cuqi
    locs = [("vector", np.array(loc), loc), ("scalar", 1.5, np.full(len(x), 1.5))]      # "location : scalar or ndarray"
    for lname, larg, lfull in locs:
        Dx = D @ (x - lfull)
        k = len(Dx)
        for scale in (0.5, 2.0):
            try:
                lm = cuqi.distribution.LMRF(larg, scale, bc_type=bc, geometry=geom)
                cm = cuqi.distribution.CMRF(larg, scale, bc_type=bc, geometry=geom)
            except Exception as e:
                if documented:
                    ctx.mismatch("mrf_construct/" + keyo, c, "LMRF/CMRF cannot be constructed: %r" % e)
                else:
                    ctx.observations.setdefault("mrf_refuses_boundary_condition", {})[bc] = repr(e)[:100]
                return
            ctx.case(("lmrf_cmrf", keyo, lname, scale), facet="lmrf_cmrf/bc=%s/loc=%s" % (bc, lname))
            exp_l = k * (-math.log(2 * scale)) - np.abs(Dx).sum() / scale
            exp_c = float(np.sum(np.log(scale / (math.pi * (scale ** 2 + Dx ** 2)))))
            for nm, dist, exp, what in (("lmrf", lm, exp_l, "LMRF.logpdf is not the Laplace density of D(x-location)"),
                                        ("cmrf", cm, exp_c, "CMRF.logpdf is not the Cauchy density of D(x-location)")):
                try:
                    got = _num(dist.logpdf(np.array(x)))
                except Exception as e:
                    ctx.mismatch("%s_logpdf/%s/loc=%s/raises" % (nm, keyo, lname), c, "logpdf raises: %r" % e, exp, repr(e))
                    continue
                if not abs(exp - got) <= 1e-9 * max(1, abs(exp)):
                    ctx.mismatch("%s_logpdf/%s/loc=%s" % (nm, keyo, lname), c, what, exp, got)


def check_priors(ctx, c, chosen, order):
    """GMRF (order 0..2), and for first-order operators LMRF / CMRF, on the configuration's grid."""
    import cuqi, io, contextlib
    n, pd, bc = c["n"], c["pd"], c["bc"]
    dim = n if pd == 1 else n * n
    if dim < 2 or bc not in ("zero", "periodic", "neumann"):
        return
    geom = cuqi.geometry.Continuous1D(n) if pd == 1 else cuqi.geometry.Image2D((n, n))
    P = _arr(chosen["P"], dim)
    D = _arr(chosen["D"], dim)
    rank = chosen["rank"]
    rng = np.random.RandomState(1000 + dim)
    mean = rng.randint(-2, 3, size=dim).astype(float)
    x = rng.randint(-3, 4, size=dim).astype(float) / 2
    keyo = "pd=%d/n=%d/bc=%s/order=%d" % (pd, n, bc, order)
    deltas = (1.0, 4.0)
    try:
        with contextlib.redirect_stdout(io.StringIO()):
            gm = [cuqi.distribution.GMRF(mean, d, bc_type=bc, order=order, geometry=geom) for d in deltas]
    except Exception as e:
        ctx.mismatch("gmrf_construct/" + keyo, c, "GMRF cannot be constructed for a documented configuration: %r" % e)
        return
    ctx.case(("gmrf", keyo), facet="gmrf/bc=%s/order=%d" % (bc, order))
    try:
        l1, l2 = _num(gm[0].logpdf(mean)), _num(gm[1].logpdf(mean))
        lx = [_num(g.logpdf(x)) for g in gm]
        S = gm[1].sqrtprec
        S = np.asarray(S.todense() if hasattr(S, "todense") else S, dtype=float)
    except Exception as e:
        ctx.mismatch("gmrf_evaluate/" + keyo, c, "GMRF.logpdf / sqrtprec raise for a documented configuration: %r" % e)
        return
    # rank: from the dependence of the normalising constant on delta  (public API only)
    rank_code = 2 * (l2 - l1) / (math.log(deltas[1]) - math.log(deltas[0]))
    if not abs(rank_code - rank) <= 1e-6:
        ctx.mismatch("gmrf_rank/" + keyo, c, "rank used in the GMRF normalising constant is not the rank of its precision",
                     expected=rank, observed=rank_code)
    else:
        # log-determinant: logpdf(mean) at delta = 1 is  -rank/2 log(2 pi) + logdet/2
        logdet_code = 2 * (l1 + 0.5 * rank * math.log(2 * math.pi))
        logdet = _pdet(P, rank)
        if not np.isfinite(logdet_code) or abs(logdet_code - logdet) > 1e-6 * max(1, abs(logdet)):
            ctx.mismatch("gmrf_logdet/" + keyo, c, "log-determinant in the GMRF normalising constant is not the log "
                         "pseudo-determinant of its precision", expected=logdet, observed=logdet_code)
    # the rank the field reports (public property `rank`, where the class offers it)
    try:
        rank_attr = getattr(gm[0], "rank", None)
    except Exception:
        rank_attr = None
    if isinstance(rank_attr, (int, float, np.integer, np.floating)):
        ctx.case(("gmrf_rank_property", keyo), facet="gmrf_rank_property")
        if int(rank_attr) != rank or rank_attr != int(rank_attr):
            ctx.mismatch("gmrf_rank_property/" + keyo, c, "GMRF.rank is not the rank of its precision", rank, rank_attr)
    # quadratic form uses P and the shifted variable
    for l0, lxx, d in zip((l1, l2), lx, deltas):
        q_code = -2 * (lxx - l0)
        q = d * (x - mean) @ P @ (x - mean)
        if not abs(q_code - q) <= 1e-9 * max(1, abs(q)):
            ctx.mismatch("gmrf_quadratic/" + keyo, c, "GMRF quadratic form is not delta (x-mean)' P (x-mean)", q, q_code)
    # square-root precision
    tol = 1e-12 if bc == "zero" else 1e-6   # non-zero BCs: documented jitter sqrt(eps) on the diagonal
    if S.shape[1:] != (dim,) or not np.allclose(S.T @ S, deltas[1] * P, atol=tol * deltas[1] * max(1, np.abs(P).max())):
        ctx.mismatch("gmrf_sqrtprec/" + keyo, c, "sqrtprec' sqrtprec is not delta P", deltas[1] * P,
                     S.T @ S if S.ndim == 2 else S)
    if order != 1:
        return
    # LMRF / CMRF evaluate D (x - location)
    check_mrf_logpdfs(ctx, c, D, bc, geom, x, mean, keyo)


# ------------------------------------------------------------------ Reassign part (one prior object, parameters assigned)
RE_MODES = ("cold", "warm", "each")     # A* E (assign first, evaluate later) / E A* E / (E A)* E  of DiffOps.tla's Reassign part


def _q(v):
    return float(v[0]) / float(v[1])


def _re_key(rc):
    return "pd=%d/n=%d/bc=%s/order=%d" % (rc["pd"], rc["n"], rc["bc"], rc["order"])


def _re_expected(rc, E, fam, P, D):
    """expected log-density at x from the spec's integer facts of the CURRENT parameters"""
    par = _q(E["par"])
    Dr = np.array(E["Dr"], dtype=float)
    if fam == "GMRF":
        return 0.5 * (rc["rank"] * (math.log(par) - math.log(2 * math.pi)) + _pdet(P, rc["rank"])) - 0.5 * par * float(E["quad"])
    if fam == "LMRF":
        return len(Dr) * (-math.log(2 * par)) - np.abs(Dr).sum() / par
    return float(np.sum(np.log(par / (math.pi * (par ** 2 + Dr ** 2)))))


def _re_observe(ctx, rc, fam, dist, E, P, D, x, sig, real_bc):
    par = _q(E["par"])
    loc = np.array(E["loc"], dtype=float)
    dim = len(x)
    exp = _re_expected(rc, E, fam, P, D)
    ctx.case(("reassign", sig), facet="reassign/%s" % fam)
    try:
        got = _num(dist.logpdf(np.array(x)))
        got0 = _num(dist.logpdf(np.array(loc)))
    except Exception as e:
        ctx.mismatch("reassign/%s_logpdf/%s/raises" % (fam.lower(), sig), rc, "logpdf raises after a public assignment: %r" % e, exp, repr(e))
        return
    what = {"GMRF": "GMRF.logpdf is not the density of the field with its CURRENT mean and precision (rank, log pseudo-determinant, "
                    "delta (x-mean)' P (x-mean))",
            "LMRF": "LMRF.logpdf is not the Laplace density of D(x-location) with the CURRENT location and scale",
            "CMRF": "CMRF.logpdf is not the Cauchy density of D(x-location) with the CURRENT location and scale"}[fam]
    tol = 1e-9 if (fam != "GMRF" or real_bc == "zero") else 1e-6
    if not abs(exp - got) <= tol * max(1, abs(exp)):
        ctx.mismatch("reassign/%s_logpdf/%s" % (fam.lower(), sig), rc, what, exp, got)
        return
    if fam == "GMRF":
        # quadratic form with the current mean and precision; the rank and square-root precision the field reports
        q_code, q = -2 * (got - got0), par * float(E["quad"])
        if not abs(q_code - q) <= 1e-9 * max(1, abs(q)):
            ctx.mismatch("reassign/gmrf_quadratic/" + sig, rc, "GMRF quadratic form is not delta (x-mean)' P (x-mean) of the current parameters", q, q_code)
        try:
            S = dist.sqrtprec
            S = np.asarray(S.todense() if hasattr(S, "todense") else S, dtype=float)
        except Exception as e:
            ctx.mismatch("reassign/gmrf_sqrtprec/%s/raises" % sig, rc, "sqrtprec raises after a public assignment: %r" % e)
            return
        t = 1e-12 if real_bc == "zero" else 1e-6
        if S.shape[1:] != (dim,) or not np.allclose(S.T @ S, par * P, atol=t * par * max(1, np.abs(P).max())):
            ctx.mismatch("reassign/gmrf_sqrtprec/" + sig, rc, "sqrtprec' sqrtprec is not delta P for the current precision", par * P,
                         S.T @ S if S.ndim == 2 else S)
        rank_attr = getattr(dist, "rank", None)
        if isinstance(rank_attr, (int, float, np.integer, np.floating)) and rank_attr != rc["rank"]:
            ctx.mismatch("reassign/gmrf_rank_property/" + sig, rc, "GMRF.rank is not the rank of its precision", rc["rank"], rank_attr)
    if fam == "LMRF":
        try:
            pv = _num(dist.pdf(np.array(x)))
        except Exception as e:
            pv = float("nan")
        if not abs(pv - math.exp(exp)) <= 1e-9 * max(1e-300, math.exp(exp)):
            ctx.mismatch("reassign/lmrf_pdf/" + sig, rc, "LMRF.pdf is not exp of the Laplace log-density of the current parameters", math.exp(exp), pv)


def reassign_case(ctx, rc, seen):
    """one emitted behaviour (order of the two assignment units) on real GMRF / LMRF / CMRF objects"""
    import cuqi, io, contextlib
    from cuqiverif import families_common as fc
    fam, n, pd = rc["fam"], rc["n"], rc["pd"]
    dim = n if pd == 1 else n * n
    D, P = _arr(rc["D"], dim), _arr(rc["P"], dim)
    x = np.array(rc["x"], dtype=float)
    x0 = x + 1.0
    geoms = [("geomobj", (lambda: cuqi.geometry.Continuous1D(n)) if pd == 1 else (lambda: cuqi.geometry.Image2D((n, n))))]
    # the GMRF of order 0 (operator `none`) under every boundary-condition name
    reals = [(rc["bc"], rc["order"])] if rc["bc"] != "none" else [(b, 0) for b in ("zero", "periodic", "neumann")]
    cls = getattr(cuqi.distribution, fam)
    frm = rc["from"]
    locname, parname = ("mean", "prec") if fam == "GMRF" else ("location", "scale")
    nseq = 0
    for real_bc, real_order in reals:
        ways = ["ndarray"] + (["scalar"] if frm["locconst"] else []) + (["prec1array"] if fam == "GMRF" else [])
        for way in ways:
            def build():
                loc = float(frm["loc"][0]) if way == "scalar" else np.array(frm["loc"], dtype=float)
                kw = {"order": real_order} if fam == "GMRF" else {}
                with contextlib.redirect_stdout(io.StringIO()):
                    return cls(loc, _q(frm["par"]), bc_type=real_bc, geometry=geoms[0][1](), **kw)
            L = 2
            order = tuple(rc["units"])
            for mode in RE_MODES:
                for m in ((L,) if mode == "each" else range(2 if mode == "warm" else 1, L + 1)):
                    k = (fam, _re_key(rc), real_bc, real_order, way, json.dumps(frm["loc"]), json.dumps(frm["par"]), mode, order[:m])
                    if k in seen:
                        continue
                    seen.add(k)
                    try:
                        dist = build()
                    except Exception as e:
                        ctx.observations.setdefault("reassign_construct_refused", {})["%s/%s" % (fam, real_bc)] = repr(e)[:100]
                        continue
                    if mode != "cold":
                        fc.warm_up(dist, x0)
                    names = []
                    for i, t in enumerate(rc["trail"][:m]):
                        E = t["expect"]
                        if t["unit"] == 1:
                            nm, val = locname, (float(E["loc"][0]) if (way == "scalar" and E["locconst"]) else np.array(E["loc"], dtype=float))
                        else:
                            nm, val = parname, (np.array([_q(E["par"])]) if way == "prec1array" else _q(E["par"]))
                        names.append(nm)
                        try:
                            setattr(dist, nm, val)
                        except Exception as e:      # a refused assignment changes nothing: observation
                            ob = ctx.observations.setdefault("reassign_refused", {})
                            ob["%s.%s" % (fam, nm)] = ob.get("%s.%s" % (fam, nm), 0) + 1
                            break
                        if mode == "each" or i == m - 1:
                            sig = "%s/real=%s:%s/mode=%s/assigned=%s" % (_re_key(rc).replace("bc=none/order=1", "bc=%s/order=0" % real_bc), way,
                                                                         "order%d" % real_order, mode, "+".join(names))
                            with contextlib.redirect_stdout(io.StringIO()):
                                _re_observe(ctx, rc, fam, dist, E, P, D, x, sig, real_bc)
                    else:
                        nseq += 1
    return nseq


def run_reassign(ctx, chosen_wm):
    from cuqiverif import tlc as _tlc
    from cuqiverif.core import MachineryError
    res = ctx.tlc("DiffOps", cfg="DiffOps.reassign.%s.cfg" % ctx.tier, workers=8, timeout=1500)
    ctx.model_must_hold(res, "DiffOps/reassign")
    cases = [c for c in res.cases if c.get("kind") == "reassign"]
    _tlc.cleanup(res)
    dev = ctx.tlc("DiffOps", cfg="DiffOps.dev_reassign_stale.cfg", workers=2, timeout=900, expect_violation=True)
    _tlc.cleanup(dev)
    if dev.violated != "RePriorFresh":
        raise MachineryError("deviation StaleCacheAfterAssign was not refuted (got %r): RePriorFresh is vacuous" % dev.violated)
    ctx.observations.setdefault("deviation_runs", {})["DiffOps.dev_reassign_stale.cfg"] = "StaleCacheAfterAssign -> RePriorFresh"
    per = {}
    seen, n = set(), 0
    for rc in sorted(cases, key=lambda c: (c["fam"], _re_key(c), c["wm"], json.dumps(c["from"]["par"]), json.dumps(c["units"]))):
        if rc["bc"] == "periodic" and chosen_wm.get(_re_key(rc)) != rc["wm"]:
            continue                              # the other wrap-multiplicity variant is the operator of the code
        per[rc["fam"]] = per.get(rc["fam"], 0) + 1
        n += reassign_case(ctx, rc, seen)
    missing = [f for f in ("GMRF", "LMRF", "CMRF") if not per.get(f)]
    if missing or not n:
        raise MachineryError("Reassign part of DiffOps.tla: no behaviour replayed for %r" % (missing or "any family"))
    ctx.observations["reassign_behaviours_per_family"] = per
    ctx.observations["reassign_sequences_replayed"] = n
    g = [c for c in cases if c["fam"] == "GMRF" and c["bc"] == "neumann" and c["n"] == 3 and c["pd"] == 1]
    if g:
        ctx.sample({"reassign": {k: g[0][k] for k in ("fam", "pd", "n", "bc", "order", "rank", "x", "units", "from", "trail")}})
    return n


# ------------------------------------------------------------------ Live part (in-place edits of parameters read at evaluation time)
LIVE_MODS = ["DiffOps.tla"]
_LIVE_CANON = ("E:logpdf.edit:slice.E:logpdf", "E:gradient.edit:slice.E:gradient", "E:logpdf.edit:items.E:gradient",
               "E:gradient.edit:iadd.E:logpdf", "E:logpdf.edit:argbuf.E:logpdf")


def live_walk_tag(ops):
    return ".".join(("E:" + o["obs"]) if o["op"] == "evaluate" else ("edit:" + o["how"]) if o["op"] == "edit" else ("set:" + o["what"])
                    for o in ops)


def _live_expected_grad(fam, E, D):
    par = _q(E["par"])
    Dr = np.array(E["Dr"], dtype=float)
    if fam == "GMRF":
        return -par * (D.T @ Dr)
    return (-2 * Dr / (Dr ** 2 + par ** 2)) @ D          # CMRF: derivative of sum log(s / (pi (s^2 + (D r)_i^2)))


def _live_reported(dist, name, versions):
    """which version (1 | 2) does the public getter report now?  0: neither"""
    v = np.asarray(getattr(dist, name), dtype=float).ravel()
    for k, arr in versions.items():
        full = np.asarray(arr, dtype=float).ravel()
        if v.size in (1, full.size) and np.array_equal(np.broadcast_to(v, full.shape) if v.size == 1 else v, full):
            return k
    return 0


def live_walk(ctx, case, ops, real, pair, real_bc, real_order, stats):
    """one behaviour of DiffOpsLive!LvWalk on one real GMRF / LMRF / CMRF object; the Live parameter (mean / location) takes the
    locations pair[0] (version 1) and pair[1] (version 2) of the configuration, the other parameter LvPar(1) / LvPar(2)."""
    import cuqi, io, contextlib
    fam, n, pd = case["fam"], case["n"], case["pd"]
    dim = n if pd == 1 else n * n
    D, P = _arr(case["D"], dim), _arr(case["P"], dim)
    x = np.array(case["x"], dtype=float)
    locname, parname = ("mean", "prec") if fam == "GMRF" else ("location", "scale")
    facts = case["facts"]
    vers = {v: np.array(facts[pair[v - 1] - 1][0]["loc"], dtype=float) for v in (1, 2)}

    def container(v):
        a = vers[v]
        return float(a[0]) if real == "scalar" else a.tolist() if real == "list" else a.copy()
    geom = cuqi.geometry.Continuous1D(n) if pd == 1 else cuqi.geometry.Image2D((n, n))
    kw = {"order": real_order} if fam == "GMRF" else {}
    arg = container(1)
    try:
        with contextlib.redirect_stdout(io.StringIO()):
            dist = getattr(cuqi.distribution, fam)(arg, _q(facts[0][0]["par"]), bc_type=real_bc, geometry=geom, **kw)
    except Exception as e:
        ctx.observations.setdefault("live_construct_refused", {})["%s/%s" % (fam, real_bc)] = repr(e)[:100]
        return False
    rep, oth = 1, 1
    tag = live_walk_tag(ops)
    key = "pd=%d/n=%d/bc=%s/order=%d" % (pd, n, real_bc, real_order)
    base = "%s/real=%s/loc=%d>%d/walk=%s" % (key, real, pair[0], pair[1], tag)
    carry = {"kind": "livewalk", "case": case, "ops": ops, "real": real, "pair": list(pair), "real_bc": real_bc, "real_order": real_order}
    for k, o in enumerate(ops):
        if o["op"] == "edit":
            new, old = vers[3 - rep], vers[rep]
            how = o["how"]
            try:
                if how == "argbuf":
                    if isinstance(arg, np.ndarray):
                        arg[:] = new
                    elif isinstance(arg, list):
                        arg[:] = new.tolist()
                    else:
                        return False                      # a python float cannot be edited in place: not a behaviour of this realisation
                else:
                    a = getattr(dist, locname)            # the array the public getter hands out
                    if how == "slice":
                        a[:] = new[:len(a)]
                    elif how == "items":
                        for i in range(len(a)):
                            a[i] = new[i]
                    else:
                        a += (new - old)[:len(a)]
            except Exception as e:                        # the getter hands out something that cannot be edited: nothing happened
                stats["edit_refused"] = stats.get("edit_refused", 0) + 1
                ctx.observations.setdefault("live_edit_refused_example", "%s.%s %s: %r" % (fam, locname, how, e))
                return False
            now = _live_reported(dist, locname, vers)
            if now == 0:
                ctx.mismatch("live/%s_getter/%s/at=%d" % (fam.lower(), base, k + 1), carry,
                             "after an in-place edit the public getter reports neither the old nor the new value", new, getattr(dist, locname))
                return False
            key_ = ("edit_reported:" + fam) if now != rep else ("edit_not_reported:" + ("argbuf:" + real if how == "argbuf" else how + ":" + fam))
            stats[key_] = stats.get(key_, 0) + 1
            rep = now
            continue
        if o["op"] == "assign":
            try:
                with contextlib.redirect_stdout(io.StringIO()):
                    if o["what"] == "live":
                        arg = container(3 - rep)
                        setattr(dist, locname, arg)
                        rep = 3 - rep
                    else:
                        setattr(dist, parname, _q(facts[0][2 - oth]["par"]))
                        oth = 3 - oth
            except Exception as e:
                ob = ctx.observations.setdefault("live_assign_refused", {})
                ob["%s.%s" % (fam, o["what"])] = ob.get("%s.%s" % (fam, o["what"]), 0) + 1
                return False
            continue
        # evaluate: the expectation is that of the versions the getters report NOW
        E = facts[pair[rep - 1] - 1][oth - 1]
        rc = {"rank": case["rank"]}
        exp = _re_expected(rc, E, fam, P, D)
        obs = o["obs"] if not (fam == "LMRF" and o["obs"] == "gradient") else "pdf"
        sig = "live/%s_%s/%s/at=%d" % (fam.lower(), obs, base, k + 1)
        ctx.case(("live", fam, base, k), facet="live/%s/%s" % (fam, obs))
        tol = 1e-9 if (fam != "GMRF" or real_bc == "zero") else 1e-6
        what = ("%s.%s is not the documented quantity of D (x - %s) for the %s the object reports through its getter at this moment "
                "(in-place edit of the getter-returned array)" % (fam, obs, locname, locname))
        x0 = x.copy()
        try:
            with contextlib.redirect_stdout(io.StringIO()):
                if obs == "logpdf":
                    got = _num(dist.logpdf(x))
                    ok = abs(exp - got) <= tol * max(1, abs(exp))
                    expv = exp
                elif obs == "pdf":
                    got = _num(dist.pdf(x))
                    expv = math.exp(exp)
                    ok = abs(got - expv) <= 1e-9 * max(1e-300, expv)
                else:
                    got = np.asarray(dist.gradient(x), dtype=float).ravel()
                    expv = _live_expected_grad(fam, E, D)
                    ok = got.shape == expv.shape and np.allclose(got, expv, rtol=1e-9, atol=1e-9 * max(1.0, np.abs(expv).max()))
        except Exception as e:
            ctx.mismatch(sig + "/raises", carry, "%s raises after a public operation on the %s: %r" % (obs, locname, e), exp, repr(e))
            return False
        if not ok:
            ctx.mismatch(sig, carry, what, expv, got)
        if not np.array_equal(x, x0):
            ctx.mismatch(sig + "/argument_mutated", carry, "%s modified the array it was called with" % obs, x0, x)
    return True


def run_live(ctx, chosen_wm):
    """part `Live` of specs/DiffOpsLive.tla"""
    import os, random
    from cuqiverif import tlc as _tlc
    from cuqiverif.core import MachineryError
    wd = lambda label: os.path.join(_tlc.WORK, "DiffOpsLive-%s-%d" % (label, os.getpid()))
    res = ctx.tlc("DiffOpsLive", cfg="DiffOpsLive.cfg.%s.cfg" % ctx.tier, workers=4, timeout=1500, extra_modules=LIVE_MODS, workdir=wd("cfg"))
    ctx.model_must_hold(res, "DiffOpsLive/cfg")
    cases = [c for c in res.cases if c.get("kind") == "livecfg"]
    tags = [c for c in res.cases if c.get("kind") == "livetags"]
    _tlc.cleanup(res)
    res = ctx.tlc("DiffOpsLive", cfg="DiffOpsLive.walks.%s.cfg" % ctx.tier, workers=4, timeout=900, extra_modules=LIVE_MODS, workdir=wd("walks"))
    ctx.model_must_hold(res, "DiffOpsLive/walks")
    walks = {live_walk_tag(c["ops"]): c["ops"] for c in res.cases if c.get("kind") == "livewalk"}
    _tlc.cleanup(res)
    dev = ctx.tlc("DiffOpsLive", cfg="DiffOpsLive.dev_keeps_derived.cfg", workers=2, timeout=900, extra_modules=LIVE_MODS,
                  expect_violation=True, workdir=wd("dev"))
    _tlc.cleanup(dev)
    if dev.violated != "LvReportedIsUsed":
        raise MachineryError("deviation DevKeepsDerived was not refuted (got %r): LvReportedIsUsed is vacuous" % dev.violated)
    ctx.observations.setdefault("deviation_runs", {})["DiffOpsLive.dev_keeps_derived.cfg"] = "DevKeepsDerived -> LvReportedIsUsed"
    # an "argbuf" edit that the object does not see is the SAME real operation: its twin behaviours are branches taken at run time
    walks = {t: w for t, w in walks.items() if "argbuf-noalias" not in t}
    if not cases or not tags or not walks:
        raise MachineryError("DiffOpsLive emitted nothing (%d configurations, %d behaviours)" % (len(cases), len(walks)))
    canon = [walks[t] for t in _LIVE_CANON if t in walks]
    if len(canon) != len(_LIVE_CANON):
        raise MachineryError("DiffOpsLive: canonical behaviours missing among the emitted ones")
    order = sorted(walks)
    random.Random(ctx.seed).shuffle(order)
    per_real = 6 if ctx.tier == "quick" else 24
    stats, used, k, done, per = {}, set(), 0, 0, {}
    for c in sorted(cases, key=lambda c: (c["fam"], _key(c), c["wm"])):
        fam = c["fam"]
        if c["bc"] == "periodic" and chosen_wm.get(_key(c)) != c["wm"]:
            continue
        locname = "mean" if fam == "GMRF" else "location"
        if c["tags"].get(locname) != "Live":
            continue
        reals = [(c["bc"], c["order"])] if c["bc"] != "none" else [(b, 0) for b in ("zero", "periodic", "neumann")]
        for real_bc, real_order in reals:
            plan = [("ndarray", (1, 2)), ("ndarray", (2, 3)), ("ndarray", (4, 1))]
            if fam == "GMRF":
                plan.append(("list", (2, 1)))              # mean : array_like
            if c["visible"][2][3]:
                plan.append(("scalar", (3, 4)))             # "location : scalar or ndarray"
            for j, (real, pair) in enumerate(plan):
                chosen = (canon if j in (0, len(plan) - 1) else []) + [walks[order[(k * per_real + i) % len(order)]] for i in range(per_real)]
                k += 1
                for ops in chosen:
                    if live_walk(ctx, c, ops, real, pair, real_bc, real_order, stats):
                        done += 1
                        used.add(live_walk_tag(ops))
                        per[fam] = per.get(fam, 0) + 1
    missing = [f for f in ("GMRF", "LMRF", "CMRF") if not per.get(f) or not stats.get("edit_reported:" + f)]
    if missing:
        # (also: a parameter tagged Live in the spec whose getter-returned array is not the one the object reads - the edits are
        # then not reported by the getter, the object is consistent with what it reports, and nothing was exercised)
        raise MachineryError("Live part vacuous: no behaviour driven / no in-place edit reported by the getter for %r (%r)" % (missing, stats))
    ctx.observations["live"] = {"behaviours_replayed": done, "behaviours_emitted": len(walks), "behaviours_used": len(used),
                                "per_family": per, "edits": stats, "tags": tags[0]["tags"]}
    if ctx.tier == "thorough" and len(used) < len(walks) // 2:
        raise MachineryError("Live part: only %d of %d emitted behaviours were replayed" % (len(used), len(walks)))
    return done


def run_config(ctx, variants):
    """variants: the TLC cases of one (pd, n, bc, order) (one per wrap multiplicity)."""
    c = variants[0]
    ctx.case(("operator", _key(c)), facet="operator/pd=%d/order=%d" % (c["pd"], c["order"]))
    chosen = check_operator(ctx, c, variants)
    if chosen is None:
        return None
    if c["bc"] == "periodic":
        ctx.observations.setdefault("periodic_wrap_multiplicity", {})[_key(c)] = chosen["wm"]
    if c["bc"] in ("zero", "periodic", "neumann"):
        check_precision(ctx, c, chosen, c["order"])
        check_priors(ctx, c, chosen, c["order"])
    if c["bc"] in ("backward", "none") and c["order"] == 1 and (c["n"] if c["pd"] == 1 else c["n"] ** 2) >= 2:
        # LMRF / CMRF hand bc_type to the first-order operator: |.| and (.)^2 of D (x - location) do not see a row sign
        import cuqi
        n, pd = c["n"], c["pd"]
        dim = n if pd == 1 else n * n
        rs = np.random.RandomState(2000 + dim)
        loc = rs.randint(-2, 3, size=dim).astype(float)
        x = rs.randint(-3, 4, size=dim).astype(float) / 2
        geom = cuqi.geometry.Continuous1D(n) if pd == 1 else cuqi.geometry.Image2D((n, n))
        check_mrf_logpdfs(ctx, c, _arr(chosen["D"], dim), c["bc"], geom, x, loc, _key(c), documented=False)
    if c["bc"] == "none" and c["order"] == 1:
        # order 0 precision / GMRF = identity operator, for every boundary condition name
        for bc in ("zero", "periodic", "neumann"):
            c0 = dict(c, bc=bc, order=0)       # (replay() finds the `none` group again through order == 0)
            ch0 = dict(chosen, rank=(c["n"] if c["pd"] == 1 else c["n"] ** 2))
            check_precision(ctx, c0, ch0, 0)
            check_priors(ctx, c0, ch0, 0)
    return chosen


def run(ctx):
    res = ctx.tlc("DiffOps", cfg="DiffOps.%s.cfg" % ctx.tier, workers=16, timeout=1500)
    ctx.model_must_hold(res, "DiffOps")
    from cuqiverif import tlc as _tlc
    from cuqiverif.core import MachineryError
    cases = list(res.cases)
    _tlc.cleanup(res)
    # named deviation: "rank from the boundary condition alone" must be refuted by the exact rank (non-vacuity of NullExact)
    dev = ctx.tlc("DiffOps", cfg="DiffOps.dev_rankfrombc.cfg", workers=2, timeout=900, expect_violation=True)
    _tlc.cleanup(dev)
    if dev.violated != "RankFromBCOnly":
        raise MachineryError("deviation RankFromBCOnly was not refuted (got %r): the rank invariant is vacuous" % dev.violated)
    ctx.observe("deviation_runs", {"DiffOps.dev_rankfrombc.cfg": "RankFromBCOnly"})
    groups = {}
    for c in cases:
        groups.setdefault(_key(c), []).append(c)
    if not groups:
        raise MachineryError("no cases emitted by DiffOps")
    chosen_wm = {}
    for k in sorted(groups):
        ch = run_config(ctx, groups[k])
        if ch is not None:
            chosen_wm[k] = ch["wm"]
    nre = run_reassign(ctx, chosen_wm)
    nre += run_live(ctx, chosen_wm)
    ctx.sample({"case": {k: groups[sorted(groups)[3]][0][k] for k in ("pd", "n", "bc", "order", "wm", "D", "P", "rank")}})
    ctx.sample({"case": {k: groups[sorted(groups)[-1]][0][k] for k in ("pd", "n", "bc", "order", "wm", "rank", "nullbasis")}})
    ctx.rule = ("one case per (physical dim, n, boundary condition, order) emitted by TLC from DiffOps.tla with exact integer "
                "D, P, null basis, rank; non-trivial = distinct configuration x check kind (operator, dx, precision, gmrf, lmrf/cmrf)")
    ctx.exhaustive = True
    ctx.traces = len(groups) + nre
    ctx.assumptions += ["numpy.linalg.eigvalsh for the log pseudo-determinant of TLC's integer precision matrix",
                        "sizes bounded by the cfg (MaxN1, MaxN2)"]


def replay(ctx, case):
    if case.get("kind") == "model":
        return run(ctx)
    if case.get("kind") == "reassign":
        return reassign_case(ctx, case, set())
    if case.get("kind") == "livewalk":
        return live_walk(ctx, case["case"], case["ops"], case["real"], tuple(case["pair"]), case["real_bc"], case["real_order"], {})
    # re-emit this configuration's variants from TLC to stay spec-driven
    res = ctx.tlc("DiffOps", cfg="DiffOps.thorough.cfg", workers=16, timeout=1500)
    variants = [c for c in res.cases if _key(c) == _key(case) or (c["pd"], c["n"]) == (case["pd"], case["n"]) and c["bc"] == "none" and case["order"] == 0 and c["order"] == 1]
    from cuqiverif import tlc as _tlc
    _tlc.cleanup(res)
    groups = {}
    for c in variants:
        groups.setdefault(_key(c), []).append(c)
    for k in groups:
        run_config(ctx, groups[k])
