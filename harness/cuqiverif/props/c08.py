"""C08 - the No-U-Turn sampler leaves its target invariant.

Spec: specs/Nuts.tla (+ TraceNuts.tla for recorded executions).
Model: TLC explores every behaviour of one NUTS transition (momentum, slice, direction bits, leaves, progressive
sub-sampling classes, top-level acceptance classes, stopping checks) on dyadic lattice orbits with arbitrary
log-density tables (rationals, NaN, -inf, +inf, divergent values) and checks the declarative invariants InSlice /
CountExact, StopExact, StopsAtFirst, DepthBound, AlphaStat, NoNonFiniteSelected, CacheBelongs, OnLattice, Reversible;
at kernel level it computes the exact transition matrix on ring orbits and checks that it is doubly stochastic.
Spec -> code: every emitted behaviour is executed on cuqi.experimental.mcmc.NUTS and cuqi.sampler.NUTS (orbit = table
target, scripted numpy.random draws) and compared leaf by leaf, subtree by subtree, and in the final state.
Aborted transitions (specs/NutsAbort.tla EXTENDS NutsSeq, harness/cuqiverif/c08_abort.py): the target raises at the k-th evaluation
of a transition (every leaf of every behaviour x log-density | gradient); the triple stored on the sampler object must be
coherent and the next transition of the same object must be the behaviour of the orbit seen from the stored point.
Code -> spec: real chains on Gaussian targets are recorded as boolean facets and validated by TLC (TraceNuts.tla).
"""
META = {
    "claimed": True,
    "engine": "Nuts.tla",
    "text": ("TLC enumerates all behaviours of one NUTS transition (Hoffman-Gelman Alg. 3/6 as implemented: explicit recursion "
             "stack, one action per code step) on dyadic lattice orbits x arbitrary log-density tables x slice draws x "
             "max_depth 0..2 (3 in the thorough simulation), checks slice membership and exact counts, the declarative stopping "
             "rule, stop-at-first-flag, the acceptance statistic over exactly the last doubling, no non-finite selection, cache "
             "coherence, and that the computed leapfrog step lands on the table and is undone by the reverse step; on ring orbits "
             "it computes the exact transition matrix over all direction bits and sub-sampling probabilities and checks that it is "
             "doubly stochastic (8 named deviations are required to violate their invariant). Every emitted behaviour is replayed "
             "with scripted draws on both implementations (visited leaves, (n', s', candidate, ends) of every _BuildTree call, "
             "selected point, cached log-density and gradient, acceptance flag, tree nodes, statistic); recorded real chains with "
             "and without warm-up are validated against the trace refinement. Sequences on ONE sampler object (NutsSeq.tla: shift lemma - "
             "on a flat table the orbit seen from the leaf where a transition ended is again an orbit of the instance - and an object "
             "machine over max_depth / step_size / target / step size in use / owner of the caches; deviations DevReinitKeepsCache and "
             "DevDepthFrozenAtInit refuted): seeded walks replay transitions back-to-back on one object (the second starts where the first "
             "ended), with max_depth assigned between transitions and the target switched as HybridGibbs does (target, step_size, "
             "initial_point = current_point, reinitialize()); legacy: sample() calls on one object with max_depth / adapt_step_size / x0 / "
             "target assigned in between; after every operation the cached log-density and gradient belong to the current point under the "
             "current target. Aborted transitions (NutsAbort.tla: stored triple st = [point, log-density, gradient] on the object, action "
             "Abort(ev) at every leaf of every behaviour of the NutsSeq lattice x evaluation that raises (log-density | gradient); "
             "invariants AbortCoherent, AbortPointDecided; deviations 'gradient / log-density / point stored once after the doubling "
             "loop' refuted, the design that stores all three after the loop satisfies them): the table target raises at the evaluation "
             "the spec names during sample(1) (fresh object, or in the second transition of the object), then current_point must be the "
             "start or the candidate selected so far, the cached log-density and gradient must be the table values at it, and the next "
             "sample(1) of the same object must be the Nuts behaviour of the orbit seen from that point (leaves, sub-trees, point, "
             "caches, flag, statistic, step size); legacy: sample(3) on the same object after an aborted sample(3) must be the "
             "behaviour of a fresh sampler."),
    "note": ("One transition at a fixed step size on 1-D lattice orbits (the tree logic does not depend on the dimension); the "
             "step-size adaptation itself is only covered through the statistic it consumes and the boolean trace facets; "
             "target invariance is decided as double stochasticity of the exact kernel on bounded ring orbits plus conformance "
             "of the code's decisions, not by a distributional test. cuqi.sampler.NUTS with a user step size of exactly 1 cannot be "
             "replayed on the unchanged tree (finding C08-F3). Aborts: the failure is an exception raised once by the target's "
             "log-density / gradient; how it surfaces is an observation; for the stateless sampler only the following sample() call on "
             "the same object is judged (its chain state is local to _sample and lost with the exception)."),
    "technique": "TLA+ spec (Nuts) model-checked with TLC; TLC-generated behaviours replayed into both NUTS samplers; recorded traces validated by TLC",
}

import concurrent.futures, contextlib, json, os, re, signal, warnings
from fractions import Fraction as Fr

import numpy as np

DEVIATIONS = [("BiasedWeight", "KDoublyStochastic"), ("AlphaWholeTree", "AlphaStat"), ("SliceSign", "InSlice"),
              ("ContinueAfterStop", "StopsAtFirst"), ("StopWrongEnds", "StopExact"), ("FullKick", "Reversible"),
              ("GradCacheStale", "CacheBelongs"), ("NonFiniteSelectable", "NoNonFiniteSelected")]
ACTIONS = ["DrawMomentum", "DrawSlice", "Direction", "Leaf", "SecondHalf", "EarlyReturn", "MergeSubtrees", "TopLevelAccept",
           "StopCheck", "Finish"]


class _Hang(BaseException):
    pass


class _Stalled(BaseException):
    pass


WALL_BACKSTOP = 3600      # seconds of wall-clock after which a guarded block is given up as a MACHINERY error


@contextlib.contextmanager
def _guard(cpu_seconds):
    """Watchdog for one execution of the real sampler (a wrong stopping rule must not hang the check).
    The budget is CPU time of this process (ITIMER_VIRTUAL), not wall-clock: the verdict `the transition does not
    terminate` must not depend on the load of the machine.  A generous wall-clock backstop only ever produces a
    machinery error (exit 2), never a mismatch."""
    from cuqiverif.core import MachineryError

    def h(*a):
        raise _Hang()

    def hw(*a):
        raise _Stalled()
    old_v = signal.signal(signal.SIGVTALRM, h)
    old_a = signal.signal(signal.SIGALRM, hw)
    signal.setitimer(signal.ITIMER_VIRTUAL, cpu_seconds)
    signal.alarm(WALL_BACKSTOP)
    try:
        yield
    except _Stalled:
        raise MachineryError("a guarded execution of the real sampler made no progress for %d s of wall-clock" % WALL_BACKSTOP)
    finally:
        signal.setitimer(signal.ITIMER_VIRTUAL, 0)
        signal.alarm(0)
        signal.signal(signal.SIGVTALRM, old_v)
        signal.signal(signal.SIGALRM, old_a)


def _okey(orb):
    return json.dumps(orb)


def _sig(impl, clause, case, orbit):
    eps = Fr(orbit["eps"][0], orbit["eps"][1])
    return "%s/%s/md=%d/eps=%s" % (impl, clause, case["md"], float(eps))


# ----------------------------------------------------------------------------------------------------------------
# TLC jobs
# ----------------------------------------------------------------------------------------------------------------
def _tlc_jobs(ctx):
    from cuqiverif import tlc as _tlc
    from cuqiverif.core import MachineryError
    wd = lambda label: os.path.join(_tlc.WORK, "Nuts-c08-%s-%d" % (label, os.getpid()))
    jobs = {}
    pool = concurrent.futures.ThreadPoolExecutor(max_workers=7)
    jobs["main"] = pool.submit(ctx.tlc, "Nuts", cfg="Nuts.%s.cfg" % ctx.tier, workers=8, timeout=2400, workdir=wd("main"),
                               require_actions=ACTIONS)
    jobs["kernel"] = pool.submit(ctx.tlc, "Nuts", cfg="Nuts.kernel.%s.cfg" % ctx.tier, workers=4, timeout=2400,
                                 workdir=wd("kernel"))
    if ctx.tier == "thorough":
        jobs["kernelq"] = pool.submit(ctx.tlc, "Nuts", cfg="Nuts.kernelbin.thorough.cfg", workers=4, timeout=2400, workdir=wd("kernelq"))
        jobs["kernel12"] = pool.submit(ctx.tlc, "Nuts", cfg="Nuts.kernel12.thorough.cfg", workers=4, timeout=2400,
                                       workdir=wd("kernel12"))
        jobs["sim"] = pool.submit(ctx.tlc, "Nuts", cfg="Nuts.sim.cfg", workers=4, mode="simulate", simulate="num=1500",
                                  depth=400, seed=1000 + ctx.seed, timeout=2400, workdir=wd("sim"))
    for name, inv in DEVIATIONS:
        jobs["dev_" + name] = pool.submit(ctx.tlc, "Nuts", cfg="Nuts.%s.deviation.cfg" % name, workers=2, timeout=2400,
                                          expect_violation=True, workdir=wd("dev" + name))
    res = {}
    err = None
    for k, f in jobs.items():
        try:
            res[k] = f.result()
        except BaseException as ex:      # collect, so that all JVMs have ended before the error is reported
            err = err or ex
    pool.shutdown()

    def discard():                       # nothing of a failed run stays under .work
        for label in ["main", "kernel", "kernelq", "kernel12", "sim"] + ["dev" + name for name, _ in DEVIATIONS]:
            _tlc.cleanup(wd(label))
    if err is not None:
        discard()
        raise err
    for name, inv in DEVIATIONS:
        r = res["dev_" + name]
        if r.ok or r.violated != inv:
            discard()
            raise MachineryError("deviation %s did not violate %s (got %r): invariant is vacuous" % (name, inv, r.violated))
    for k in ("main", "kernel", "kernelq", "kernel12", "sim"):
        if k in res:
            ctx.model_must_hold(res[k], "Nuts/" + k)
    if "sim" in res:       # the driver does not parse the statistics line of simulation mode
        m = re.search(r"The number of states generated: (\d+)", res["sim"].stdout)
        if m:
            ctx.states += int(m.group(1))
            ctx.transitions += int(m.group(1))
            for t in ctx.tlc_runs:
                if t["cfg"] == "Nuts.sim.cfg":
                    t["generated"] = int(m.group(1))
    return res


def _check_rows(ctx, cases):
    """Spec-internal link between the two levels: the probabilities w of the enumerated step-level behaviours of one
    (orbit, max_depth, slice draw) add up to 1 and, per selected leaf, to the exact kernel row computed by the
    kernel-level operators (the ones for which TLC checks double stochasticity)."""
    rows = {(_okey(c["orb"]), c["md"], c["ed"]): c for c in cases if c["kind"] == "row"}
    acc = {}
    for c in cases:
        if c["kind"] == "nuts" and c["md"] <= 2:
            d = acc.setdefault((_okey(c["orb"]), c["md"], c["ed"]), {})
            d[c["cur"]] = d.get(c["cur"], Fr(0)) + Fr(c["w"][0], c["w"][1])
    n = 0
    for key, d in acc.items():
        row = rows.get(key)
        if row is None:
            continue
        T = (len(row["row"]) - 1) // 2
        exp = {t: Fr(q[0], q[1]) for t, q in zip(range(-T, T + 1), row["row"]) if q[0] != 0}
        n += 1
        if exp != {t: p for t, p in d.items() if p != 0} or sum(d.values()) != 1:
            ctx.mismatch("model/Nuts/kernel_row", {"kind": "model", "spec": "Nuts/rows", "key": list(key)},
                         "probabilities of the step-level behaviours do not add up to the kernel-level row",
                         expected={str(k): str(v) for k, v in exp.items()}, observed={str(k): str(v) for k, v in d.items()})
    return n


# ----------------------------------------------------------------------------------------------------------------
# fixed step size honoured?  (precondition of the lattice replay; part of "for any fixed step size")
# ----------------------------------------------------------------------------------------------------------------
def check_step_size(ctx, impl, eps):
    """The step size given by the user is the one every leapfrog step of the first transitions uses."""
    import cuqi
    from cuqiverif import nuts_real as NR, zoo
    g = cuqi.distribution.Gaussian(np.zeros(2), 1.0)
    cls = NR.nuts_classes()[impl]
    used = []
    with NR.Tap(cls) as tap, zoo.quiet():
        rs = np.random.get_state()
        np.random.seed(77)
        try:
            with _guard(60):
                if impl == "experimental":
                    S = cls(g, step_size=eps, max_depth=2, initial_point=np.zeros(2))
                    S.sample(4)
                else:
                    S = cls(g, x0=np.zeros(2), max_depth=2, adapt_step_size=eps)
                    S.sample(5)
        except _Hang:
            used = ["hang"]
        finally:
            np.random.set_state(rs)
        used = used or sorted({abs(b["eps"]) for b in tap.bt})
    ctx.case(("step_size", impl, eps))
    ok = used == [float(eps)]
    if not ok:
        ctx.mismatch("%s/step_size/given=%s" % (impl, eps), {"kind": "stepsize", "impl": impl, "eps": eps},
                     "the step size given by the user is not the step size the transitions use", [float(eps)], used)
    return ok


# ----------------------------------------------------------------------------------------------------------------
def _replay_one(ctx, impl, case, orbit, dirmap, count=True):
    from cuqiverif import nuts_real as NR, zoo
    fn = NR.replay_experimental if impl == "experimental" else NR.replay_legacy
    key = (impl, _okey(case["orb"]), case["md"], case["ed"], tuple((d["k"], d["cls"]) for d in case["draws"]))
    ctx.case(key, nontrivial=len(case["leaves"]) > 1, facet=impl)
    try:
        with _guard(30), zoo.quiet():
            out = fn(case, orbit, dirmap)
        mm = out.mismatch
        if not mm and out.obs.get("draws"):
            d = DRAW_OBS.setdefault(impl, {"behaviours": 0, "example": None})
            d["behaviours"] += 1
            d["example"] = d["example"] or dict(out.obs["draws"], md=case["md"], draws=[q["k"] + ":" + q["cls"] for q in case["draws"]])
    except _Hang:
        mm = ("hang", "the transition did not terminate within 30 s of CPU time", None, None)
    if mm:
        clause = mm[0]
        if clause == "nonfinite" and isinstance(mm[3], dict):
            v = mm[3].get("logd")
            clause = "nonfinite/" + ("posinf" if v == float("inf") else "neginf" if v == float("-inf") else "nan" if v != v else "other")
        ctx.mismatch(_sig(impl, clause, case, orbit), dict(case, kind="nuts", impl=impl, orbit=orbit), mm[1], mm[2], mm[3])
        return False
    if count:
        ctx.traces += 1
    return True


# behaviours that conformed in everything compared but made a different NUMBER of draws than the specification's action
# sequence (neither required nor forbidden by the property): reported as an observation
DRAW_OBS = {}


def _dirmaps(ctx, orbits):
    """uniform values that steer the direction of a doubling; also the check that the direction switches at 1/2"""
    from cuqiverif import nuts_real as NR, zoo
    from cuqiverif.core import MachineryError
    o = next((o for o in orbits.values() if o["eps"] == [1, 2]), None) or next(iter(orbits.values()))
    out = {}
    try:
        with zoo.quiet(), _guard(300):
            for impl in ("experimental", "legacy"):
                out[impl], fair = NR.calibrate_direction(impl, o)
                ctx.case(("direction", impl))
                if not fair:
                    ctx.mismatch("%s/direction/not_at_one_half" % impl, {"kind": "direction", "impl": impl, "orbit": o},
                                 "the direction of a doubling does not switch at the uniform value 1/2: the two directions are "
                                 "not chosen with probability 1/2 each (the kernel rows / double stochasticity assume 1/2)",
                                 expected="opposite directions for u = 0.5(1 -/+ 1e-6)",
                                 observed={"u=%.7f" % u: NR.direction_for(impl, o, u) for u in (NR.HALF_LO, NR.HALF_HI, 0.25, 0.75)})
    except _Hang:
        raise MachineryError("direction calibration did not terminate within 300 s of CPU time")
    return out


# ----------------------------------------------------------------------------------------------------------------
# code -> spec
# ----------------------------------------------------------------------------------------------------------------
TRACE_CFG = """CONSTANTS
  Depths = {0}
  EpsDens = {1}
  WordSet <- WordsQuick
  LpSet <- LpQuick
  SliceDraws = {1}
  Thin = 1
  Emit = FALSE
  DevBiasedWeight = FALSE
  DevAlphaWholeTree = FALSE
  DevSliceSign = FALSE
  DevContinueAfterStop = FALSE
  DevStopWrongEnds = FALSE
  DevFullKick = FALSE
  DevGradCacheStale = FALSE
  DevNonFiniteSelectable = FALSE
  KSizes = {8}
  KDepths = {0}
  KTurnIds = {0}
  KDiv = FALSE
INIT TraceInit
NEXT TraceNext
INVARIANT @@ACCEPT@@
CHECK_DEADLOCK FALSE
"""


def record_runs(ctx):
    import cuqi
    from cuqiverif import nuts_real as NR, zoo
    M, S = cuqi.experimental.mcmc, cuqi.sampler
    seed = 4000 + ctx.seed
    g2 = cuqi.distribution.Gaussian(np.array([1.0, -1.0]), np.array([[2.0, 0.6], [0.6, 0.5]]))
    g3 = cuqi.distribution.Gaussian(np.array([0.5, 0.0, -2.0]), np.array([0.25, 1.0, 4.0]))
    sf, lf = zoo.stateful_factories()["NUTS"], zoo.legacy_factories()["NUTS"]
    big = ctx.tier == "thorough"
    k = 3 if big else 1
    plans = [
        ("exp", "zoo-posterior-3d/warmup", lambda: sf(), [("warmup", 30 * k), ("sample", 20 * k)]),
        ("exp", "zoo-posterior-3d/no-warmup", lambda: sf(), [("sample", 25 * k)]),
        ("exp", "gauss2/tiny-step", lambda: M.NUTS(g2, step_size=0.02, max_depth=4, initial_point=np.array([1.0, -1.0])), [("sample", 12 * k)]),
        ("exp", "gauss2/huge-step", lambda: M.NUTS(g2, step_size=2.5, max_depth=3, initial_point=np.array([1.0, -1.0])), [("sample", 30 * k)]),
        ("exp", "gauss3/depth0/warmup", lambda: M.NUTS(g3, max_depth=0, initial_point=np.array([0.5, 0.0, -2.0])), [("warmup", 15 * k), ("sample", 10 * k)]),
        ("exp", "gauss2/default-depth/warmup+more", lambda: M.NUTS(g2, initial_point=np.array([0.0, 0.0])), [("warmup", 40 * k), ("sample", 15 * k), ("warmup", 10), ("sample", 5)]),
        ("exp", "gauss3/depth1/given-step/warmup", lambda: M.NUTS(g3, step_size=0.7, max_depth=1, initial_point=np.zeros(3)), [("warmup", 12 * k), ("sample", 12 * k)]),
        ("leg", "zoo-posterior-3d/adapt", lambda: lf(), (20 * k, 15 * k)),
        ("leg", "gauss2/fixed-step", lambda: S.NUTS(g2, x0=np.array([1.0, -1.0]), max_depth=4, adapt_step_size=0.3), (20 * k, 0)),
        ("leg", "gauss2/found-step", lambda: S.NUTS(g2, x0=np.array([0.0, 0.0]), max_depth=3, adapt_step_size=False), (15 * k, 0)),
        ("leg", "gauss3/huge-step/depth2", lambda: S.NUTS(g3, x0=np.zeros(3), max_depth=2, adapt_step_size=2.5), (25 * k, 0)),
        ("leg", "gauss3/depth0/adapt", lambda: S.NUTS(g3, x0=np.zeros(3), max_depth=0), (10 * k, 12 * k)),
    ]
    traces = []
    rs = np.random.get_state()
    try:
        for i, (kind, label, make, plan) in enumerate(plans):
            for rep in range(2 if big else 1):
                np.random.seed(seed + 17 * i + 1000 * rep)
                try:
                    with zoo.quiet(), _guard(1200):
                        if kind == "exp":
                            traces.append(NR.record_experimental(make, plan, {"label": label, "seed": seed + 17 * i + 1000 * rep}))
                        else:
                            traces.append(NR.record_legacy(make, plan[0], plan[1], {"label": label, "seed": seed + 17 * i + 1000 * rep}))
                except _Hang:
                    ctx.mismatch("trace/%s/hang/%s" % ("experimental" if kind == "exp" else "legacy", label),
                                 {"kind": "trace", "meta": {"label": label, "seed": seed + 17 * i + 1000 * rep}},
                                 "a real chain (%s) did not finish within 1200 s of CPU time" % label)
    finally:
        np.random.set_state(rs)
    return traces


FACETS = ("pre_ok", "cache_ok", "finite_ok", "slice_ok", "alpha_ok", "eps_ok")


def trace_facet(ctx, traces=None):
    from cuqiverif import trace
    from cuqiverif.core import MachineryError
    traces = traces if traces is not None else record_runs(ctx)
    verdicts = trace.validate(ctx, traces, "TraceNuts", TRACE_CFG, extra_modules=("Nuts.tla",), label="c08trace")
    ntrans = 0
    for v, t in zip(verdicts, traces):
        nt = sum(1 for e in t["events"] if e["e"] == "trans")
        ntrans += nt
        ctx.case(("trace", t["meta"]["impl"], t["meta"]["label"], t["meta"].get("seed"), len(t["events"])), nontrivial=nt > 0,
                 facet="trace")
        if v["ok"]:
            ctx.traces += 1
            continue
        nxt = v["next"] or {}
        bad = [f for f in FACETS if nxt.get(f) is False] or ["structure"]
        ctx.mismatch("trace/%s/%s/%s" % (t["meta"]["impl"], nxt.get("e", "end"), "+".join(bad)),
                     {"kind": "trace", "meta": t["meta"], "window": v["window"]},
                     "recorded transition %d of a real chain is not a behaviour of Nuts: facets %s (event %s)" % (
                         v["matched"] + 1, bad, nxt), expected="all facets hold (FacetOK)", observed=nxt)
    moved = sum(1 for t in traces for e in t["events"] if e["e"] == "trans" and e["moved"])
    ctx.observe("traces_recorded", {"traces": len(traces), "transitions": ntrans, "moved": moved,
                                    "tune_events": sum(1 for t in traces for e in t["events"] if e["e"] == "tune"),
                                    "max_depth_reached": max([e["depth"] for t in traces for e in t["events"] if e["e"] == "trans"] + [0])})
    if ntrans == 0 or moved == 0:
        raise MachineryError("recorded traces contain no (moving) transition: trace facet is vacuous")
    # binding self-test: corrupted copies of an accepted trace must be rejected
    good = next((t for v, t in zip(verdicts, traces) if v["ok"] and sum(1 for e in t["events"] if e["e"] == "trans") >= 3), None)
    if good is None:
        if not ctx.violations:
            raise MachineryError("no accepted trace: trace facet cannot demonstrate its binding")
        return traces

    def last_trans(ev):
        return max(i for i, e in enumerate(ev) if e["e"] == "trans")

    def flip(field):
        def mut(ev):
            ev[last_trans(ev)][field] = False
        return mut

    def too_deep(ev):
        e = ev[last_trans(ev)]
        e["depth"] = e["maxd"] + 2

    def no_init(ev):
        del ev[0]

    def moved_without_acc(ev):
        e = ev[last_trans(ev)]
        e["moved"], e["acc"] = 1, 0
    muts = [("cache_ok", flip("cache_ok")), ("slice_ok", flip("slice_ok")), ("finite_ok", flip("finite_ok")),
            ("alpha_ok", flip("alpha_ok")), ("pre_ok", flip("pre_ok")), ("depth", too_deep), ("missing_init", no_init),
            ("moved_without_acc", moved_without_acc)]
    # all corrupted copies in ONE TLC run: none of them may be reported as accepted
    bad = []
    for nm, mut in muts:
        b = json.loads(json.dumps(good))
        mut(b["events"])
        bad.append(b)
    from cuqiverif import tlc as _tlc
    wd = os.path.join(_tlc.WORK, "c08selftest-%d" % os.getpid())
    os.makedirs(wd, exist_ok=True)
    try:
        path = os.path.join(wd, "corrupted.json")
        json.dump(bad, open(path, "w"))
        r = ctx.tlc("TraceNuts", cfg_text=TRACE_CFG.replace("@@ACCEPT@@", "Accepted"), workers=2, env={"TRACE_FILE": path},
                    extra_modules=("Nuts.tla",), workdir=os.path.join(wd, "run"))
        accepted = sorted(c["acc"] for c in r.cases if "acc" in c)
    finally:
        import shutil
        shutil.rmtree(wd, ignore_errors=True)
    if not r.ok or accepted:
        raise MachineryError("corrupted traces %s were accepted: binding is not effective" % [muts[i - 1][0] for i in accepted])
    ctx.observe("binding_selftest", "%d corruptions of an accepted trace rejected (%s)" % (len(muts), ", ".join(m[0] for m in muts)))
    ctx.sample({"trace": good["meta"], "first_events": good["events"][:3]})
    return traces


# ----------------------------------------------------------------------------------------------------------------
def run(ctx):
    import cuqi  # noqa
    from cuqiverif import nuts_real as NR, tlc as _tlc
    from cuqiverif.core import MachineryError
    os.environ.setdefault("TQDM_DISABLE", "1")
    warnings.filterwarnings("ignore")
    for cls in NR.nuts_classes().values():
        NR.Tap(cls)                                   # wrapper targets present? (MachineryError otherwise)
    from cuqiverif import c08_seq
    from cuqiverif import c08_abort
    seq_jobs = c08_seq.start_tlc(ctx)               # NutsSeq: behaviours on its lattice, object machine, two named deviations
    abort_jobs = c08_abort.start_tlc(ctx)           # NutsAbort: every abort state of that lattice, rollback design, three named deviations
    try:
        res = _tlc_jobs(ctx)
    except BaseException:
        c08_abort.discard(abort_jobs)
        for f in seq_jobs.values():
            try:
                _tlc.cleanup(f.result())
            except BaseException:      # noqa: BLE001
                pass
        raise
    try:
        cases = list(res["main"].cases)
        orbits = {_okey(c["orb"]): c for c in cases if c["kind"] == "orbit"}
        nuts = [c for c in cases if c["kind"] == "nuts"]
        nrows = _check_rows(ctx, cases)
        sim, sim_orbits = [], {}        # same orbit ids, longer tables (T = 15)
        if "sim" in res:
            seen = set()
            for c in res["sim"].cases:
                if c["kind"] == "orbit":
                    sim_orbits.setdefault(_okey(c["orb"]), c)
                elif c["kind"] == "nuts":
                    k = json.dumps(c, sort_keys=True)
                    if k not in seen:
                        seen.add(k)
                        sim.append(c)
        if not nuts or not orbits:
            raise MachineryError("Nuts emitted no behaviours")
        ctx.observe("spec_behaviours", {"bfs": len(nuts), "simulated_depth3": len(sim), "orbits": len(orbits),
                                        "kernel_rows_checked": nrows,
                                        "kernel_configurations": sum(res[k].distinct for k in ("kernel", "kernelq", "kernel12") if k in res)})
        # fixed step sizes are honoured (precondition of the replay)
        step_ok = {}
        for impl in ("experimental", "legacy"):
            for eps in (1, 1.0, 0.5, 0.25):
                step_ok[(impl, float(eps))] = check_step_size(ctx, impl, eps) and step_ok.get((impl, float(eps)), True)
        dirmap = _dirmaps(ctx, orbits)
        todo = [(c, orbits) for c in nuts] + [(c, sim_orbits) for c in sim]
        skipped = 0
        for impl in ("experimental", "legacy"):
            for c, otab in todo:
                o = otab[_okey(c["orb"])]
                eps = float(Fr(o["eps"][0], o["eps"][1]))
                if not step_ok.get((impl, eps), True):
                    skipped += 1
                    continue
                _replay_one(ctx, impl, c, o, dirmap[impl])
        ctx.observe("replay", {"behaviours": len(todo), "skipped_because_step_size_not_honoured": skipped,
                               "direction_uniforms": {k: {str(a): b for a, b in v.items()} for k, v in dirmap.items()}})
        if DRAW_OBS:
            ctx.observe("conforming_behaviours_with_other_number_of_draws", DRAW_OBS)
        # ONE sampler object: several transitions, max_depth / step_size / target reassigned, reinitialize in between
        sq_orbits, sq_beh, sq_shift = c08_seq.run(ctx, seq_jobs, dirmap, _guard)
        seq_jobs = {}
        # a transition that aborts at its k-th target evaluation (NutsAbort), then the next transition of the same object
        aj, abort_jobs = abort_jobs, {}
        acases = c08_abort.run(ctx, aj, sq_orbits, sq_beh, sq_shift, dirmap, _guard)
        late = next((c for c in acases if c["st"]["p"] != 0 and c["nl"] == 3), acases[0])
        ctx.sample({"abort_state": {k: late[k] for k in ("orb", "md", "ed", "draws", "leaves", "nl", "t", "ev", "st", "alt", "shifted")}})
        deep = max(nuts, key=lambda c: (len(c["draws"]), c["acc"]))
        ctx.sample({"behaviour": {k: deep[k] for k in ("orb", "md", "ed", "draws", "leaves", "subs", "cur", "acc", "ntree", "al", "na")},
                    "orbit": {k: orbits[_okey(deep["orb"])][k] for k in ("eps", "x", "r", "g", "lp")}})
        special = next((c for c in nuts if c["acc"] == 1 and len(c["leaves"]) >= 3 and any(a["k"] != "fin" for a in c["al"])), None)
        if special:
            ctx.sample({"behaviour": {k: special[k] for k in ("orb", "md", "ed", "draws", "leaves", "cur", "al", "na")}})
        trace_facet(ctx)
    finally:
        for r in res.values():
            _tlc.cleanup(r)
        for f in seq_jobs.values():
            try:
                _tlc.cleanup(f.result())
            except BaseException:      # noqa: BLE001
                pass
        c08_abort.discard(abort_jobs)
    ctx.rule = ("behaviours = all terminal states of the bounded Nuts instance (BFS: orbit word x phase x log-density table x step "
                "size x max_depth 0..2 x slice draw x direction bits x decision classes; thorough adds simulated max_depth 3 "
                "behaviours); each is replayed on both implementations; distinct = (implementation, orbit, max_depth, slice draw, "
                "draw sequence), non-trivial = more than one leaf; plus recorded real chains (distinct = implementation, target, seed)")
    ctx.exhaustive = False
    ctx.assumptions += ["1-D lattice orbits with step sizes 1 and 1/2; log-density and gradient tables are unrelated (the sampler "
                        "treats them as black boxes)",
                        "uniform draws are scripted 1e-6 (relative) below / above the threshold computed by the specification",
                        "trace facets use fresh evaluations of the (Gaussian) target as oracle, rtol 1e-9"]


def replay(ctx, case):
    from cuqiverif import nuts_real as NR
    os.environ.setdefault("TQDM_DISABLE", "1")
    warnings.filterwarnings("ignore")
    kind = case.get("kind")
    if kind == "model":
        res = _tlc_jobs(ctx)
        _check_rows(ctx, res["main"].cases)
        return
    if kind == "stepsize":
        check_step_size(ctx, case["impl"], case["eps"])
        return
    if kind == "trace":
        trace_facet(ctx)
        return
    if kind == "direction":
        _dirmaps(ctx, {_okey(case["orbit"]["orb"]): case["orbit"]})
        return
    if kind == "nutsabort":
        from cuqiverif import c08_seq, c08_abort
        sq = c08_seq.collect_tlc(ctx, c08_seq.start_tlc(ctx))
        o = next(iter(sq[0].values()))
        c08_abort.replay(ctx, case, sq[0], sq[1], sq[2], _dirmaps(ctx, {_okey(o["orb"]): o}), _guard)
        return
    if kind == "nutsseq":
        from cuqiverif import c08_seq
        o = case.get("orbit")
        if o is None:
            res = ctx.tlc("Nuts", cfg="Nuts.quick.cfg", workers=8, timeout=2400)
            o = next(c for c in res.cases if c["kind"] == "orbit" and c["eps"] == [1, 2])
            from cuqiverif import tlc as _tlc
            _tlc.cleanup(res)
        c08_seq.replay(ctx, case, _dirmaps(ctx, {_okey(o["orb"]): o}), _guard)
        return
    orbit = case["orbit"]
    dirmap = _dirmaps(ctx, {_okey(orbit["orb"]): orbit})
    _replay_one(ctx, case["impl"], case, orbit, dirmap[case["impl"]])
