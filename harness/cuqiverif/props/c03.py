"""C03 - every gradient equals the derivative of the log-density, or is refused.

Spec: specs/Families.tla.  For every family the spec holds the documented log-density and its gradient derived by hand;
TLC checks that they agree (QuadIdentity), that the gradient's NaN-flag coincides with the complement of the support
(NaNOutside) and that the decision table GradOutcome(family, conditional, geometry kind, FD) is total and refuses where no
analytic gradient exists (OutcomeTable); likelihood / posterior gradients are composed by the sum rule and the chain rule
J(x)^T prec (data - F(x)) with small integer Jacobians.  This module evaluates gradient() of the real objects for every
emitted case and compares with the exact expected vector (the same cases are compared for the log-density under C04, and
here again for likelihoods / posteriors), with enable_FD() at finite-difference accuracy.
"""
META = {
    "claimed": True,
    "engine": "Families.tla",
    "text": ("TLC checks on every configuration of the bounded lattice (15 families incl. all Gaussian parameterisations and the MRF "
             "priors for every boundary condition / order, dim 1-3 (75/76 diagonal), points inside / outside the support; 5 model "
             "kinds x 2 data families x 3 priors for likelihoods and posteriors) that the hand-derived gradient is consistent "
             "with the documented density (exact central-difference identity for the quadratic families and linear models), "
             "that it is NaN exactly outside the support, and that the decision table GradOutcome is total and refuses where no "
             "analytic gradient exists. The harness calls gradient() on the real objects for every emitted case, parameter-passing "
             "way, Gaussian input form and sparse threshold, with and without enable_FD(), on identity / mapped / "
             "gradient-supplying / expansion geometries and on conditional distributions, and compares with the exact expected vector. "
             "Likelihood, posterior and multiple-likelihood gradients are replayed again through every model kind on expansion domain "
             "geometries (StepExpansion, KLExpansion with all / truncated modes: subclasses of an identity-like geometry with a "
             "non-identity linear par2fun u = E p): refused, or equal to E^T gradient_fun (invariant ExpansionChain); Gaussian "
             "matrix inputs again at covariance magnitudes 4^-30, 4^30 (invariant ScalingLaw: gradient' = gradient / 2^e). "
             "Sequences on ONE object: every behaviour of Families.Reassign (parameters of one distribution replaced one after another "
             "through the public setters, cold / warm / with enable_FD .. disable_FD) and walks through the state graph of FamiliesSeq.tla "
             "(one likelihood / posterior / multiple-likelihood posterior whose noise parameter, data, prior mean and model domain geometry "
             "are reassigned through public attributes and whose FD flags are toggled; invariants SeqIsFresh, SeqQuad, SeqDiffers, "
             "SeqReference; deviation DevStaleAfterAssign refuted by TLC): after every operation the gradient is that of the CURRENT "
             "configuration. Siblings (FamiliesSeq part Siblings; invariant SibOwnAnswer, deviation DevSharedDerived refuted by TLC): ONE "
             "conditional distribution of every family (parameters of the assignment units as callables) conditioned to the two "
             "configurations of every Reassign pair, both copies alive; every TLC-enumerated interleaving of Condition A / Condition B / "
             "evaluations / one use of the original is driven on real objects and after every evaluation log-density and gradient "
             "(analytic / finite differences) are those of the evaluated copy's OWN configuration. Points (FamiliesSeq part Points): "
             "every dimension-1 family over its whole offset lattice, likelihood / posterior / multiple-likelihood posterior of the "
             "one-parameter models and the posterior of a scalar hyper-parameter, evaluated with the point as python float, numpy "
             "scalar, 0-d array, 1-element array, 1-element list and CUQIarray at magnitudes below and above one, analytic and with "
             "enable_FD(). Classes (specs/FamiliesGallery.tla, invariants ClassTable, RichardsonExact, RichardsonOrder, EstimateBounds, "
             "SmoothStencil, LatticeCovers, StackSum; deviations DevFirstOrderWeights, DevStencilAcrossKink refuted by TLC): EVERY public "
             "class of cuqi.distribution (and UserDefinedLikelihood) has its rows in the decision table; the seven DistributionGallery "
             "benchmarks, whose log-density is defined by the object only, are evaluated on a TLC-enumerated lattice of [-4, 4]^2 (modes, "
             "between components of different variance, tails; the non-differentiable point r = 0 of the ring-shaped ones is observed only) "
             "and the gradient - analytic, two passes over one object, integer points as int64 array / list, and with enable_FD() - is "
             "compared with the Richardson tableau of central differences of the SAME object's logd (weights, steps, tolerances emitted by "
             "the spec: exact up to degree 6; a reference is accepted only when its own error estimate is below 1e-7 relative, else the "
             "point is skipped and counted; comparison at 1e-6); the same oracle judges posteriors with a gallery prior (user-defined "
             "likelihood, Gaussian likelihood of a linear model, two likelihoods); stacked joints of two independent parts (exact sum / "
             "concatenation: refused, derivative with FD), UserDefinedLikelihood (pass-through / refused; sum rule of its posterior), "
             "JointGaussianSqrtPrec and JointDistribution (refused). Containers (specs/FamiliesPoint.tla; invariants CtTableLegal, "
             "ContainerIndependent, ProbeNaNOutside, ProbeCover, LatticeIntegers; deviation DevKeepsNumberType - the out-of-support answer "
             "built in the number type of the point - refuted by TLC): the gradient is a function of the VALUE of the evaluation point; the "
             "spec lists 13 container kinds (float64 array = reference, float32 / int64 / int32 arrays, lists of floats / python ints, "
             "CUQIarrays of floats / integers, a non-contiguous view, python / numpy float and integer scalars in dimension one) with "
             "their admissibility (the container holds the point exactly) and adds probe configurations of the bounded families (Gamma, "
             "InverseGamma, Beta, Uniform, Lognormal, ModifiedHalfNormal) in dimensions 1-3 with integer-valued and half-integer points "
             "inside the support, one / all coordinates below or above it, one / all coordinates ON the boundary; the replay evaluates "
             "every probe case in every admissible container, analytic and with enable_FD() (outside: non-finite; inside: the exact "
             "vector; boundary: no value asserted, only the same answer as for the reference container), and adds one rotating admissible "
             "container next to EVERY reference gradient call of the main lattice (families, Gaussian input forms, MRFs, likelihoods, "
             "posteriors, multiple-likelihood posteriors; FD every second call); the argument must not be modified."),
    "note": ("A raised exception is accepted wherever a vector is specified (the property only constrains returned vectors) and is "
             "reported as an observation; FD results are compared at forward-difference accuracy; PDE-based models are "
             "not modelled; DistributionGallery: no documented density exists, the oracle is the extrapolated central difference of "
             "the object's own logd (not exact: tolerance 1e-6 relative, ten times the accepted error estimate); user-defined "
             "distributions / likelihoods: pass-through of gradient_func, refusal without one, finite differences of logpdf_func."),
    "technique": ("TLA+ spec (Families, FamiliesSeq, FamiliesGallery, FamiliesPoint, SymLog) model-checked with TLC; TLC-emitted exact gradients (gallery: "
                  "TLC-checked extrapolation tableau of the object's own log-density) replayed into cuqi objects"),
}

import json, math

import numpy as np

RTOL = 1e-9


def _sig(what, fam, way, d, case, extra=""):
    from cuqiverif import families_common as fc
    s = "%s/%s/way=%s/dim=%d/support=%s" % (what, fam, way, d, fc.support_tag(case))
    par = case.get("par") or {}
    loc = par.get("location", par.get("mean"))
    if loc is not None:
        s += "/loc=%s" % ("nonzero" if any(q[0] != 0 for q in loc) else "zero")
    if fam == "ModifiedHalfNormal":
        s += "/abg=%s" % ("equal" if case.get("abg_equal") else "distinct")
    return s + extra


def _obs(ctx, key, tag):
    d = ctx.observations.setdefault(key, {})
    d[tag] = d.get(tag, 0) + 1


def judge(ctx, case, sig, outcome, res, gexp, d, fd=False, logf=0.0, tag="", tol=None):
    """Compare one gradient() call with the specification.
    outcome: table entry (Value / Refused / ValueFD); gexp: expected vector or None (outside the support -> non-finite).
    tol: absolute tolerance of the comparison (reference vectors that are not exact: part Classes, c03_gallery.py)."""
    st, v, warns = res
    if st == "raise":
        if outcome != "Refused":
            _obs(ctx, "refused_where_a_value_is_specified", tag)       # allowed by the property; recorded
        else:
            ctx.facets["refused_as_specified"] = ctx.facets.get("refused_as_specified", 0) + 1
        return
    if v is None:
        if outcome == "Refused" and warns:
            _obs(ctx, "none_with_warning_instead_of_raise", tag)
            return
        ctx.mismatch(sig + "/none", case, "gradient() returned None instead of a vector or an exception", gexp, None)
        return
    try:
        arr = np.asarray(v, dtype=float)
    except Exception:
        ctx.mismatch(sig + "/type", case, "gradient() returned a non-numeric object", gexp, repr(v))
        return
    if gexp is None and outcome == "Refused":
        ctx.mismatch(sig + "/unspecified", case, "gradient() returned a vector where refusal is specified", None, arr)
        return
    if gexp is None:                          # outside the support
        if arr.size > 0 and np.all(np.isfinite(arr)):
            ctx.mismatch(sig, case, "gradient is a finite vector outside the support", "non-finite (NaN)", arr)
        return
    if arr.size != d or arr.ndim > 2:
        ctx.mismatch(sig + "/shape", case, "gradient() does not return one value per coordinate", gexp, arr)
        return
    arr = arr.ravel()
    if fd:
        ok = bool(np.all(np.isfinite(arr))) and bool(np.all(np.abs(arr - gexp) <= 1e-4 * max(1.0, np.max(np.abs(gexp))) + 2e-5 * (1.0 + abs(logf))))
    elif tol is not None:
        ok = bool(np.all(np.isfinite(arr))) and bool(np.max(np.abs(arr - gexp)) <= tol)
    else:
        from cuqiverif import families_common as fc
        ok = fc.vclose(arr, gexp, RTOL, 1e-12)
    if not ok:
        ctx.mismatch(sig, case, ("gradient is not the derivative of the object's own log-density (reference: Richardson-extrapolated "
                                 "central differences of its logd)" if case.get("selfdef") else
                                 "gradient is not the derivative of the documented log-density") + (" (finite differences enabled)" if fd else ""),
                     gexp, arr)
    elif outcome == "Refused":
        _obs(ctx, "correct_value_where_refusal_is_specified", tag)


def _outcome(table, fam, cond=False, geom="identity", fd=False):
    return table[(fam, cond, geom, fd)]


def _grad_checks(ctx, table, case, fam, way, d, builder, x, gexp, extra="", fd_ok=True, geom="identity"):
    from cuqiverif import families_common as fc
    st, dist, _ = fc.call(builder)
    if st == "raise":
        _obs(ctx, "construction_failed", "%s/%s%s" % (fam, way, extra))
        return
    logf = fc.expected_logpdf(case)
    logf = 0.0 if not math.isfinite(logf) else logf
    tfam = "Gaussian" if fam == "GaussianBig" else fam
    ctx.case(("grad", fc.case_id(case), way, extra, geom), facet="gradient")
    judge(ctx, case, _sig("gradient", fam, way, d, case, extra), _outcome(table, tfam, False, geom, False),
          fc.call(lambda: dist.gradient(np.array(x))), gexp, d, tag="%s/%s" % (fam, way.split("+")[0]))
    # part Containers (FamiliesPoint.tla): the same object again with the point in one further admissible container
    from cuqiverif import c03_point
    ckind = c03_point.pick(x, tfam) if geom == "identity" else []
    c03_point.extra(ctx, case, _sig("gradient", fam, way, d, case, extra), _outcome(table, tfam, False, geom, False), dist, x, gexp, d,
                    ckind, tag="%s/%s" % (tfam, way.split("+")[0]))
    if fd_ok:
        st2, _, _ = fc.call(lambda: dist.enable_FD())
        if st2 == "value":
            c03_point.extra(ctx, case, _sig("gradientFD", fam, way, d, case, extra), _outcome(table, tfam, False, geom, True), dist, x,
                            gexp, d, c03_point.fd_turn(ckind), fd=True, logf=logf, tag="%s/%s" % (tfam, way.split("+")[0]))
            # Cauchy / SmoothedLaplace / Uniform override gradient(): the FD flag has no effect there (trivial repeat)
            ctx.case(("gradFD", fc.case_id(case), way, extra, geom), nontrivial=fam not in ("Cauchy", "SmoothedLaplace", "Uniform"),
                     facet="gradient_fd")
            judge(ctx, case, _sig("gradientFD", fam, way, d, case, extra), _outcome(table, tfam, False, geom, True),
                  fc.call(lambda: dist.gradient(np.array(x))), gexp, d, fd=True, logf=logf, tag="%s/%s/FD" % (fam, way.split("+")[0]))


# ------------------------------------------------------------------ geometries used for the geometry-kind rows
def _geometries():
    import cuqi

    class CubeGeometry(cuqi.geometry.Continuous1D):        # supplies its own derivative
        def par2fun(self, p):
            return p ** 3

        def gradient(self, direction, wrt):
            return 3 * wrt ** 2 * direction

    def mapped(n):
        return cuqi.geometry.MappedGeometry(cuqi.geometry.Continuous1D(n), map=lambda v: v ** 3)

    def expansion(n):
        # a SUBCLASS of the identity-like Continuous1D whose par2fun is not the identity and that offers no `gradient`
        if n >= 2:
            return cuqi.geometry.KLExpansion(np.linspace(0, 1, n), decay_rate=1.5, normalizer=2.0)
        return cuqi.geometry.StepExpansion(np.array([0.0, 1.0]), n_steps=1)

    return mapped, (lambda n: CubeGeometry(n)), expansion


def check_family(ctx, table, case, extras):
    from cuqiverif import families_common as fc
    fam, d = case["fam"], case["dim"]
    x = fc.vec(case["x"])
    gexp = fc.expected_grad(case)
    fd_ok = case.get("smooth", True) or gexp is None
    mrf = fam in ("GMRF", "LMRF", "CMRF")
    extra = "/pd=%d/bc=%s/order=%d" % (case["mrf"]["pd"], case["mrf"]["bc"], case["mrf"]["order"]) if mrf else ""
    variants = fc.mrf_variants(case, callable_way=False) if mrf else fc.family_variants(case, callable_way=False)
    for way, builder in variants:
        _grad_checks(ctx, table, case, fam, way, d, builder, x, gexp, extra=extra, fd_ok=fd_ok)
    if fam == "Normal":
        check_userdefined(ctx, case)
    if not extras:
        return
    # geometry kinds
    mapped, withgrad, expansion = _geometries()
    for gname, gmk in (("mapped", mapped), ("withgradient", withgrad), ("expansion", expansion)):
        if mrf:
            if case["mrf"]["pd"] != 1:
                continue
            vs = fc.mrf_variants(case, geometry_kind=(lambda: gmk(d)), callable_way=False)
        else:
            vs = fc.family_variants(case, geometry=(lambda: gmk(d)), callable_way=False)
        way, builder = next(iter(vs))
        _grad_checks(ctx, table, case, fam, way, d, builder, x, gexp, extra=extra + "/geom=" + gname, fd_ok=fd_ok, geom=gname)
    # conditional distribution: gradient of the likelihood w.r.t. the conditioning variables
    if fam in ("Gaussian", "Lognormal", "ModifiedHalfNormal") or mrf:
        return
    import cuqi
    vals = fc._param_values(case)
    cls = getattr(cuqi.distribution, fc._CLS[fam])
    names = [n for n in vals if (fam, n) not in fc._SCALAR_ONLY]
    kw = {n: (fc._mk_lambda("c_" + n) if n in names else float(vals[n][0])) for n in vals}
    st, lik, _ = fc.call(lambda: cls(**kw, geometry=d).to_likelihood(np.array(x)))
    if st == "raise":
        _obs(ctx, "construction_failed", "%s/conditional" % fam)
        return
    ctx.case(("gradcond", fc.case_id(case)), facet="gradient_conditional")
    judge(ctx, case, _sig("gradient", fam, "conditional", d, case), _outcome(table, fam, True, "identity", False),
          fc.call(lambda: lik.gradient(**{"c_" + n: np.array(vals[n]) for n in names})), None, d, tag="%s/conditional" % fam)


def check_userdefined(ctx, case):
    """User-defined family on the lattice point of a Normal case: log-density f(z) = E + g.(z - x) (E, g = TLC's exact
    value and gradient).  gradient_func given -> that vector; not given -> refused; enable_FD -> derivative of f."""
    import cuqi
    from cuqiverif import families_common as fc
    d = case["dim"]
    x = fc.vec(case["x"])
    g = fc.expected_grad(case)
    E = fc.expected_logpdf(case)
    cls = getattr(cuqi.distribution, "UserDefinedDistribution", None)
    if cls is None or g is None or not math.isfinite(E):
        return
    f = lambda z: E + float(g @ (np.asarray(z, dtype=float).ravel() - x))      # noqa: E731
    cid = fc.case_id(case)
    for way, kw, outcome in (("logpdf+gradient", {"gradient_func": (lambda z: np.array(g))}, "Value"), ("logpdf", {}, "Refused")):
        st, dist, _ = fc.call(lambda: cls(dim=d, logpdf_func=f, **kw))
        if st == "raise":
            _obs(ctx, "construction_failed", "UserDefined/" + way)
            continue
        ctx.case(("grad", cid, "userdefined", way), facet="gradient_userdefined")
        judge(ctx, case, _sig("gradient", "UserDefined", way, d, case), outcome,
              fc.call(lambda: dist.gradient(np.array(x))), g, d, tag="UserDefined/" + way)
        st2, _, _ = fc.call(lambda: dist.enable_FD())
        if st2 == "value":
            ctx.case(("gradFD", cid, "userdefined", way), facet="gradient_userdefined_fd")
            judge(ctx, case, _sig("gradientFD", "UserDefined", way, d, case), "ValueFD",
                  fc.call(lambda: dist.gradient(np.array(x))), g, d, fd=True, logf=E, tag="UserDefined/%s/FD" % way)


# ------------------------------------------------------------------ Gaussian input forms
_HOWS = {"scalar": ["scalar"], "vector": ["ndarray", "list"], "diag": ["ndarray"], "dense": ["ndarray", "list"],
         "sparse": ["csr", "dia"]}


def check_gaussian(ctx, table, case, extras):
    import cuqi
    from cuqiverif import families_common as fc
    d = case["dim"]
    x = fc.vec(case["x"])
    mean = fc.vec(case["par"]["mean"])
    gexp = fc.expected_grad(case)
    thresholds = [None] + ([d - 1] if d >= 2 else [])
    for inp in case["inputs"]:
        form, shape, data = inp["form"], inp["shape"], inp["data"]
        if shape == "sparse" and d == 1:
            continue
        for how in _HOWS[shape]:
            for thr in thresholds:
                for mway in (["ndarray", "scalar"] if (case["scal"]["mean"] and how in ("scalar", "ndarray")) else ["ndarray"]):
                    way = "%s:%s:%s+mean:%s" % (form, shape, how, mway)
                    extra = "/thr=%s" % ("default" if thr is None else thr)

                    def builder():
                        kw = {form: fc.gaussian_param(shape, data, how)}
                        if mway == "scalar" and shape == "scalar":
                            kw["geometry"] = d
                        return cuqi.distribution.Gaussian(float(mean[0]) if mway == "scalar" else np.array(mean), **kw)
                    with fc.sparse_threshold(thr):
                        full_sparse = shape == "sparse" and not fc.is_diag(data)
                        _grad_checks(ctx, table, case, "Gaussian", way, d, builder, x, gexp, extra=extra,
                                     fd_ok=(thr is None and how != "list" and not full_sparse))
                        if mway == "ndarray" and shape in ("diag", "dense", "sparse"):
                            # ScalingLaw of the spec: the same input at the magnitudes a = 4^e of the covariance; gradient' = gradient / 2^e
                            for sc in fc.scaled_instances(case):
                                pseudo = dict(case, logpdf=sc["logpdf"])
                                _grad_checks(ctx, table, pseudo, "Gaussian", way, d,
                                             (lambda: cuqi.distribution.Gaussian(np.array(mean), **{form: fc.gaussian_param(
                                                 shape, data, how, pow2=sc["form_pow2"][form])})),
                                             fc.scaled_point(mean, x, sc), gexp * math.ldexp(1.0, sc["grad_pow2"]),
                                             extra="%s/scale=4^%d" % (extra, sc["e"]), fd_ok=False)
    if extras:
        mapped, withgrad, expansion = _geometries()
        cov = fc.gaussian_param("dense", [i for i in case["inputs"] if i["form"] == "cov" and i["shape"] == "dense"][0]["data"])
        for gname, gmk in (("mapped", mapped), ("withgradient", withgrad), ("expansion", expansion)):
            _grad_checks(ctx, table, case, "Gaussian", "cov:dense:ndarray+mean:ndarray", d,
                         (lambda: cuqi.distribution.Gaussian(np.array(mean), cov=cov, geometry=gmk(d))), x, gexp,
                         extra="/geom=" + gname, geom=gname)


def check_gaussbig(ctx, table, case):
    import cuqi, scipy.sparse as sp
    from cuqiverif import families_common as fc
    d = case["dim"]
    x = fc.vec(case["x"])
    mean = fc.vec(case["mean"])
    gexp = fc.vec(case["grad"]["v"])
    pseudo = {"fam": "GaussianBig", "logpdf": case["logpdf"], "cfg": case["cfg"]}
    for inp in case["inputs"]:
        form = inp["form"]
        v = fc.vec(inp["vec"])
        ways = [("vector", lambda: np.array(v)), ("diag", lambda: np.diag(v)), ("sparse:dia", lambda: sp.diags(v))]
        if case["lamconst"]:
            ways.append(("scalar", lambda: float(v[0])))
        for shape, mk in ways:
            way = "%s:%s+mean:ndarray" % (form, shape)
            _grad_checks(ctx, table, pseudo, "GaussianBig", way, d,
                         (lambda: cuqi.distribution.Gaussian(np.array(mean), **{form: mk()})), x, gexp, fd_ok=False)


# ------------------------------------------------------------------ likelihoods, posteriors, multiple likelihoods
def _model(case, geom=None, R=None):
    """the model of a `lik` case.  geom / R: the model is given on the FUNCTION values u of the expansion geometry `geom`
    (u = E p) as Ff(u) = F(R u) with R E = I, so that the parameter-to-output map is the spec's F."""
    import cuqi
    A = np.array(case["A"], dtype=float)
    B = np.array(case["B"], dtype=float)
    m, n = A.shape
    mk = case["mk"]
    F = lambda x: A @ (x * x) + B @ x          # noqa: E731
    J = lambda x: 2 * A * x[None, :] + B       # noqa: E731
    if geom is not None:
        Rm = np.asarray(R, dtype=float)
        if mk == "matrix":
            return cuqi.model.LinearModel(A @ Rm, domain_geometry=geom, range_geometry=m)
        if mk == "funadj":
            return cuqi.model.LinearModel(lambda x: A @ (Rm @ x), lambda y: Rm.T @ (A.T @ y), range_geometry=m, domain_geometry=geom)
        if mk == "jacobian":
            return cuqi.model.Model(lambda x: F(Rm @ x), m, geom, jacobian=lambda x: J(Rm @ x) @ Rm)
        if mk == "gradient":
            return cuqi.model.Model(lambda x: F(Rm @ x), m, geom, gradient=lambda direction, wrt: (direction @ J(Rm @ wrt)) @ Rm)
        from cuqiverif.core import MachineryError
        raise MachineryError("model kind %r is not realised on an expansion geometry" % mk)
    if mk == "matrix":
        return cuqi.model.LinearModel(A)
    if mk == "funadj":
        return cuqi.model.LinearModel(lambda x: A @ x, lambda y: A.T @ y, range_geometry=m, domain_geometry=n)
    if mk == "jacobian":
        return cuqi.model.Model(F, m, n, jacobian=J)
    if mk == "gradient":
        return cuqi.model.Model(F, m, n, gradient=lambda direction, wrt: direction @ J(wrt))

    class SquareGeometry(cuqi.geometry.Continuous1D):
        def par2fun(self, p):
            return p * p

        def gradient(self, direction, wrt):
            return 2 * wrt * direction
    return cuqi.model.LinearModel(A, domain_geometry=SquareGeometry(n), range_geometry=m)


def _jac_model(case, geom=None, R=None):
    import cuqi
    A = np.array(case["A"], dtype=float)
    B = np.array(case["B"], dtype=float)
    m, n = A.shape
    if geom is not None:
        Rm = np.asarray(R, dtype=float)
        return cuqi.model.Model(lambda x: A @ ((Rm @ x) * (Rm @ x)) + B @ (Rm @ x), m, geom,           # (argument name = variable name)
                                jacobian=lambda x: (2 * A * (Rm @ x)[None, :] + B) @ Rm)
    return cuqi.model.Model(lambda x: A @ (x * x) + B @ x, m, n, jacobian=lambda x: 2 * A * x[None, :] + B)


def _expansion_geometry(kind, n):
    """real expansion geometries with n parameters: subclasses of Continuous1D, linear non-identity par2fun, no `gradient`"""
    import cuqi
    if kind == "step":
        return cuqi.geometry.StepExpansion(np.arange(2 * n, dtype=float), n_steps=n)
    if kind == "kl_full":
        return cuqi.geometry.KLExpansion(np.linspace(0, 1, n), decay_rate=1.5, normalizer=2.0)
    if kind == "kl_trunc":
        return cuqi.geometry.KLExpansion(np.linspace(0, 1, 2 * n + 1), decay_rate=1.5, normalizer=2.0, num_modes=n)
    from cuqiverif.core import MachineryError
    raise MachineryError("unknown expansion geometry %r" % kind)


def _expansion_maps(case, kind, n):
    """(geometry, E, R): E = matrix of the geometry's own par2fun read off the untouched object, R = a left inverse (R E = I)"""
    from cuqiverif import families_common as fc
    from cuqiverif.core import MachineryError
    with fc.quiet():
        geom = _expansion_geometry(kind, n)
        probe = _expansion_geometry(kind, n)          # E is read off an object the model under test never sees
        E = np.column_stack([np.asarray(probe.par2fun(e), dtype=float).ravel() for e in np.eye(n)])
    if kind == "step":
        Es, Rs = fc.mat(case["expansion"]["stepE"]), fc.mat(case["expansion"]["stepR"])
        if E.shape == Es.shape and np.array_equal(E, Es):
            R = Rs                                     # the rational left inverse of the spec
        else:
            R = np.linalg.pinv(E)                      # (the node -> step assignment itself is C13's subject)
    else:
        R = np.linalg.pinv(E)
    if E.shape[1] != n or not np.allclose(R @ E, np.eye(n), rtol=0, atol=1e-12):
        raise MachineryError("expansion geometry %s(%d): par2fun is not an injective linear map of %d parameters" % (kind, n, n))
    return geom, E, R


def _noise_kw(case, idx):
    from cuqiverif import families_common as fc
    lam = fc.vec(case["lam"])
    forms = [("cov", 1 / lam ** 2), ("sqrtcov", 1 / lam), ("prec", np.diag(lam ** 2)), ("cov", np.diag(1 / lam ** 2))]
    if case["lamscal"]:
        forms.append(("cov", float(1 / lam[0] ** 2)))
    name, val = forms[idx % len(forms)]
    tag = "%s:%s" % (name, "scalar" if np.ndim(val) == 0 else ("vector" if np.ndim(val) == 1 else "matrix"))
    return {name: val}, tag


def check_lik(ctx, case, idx, dom=None):
    """likelihood / posterior / multiple-likelihood posterior of one `lik` case.
    dom = None: the model of the case on its plain (int / matrix-inferred / gradient-supplying) domain geometry: the gradient IS
    the spec's vector.  dom = "step" | "kl_full" | "kl_trunc": the same parameter-to-output map through a model on an expansion
    geometry (spec: ModelDomOutcome = RefusedOrChain): the log-densities are the spec's, the gradient is refused or it is
    ChainGrad(E, gradient_fun) = E^T R^T (spec vector) with E read off an untouched geometry object."""
    import cuqi
    from cuqiverif import families_common as fc
    n, mk = case["dim"], case["mk"]
    x = fc.vec(case["x"])
    logy = fc.vec(case["logy"])
    lognormal = case["fam"] == "LikLognormal"
    lam = fc.vec(case["lam"])
    if dom is None:
        model, model2 = _model(case), None
        outcome, gtag = "Value", ""
        chain = lambda g: g                                     # noqa: E731
        ltol = 1e-10
    else:
        geom, E, R = _expansion_maps(case, dom, n)
        model, model2 = _model(case, geom, R), _jac_model(case, geom, R)
        outcome, gtag = "Refused", "/domgeom=" + dom            # judge(): refused, or the vector below
        chain = lambda g: E.T @ (R.T @ g)                       # noqa: E731   ChainGrad(E, gradient_fun), gradient_fun = R^T g
        ltol = 1e-9
    if lognormal:
        data = np.exp(logy)
        ntag = "cov:matrix"
        mkdist = lambda name=None: cuqi.distribution.Lognormal(model, np.diag(1 / lam ** 2), **({"name": name} if name else {}))   # noqa: E731
    else:
        data = logy
        kw, ntag = _noise_kw(case, idx)
        mkdist = lambda name=None: cuqi.distribution.Gaussian(model, **kw, **({"name": name} if name else {}))   # noqa: E731
    base = "%s/model=%s/noise=%s/dim=%d%s" % (case["fam"], mk, ntag, n, gtag)
    st, lik, _ = fc.call(lambda: mkdist().to_likelihood(np.array(data)))
    if st == "raise":
        if dom is not None:
            _obs(ctx, "construction_failed", "lik%s/%s" % (gtag, mk))
            return
        ctx.mismatch("construct/" + base, case, "likelihood cannot be built: %r" % (lik,))
        return
    cid = fc.case_id(case)
    # the same object's log-density
    ell = fc.sl_float(case["loglik"])
    r = fc.call(lambda: lik.logd(np.array(x)))
    ctx.case(("loglik", cid, gtag), facet="likelihood_logd" + ("_expansion" if dom else ""))
    got = fc.scalar_of(r[1]) if r[0] == "value" else None
    if got is None or not fc.close(got, ell, ltol, ltol):
        ctx.mismatch("logd/" + base, case, "log-likelihood is not the log-density of the data distribution at F(x)", ell,
                     r[1] if r[0] == "value" else repr(r[1]))
    gl = chain(fc.vec(case["gradlik"]))
    ctx.case(("gradlik", cid, gtag), facet="likelihood_gradient" + ("_expansion" if dom else ""))
    judge(ctx, case, "gradient/" + base, outcome, fc.call(lambda: lik.gradient(np.array(x))), gl, n, tag="lik%s/%s" % (gtag, mk))
    from cuqiverif import c03_point
    ckind = c03_point.pick(x, "lik/" + mk) if dom is None else []       # part Containers: one further admissible container
    c03_point.extra(ctx, case, "gradient/" + base, outcome, lik, x, gl, n, ckind, tag="lik/%s" % mk)
    pr = case["prior"]
    if pr["kind"] == "none":
        if dom is not None:
            return
        # FD on the likelihood itself
        st2, _, _ = fc.call(lambda: lik.enable_FD())
        if st2 == "value":
            ctx.case(("gradlikFD", cid), facet="likelihood_gradient_fd")
            judge(ctx, case, "gradientFD/" + base, "ValueFD", fc.call(lambda: lik.gradient(np.array(x))), gl, n, fd=True,
                  logf=ell, tag="lik/%s/FD" % mk)
            c03_point.extra(ctx, case, "gradientFD/" + base, "ValueFD", lik, x, gl, n, ckind, fd=True, logf=ell, tag="lik/%s" % mk)
        return
    pmean = fc.vec(pr["mean"])

    def mkprior(name=None):
        kwn = {"name": name} if name else {}
        if pr["kind"] == "Gaussian":
            return cuqi.distribution.Gaussian(np.array(pmean), cov=4.0, **kwn)
        with fc.quiet():
            return cuqi.distribution.GMRF(np.array(pmean), 1.0, bc_type="zero", order=1, geometry=n, **kwn)
    pbase = "%s/prior=%s" % (base, pr["kind"])
    st, post, _ = fc.call(lambda: cuqi.distribution.Posterior(lik_fresh(mkdist, data), mkprior()))
    if st == "raise":
        if dom is not None:
            _obs(ctx, "construction_failed", "posterior%s/%s" % (gtag, mk))
            return
        ctx.mismatch("construct/posterior/" + pbase, case, "posterior cannot be built: %r" % (post,))
        return
    lp = fc.sl_float(case["logpost"])
    gp = chain(fc.vec(case["gradpost"]))
    r = fc.call(lambda: post.logd(np.array(x)))
    ctx.case(("logpost", cid, gtag), facet="posterior_logd" + ("_expansion" if dom else ""))
    got = fc.scalar_of(r[1]) if r[0] == "value" else None
    if got is None or not fc.close(got, lp, ltol, ltol):
        ctx.mismatch("logd/posterior/" + pbase, case, "posterior logd is not log-likelihood + log-prior", lp,
                     r[1] if r[0] == "value" else repr(r[1]))
    ctx.case(("gradpost", cid, gtag), facet="posterior_gradient" + ("_expansion" if dom else ""))
    judge(ctx, case, "gradient/posterior/" + pbase, outcome, fc.call(lambda: post.gradient(np.array(x))), gp, n,
          tag="posterior%s/%s" % (gtag, mk))
    c03_point.extra(ctx, case, "gradient/posterior/" + pbase, outcome, post, x, gp, n, ckind, tag="posterior/%s" % mk)
    if dom is None:
        st2, _, _ = fc.call(lambda: post.enable_FD())
        if st2 == "value":
            ctx.case(("gradpostFD", cid), facet="posterior_gradient_fd")
            judge(ctx, case, "gradientFD/posterior/" + pbase, "ValueFD", fc.call(lambda: post.gradient(np.array(x))), gp, n, fd=True,
                  logf=lp, tag="posterior/%s/FD" % mk)
            c03_point.extra(ctx, case, "gradientFD/posterior/" + pbase, "ValueFD", post, x, gp, n, ckind, fd=True, logf=lp,
                            tag="posterior/%s" % mk)
    # posterior with two likelihoods (second: Jacobian model, unit noise, data y2)
    if lognormal or mk not in ("matrix", "jacobian", "geomgrad"):
        return
    y2 = fc.vec(case["y2"])

    def mkmulti():
        m2 = (model2 if dom is not None else _jac_model(case)) if mk != "geomgrad" else None
        xx = mkprior("x")
        y1 = mkdist("y1")
        if m2 is None:
            return None
        yy2 = cuqi.distribution.Gaussian(m2, cov=1.0, name="y2")
        return cuqi.distribution.JointDistribution(xx, y1, yy2)(y1=np.array(data), y2=np.array(y2))
    st, mp, _ = fc.call(mkmulti)
    if st == "raise":
        if dom is not None:
            _obs(ctx, "construction_failed", "multi%s/%s" % (gtag, mk))
            return
        ctx.mismatch("construct/multi/" + pbase, case, "multiple-likelihood posterior cannot be built: %r" % (mp,))
        return
    if mp is None:
        return
    lm = lp + fc.sl_float(case["loglik2"])
    gm = gp + chain(fc.vec(case["gradlik2"]))
    r = fc.call(lambda: mp.logd(np.array(x)))
    ctx.case(("logmulti", cid, gtag), facet="multi_logd" + ("_expansion" if dom else ""))
    got = fc.scalar_of(r[1]) if r[0] == "value" else None
    if got is None or not fc.close(got, lm, ltol, ltol):
        ctx.mismatch("logd/multi/" + pbase, case, "multiple-likelihood posterior logd is not the sum of its densities", lm,
                     r[1] if r[0] == "value" else repr(r[1]))
    ctx.case(("gradmulti", cid, gtag), facet="multi_gradient" + ("_expansion" if dom else ""))
    judge(ctx, case, "gradient/multi/" + pbase, outcome, fc.call(lambda: mp.gradient(np.array(x))), gm, n, tag="multi%s/%s" % (gtag, mk))
    c03_point.extra(ctx, case, "gradient/multi/" + pbase, outcome, mp, x, gm, n, ckind, tag="multi/%s" % mk)


def lik_fresh(mkdist, data):
    return mkdist().to_likelihood(np.array(data))


# ------------------------------------------------------------------ driver
def load_table(cases):
    from cuqiverif.core import MachineryError
    t = [c for c in cases if c.get("kind") == "table"]
    if not t:
        raise MachineryError("Families.tla did not emit the GradOutcome table")
    return {(r["fam"], bool(r["cond"]), r["geom"], bool(r["fd"])): r["outcome"] for r in t[0]["rows"]}


FALLBACK_TABLE = None


def dispatch(ctx, table, case, extras=True, idx=0):
    kind, fam = case.get("kind"), case.get("fam")
    if kind == "lik":
        k = case["cfg"]
        nidx = k["a"] + k["b"] + k["g"] + k["x"] + k["o"]                     # noise form chosen deterministically per case
        check_lik(ctx, case, nidx)
        # the same likelihood / posterior through models on expansion geometries (subclasses of an identity-like geometry)
        for dom in (case.get("expansion") or {}).get("geoms", []):
            check_lik(ctx, case, nidx + 1, dom=dom)
    elif kind == "gaussbig":
        check_gaussbig(ctx, table, case)
    elif kind == "family" and fam == "Gaussian":
        check_gaussian(ctx, table, case, extras)
    elif kind == "family":
        if fam in ("GMRF", "LMRF", "CMRF"):
            from cuqiverif import families_common as fc
            if not fc.mrf_operator_matches(case):
                return
        check_family(ctx, table, case, extras)


def run(ctx):
    from cuqiverif import families_common as fc, tlc
    from cuqiverif.core import MachineryError
    from cuqiverif.props import c04
    from cuqiverif import c03_seq, c03_round5, c03_gallery, c03_point
    pt_jobs = c03_point.start_tlc(ctx)         # FamiliesPoint (container table, probe cases of the bounded families; 1 deviation)
    seq_jobs = c03_seq.start_tlc(ctx)          # Families.reassign + FamiliesSeq (+ its named deviation), in background threads
    r5_jobs = c03_round5.start_tlc(ctx)        # FamiliesSeq parts Siblings (+ named deviation) and Points
    gal_jobs = c03_gallery.start_tlc(ctx)      # FamiliesGallery (class table, Richardson tableau, gallery lattice, stacked pairs; 2 deviations)
    try:
        res = fc.run_families(ctx)
    except BaseException:
        c03_seq.discard_tlc(seq_jobs)
        c03_round5.discard_tlc(r5_jobs)
        c03_gallery.discard_tlc(gal_jobs)
        c03_point.discard_tlc(pt_jobs)
        raise
    ctx.model_must_hold(res, "Families")
    cases = list(res.cases)
    tlc.cleanup(res)
    table = load_table(cases)
    try:
        probes = c03_point.collect_tlc(ctx, pt_jobs)     # sets the container table used next to every gradient call below
    except BaseException:
        c03_seq.discard_tlc(seq_jobs)
        c03_round5.discard_tlc(r5_jobs)
        c03_gallery.discard_tlc(gal_jobs)
        raise
    fams = {}
    for c in cases:
        if c.get("kind") in ("family", "gaussbig", "lik"):
            fams.setdefault(c["fam"], []).append(c)
    missing = [f for f in fc.ALL_FAMS if not fams.get(f)]
    if missing:
        raise MachineryError("Families.tla emitted no case for %r (vacuous lattice)" % missing)
    n = 0
    cache = {}
    for fam in fc.ALL_FAMS:
        lst = fams[fam]
        if fam in ("GMRF", "LMRF", "CMRF"):
            lst = [v for v in (c04.pick_mrf_variant(ctx, vs, cache) for _, vs in sorted(c04.mrf_groups(lst).items())) if v is not None]
        # TLC's workers emit in a scheduling-dependent order: canonical order, so that which cases receive the extra
        # rows below is the same in every run
        lst = sorted(lst, key=fc.case_id)
        # geometry kinds / conditional rows of the table: a spread of cases per family
        step = max(1, len(lst) // (12 if ctx.tier == "quick" else 60))
        for i, c in enumerate(lst):
            dispatch(ctx, table, c, extras=(i % step == 0), idx=i)
            n += 1
    # sequences of public operations on ONE object: parameters / data / prior / model geometry reassigned, FD toggled
    ctx.traces = n
    try:
        re_cases = c03_seq.run(ctx, table, seq_jobs)
    except BaseException:
        c03_seq.discard_tlc(seq_jobs)
        c03_round5.discard_tlc(r5_jobs)
        c03_gallery.discard_tlc(gal_jobs)
        raise
    # two conditioned copies of ONE conditional distribution alive together; dimension-1 evaluation points in every container
    try:
        c03_round5.run(ctx, table, r5_jobs, re_cases)
    except BaseException:
        c03_round5.discard_tlc(r5_jobs)
        c03_gallery.discard_tlc(gal_jobs)
        raise
    # every public class of cuqi.distribution: benchmark gallery (self-defined log-densities), stacked joints, user-defined likelihoods
    try:
        c03_gallery.run(ctx, table, gal_jobs)
    except BaseException:
        c03_gallery.discard_tlc(gal_jobs)
        raise
    # the evaluation point in every admissible container: probe cases of the bounded families (inside / outside / boundary)
    c03_point.run(ctx, table, probes)
    n = ctx.traces
    ctx.observations["cases_per_family"] = {f: len(v) for f, v in fams.items()}
    ctx.observations["decision_table_rows"] = len(table)
    for f in ("CMRF", "InverseGamma", "Lik"):
        c = sorted(fams[f], key=fc.case_id)[len(fams[f]) // 2]
        ctx.sample({k: c[k] for k in ("fam", "dim", "par", "x", "grad", "inside", "mrf", "mk", "A", "lam", "logy", "gradlik", "gradpost")
                    if k in c})
    ctx.sample({"decision_table": [[k[0], k[1], k[2], k[3], v] for k, v in sorted(table.items()) if k[0] in ("Beta", "Normal")]})
    ctx.rule = ("one case per lattice point (family x parameter patterns incl. non-zero location x dim x point inside / outside the "
                "support x boundary condition x order; model kind x noise x prior x point for likelihoods) emitted by TLC with the "
                "exact expected gradient; distinct non-trivial = distinct (call kind, case, way of passing parameters, sparse "
                "threshold, geometry kind, FD flag) evaluated on the real objects; sequences: one behaviour of Families.Reassign per "
                "(start configuration, order of the assignment units) on one distribution object, and per base configuration of "
                "FamiliesSeq walks through its state graph (every operation forth and back, assign-before-first-use, seeded walks) on "
                "one likelihood, one posterior and one multiple-likelihood posterior; siblings: per Reassign pair and prefix of its "
                "assignment order (= callable parameters of the conditional original) the behaviour Condition A, Condition B, Evaluate A, "
                "use of the original, Evaluate B, Evaluate A plus behaviours of FamiliesSeq.Siblings in rotation (thorough: all of "
                "them); points: one case per (dimension-1 configuration, way of passing parameters, container kind, FD flag); classes: "
                "one case per (benchmark, lattice point, pass / container / FD), per (posterior kind, benchmark, every 7th lattice point) "
                "and per stacked pair; containers: one case per (probe configuration, way of passing parameters, admissible container kind, "
                "FD flag) and one per reference gradient call of the main lattice (rotating container kind)")
    ctx.exhaustive = True
    ctx.traces = n
    ctx.assumptions += ["equality 'gradient = derivative of this object's log-density' uses the same lattice points whose logpdf is "
                        "compared with the documented density under C04 (and here for likelihoods / posteriors)",
                        "finite-difference results are compared at forward-difference accuracy only",
                        "a raised exception where a vector is specified is not a violation (recorded as observation)",
                        "PDE-based models are not modelled; user-supplied gradient callables are passed through (only callables that ARE "
                        "the derivative of the supplied log-density are used)",
                        "DistributionGallery and posteriors on it: the reference is the Richardson tableau (h = 2^-7, 2^-8, 2^-9) of central "
                        "differences of the object's own logd, accepted when |R2 - R1(h/2)| + rounding bound <= 1e-7 max(1, |ref|); comparison "
                        "at 1e-6 max(1, |ref|); the benchmarks are analytic on the stencils (spec: SmoothStencil)",
                        "a container of the evaluation point that the implementation refuses (exception) is an observation; "
                        "ModifiedHalfNormal points only where alpha = beta = gamma (finding C03-F3)",
                        "containers: a container kind is used for a point only when it holds the point exactly; single precision points: "
                        "analytic gradients compared at 1e-5 relative; on the boundary of a support no value is asserted (measure zero), "
                        "only agreement with the answer for the float64 array"]


def replay(ctx, case):
    if case.get("kind") == "model":
        return run(ctx)
    from cuqiverif import families_common as fc, tlc
    res = fc.run_families(ctx, fams=["Normal"], tier="quick", workers=2)     # the decision table comes from the spec
    table = load_table(res.cases)
    tlc.cleanup(res)
    if case.get("kind") in ("reassign_seq", "seqwalk"):
        from cuqiverif import c03_seq
        return c03_seq.replay(ctx, table, case)
    if case.get("kind") in ("siblings", "point", "ptlik", "pthyp"):
        from cuqiverif import c03_round5
        return c03_round5.replay(ctx, table, case)
    if case.get("kind") in ("gallery", "stack", "classrow"):
        from cuqiverif import c03_gallery
        return c03_gallery.replay(ctx, table, case)
    from cuqiverif import c03_point
    if case.get("probe") is not None:
        return c03_point.replay(ctx, table, case)
    c03_point.load_table(ctx)                                            # the container table of the spec
    dispatch(ctx, table, case, extras=True, idx=case.get("cfg", {}).get("x", 0))
