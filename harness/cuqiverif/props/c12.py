"""C12 - forward models act identically on every representation of their input.

Spec: specs/ModelGeom.tla (part "C12").  TLC checks OneOutput (five representations), ChainRule (the gradient formula is
the exact derivative of the parameter-to-parameter map, 5-point stencil exact for the polynomial instance) and Rename on
the intended design, the named deviations must violate them, and the exact expected outputs / gradients / refusal table
are replayed into real cuqi.model.Model / LinearModel / PDEModel objects with real geometries.
Sequences of public operations on ONE model object: specs/ModelGeomSeq12.tla (EXTENDS ModelGeom), replayed by cuqiverif/c12_seq.py.
ONE INPUT OBJECT used, modified in place, used again: part X12 of specs/ModelGeomSeq12.tla, replayed by cuqiverif/c12_inplace.py.
IDENTITY of the geometry object an input carries + data layout of the input: specs/ModelGeomIdent.tla, replayed by cuqiverif/c12_ident.py.
"""
META = {
    "claimed": True,
    "engine": "ModelGeom.tla",
    "text": ("TLC checks, for 8 model kinds (polynomial core with Jacobian / direction-Jacobian / no gradient, linear dense / sparse / "
             "function pair, unipotent 4x4 PDE with gradient / Jacobian) x 15 domain x 9 range geometries, that the six input "
             "representations give one output H+(F(G v)), that the gradient J_G^T J_F^T (H+)^T d equals the exact derivative of the "
             "par->par map (exact 5-point stencil), the refusal table and the renaming frame condition (model(dist) differs in the argument name only, "
             "for every geometry the distribution may carry - default, identity-like, mapped, KL, step - and for models with default / int "
             "geometries); 6 named deviations must violate. "
             "Every case is replayed: par ndarray, fun ndarray (is_par=False), CUQIarray par/fun, Samples of parameters and of function values; value, wrapper type, flag and "
             "geometry of the output; gradient for direction/wrt as par, fun, CUQIarray against the exact value or the refusal; model(dist) for "
             "each distribution geometry: name, geometries (object / class / shapes / par2fun), forward values on every representation, "
             "gradient, original untouched. "
             "Sequences on ONE model object (ModelGeomSeq12.tla, EXTENDS ModelGeom): every behaviour of 3 (thorough: also 4) actions out of forward on "
             "each representation, gradient, assignment of domain_geometry / range_geometry, model(dist) and use of the renamed copies is "
             "replayed on one real object - every answer must be the one of a freshly built model with the configuration the object has at "
             "that moment, the copies keep name and behaviour, the caller's inputs stay bit-identical; 2 more named deviations must violate. "
             "ONE INPUT OBJECT (part X12 of ModelGeomSeq12.tla): the state holds the exact content of a CUQIarray of parameters / of function "
             "values, a plain ndarray of either, a Samples object of either; every behaviour Use, Edit, Use (thorough: also Use, Edit, Use, "
             "Edit, Use) with Use in x.funvals | x.parameters | model(x) / model.forward(x) | model.gradient(d, x) and Edit one of 23 in-place "
             "routes on the object (augmented assignment, ufunc out=, setitem, fill, sort, put, copyto, place, putmask, flat, itemset, .real, "
             "setfield) or an edit through a view of its buffer (x.view(), x.view(ndarray), np.asarray(x), x.to_numpy(), the constructor's "
             "array, x[:]; Samples: s.samples, the constructor's array, a view, rebinding) is replayed on real objects for 7 (thorough: 123) "
             "model x geometry configurations incl. StepExpansion, KLExpansion, MappedGeometry, Image2D, user geometries: after every "
             "action the content of the object and the answer must be the spec's exact value for the content the object has at that "
             "moment (X12SeesCurrent, X12UseKeepsContent); 3 more named deviations must violate. "
             "GEOMETRY IDENTITY (ModelGeomIdent.tla, EXTENDS ModelGeom): the geometry OBJECT a CUQIarray / Samples input (forward) or wrt / direction "
             "(gradient) carries is a dimension of the representation - the model's own object, copy.copy / copy.deepcopy of it, a geometry "
             "constructed a second time with the same arguments, the object a prior holds (prior.sample().geometry), the original's object while the "
             "MODEL is a deep copy; abstract objects [record, id], 'consistent' = equal records: invariants IdentOneInput / IdentWrt (the function "
             "value / parameters the model obtains are G v / w for every equal identity), deviation GeometryMatchedByIdentity must violate both; "
             "replayed for 4 (thorough 8) model kinds x every domain geometry where a second par2fun would change the value; a Samples object of PARAMETERS that carries no geometry "
             "(default), an identity-like one or a mapped one with another map is converted with the MODEL's par2fun (IdentSamplesPar, deviation "
             "SamplesConvertedWithOwnGeometry must violate); other inputs whose geometry is NOT equal (other grid / size) are recorded only.  The raw values come as int / float32 / strided / read-only / column-major arrays "
             "(layout is a field of the case; also for plain ndarray inputs).  "
             "CLASS OF THE VALUES IN FLIGHT (part FG, ModelGeomForeign.tla, EXTENDS ModelGeom): abstract values [v, cls, flag, geo] travel through TwoFun . operator . "
             "TwoPar; a CUQIarray of PARAMETERS carrying ANOTHER geometry (none given = default, Discrete, Continuous1D on another grid, MappedGeometry with another "
             "map) x operators that hand back the class and attributes of their argument (x itself, a view, a ufunc, A @ x; polynomial A @ x + B @ (x * x)) or a fresh "
             "plain array (scipy sparse, np.asarray) x 10 geometries in front of and behind the operator (identity-like, Image2D C / F, Continuous2D, StepExpansion "
             "mean / max, MappedGeometry, expansion) x forward / adjoint / gradient(direction): invariant FgOneOutput (the answer is the value for the plain parameter "
             "vector, for every choice of the free booleans 'par2fun keeps the class' / 'the library calls the geometries equal'); deviations OutputFlagTrusted and "
             "DefaultEqualsEveryGridGeometry (tree as built, C12-F2) must violate.  Replay: real LinearModel / Model with operators realised literally, value, wrapper "
             "(CUQIarray of parameters of the geometry behind the operator), input untouched; a refused construction is a violation, not a machinery failure."),
    "note": ("Bounded sizes (domain function dimension 6, range 4); one argument models only (the pinned version supports one input). "
             "KLExpansion realised numerically from the original geometry object. Exact class of the output for plain ndarray input and "
             "exception types are observations, not asserted."),
    "technique": "TLA+ spec (ModelGeom) model-checked with TLC; TLC-emitted cases replayed into cuqi.model.Model/LinearModel/PDEModel",
}

import warnings

import numpy as np

DEVIATIONS = [("GradientOmitsGeometryDerivative", "ChainRule"), ("SamplesItemsAsFunvals", "OneOutput"),
              ("ArrayFlagIgnored", "OneOutput"), ("RenameMutatesOriginal", "Rename"),
              ("SamplesFunItemsAsParameters", "OneOutput"), ("RenameAdoptsDistributionGeometry", "Rename")]


def _try(f):
    try:
        with warnings.catch_warnings():
            warnings.simplefilter("ignore")
            return f(), None
    except Exception as e:  # noqa: BLE001 - a refusal of the real code is data for the comparison
        return None, e


def _core_numeric(case):
    """numpy transcription of the spec's core operator (used only for the numerically realised KLExpansion variant)."""
    from cuqiverif.modelgeom_real import imat, ivec
    mk = case["mk"]
    A = imat(case["A"])
    B = imat(case["B"]) if len(case["B"]) else np.zeros_like(A)
    if mk.startswith("pde"):
        pos = [(0, 1), (0, 2), (0, 3), (1, 2), (1, 3), (2, 3)]
        b = ivec(case["pde_b"])

        def amat(u):
            M = np.eye(4)
            for p, (i, j) in enumerate(pos):
                M[i, j] = u[p]
            return M

        def fv(u):
            return np.linalg.solve(amat(u), b)

        def jft(u, d):
            Am = amat(u)
            s = np.linalg.solve(Am, b)
            z = np.linalg.solve(Am.T, d)
            return np.array([-z[i] * s[j] for (i, j) in pos])
        return fv, jft
    return (lambda u: A @ u + B @ (u * u)), (lambda u, d: A.T @ d + 2 * u * (B.T @ d))


def _expectations(case, dom, rng):
    from cuqiverif.modelgeom_real import rvec, ivec
    vs = [ivec(v) for v in case["vs"]]
    w, d = ivec(case["w"]), ivec(case["d"])
    if not (dom.numeric or rng.numeric):
        return {"vs": vs, "fs": [rvec(f) for f in case["fs"]], "outs": [rvec(o) for o in case["outs"]], "w": w, "d": d,
                "wf": rvec(case["wf"]), "grad": rvec(case["grad"]) if case["grad_defined"] else None,
                "dfun": (np.asarray(rng.G) @ d) if rng.G is not None else None}
    # KLExpansion variant: the geometry maps of the *original* geometry objects composed with the spec's core operator
    fv, jft = _core_numeric(case)
    with warnings.catch_warnings():
        warnings.simplefilter("ignore")
        p2f = (lambda v: np.asarray(dom.obj.par2fun(v), dtype=float).ravel())
        f2p = ((lambda f: np.asarray(f, dtype=float).ravel()) if isinstance(rng.obj, int)      # default geometry given as an int
               else (lambda f: np.asarray(rng.obj.fun2par(rng.to_fun(f)), dtype=float).ravel()))
        fs = [p2f(v) for v in vs]
        outs = [f2p(fv(f)) for f in fs]
        grad = None
        if dom.G is not None and rng.Gp is not None:
            grad = np.asarray(dom.G).T @ jft(np.asarray(dom.G) @ w, np.asarray(rng.Gp).T @ d)
    return {"vs": vs, "fs": fs, "outs": outs, "w": w, "d": d, "wf": p2f(w), "grad": grad,
            "dfun": (np.asarray(rng.G) @ d) if rng.G is not None else None}


def check_case_variant(ctx, case, dom, rng):
    import cuqi
    from cuqi.array import CUQIarray
    from cuqi.samples import Samples
    from cuqiverif.modelgeom_real import build_general_model, close, gkey
    from cuqiverif.tlc import MachineryError
    key = "mk=%s/dom=%s/rng=%s" % (case["mk"], gkey(dom.g), gkey(rng.g))
    exp = _expectations(case, dom, rng)
    model = build_general_model(case, dom, rng)
    dgeom, rgeom = model.domain_geometry, model.range_geometry
    # the realised geometry must have the par2fun of the specification (the geometry itself is C13's subject)
    if not (dom.numeric or rng.numeric):
        with warnings.catch_warnings():
            warnings.simplefilter("ignore")
            got = np.asarray(dgeom.par2fun(exp["vs"][0]), dtype=float).ravel()
        if not close(got, exp["fs"][0]):
            raise MachineryError("realised domain geometry %s does not have the par2fun of the specification" % key)

    # ---- forward on the five representations --------------------------------------------------------------------
    def compare(rep, i, out, err, want_type):
        sig = "forward/%s/rep=%s" % (key, rep)
        if err is not None:
            ctx.mismatch(sig + "/raised", case, "forward raised on input representation %s" % rep, exp["outs"][i], repr(err))
            return
        if want_type == "ndarray":
            if isinstance(out, Samples) or not isinstance(out, np.ndarray):
                ctx.mismatch(sig + "/type", case, "output for ndarray input is not an ndarray", "ndarray", type(out).__name__)
                return
            ctx.observations.setdefault("ndarray_input_output_class", {}).setdefault(type(out).__name__, 0)
            ctx.observations["ndarray_input_output_class"][type(out).__name__] += 1
        elif want_type == "CUQIarray":
            if not isinstance(out, CUQIarray):
                ctx.mismatch(sig + "/type", case, "output for CUQIarray input is not wrapped as CUQIarray", "CUQIarray", type(out).__name__)
                return
            if out.is_par is not True or not (out.geometry == rgeom):
                ctx.mismatch(sig + "/wrap", case, "output CUQIarray is not flagged as parameters of the range geometry",
                             {"is_par": True, "geometry": repr(rgeom)}, {"is_par": out.is_par, "geometry": repr(out.geometry)})
                return
        if not close(np.asarray(out, dtype=float), exp["outs"][i]):
            ctx.mismatch(sig + "/value", case, "forward on representation %s is not H+(F(G v))" % rep, exp["outs"][i], np.asarray(out))

    for i, v in enumerate(exp["vs"]):
        f = dom.to_fun(exp["fs"][i])
        ctx.case(("forward", key, case["fi"], i), facet="forward_reps")
        out, err = _try(lambda: model.forward(v))
        compare("par_nd", i, out, err, "ndarray")
        if i == 0:
            out, err = _try(lambda: model(v))
            compare("par_nd_call", i, out, err, "ndarray")
            out, err = _try(lambda: model.forward(x=v))
            compare("par_nd_kw", i, out, err, "ndarray")
        out, err = _try(lambda: model.forward(f, is_par=False))
        compare("fun_nd", i, out, err, "ndarray")
        out, err = _try(lambda: model.forward(CUQIarray(v, is_par=True, geometry=dgeom)))
        compare("arr_par", i, out, err, "CUQIarray")
        out, err = _try(lambda: model.forward(CUQIarray(f, is_par=False, geometry=dgeom)))
        compare("arr_fun", i, out, err, "CUQIarray")
        if i == 0:
            out, err = _try(lambda: model.forward(CUQIarray(f, is_par=False, geometry=dgeom), is_par=False))
            compare("arr_fun_flagged", i, out, err, "CUQIarray")
    # Samples: column-wise
    ctx.case(("samples", key, case["fi"]), facet="forward_samples")
    S = Samples(np.column_stack(exp["vs"]), geometry=dgeom)
    out, err = _try(lambda: model.forward(S))
    sig = "forward/%s/rep=samples" % key
    if err is not None:
        ctx.mismatch(sig + "/raised", case, "forward raised on a Samples input", None, repr(err))
    elif not isinstance(out, Samples):
        ctx.mismatch(sig + "/type", case, "output for Samples input is not Samples", "Samples", type(out).__name__)
    else:
        arr = np.asarray(out.samples, dtype=float)
        want = np.column_stack(exp["outs"])
        if not (out.geometry == rgeom) or getattr(out, "is_par", True) is not True:
            ctx.mismatch(sig + "/wrap", case, "output Samples do not carry the range geometry as parameters", repr(rgeom), repr(out.geometry))
        elif not close(arr, want):
            ctx.mismatch(sig + "/value", case, "forward on Samples is not column-wise H+(F(G v))", want, arr)
        if not close(np.asarray(S.samples), np.column_stack(exp["vs"])):
            ctx.mismatch(sig + "/input_mutated", case, "forward changed the input Samples", None, None)

    # Samples of FUNCTION values (is_par=False; vector form exactly when the function values are 1-D): same outputs
    ctx.case(("samples_fun", key, case["fi"]), facet="forward_samples_fun")
    Ff = np.stack([dom.to_fun(f) for f in exp["fs"]], axis=-1)
    Sf = Samples(Ff.copy(), geometry=dgeom, is_par=False, is_vec=(Ff.ndim == 2))
    sig = "forward/%s/rep=samples_fun" % key
    for tag, call in (("", lambda: model.forward(Sf)), ("_flagged", lambda: model.forward(Sf, is_par=False))):
        out, err = _try(call)
        want = np.column_stack(exp["outs"])
        if err is not None:
            ctx.mismatch(sig + tag + "/raised", case, "forward raised on a Samples input holding function values", want, repr(err))
        elif not isinstance(out, Samples):
            ctx.mismatch(sig + tag + "/type", case, "output for Samples input is not Samples", "Samples", type(out).__name__)
        elif not (out.geometry == rgeom) or getattr(out, "is_par", True) is not True:
            ctx.mismatch(sig + tag + "/wrap", case, "output Samples do not carry the range geometry as parameters", repr(rgeom), repr(out.geometry))
        elif not close(np.asarray(out.samples, dtype=float), want):
            ctx.mismatch(sig + tag + "/value", case, "forward on Samples of function values is not column-wise H+(F(f)): the columns were "
                         "not used as function values", want, np.asarray(out.samples))
    if not close(np.asarray(Sf.samples), Ff):
        ctx.mismatch(sig + "/input_mutated", case, "forward changed the input Samples", None, None)

    # ---- gradient -------------------------------------------------------------------------------------------------
    w, d, wf = exp["w"], exp["d"], dom.to_fun(exp["wf"])
    combos = [("d_par/w_par", lambda: model.gradient(d, w), case["refused"], None),
              ("d_par/w_fun", lambda: model.gradient(d, wf, is_wrt_par=False), case["refused_wrt_fun"], None),
              ("d_par/w_arr_par", lambda: model.gradient(d, CUQIarray(w, is_par=True, geometry=dgeom)), case["refused"], None),
              ("d_arr/w_par", lambda: model.gradient(CUQIarray(d, is_par=True, geometry=rgeom), w), case["refused"], "CUQIarray")]
    if dom.g["kind"] not in ("noinv", "ugradnoinv"):    # (a CUQIarray of function values needs fun2par only on conversion)
        combos.append(("d_par/w_arr_fun", lambda: model.gradient(d, CUQIarray(wf, is_par=False, geometry=dgeom)),
                       case["refused_wrt_fun"], None))
    if exp["dfun"] is not None and not case["refused"]:
        dfun = rng.to_fun(exp["dfun"])
        combos.append(("d_fun/w_par", lambda: model.gradient(dfun, w, is_direction_par=False), case["refused"], None))
    for name, call, refused, wrap in combos:
        ctx.case(("gradient", key, case["fi"], name), facet="gradient")
        out, err = _try(call)
        sig = "gradient/%s/%s" % (key, name)
        if refused:
            if err is None:
                if exp["grad"] is not None and close(np.asarray(out, dtype=float).ravel(), exp["grad"]):
                    ctx.observations.setdefault("gradient_correct_where_refusal_expected", []).append(sig)
                else:
                    ctx.mismatch(sig + "/not_refused", case, "gradient that cannot be formed correctly is not refused and is not the "
                                 "derivative of the parameter-to-parameter map", exp["grad"], np.asarray(out))
            continue
        if err is not None:
            ctx.mismatch(sig + "/raised", case, "gradient refused / raised although the chain rule can be formed", exp["grad"], repr(err))
            continue
        if wrap == "CUQIarray":
            if not isinstance(out, CUQIarray) or out.is_par is not True or not (out.geometry == dgeom):
                ctx.mismatch(sig + "/wrap", case, "gradient for a CUQIarray direction is not a CUQIarray of domain parameters",
                             "CUQIarray(par, domain geometry)", type(out).__name__)
                continue
        if not close(np.asarray(out, dtype=float).ravel(), exp["grad"]):
            ctx.mismatch(sig + "/value", case, "gradient is not J_G(wrt)^T J_F(G wrt)^T direction", exp["grad"], np.asarray(out))
    # Samples as direction / wrt: documented as unsupported; what happens is recorded only
    out, err = _try(lambda: model.gradient(d, Samples(np.column_stack([w, w]), geometry=dgeom)))
    ctx.observations.setdefault("gradient_samples_wrt", {}).setdefault("refused" if err is not None else "returned", 0)
    ctx.observations["gradient_samples_wrt"]["refused" if err is not None else "returned"] += 1

    # ---- applying the model to a distribution only renames its input ------------------------------------------------
    check_rename(ctx, case, key, model, exp, dom, rng, "")
    if case["mk"] in ("lin_dense", "lin_sparse") and dom.g["kind"] == "default1d" and rng.g["kind"] == "default1d":
        # geometries not given at all (inferred from the matrix)
        import scipy.sparse as sp
        from cuqiverif.modelgeom_real import imat
        A = imat(case["A"])
        inferred, e_inf = _try(lambda: cuqi.model.LinearModel(A.copy() if case["mk"] == "lin_dense" else sp.csc_matrix(A)))
        if e_inf is None:
            check_rename(ctx, case, key, inferred, exp, dom, rng, "/geometries=inferred")


def _dist_geometry(rec, G):
    """real geometry carried by the distribution a model is applied to (None = default geometry)"""
    import cuqi
    from cuqiverif.modelgeom_real import rmat
    from cuqiverif.tlc import MachineryError
    kind, p = rec["kind"], rec["k"]
    if kind == "default1d":
        return None
    if kind == "cont1d":
        return cuqi.geometry.Continuous1D(p)
    if kind == "discrete":
        return cuqi.geometry.Discrete(p)
    if kind == "mapped":
        M = rmat(G)
        return cuqi.geometry.MappedGeometry(cuqi.geometry.Continuous1D(p), map=lambda f: M @ f, imap=lambda f: np.linalg.solve(M, f))
    if kind == "klfull":
        return cuqi.geometry.KLExpansion(np.linspace(0, 1, p))
    if kind == "step":
        return cuqi.geometry.StepExpansion(np.arange(rec["n"], dtype=float), n_steps=p)
    raise MachineryError("unknown distribution geometry kind %r" % kind)


def _geom_snapshot(geom, v):
    """what identifies a geometry for the frame condition: the object, its class, its shapes and its par2fun on one input"""
    f, _ = _try(lambda: np.asarray(geom.par2fun(v), dtype=float).copy())
    return {"obj": geom, "type": type(geom), "par_shape": tuple(geom.par_shape), "fun_shape": tuple(geom.fun_shape), "f": f}


def _same_geometry(geom, snap, v):
    if geom is not snap["obj"] and not (type(geom) is snap["type"] and geom == snap["obj"]):
        return False
    if type(geom) is not snap["type"] or tuple(geom.par_shape) != snap["par_shape"] or tuple(geom.fun_shape) != snap["fun_shape"]:
        return False
    f, _ = _try(lambda: np.asarray(geom.par2fun(v), dtype=float))
    return (f is None and snap["f"] is None) or (f is not None and snap["f"] is not None and f.shape == snap["f"].shape
                                                  and bool(np.allclose(f, snap["f"], rtol=1e-12, atol=1e-12)))


def check_rename(ctx, case, key, model, exp, dom, rng, tag):
    """Rename facet of ModelGeom.tla: for every geometry a distribution may carry (emitted by the spec: default, identity-like,
    mapped, KL, step) model(dist) is a NEW model whose record differs from the original's in the argument name only (expected
    record and forward values from the spec): same outputs on every input representation, same geometries, same gradient /
    refusal; the original keeps name, geometries and behaviour."""
    import cuqi
    from cuqi.array import CUQIarray
    from cuqi.samples import Samples
    from cuqiverif.modelgeom_real import close
    names = lambda mdl: list(cuqi.utilities.get_non_default_args(mdl))       # noqa: E731
    ren = case["rename"]
    want_name = [ren["expect"]["arg"]]
    vs, outs = exp["vs"], exp["outs"]
    v0, o0 = vs[0], outs[0]
    w, d = exp["w"], exp["d"]
    f0 = dom.to_fun(exp["fs"][0])
    p_dim = model.domain_dim
    for drec in ren["dists"]:
        grec = drec["geo"]
        if grec["k"] != p_dim:
            from cuqiverif.tlc import MachineryError
            raise MachineryError("spec distribution geometry has %d parameters, model %s has %d" % (grec["k"], key, p_dim))
        dk = grec["kind"]
        ctx.case(("rename", key, case["fi"], tag, dk), facet="rename")
        sig = "rename/%s%s/dist=%s" % (key, tag, dk)
        before = names(model)
        dsnap, rsnap = _geom_snapshot(model.domain_geometry, v0), _geom_snapshot(model.range_geometry, o0)
        dgeom, rgeom = model.domain_geometry, model.range_geometry
        geo = _dist_geometry(grec, drec["G"])
        dist, e_d = _try(lambda: cuqi.distribution.Gaussian(np.zeros(p_dim), 1, name="z", **({} if geo is None else {"geometry": geo})))
        if e_d is not None:
            from cuqiverif.tlc import MachineryError
            raise MachineryError("cannot build the distribution with geometry %s: %r" % (dk, e_d))
        new, err = _try(lambda: model(dist))
        if err is not None or not isinstance(new, cuqi.model.Model):
            ctx.mismatch(sig + "/raised", case, "model(distribution) did not return a model", "model", repr(err) if err else type(new).__name__)
            continue
        if names(new) != want_name:
            ctx.mismatch(sig + "/name", case, "renamed model does not take the distribution's name", want_name, names(new))
        # the original: untouched
        if new is model or names(model) != before:
            ctx.mismatch(sig + "/original_mutated", case, "applying the model to a distribution changed the original model", before, names(model))
        if model.domain_geometry is not dgeom or model.range_geometry is not rgeom or not _same_geometry(model.domain_geometry, dsnap, v0) \
                or not _same_geometry(model.range_geometry, rsnap, o0):
            ctx.mismatch(sig + "/original_mutated/geometry", case, "applying the model to a distribution changed the geometries of the "
                         "original model", [repr(dsnap["obj"]), repr(rsnap["obj"])], [repr(model.domain_geometry), repr(model.range_geometry)])
        o_old, e_old = _try(lambda: model.forward(x=v0))
        if e_old is not None or not close(np.asarray(o_old, dtype=float), o0):
            ctx.mismatch(sig + "/original_mutated", case, "original model no longer evaluates with its own argument name", o0,
                         repr(e_old) if e_old else o_old)
        # the copy: same geometries, class ...
        if not _same_geometry(new.domain_geometry, dsnap, v0) or not _same_geometry(new.range_geometry, rsnap, o0) or type(new) is not type(model):
            ctx.mismatch(sig + "/geometry", case, "renamed model changed geometry or class (only the argument name may change)",
                         {"domain": repr(dsnap["obj"]), "range": repr(rsnap["obj"]), "class": type(model).__name__},
                         {"domain": repr(new.domain_geometry), "range": repr(new.range_geometry), "class": type(new).__name__})
        # ... and the same forward values on every representation of the input (expected outputs: the spec's Apply(v))
        reps = [("par_kw", 0, lambda: new.forward(z=v0)), ("par_call", 0, lambda: new(v0)),
                ("par_nd", 1, lambda: new.forward(vs[1])), ("par_nd", 2, lambda: new.forward(z=vs[2])),
                ("fun_nd", 0, lambda: new.forward(f0, is_par=False)),
                ("arr_par", 0, lambda: new.forward(CUQIarray(v0, is_par=True, geometry=dgeom))),
                ("arr_fun", 0, lambda: new.forward(z=CUQIarray(f0, is_par=False, geometry=dgeom)))]
        for rep, i, call in reps:
            o_new, e_new = _try(call)
            if e_new is not None or not close(np.asarray(o_new, dtype=float), outs[i]):
                ctx.mismatch(sig + "/apply/rep=" + rep, case, "renamed model does not act like the original (same forward values expected "
                             "on representation %s)" % rep, outs[i], repr(e_new) if e_new else np.asarray(o_new))
        S = Samples(np.column_stack(vs), geometry=dgeom)
        o_s, e_s = _try(lambda: new.forward(S))
        if e_s is not None or not isinstance(o_s, Samples) or not close(np.asarray(o_s.samples, dtype=float), np.column_stack(outs)):
            ctx.mismatch(sig + "/apply/rep=samples", case, "renamed model does not act like the original on a Samples input",
                         np.column_stack(outs), repr(e_s) if e_s else (np.asarray(o_s.samples) if isinstance(o_s, Samples) else type(o_s).__name__))
        # gradient: same value / still refused-or-correct
        g_new, e_g = _try(lambda: new.gradient(d, w))
        if not case["refused"]:
            if e_g is not None or not close(np.asarray(g_new, dtype=float).ravel(), exp["grad"]):
                ctx.mismatch(sig + "/gradient", case, "renamed model's gradient differs from the original's", exp["grad"],
                             repr(e_g) if e_g else g_new)
        elif e_g is None and not (exp["grad"] is not None and close(np.asarray(g_new, dtype=float).ravel(), exp["grad"])):
            ctx.mismatch(sig + "/gradient/not_refused", case, "renamed model returns a gradient the original refuses and it is not the "
                         "derivative of the parameter-to-parameter map", exp["grad"], np.asarray(g_new))
    bad = cuqi.distribution.Gaussian(np.zeros(p_dim + 1), 1, name="z")
    _, e_bad = _try(lambda: model(bad))
    ctx.observations.setdefault("rename_dimension_mismatch", {}).setdefault("refused" if e_bad is not None else "accepted", 0)
    ctx.observations["rename_dimension_mismatch"]["refused" if e_bad is not None else "accepted"] += 1


def check_case(ctx, case):
    # a constructor of the library refusing a configuration the specification calls well-formed is a VIOLATION
    # construct/<key>/construction_refused (exit 1), never a machinery failure (modelgeom_real.construct)
    from cuqiverif.modelgeom_real import refusal_is_violation
    return refusal_is_violation("construct")(_check_case_body)(ctx, case)


def _check_case_body(ctx, case):
    from cuqiverif.modelgeom_real import build_geometry, rmat
    Gd, Gpd, Hr, Hpr = (rmat(case[k]) if len(case[k]) else None for k in ("Gd", "Gpd", "Hr", "Hpr"))
    variants = [(None, None)]
    if case["dg"]["kind"] == "linexp":
        variants.append(("kl", None))
    if case["rg"]["kind"] == "linexp":
        variants.append((None, "kl"))
    for vd, vr in variants:
        dom = build_geometry(case["dg"], Gd, Gpd, variant=vd)
        rng = build_geometry(case["rg"], Hr, Hpr, variant=vr)
        check_case_variant(ctx, case, dom, rng)


def run(ctx):
    from cuqiverif import c12_inplace, c12_ident, c12_foreign
    inplace = c12_inplace.start(ctx)              # TLC runs of the in-place facet: in the background, collected at the end
    ident = c12_ident.start(ctx)                  # TLC runs of the geometry-identity facet (ModelGeomIdent.tla), in the background
    foreign = c12_foreign.start(ctx)              # TLC runs of the class-in-flight facet (ModelGeomForeign.tla), in the background
    try:
        cases = _run(ctx)
    except BaseException:
        c12_inplace.abandon(inplace)
        c12_ident.abandon(ident)
        c12_foreign.abandon(foreign)
        raise
    try:
        ctx.traces += c12_inplace.finish(ctx, inplace)
    except BaseException:
        c12_ident.abandon(ident)
        c12_foreign.abandon(foreign)
        raise
    try:
        ctx.traces += c12_ident.finish(ctx, ident, cases)
    except BaseException:
        c12_foreign.abandon(foreign)
        raise
    ctx.traces += c12_foreign.finish(ctx, foreign)


def _run(ctx):
    from cuqiverif import tlc
    from cuqiverif.core import MachineryError
    for dev, inv in DEVIATIONS:
        res = ctx.tlc("ModelGeom", cfg="ModelGeom.C12.%s.deviation.cfg" % dev, workers=1, expect_violation=True, timeout=600)
        if res.violated != inv:
            raise MachineryError("deviation %s did not violate %s on the model (violated=%r)" % (dev, inv, res.violated))
        ctx.observations.setdefault("deviation_counterexamples", {})[dev] = inv
        tlc.cleanup(res)
    res = ctx.tlc("ModelGeom", cfg="ModelGeom.C12.%s.cfg" % ctx.tier, workers=4, timeout=1700)
    ctx.model_must_hold(res, "ModelGeom.C12")
    cases = [c for c in res.cases if c.get("kind") == "c12"]
    tlc.cleanup(res)
    if not cases:
        raise MachineryError("no cases emitted by ModelGeom (C12)")
    # TLC's workers emit in arbitrary order: replay in a fixed order
    cases.sort(key=lambda c: (c["mk"], c["dg"]["kind"], c["dg"]["k"], c["dg"]["proj"], c["rg"]["kind"], c["rg"]["k"], c["rg"]["proj"], c["fi"]))
    for c in cases:
        check_case(ctx, c)
    ctx.observe("refusal_table", {"refused": sum(1 for c in cases if c["refused"]), "value": sum(1 for c in cases if not c["refused"]),
                                  "refused_only_for_wrt_fun": sum(1 for c in cases if c["refused_wrt_fun"] and not c["refused"])})
    pick = [c for c in cases if c["mk"] == "gen_jac" and c["dg"]["kind"] == "ugradtri" and c["rg"]["kind"] == "cont1d"][:1]
    pick += [c for c in cases if c["mk"] == "pde_grad" and c["dg"]["kind"] == "ugradlin"][:1]
    pick += [c for c in cases if c["mk"] == "lin_func" and c["dg"]["kind"] == "imgF" and c["rg"]["kind"] == "imgF"][:1]
    for c in pick:
        ctx.sample({"case": {k: c[k] for k in ("mk", "dg", "rg", "A", "B", "vs", "outs", "w", "d", "refused", "grad")}})
    ctx.rule = ("one case per (model kind, domain geometry, range geometry, core operator) emitted by TLC from ModelGeom.tla with exact "
                "outputs for three inputs, exact gradient and refusal flags; non-trivial = distinct configuration x (input index | "
                "gradient representation combo | samples | rename)")
    ctx.exhaustive = True
    ctx.traces = len(cases)
    # sequences of public operations on ONE model object (ModelGeomSeq12.tla)
    from cuqiverif import c12_seq
    ctx.traces += c12_seq.run_seq12(ctx)
    ctx.assumptions += ["function dimensions 6 (domain) and 4 (range); single-input models",
                        "KLExpansion realised numerically: its maps are read off the original geometry object",
                        "floating comparison rtol=atol=1e-10"]
    return cases


def replay(ctx, case):
    if case.get("kind") == "model":
        return run(ctx)
    if case.get("kind") == "c12":
        return check_case(ctx, case)
    if case.get("kind") == "seq12":
        from cuqiverif import c12_seq
        return c12_seq.check_seq12_case(ctx, case)
    if case.get("kind") == "ident":
        from cuqiverif import c12_ident
        return c12_ident.replay(ctx, case)
    if case.get("kind") == "fg":
        from cuqiverif import c12_foreign
        return c12_foreign.replay(ctx, case)
    if case.get("kind") == "x12":
        from cuqiverif import c12_inplace
        return c12_inplace.check_x12_case(ctx, case)
    from cuqiverif.core import MachineryError
    raise MachineryError("unknown replay case kind %r" % case.get("kind"))
