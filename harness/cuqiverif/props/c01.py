"""C01 - conditioning a joint distribution preserves the joint log-density.

Spec: specs/JointCond.tla.  TLC explores every digraph on N variables and every order / grouping / passing mode of the
conditioning calls, checks ExactlyOnce / FreeVars / LikUnreachable / OrderIndependent on every reachable state and emits
every behaviour; each behaviour is replayed on two realisations of the graph (families Gaussian / Gamma / Laplace /
GMRF / LMRF, parents entering through mean, scale, rate and shape callables and through a non-linear cuqi Model) and,
after EVERY conditioning step, the result is evaluated at two completions by keyword (shuffled), by position, through
the stacked view, and with malformed argument sets; the oracle is a closed-form numpy evaluation of the ORIGINAL
factors (jointgraphs.Factor.oracle), never the joint.
"""
META = {
    "claimed": True,
    "engine": "JointCond.tla",
    "text": ("TLC checks token bookkeeping (every original factor counted exactly once: live, kept as evaluated factor, or folded "
             "into the constant), free-variable sets, unreachability of the constant-losing likelihood-only branch and order "
             "independence on all digraphs with N<=4 variables (65,536 states for N=4), requires two named deviations to violate "
             "ExactlyOnce, and emits every behaviour for N<=3 (simulated behaviours for N=4); every behaviour is replayed on two "
             "realisations with the log-density compared after every step against a closed-form oracle of the original factors. "
             "Recorded lineages (replays, the repository's tests, and every conditional factor of every graph used stand-alone: staged "
             "conditioning on all subsets of its parents, complete / missing / misnamed / surplus / re-fixed keyword sets) are "
             "validated against TraceJointCond.tla. A reduced joint re-used as a factor of a second joint is compared with the same oracle."),
    "note": ("Families and callables of the realisations are fixed recipes (jointgraphs.py); dims 1-3; values on a half-integer "
             "lattice; rtol 1e-9. Result classes are logged for coverage, not asserted."),
    "technique": "TLA+ spec (JointCond) model-checked with TLC; every TLC-generated conditioning behaviour replayed into JointDistribution with a closed-form oracle",
}

import json, os, random, warnings
import numpy as np

VERIF_ROOT = os.path.dirname(os.path.dirname(os.path.dirname(os.path.dirname(os.path.abspath(__file__)))))
HARNESS = os.path.join(VERIF_ROOT, "harness")

RTOL = 1e-9


def _close(a, b):
    a, b = float(np.asarray(a).reshape(-1)[0]), float(b)
    return abs(a - b) <= RTOL * max(1.0, abs(b))


def _names(obj):
    try:
        return list(obj.get_parameter_names())
    except Exception:
        return None


def _eval_all(ctx, obj, R, fixedvals, free, sig, case, rnd):
    """evaluate obj at two completions in every admissible way; compare with the oracle of the original factors"""
    from cuqiverif import jointgraphs as jg
    import cuqi
    # the arrays handed to the object are the SAME objects in both evaluations, modified in place in between
    # (as samplers do with their state vectors): nothing may be remembered across evaluations by object identity
    buffers = {v: np.array(R.completion(1)[v], dtype=float, copy=True) for v in free}
    for k in (1, 2, 1):
        vals = R.completion(k)
        for v in free:
            buffers[v][...] = vals[v]
        vals = {v: (buffers[v] if v in buffers else x) for v, x in vals.items()}
        vals.update(fixedvals)
        exp = R.total(vals)
        kw = {jg.name(v): vals[v] for v in free}
        items = list(kw.items())
        rnd.shuffle(items)
        try:
            got = obj.logd(**dict(items)) if free else obj.logd()
        except Exception as ex:
            ctx.mismatch(sig + "/logd_kw_refused", case, "well-formed keyword evaluation refused: %s" % str(ex)[:150])
            return False
        if not _close(got, exp):
            ctx.mismatch(sig + "/logd_kw", case, "log-density by keyword differs from the sum of the original factors", exp, got)
            return False
        names = _names(obj)
        if free and names is not None and set(names) == set(kw):
            try:
                got = obj.logd(*[kw[n] for n in names])
                if not _close(got, exp):
                    ctx.mismatch(sig + "/logd_pos", case, "log-density by position differs from the sum of the original factors", exp, got)
                    return False
            except Exception as ex:
                ctx.mismatch(sig + "/logd_pos_refused", case, "well-formed positional evaluation refused: %s" % str(ex)[:150])
                return False
            # mixed: first positional, rest keyword.  The property speaks of passing "by position or by keyword"; whether a
            # mixture is accepted is not stated (a refusal is logged), but a NUMBER that is returned must be the right one
            if len(names) >= 2:
                try:
                    got = obj.logd(kw[names[0]], **{n: kw[n] for n in names[1:]})
                except Exception as ex:
                    ctx.observations["mixed_passing_refused"] = ctx.observations.get("mixed_passing_refused", 0) + 1
                    got = None
                if got is not None and not _close(got, exp):
                    ctx.mismatch(sig + "/logd_mixed", case, "log-density with mixed positional/keyword passing differs", exp, got)
                    return False
        # stacked view of a joint
        if isinstance(obj, cuqi.distribution.JointDistribution) and free and type(obj).__name__ == "JointDistribution":
            st = obj._as_stacked()
            order = st.get_parameter_names()
            vec = np.concatenate([np.asarray(kw[n], dtype=float).reshape(-1) for n in order])
            got = st.logd(vec)
            if not _close(got, exp):
                ctx.mismatch(sig + "/stacked", case, "stacked-vector view evaluates to another number", exp, got)
                return False
    return True


def _malformed(ctx, obj, R, fixedvals, free, sig, case):
    """missing / unknown / doubly specified / too many: must raise, never return a number"""
    from cuqiverif import jointgraphs as jg
    if not free:
        return
    vals = R.completion(1)
    vals.update(fixedvals)
    kw = {jg.name(v): vals[v] for v in free}
    names = _names(obj) or list(kw)
    trials = []
    if len(kw) >= 1:
        miss = dict(kw)
        miss.pop(names[-1])
        trials.append(("missing", (), miss))
    trials.append(("unknown", (), dict(kw, zz_unknown=np.ones(1))))
    trials.append(("double", (kw[names[0]],), dict(kw)))
    trials.append(("toomany", tuple(kw[n] for n in names) + (np.ones(1),), {}))
    for v in fixedvals:          # a value for a variable that is already fixed: unknown to / doubly specified for this object
        trials.append(("refixed", (), dict(kw, **{jg.name(v): fixedvals[v]})))
        break
    for what, a, k in trials:
        try:
            out = obj.logd(*a, **k)
        except Exception:
            continue
        ctx.mismatch(sig + "/malformed_" + what, case, "evaluation with %s variables returned %r instead of raising" % (what, out))


def replay_case(ctx, case, r, rnd):
    from cuqiverif import jointgraphs as jg
    from cuqiverif.zoo import quiet
    par, hist = case["par"], case["hist"]
    N = case["n"]
    R = jg.Realisation(par, r)
    fams = [R.factors[v].family for v in range(1, N + 1)]
    base = dict(kind="cond", n=N, par=par, hist=hist, r=r, families=fams)
    with quiet():
        obj = R.joint()
    fixed = {}
    vals0 = R.completion(3)
    free = list(range(1, N + 1))
    # the unconditioned joint
    if not _eval_all(ctx, obj, R, {}, free, "joint/r%d" % r, base, rnd):
        return
    for pos, (S, mode, shape) in enumerate(hist):
        sig = "cond/r%d/%s/%s" % (r, mode, shape)
        case = dict(base, pos=pos)
        names = _names(obj)
        try:
            with quiet():
                if mode == "kw":
                    obj2 = obj(**{jg.name(v): vals0[v] for v in S})
                else:
                    # positional arguments "follow the order of the parameter names" (docstring of _parse_args_add_to_kwargs).
                    # The spec's positional step fixes the first |S| free variables in factor order; that the parameter
                    # names are listed in factor order is what the code does but is documented nowhere: if they are not, the
                    # step is made by keyword (logged), so the behaviour can still be followed.
                    exp_prefix = [jg.name(v) for v in free[:len(S)]]
                    if names is not None and names[:len(S)] != exp_prefix:
                        ctx.observations["param_order_not_factor_order"] = ctx.observations.get("param_order_not_factor_order", 0) + 1
                        obj2 = obj(**{jg.name(v): vals0[v] for v in S})
                    else:
                        obj2 = obj(*[vals0[v] for v in S])
        except Exception as ex:
            ctx.mismatch(sig + "/refused/" + type(obj).__name__, case,
                         "well-formed conditioning of a %s on %s (%s) refused: %s" % (type(obj).__name__, [jg.name(v) for v in S], mode, str(ex)[:160]))
            return
        for v in S:
            fixed[v] = vals0[v]
        free = [v for v in free if v not in S]
        obj = obj2
        ctx.facets["class/" + type(obj).__name__] = ctx.facets.get("class/" + type(obj).__name__, 0) + 1
        ctx.facets["shape/" + shape] = ctx.facets.get("shape/" + shape, 0) + 1
        names = _names(obj)
        if names is None or set(names) != {jg.name(v) for v in free}:
            ctx.mismatch(sig + "/free_vars", case, "parameter names of the result are not the variables still free",
                         sorted(jg.name(v) for v in free), names)
            return
        if not _eval_all(ctx, obj, R, fixed, free, sig, case, rnd):
            return
        _malformed(ctx, obj, R, fixed, free, sig, case)
    ctx.traces += 1


def bayesian_problem_cases(ctx, rnd):
    """BayesianProblem(*densities).set_data(**data).posterior is one more realisation of Condition"""
    import cuqi
    from cuqiverif import jointgraphs as jg
    from cuqiverif.zoo import quiet
    for par in ([[2], []], [[2, 3], [3], []], [[2], [3], []], [[3], [3], []]):
        for r in (0, 1):
            R = jg.Realisation(par, r)
            N = len(par)
            data_v = 1
            vals0 = R.completion(3)
            case = dict(kind="bp", par=par, r=r)
            try:
                with quiet():
                    BP = cuqi.problem.BayesianProblem(*R.build_factors())
                    BP.set_data(**{jg.name(data_v): vals0[data_v]})
                    post = BP.posterior
            except Exception as ex:
                ctx.observations.setdefault("bayesianproblem_refused", []).append("%s r%d: %s" % (par, r, str(ex)[:100]))
                continue
            ctx.case(("bp", str(par), r))
            free = [v for v in range(1, N + 1) if v != data_v]
            _eval_all(ctx, post, R, {data_v: vals0[data_v]}, free, "bayesianproblem/r%d" % r, case, rnd)


TRACE_CFG = """INIT TraceInit
NEXT TraceNext
INVARIANT @@ACCEPT@@
CHECK_DEADLOCK FALSE
"""


def install_recorder(rec):
    from cuqiverif.record_joint import install_joint
    install_joint(rec)


LAST_PYTEST = {}       # outcome of the last recorded pytest run (logged as an observation)


def record_repo_tests(tests=("tests/test_joint_distribution.py", "tests/test_density.py", "tests/test_posterior.py",
                             "tests/test_bayesian_inversion.py"), timeout=2400):
    import subprocess, sys
    from cuqiverif.core import MachineryError
    from cuqiverif import tlc
    repo = os.environ.get("CUQIVERIF_REPO", "/repo")
    os.makedirs(tlc.WORK, exist_ok=True)
    out = os.path.join(tlc.WORK, "c01_repo_traces_%d.json" % os.getpid())
    import shutil
    cwd = os.path.join(tlc.WORK, "c01_pytest_cwd_%d" % os.getpid())      # tests may write relative to the current directory
    os.makedirs(cwd, exist_ok=True)
    env = dict(os.environ, CUQIPY_VERIF="1", CUQIVERIF_TRACE_OUT=out, CUQIVERIF_RECORD="c01", CUQIVERIF_MAX_EVENTS="400",
               CUQIVERIF_MAX_TRACES="1500", PYTHONPATH=HARNESS + os.pathsep + repo, TQDM_DISABLE="1", PYTHONDONTWRITEBYTECODE="1")
    try:
        try:
            p = subprocess.run([sys.executable, "-m", "pytest", "-q", "-p", "no:cacheprovider", "-p", "cuqiverif.pytest_recorder",
                                "--timeout=900", "--rootdir", repo] + [os.path.join(repo, t) for t in tests], cwd=cwd, env=env,
                               stdout=subprocess.PIPE, stderr=subprocess.STDOUT, text=True, timeout=timeout)
        except subprocess.TimeoutExpired:
            raise MachineryError("recording the repository's joint-distribution tests timed out after %ss" % timeout)
        if not os.path.exists(out):
            raise MachineryError("recorder plugin produced no trace file; pytest tail:\n" + "\n".join(p.stdout.splitlines()[-15:]))
        LAST_PYTEST.update(returncode=p.returncode,
                           failed=[l.split(" ")[1] for l in p.stdout.splitlines() if l.startswith("FAILED ") and " " in l][:20])
        return json.load(open(out))
    finally:
        shutil.rmtree(cwd, ignore_errors=True)
        if os.path.exists(out):
            os.remove(out)


def validate_lineages(ctx, traces, label):
    from cuqiverif import trace
    n_all = len(traces)
    traces = [t for t in traces if t["events"] and t["events"][0].get("e") == "construct" and len(t["events"]) > 1]
    ctx.observations["lineages/" + label] = {"recorded": n_all, "with_events_after_construct": len(traces)}
    if not traces:
        return []
    verdicts = trace.validate(ctx, traces, "TraceJointCond", TRACE_CFG, label="c01trace", chunk=400)
    for v, t in zip(verdicts, traces):
        ctx.case(("lineage", label, str(t["events"][0]["parents"]), len(t["events"]), str(t["meta"].get("families"))))
        if v["ok"]:
            ctx.traces += 1
        else:
            nxt = v["next"] or {}
            ctx.mismatch("lineage/%s/%s" % (nxt.get("e", "end"), nxt.get("cls", nxt.get("outcome", "?"))),
                         {"kind": "lineage", "label": label, "meta": t["meta"], "construct": t["events"][0], "window": v["window"]},
                         "recorded conditioning lineage is not a behaviour of JointCond: event %d (%s)" % (v["matched"] + 1, nxt))
    return [t for v, t in zip(verdicts, traces) if v["ok"]]


def factor_lineages(ctx, graphs, realisations):
    """A conditional factor used STAND-ALONE (p(x | parents) evaluated / conditioned by the user directly, without a joint around
    it) is the one-factor instance of the specification: the root is the factor, its variables are its own variable and its
    parents.  The harness performs every staged conditioning (all subsets of the parents, then the rest) and every kind of
    evaluation call - complete, one variable missing, one NAME replaced by an unknown one (the call has the right number of
    keywords), surplus unknown keyword, a value for an already fixed variable - and logs what happened in the event format of
    TraceJointCond.tla, which accepts a value exactly for the complete set and demands a refusal for everything else."""
    from cuqiverif import jointgraphs as jg
    from cuqiverif.zoo import quiet
    import itertools
    traces = []
    for par in graphs:
        for r in realisations:
            R = jg.Realisation(par, r)
            vals = R.completion(2)
            for v, fac in R.factors.items():
                P = list(fac.parents)
                if not P:
                    continue
                loc = {v: 1}
                loc.update({p: i + 2 for i, p in enumerate(P)})
                gl = {loc[u]: u for u in loc}
                events = [{"e": "construct", "names": list(range(1, len(loc) + 1)), "parents": [list(range(2, len(loc) + 1))] + [[] for _ in P]}]
                with quiet():
                    root = fac.build()
                objs = [(1, root, frozenset())]
                nobj = 1
                allv = [v] + P          # the own variable too: conditioning on it (the data) gives a likelihood of the parents
                subsets = [S for k in range(1, len(allv) + 1) for S in itertools.combinations(allv, k)]
                for S in subsets:
                    try:
                        with quiet():
                            res = root(**{jg.name(p): vals[p] for p in S})
                    except Exception as ex:
                        events.append({"e": "condition", "obj": 1, "given": [loc[p] for p in S], "res": 0, "names": [], "cls": "refused"})
                        continue
                    nobj += 1
                    try:
                        names = [loc[u] for u in loc if jg.name(u) in set(res.get_parameter_names())]
                        if len(names) != len(res.get_parameter_names()):
                            names = [0]
                    except Exception:
                        names = [0]
                    events.append({"e": "condition", "obj": 1, "given": [loc[p] for p in S], "res": nobj, "names": names, "cls": type(res).__name__})
                    objs.append((nobj, res, frozenset(S)))
                    rest = [p for p in P if p not in S]
                    if rest and len(S) == 1:           # second stage: the remaining parents (the own variable stays free or fixed)
                        try:
                            with quiet():
                                res2 = res(**{jg.name(p): vals[p] for p in rest})
                            nobj += 1
                            names = [loc[u] for u in loc if jg.name(u) in set(res2.get_parameter_names())]
                            events.append({"e": "condition", "obj": nobj - 1, "given": [loc[p] for p in rest], "res": nobj, "names": names,
                                           "cls": type(res2).__name__})
                            objs.append((nobj, res2, frozenset(S) | frozenset(rest)))
                        except Exception:
                            events.append({"e": "condition", "obj": nobj, "given": [loc[p] for p in rest], "res": 0, "names": [], "cls": "refused"})
                exp = fac.oracle(vals)
                for oid, obj, F in objs:
                    free = [u for u in loc if u not in F]
                    kw = {jg.name(u): vals[u] for u in free}
                    calls = [("complete", dict(kw), False)]
                    if len(kw) >= 2:
                        # keyword order is immaterial: once in the order of the variables, once reversed
                        calls.append(("complete_reversed", dict(reversed(list(kw.items()))), False))
                    if not free:
                        calls = calls[:1]
                    for u in free:
                        miss = dict(kw)
                        miss.pop(jg.name(u))
                        if miss:
                            calls.append(("missing", miss, False))
                        mis = dict(miss)
                        mis["zz_unknown"] = vals[u]
                        calls.append(("misnamed", mis, True))
                    if free:
                        calls.append(("surplus", dict(kw, zz_unknown=np.ones(1)), True))
                    for u in (F if free else ()):
                        calls.append(("refixed", dict(kw, **{jg.name(u): vals[u]}), False))
                        break
                    # positional passing: values in the order of the object's parameter names; one value too many is refused
                    # (also by an object that has no parameter left)
                    try:
                        pnames = list(obj.get_parameter_names())
                    except Exception:
                        pnames = None
                    if pnames is not None and set(pnames) == set(kw):
                        pos = tuple(kw[n] for n in pnames)
                        if pos:
                            calls.append(("positional", pos, False))
                        calls.append(("positional_toomany", pos + (np.ones(1),), True))
                    for what, k, malformed in calls:
                        if isinstance(k, tuple):
                            given = sorted(loc[u] for u in free) if what == "positional" or free else []
                        else:
                            given = sorted(loc[u] for u in loc if jg.name(u) in k)
                        try:
                            with quiet():
                                out = obj.logd(*k) if isinstance(k, tuple) else obj.logd(**k)
                            ok = _close(out, exp)
                            events.append({"e": "logd", "obj": oid, "given": given, "outcome": "value", "value_ok": bool(ok), "malformed": malformed,
                                           "call": what})
                        except Exception:
                            events.append({"e": "logd", "obj": oid, "given": given, "outcome": "error", "value_ok": False, "malformed": malformed,
                                           "call": what})
                        ctx.facets["factor_call/" + what] = ctx.facets.get("factor_call/" + what, 0) + 1
                traces.append({"events": events, "meta": {"families": [fac.family], "factor": jg.name(v), "par": par, "r": r, "standalone": True}})
    return traces


def rejoin_facet(ctx, graphs, realisations):
    """Staged conditioning ACROSS joints: a joint of two factors reduced (by fixing one of its variables) to a single density of the
    other variable is used as a FACTOR of a second joint together with the remaining factor.  The second joint - evaluated, and
    conditioned on the third variable - is still the sum of the three original factors at the accumulated assignment (the constant
    carried by the reduced object must survive being a prior)."""
    import cuqi
    import itertools
    from cuqiverif import jointgraphs as jg
    from cuqiverif.zoo import quiet
    for par in graphs:
        if len(par) != 3:
            continue
        for v, u, w in itertools.permutations((1, 2, 3)):
            P = {i + 1: set(par[i]) for i in range(3)}
            if not (P[v] <= {u} and P[u] <= {v} and P[w] <= {v} and (P[v] or P[u]) and P[w]):
                continue
            for r in realisations:
                R = jg.Realisation(par, r)
                case = {"kind": "rejoin", "par": par, "r": r, "v": v, "u": u, "w": w}
                ctx.case(("rejoin", str(par), r, v, u, w))
                vals = R.completion(2)
                exp = R.total(vals)
                sig = "rejoin/r%d" % r
                try:
                    with quiet():
                        f = {i: R.factors[i].build() for i in (1, 2, 3)}
                        reduced = cuqi.distribution.JointDistribution(f[v], f[u])(**{jg.name(u): vals[u]})
                        J2 = cuqi.distribution.JointDistribution(f[w], reduced)
                        got = J2.logd(**{jg.name(v): vals[v], jg.name(w): vals[w]})
                        post = J2(**{jg.name(w): vals[w]})
                        got2 = post.logd(**{jg.name(v): vals[v]})
                        got3 = post.logd(vals[v])
                except Exception as ex:
                    ctx.observations["rejoin_refused"] = ctx.observations.get("rejoin_refused", 0) + 1
                    ctx.observations["rejoin_refused_example"] = "%s: %s" % (type(ex).__name__, str(ex)[:100])
                    continue
                ctx.facets["rejoin/" + type(reduced).__name__ + "/" + type(post).__name__] = ctx.facets.get(
                    "rejoin/" + type(reduced).__name__ + "/" + type(post).__name__, 0) + 1
                for tag, g in (("joint_logd", got), ("conditioned_kw", got2), ("conditioned_pos", got3)):
                    if not _close(g, exp):
                        ctx.mismatch(sig + "/" + tag + "/" + type(post).__name__, case,
                                     "a reduced joint used as a factor of a second joint: the log-density is not the sum of the original factors", exp, g)
                        break
                else:
                    ctx.traces += 1


def run(ctx):
    from cuqiverif.core import MachineryError
    warnings.filterwarnings("ignore")
    rnd = random.Random(ctx.seed)
    cases = []
    for cfg in ("n2", "n3"):
        res = ctx.tlc("JointCond", cfg="JointCond.%s.cfg" % cfg, workers=16, require_actions=["Condition"])
        ctx.model_must_hold(res, "JointCond." + cfg)
        cases += res.cases
    cases.sort(key=lambda c: json.dumps(c, sort_keys=True))      # TLC's workers emit in scheduling order: fix it for the seeded choice
    res4 = ctx.tlc("JointCond", cfg="JointCond.n4.cfg", workers=16, timeout=1200)
    ctx.model_must_hold(res4, "JointCond.n4")
    for cfg in ("dev_drop", "dev_twice"):
        r = ctx.tlc("JointCond", cfg="JointCond.%s.cfg" % cfg, workers=4, expect_violation=True)
        if r.ok or r.violated != "ExactlyOnce":
            raise MachineryError("deviation %s did not violate ExactlyOnce" % cfg)
    nsim = 150 if ctx.tier == "quick" else 4000
    sim = ctx.tlc("JointCond", cfg="JointCond.n4sim.cfg", mode="simulate", simulate="num=%d" % nsim, depth=6, workers=1,
                  seed=ctx.seed + 1, timeout=1200)
    ctx.model_must_hold(sim, "JointCond.n4sim")
    sim_cases = sim.cases
    if not sim_cases:
        raise MachineryError("TLC simulation of JointCond (N = 4) emitted no behaviour")
    n3 = [c for c in cases if c["n"] == 3]
    n2 = [c for c in cases if c["n"] == 2]
    if ctx.tier == "quick":
        n3 = rnd.sample(n3, min(len(n3), 700))
    plan = n2 + n3 + sim_cases
    # the first replays also run under the lineage recorder (code -> spec direction, TraceJointCond.tla)
    from cuqiverif import record, trace
    rec = record.Recorder(max_events_per_trace=400, max_traces=3000)
    nrec = 40 if ctx.tier == "quick" else 600
    rnd.shuffle(plan)
    install_recorder(rec)
    try:
        for i, c in enumerate(plan[:nrec]):
            for r in (0, 1):
                ctx.case(("cond", c["n"], str(c["par"]), str(c["hist"]), r))
                replay_case(ctx, c, r, rnd)
    finally:
        rec.uninstall()
    for i, c in enumerate(plan[nrec:]):
        for r in ((0, 1, 2) if ctx.tier == "thorough" else ((0, 1) if c["n"] < 4 else (i % 3,))):
            ctx.case(("cond", c["n"], str(c["par"]), str(c["hist"]), r))
            replay_case(ctx, c, r, rnd)
    good = validate_lineages(ctx, rec.trace_list(), "replays")
    # stand-alone conditional factors (the one-factor instance of the specification), every graph of the exhaustive configurations
    graphs = sorted({json.dumps(c["par"]) for c in cases})
    ft = factor_lineages(ctx, [json.loads(g) for g in graphs], (0, 1, 2))
    if not ft:
        raise MachineryError("no stand-alone conditional factor was exercised")
    okf = validate_lineages(ctx, ft, "standalone-factors")
    rejoin_facet(ctx, [json.loads(g) for g in graphs], (0, 1, 2))
    if not any(k.startswith("rejoin/") for k in ctx.facets):
        raise MachineryError("vacuous: no reduced joint could be used as a factor of a second joint")
    for need_call in ("complete", "complete_reversed", "missing", "misnamed", "surplus", "refixed", "positional", "positional_toomany"):
        if not ctx.facets.get("factor_call/" + need_call):
            raise MachineryError("vacuous stand-alone factor facet: no %s call" % need_call)
    if ctx.tier == "thorough":
        rt = record_repo_tests()
        ctx.observe("repo_test_lineages", {"traces": len(rt), "pytest": dict(LAST_PYTEST)})
        validate_lineages(ctx, rt, "repo-tests")
    # binding self-test
    g0 = next((t for t in good if any(e["e"] == "logd" and e["outcome"] == "value" and e["given"] for e in t["events"]) and
               any(e["e"] == "condition" for e in t["events"])), None)
    if g0 is None:
        raise MachineryError("no accepted lineage with a condition and a logd event")

    def bad_value(ev):
        i = [j for j, e in enumerate(ev) if e["e"] == "logd" and e["outcome"] == "value"][-1]
        ev[i]["value_ok"] = False

    def lost_variable(ev):
        i = [j for j, e in enumerate(ev) if e["e"] == "condition"][0]
        ev[i]["names"] = ev[i]["names"][1:] if ev[i]["names"] else [1]

    def accepted_malformed(ev):
        i = [j for j, e in enumerate(ev) if e["e"] == "logd" and e["outcome"] == "value" and e["given"]][-1]
        ev[i]["given"] = ev[i]["given"][:-1]
    for nm, mut in (("bad_value", bad_value), ("lost_variable", lost_variable), ("accepted_malformed", accepted_malformed)):
        if not trace.corrupt_selftest(ctx, g0, "TraceJointCond", TRACE_CFG, mut):
            raise MachineryError("corrupted lineage (%s) was accepted" % nm)
    ctx.observe("binding_selftest", "wrong value, lost free variable and accepted incomplete evaluation are rejected")
    bayesian_problem_cases(ctx, rnd)
    shapes = {k for k in ctx.facets if k.startswith("shape/")}
    need = {"shape/Joint", "shape/Posterior", "shape/Distribution", "shape/MultiLik", "shape/ConstJoint"}
    if not need <= shapes:
        raise MachineryError("vacuous replay: reduction branches not all exercised: %s" % sorted(need - shapes))
    ctx.sample({"behaviour": n3[0]})
    ctx.sample({"behaviour": sim_cases[0] if sim_cases else None})
    ctx.rule = ("behaviours = all orders/groupings/passing modes of conditioning calls on all digraphs (N=2,3 exhaustive from TLC; N=4 simulated "
                "by TLC) x 2 realisations; quick tier replays a seeded subset of 700 of the 2688 N=3 behaviours; distinct = (graph, history, realisation)")
    ctx.exhaustive = ctx.tier == "thorough"
    ctx.assumptions += ["numpy closed forms of Gaussian / Laplace / Gamma / GMRF(zero) / LMRF(zero) log-densities (jointgraphs.Factor.oracle)"]


def replay(ctx, case):
    rnd = random.Random(0)
    if case.get("kind") == "bp":
        return bayesian_problem_cases(ctx, rnd)
    if case.get("kind") in ("lineage", "model") or "par" not in case or "hist" not in case:
        # recorded lineages and model runs are regenerated, not stored: the whole check is re-run
        if not getattr(ctx, "_c01_rerun", False):
            ctx._c01_rerun = True
            run(ctx)
        return
    replay_case(ctx, case, case.get("r", 0), rnd)
