"""Shared realisation layer of the Families.tla replayers (C04: densities, C03: gradients).

TLC emits, per configuration, exact parameters (rationals <<n, d>>), the evaluation point and the expected values
(symbolic-log coefficient records, rational vectors).  This module turns them into floats (the only place where the
atoms log 2, log pi, ... become numbers), builds the real cuqi distributions in every documented way of passing the
parameters and offers small comparison helpers.  Nothing here evaluates a density formula: every expected number
comes from the TLC case.
"""
import contextlib, io, math, warnings
from fractions import Fraction

import numpy as np

ATOMS = {"one": 1.0, "log2": math.log(2.0), "log3": math.log(3.0), "log5": math.log(5.0), "log7": math.log(7.0),
         "log11": math.log(11.0), "log13": math.log(13.0), "logpi": math.log(math.pi),
         "loglog2": math.log(math.log(2.0))}
LN2 = math.log(2.0)

ALL_FAMS = ["Normal", "Gaussian", "GaussianBig", "GMRF", "LMRF", "CMRF", "Laplace", "SmoothedLaplace", "Cauchy", "Gamma",
            "InverseGamma", "Beta", "Lognormal", "Uniform", "ModifiedHalfNormal", "Lik", "LikLognormal"]


# ---------------------------------------------------------------- numbers
def fr(q):
    return Fraction(int(q[0]), int(q[1]))


def fl(q):
    return float(fr(q))


def vec(v):
    return np.array([fl(q) for q in v], dtype=float)


def mat(M):
    return np.array([[fl(q) for q in row] for row in M], dtype=float)


def sl_float(rec):
    """symbolic-log coefficient record -> float (math.fsum keeps the conversion itself accurate)."""
    return math.fsum(fl(rec[a]) * ATOMS[a] for a in rec)


def expected_logpdf(case):
    lp = case["logpdf"]
    return -math.inf if lp["neginf"] else sl_float(lp["v"])


def expected_grad(case):
    """expected gradient vector (None when the spec flags NaN)."""
    g = case["grad"]
    if g["nan"]:
        return None
    v = vec(g["v"])
    if "grad_invlog2" in case:       # Lognormal: rational part + rational / log 2
        v = v + vec(case["grad_invlog2"]) / LN2
    return v


def expected_cdf(cdf):
    """(value, kind) of an emitted cdf form."""
    f = cdf["form"]
    if f == "rat":
        return fl(cdf["value"])
    if f == "phi":                   # product of standard normal cdfs at rational points
        return math.prod(0.5 * math.erfc(-fl(z) / math.sqrt(2.0)) for z in cdf["z"])
    if f == "exp":                   # product of  a + p exp(-t)
        return math.prod(fl(a) + fl(p) * math.exp(-fl(t)) for a, p, t in cdf["comps"])
    return None


def close(a, b, rtol, atol=0.0):
    a, b = float(a), float(b)
    if math.isinf(a) or math.isinf(b) or math.isnan(a) or math.isnan(b):
        return a == b
    return abs(a - b) <= atol + rtol * max(abs(a), abs(b))


def vclose(a, b, rtol, atol=0.0):
    a = np.asarray(a, dtype=float)
    b = np.asarray(b, dtype=float)
    if a.shape != b.shape or not np.all(np.isfinite(a)):
        return False
    scale = max(1.0, float(np.max(np.abs(b))) if b.size else 1.0)
    return bool(np.all(np.abs(a - b) <= atol + rtol * scale))


def scalar_of(v):
    """value returned by logpdf/pdf/cdf/logd -> python float; None if it is not a single number."""
    a = np.asarray(v)
    if a.dtype == object or a.size != 1:
        return None
    return float(a.ravel()[0])


def quiet():
    return contextlib.redirect_stdout(io.StringIO())


def support_tag(case):
    o = case["cfg"]["o"] if "cfg" in case else 0
    return {0: "in", 1: "below", 2: "above"}.get(o, "in") if case.get("fam") not in ("Lik", "LikLognormal") else "in"


# ---------------------------------------------------------------- TLC
def run_families(ctx, fams=None, tier=None, workers=6, part=""):
    """Run Families.tla for the tier (optionally restricted to some families) and return (result, cases).
    part: "" = the configuration lattice (Families.<tier>.cfg); "reassign" = the behavioural part ReInit / ReNext
    (Families.reassign.<tier>.cfg: one object, parameters assigned one after another)."""
    import os, re
    from . import tlc as _tlc
    tier = (part + "." if part else "") + (tier or ctx.tier)
    txt = open(os.path.join(_tlc.SPECS, "cfg", "Families.%s.cfg" % tier)).read()
    if fams is not None:
        txt = re.sub(r'Fams = \{.*\}', 'Fams = {%s}' % ", ".join('"%s"' % f for f in fams), txt)
    from .core import MachineryError
    import time
    for attempt in (1, 2, 3):
        # explicit work directory: a failed attempt must not leave it behind (run_tlc only hands it back on success)
        wd = os.path.join(_tlc.WORK, "Families%s-%d-%d-a%d" % (part, os.getpid(), int(time.time() * 1000) % 10 ** 7, attempt))
        try:
            return ctx.tlc("Families", cfg="Families.%s.cfg" % tier, cfg_text=txt, workers=workers, timeout=1700,
                           extra_modules=["DiffOps.tla"], workdir=wd)
        except MachineryError as e:
            _tlc.cleanup(wd)
            # Safety net: a TLC run that dies for a reason outside the model (killed from outside on a shared machine, a
            # JIT-dependent Java stack overflow) is repeated; a genuine failure of the model fails every attempt and is
            # raised as machinery error.  Repeats are counted in the evidence (observations.tlc_runs_repeated).
            if attempt == 3 or "TLC timeout" in str(e):
                raise
            ctx.observations["tlc_runs_repeated"] = ctx.observations.get("tlc_runs_repeated", 0) + 1
            time.sleep(2 * attempt)


def run_deviation(ctx):
    """Named deviation SqrtcovDocConvention must violate SameDistribution (non-vacuity of the invariant)."""
    from .core import MachineryError
    res = ctx.tlc("Families", cfg="Families.deviation.cfg", workers=2, timeout=900, extra_modules=["DiffOps.tla"],
                  expect_violation=True)
    if res.violated != "SameDistribution":
        from . import tlc as _tlc
        _tlc.cleanup(res)
        raise MachineryError("deviation SqrtcovDocConvention did not violate SameDistribution (got %r): vacuous invariant"
                             % res.violated)
    return res


def run_reassign_deviation(ctx):
    """Named deviation StaleCacheAfterAssign (an assignment keeps what was derived from the old parameters) must violate
    ReassignIsFresh (non-vacuity of the invariant of the Reassign part)."""
    import os, time
    from .core import MachineryError
    from . import tlc as _tlc
    wd = os.path.join(_tlc.WORK, "FamiliesReStale-%d-%d" % (os.getpid(), int(time.time() * 1000) % 10 ** 7))    # may run concurrently
    res = ctx.tlc("Families", cfg="Families.reassign_stale.deviation.cfg", workers=2, timeout=900, extra_modules=["DiffOps.tla"],
                  expect_violation=True, workdir=wd)
    if res.violated != "ReassignIsFresh":
        from . import tlc as _tlc
        _tlc.cleanup(res)
        raise MachineryError("deviation StaleCacheAfterAssign did not violate ReassignIsFresh (got %r): vacuous invariant"
                             % res.violated)
    return res


# ---------------------------------------------------------------- realisation: generic families
_CLS = {"Normal": "Normal", "Laplace": "Laplace", "SmoothedLaplace": "SmoothedLaplace", "Cauchy": "Cauchy",
        "Gamma": "Gamma", "InverseGamma": "InverseGamma", "Beta": "Beta", "Uniform": "Uniform",
        "ModifiedHalfNormal": "ModifiedHalfNormal", "Lognormal": "Lognormal"}

# parameters that the class docstring documents as scalars only
_SCALAR_ONLY = {("Laplace", "scale"), ("SmoothedLaplace", "beta"), ("LMRF", "scale"), ("CMRF", "scale"), ("GMRF", "prec"),
                ("ModifiedHalfNormal", "alpha"), ("ModifiedHalfNormal", "beta"), ("ModifiedHalfNormal", "gamma")}


# families whose docstring documents array_like / list parameters
_LIST_OK = {"Cauchy", "Gamma", "InverseGamma", "Beta", "Uniform", "SmoothedLaplace"}


def _param_values(case):
    """name -> ndarray of the parameter (Lognormal: units of log 2 resolved here)."""
    fam, par = case["fam"], case["par"]
    if fam == "Lognormal":
        return {"mean": vec(par["mean_u"]) * LN2, "cov": mat(par["cov_u2"]) * LN2 ** 2}
    return {k: vec(v) for k, v in par.items()}


def _mk_lambda(argname):
    return eval("lambda %s: %s" % (argname, argname))


def family_variants(case, geometry=None, callable_way=True):
    """Yield (way, builder) for one `family` case.  builder() returns the cuqi distribution (already conditioned for the
    callable way).  `way` names how parameters are passed; it is part of the mismatch signature."""
    import cuqi
    fam, d = case["fam"], case["dim"]
    vals = _param_values(case)
    scal = case["scal"]
    cls = getattr(cuqi.distribution, _CLS[fam])
    names = list(vals)
    scalar_only = [n for n in names if (fam, n) in _SCALAR_ONLY]

    def kw_geometry(all_scalar):
        if geometry is not None:
            return {"geometry": geometry() if callable(geometry) else geometry}
        return {"geometry": d} if all_scalar and (d > 1 or fam == "ModifiedHalfNormal") else {}

    def conv(n, how):
        v = vals[n]
        if n in scalar_only:
            return float(v[0])
        if how == "list":
            return v.tolist()
        return np.array(v)

    if fam == "Lognormal":                       # docstring: mean ndarray, cov ndarray (covariance matrix)
        yield "ndarray", (lambda: cls(vals["mean"].copy(), vals["cov"].copy(), **kw_geometry(False)))
        if callable_way:
            def b():
                dist = cls(_mk_lambda("c_mean"), vals["cov"].copy(), **kw_geometry(False))
                return dist(c_mean=vals["mean"].copy())
            yield "callable", b
        return

    all_so = len(scalar_only) == len(names)
    yield "ndarray", (lambda: cls(**{n: conv(n, "ndarray") for n in names}, **kw_geometry(all_so)))
    if not all_so and fam in _LIST_OK:
        yield "list", (lambda: cls(**{n: conv(n, "list") for n in names}, **kw_geometry(False)))
    # scalar broadcast: every parameter that is a constant vector is passed as a python scalar
    sc = [n for n in names if scal.get(n) and n not in scalar_only]
    if sc and d >= 1:
        all_scalar = len(sc) + len(scalar_only) == len(names)

        def b_scalar():
            kw = {n: (float(vals[n][0]) if n in sc else conv(n, "ndarray")) for n in names}
            return cls(**kw, **kw_geometry(all_scalar))
        yield "scalar(%s)" % "+".join(sc), b_scalar
    if callable_way and fam != "ModifiedHalfNormal":
        cn = [n for n in names if n not in scalar_only]
        if cn:
            def b_call():
                kw = {n: (_mk_lambda("c_" + n) if n in cn else conv(n, "ndarray")) for n in names}
                g = kw_geometry(True)
                if "geometry" not in g:
                    g = {"geometry": d}
                dist = cls(**kw, **g)
                return dist(**{"c_" + n: np.array(vals[n]) for n in cn})
            yield "callable", b_call


# ---------------------------------------------------------------- realisation: Markov random fields
def mrf_operator_matches(case):
    """Does the implementation's difference operator equal the case's D (row multiset)?  Used to pick the periodic
    wrap-multiplicity variant the code follows (C20 decides the operators themselves)."""
    import cuqi
    m = case["mrf"]
    n, pd, bc, order = m["n"], m["pd"], m["bc"], m["order"]
    if order == 0:
        return True
    nn = n if pd == 1 else (n, n)
    cls = cuqi.operator.FirstOrderFiniteDifference if order == 1 else cuqi.operator.SecondOrderFiniteDifference
    A = cls(nn, bc_type=bc).get_matrix()
    A = np.asarray(A.todense() if hasattr(A, "todense") else A, dtype=float)
    D = np.array(m["D"], dtype=float).reshape((-1, case["dim"]))
    rows = lambda M: sorted(tuple(int(round(v)) for v in r) for r in M)
    return A.shape == D.shape and rows(A) == rows(D)


def mrf_variants(case, geometry_kind="default", callable_way=True):
    import cuqi
    fam, N = case["fam"], case["dim"]
    m = case["mrf"]
    vals = {k: vec(v) for k, v in case["par"].items()}
    locname = "mean" if fam == "GMRF" else "location"
    sname = "prec" if fam == "GMRF" else "scale"
    sval = float(vals[sname][0])
    cls = getattr(cuqi.distribution, fam)

    def geom(alt=False):
        if geometry_kind != "default":
            return geometry_kind()
        if m["pd"] == 1:
            return cuqi.geometry.Continuous1D(N) if alt else N
        return cuqi.geometry.Image2D((m["n"], m["n"])) if alt else (m["n"], m["n"])

    extra = {"bc_type": m["bc"]}
    if fam == "GMRF":
        extra["order"] = m["order"]

    def build(loc, alt=False):
        with quiet():
            return cls(**{locname: loc, sname: sval}, geometry=geom(alt), **extra)

    yield "ndarray", (lambda: build(np.array(vals[locname])))
    if fam == "GMRF":        # mean: array_like (LMRF / CMRF: "scalar or ndarray")
        yield "list", (lambda: build(vals[locname].tolist(), alt=True))
    else:
        yield "ndarray(geometry object)", (lambda: build(np.array(vals[locname]), alt=True))
    if case["scal"].get(locname):
        yield "scalar(%s)" % locname, (lambda: build(float(vals[locname][0])))
    if callable_way:
        def b_call():
            dist = build(_mk_lambda("c_loc"), alt=True)
            with quiet():
                return dist(c_loc=np.array(vals[locname]))
        yield "callable", b_call


# ---------------------------------------------------------------- realisation: Gaussian input forms
def gaussian_param(shape, data, how="ndarray", pow2=0):
    """the input of one Gaussian form in the container `how`; pow2: the exact data times 2**pow2 (ScalingLaw of the spec;
    multiplication by a power of two is exact in binary floating point)"""
    import scipy.sparse as sp
    f = math.ldexp(1.0, int(pow2))
    if shape == "scalar":
        return fl(data) * f
    if shape == "vector":
        v = vec(data) * f
        return v.tolist() if how == "list" else v
    M = mat(data) * f
    if shape == "sparse":
        if how == "dia":
            return sp.dia_matrix(M)
        if how == "csc":
            return sp.csc_matrix(M)
        return sp.csr_matrix(M)
    return M.tolist() if how == "list" else M


def scaled_instances(case):
    """the magnitudes at which the spec states a Gaussian case again (ScalingLaw): list of dicts with the exponent e of
    a = 4^e, the powers of two multiplying each input form / the deviation / the gradient, and the expected log-density."""
    out = []
    for sc in case.get("scaled", []):
        out.append({"e": int(sc["e"]), "form_pow2": {k: int(v) for k, v in sc["form_pow2"].items()}, "dev_pow2": int(sc["dev_pow2"]),
                    "grad_pow2": int(sc["grad_pow2"]), "logpdf": sc["logpdf"]})
    return out


def scaled_point(mean, x, sc):
    return np.asarray(mean, dtype=float) + math.ldexp(1.0, sc["dev_pow2"]) * (np.asarray(x, dtype=float) - np.asarray(mean, dtype=float))


def is_diag(data):
    M = mat(data)
    return np.count_nonzero(M - np.diag(np.diag(M))) == 0


@contextlib.contextmanager
def sparse_threshold(value):
    """Temporarily set the public cuqi.config.MIN_DIM_SPARSE (None = leave the default)."""
    import cuqi
    old = cuqi.config.MIN_DIM_SPARSE
    try:
        if value is not None:
            cuqi.config.MIN_DIM_SPARSE = value
        yield
    finally:
        cuqi.config.MIN_DIM_SPARSE = old


def call(f):
    """Run f(); return ('value', v, warnings) or ('raise', exception, warnings)."""
    with warnings.catch_warnings(record=True) as w:
        warnings.simplefilter("always")
        try:
            with np.errstate(all="ignore"), quiet():
                v = f()
            return "value", v, [str(x.message) for x in w]
        except Exception as e:      # noqa: BLE001  (the kind of exception is never asserted)
            return "raise", e, [str(x.message) for x in w]


# ---------------------------------------------------------------- Reassign part (one object, assignments one after another)
def reassign_id(rc):
    return "re:%s:%s" % (case_id(rc), "".join(str(u) for u in rc["order"]))


def assign_value(case, name, scalar=False, one_element_array=False):
    """value of the public attribute `name` in the configuration `case` (an emitted family case): ndarray for array-valued
    parameters, python float for the parameters the docstring documents as scalars; scalar=True: python float for every
    parameter that is a constant vector in this configuration."""
    fam = case["fam"]
    v = _param_values(case)[name]
    if fam == "Lognormal" and name == "cov":
        return np.array(v)
    if (fam, name) in _SCALAR_ONLY:
        return np.array([float(v[0])]) if one_element_array else float(v[0])
    if scalar and case["scal"].get(name):
        return float(v[0])
    return np.array(v)


def warm_up(dist, x, extra=()):
    """Evaluate every public observable of the object once (results and refusals are ignored): whatever the object derives
    lazily from its parameters is derived now."""
    fs = [lambda: dist.logpdf(np.array(x)), lambda: dist.pdf(np.array(x)), lambda: dist.logd(np.array(x)),
          lambda: dist.cdf(np.array(x)), lambda: dist.gradient(np.array(x)),
          lambda: dist.sample(2, rng=np.random.RandomState(1)),
          lambda: dist.dim, lambda: dist.geometry, lambda: dist.get_mutable_variables()]
    for attr in ("compute_cov",):
        fs.append(lambda a=attr: getattr(dist, a)())
    for attr in ("sqrtprec", "sqrtprecTimesMean", "logdet", "rank", "prec", "cov", "sqrtcov") + tuple(extra):
        fs.append(lambda a=attr: getattr(dist, a))
    with warnings.catch_warnings():
        warnings.simplefilter("ignore")
        with np.errstate(all="ignore"), quiet():
            for f in fs:
                try:
                    f()
                except Exception:       # noqa: BLE001  (a refusal is not judged here)
                    pass


def apply_assignments(dist, steps):
    """steps: [(attribute, value)].  Returns None, or the exception with which an assignment was refused."""
    for name, value in steps:
        st, e, _ = call(lambda: setattr(dist, name, value))
        if st == "raise":
            return e
    return None


def case_id(case):
    k = case.get("cfg", {})
    return "%s:d%s:a%s:b%s:g%s:x%s:o%s:%s:%s:%s:%s" % (k.get("fam"), k.get("dim"), k.get("a"), k.get("b"), k.get("g"),
                                                    k.get("x"), k.get("o"), k.get("bc"), k.get("ord"), k.get("wm"), k.get("pd"))
