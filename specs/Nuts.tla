------------------------------- MODULE Nuts -------------------------------
(***************************************************************************)
(* One transition of the No-U-Turn sampler (Hoffman & Gelman 2014,         *)
(* Algorithm 3 with the acceptance statistic of Algorithm 6) AS            *)
(* IMPLEMENTED by cuqi.experimental.mcmc.NUTS / cuqi.sampler.NUTS          *)
(* (property C08).                                                         *)
(*                                                                         *)
(* PART 1 - step level.  An ORBIT is a finite table over time indices      *)
(* t in -T..T generated from dyadic half-step momenta rho_t:               *)
(*     x_{t+1} = x_t + eps rho_t      g_t = (rho_t - rho_{t-1}) / eps      *)
(*     r_t     = (rho_{t-1} + rho_t) / 2                                   *)
(* (all dyadic rationals - exact in binary floating point) together with   *)
(* an ARBITRARY table lp_t of log-density values (rationals, NaN, -inf,    *)
(* +inf, values below the divergence threshold); H_t = lp_t - r_t^2 / 2.   *)
(* Only orbits with pairwise distinct positions are kept, so that the      *)
(* target "log-density and gradient are look-ups by position" is well      *)
(* defined.  The leapfrog step is COMPUTED by the specification (three      *)
(* shears Kick . Drift . Kick with the gradient looked up by position);    *)
(* that it lands on the table (OnLattice) and is undone by the step in the *)
(* opposite direction (Reversible) is checked by TLC, not assumed.         *)
(*                                                                         *)
(* Actions - one per code step of NUTS.step / _BuildTree:                  *)
(*   DrawMomentum . DrawSlice(e) .                                         *)
(*   ( Direction(v) . { Leaf(t) | SecondHalf | EarlyReturn |               *)
(*                      MergeSubtrees(cls) }* . TopLevelAccept(cls) .      *)
(*     StopCheck )+ . Finish                                               *)
(* The recursion of _BuildTree is an explicit stack of frames.  Uniform    *)
(* draws are DECISION CLASSES: a uniform compared with a threshold tau     *)
(* is `Below` (just below tau: the branch is taken) or `Above`.            *)
(*                                                                         *)
(* The invariants are DECLARATIVE (stated on the orbit table) while the    *)
(* actions are OPERATIONAL (carry phase points and counters as the code    *)
(* does): CountExact/InSlice, StopExact/StopsAtFirst, AlphaStat,           *)
(* NoNonFiniteSelected, CacheBelongs, OnLattice, Reversible.               *)
(*                                                                         *)
(* PART 2 - kernel level.  On an abstract environment E (a ring of N       *)
(* states with an arbitrary in-slice / out-of-slice / divergent pattern    *)
(* and an arbitrary U-turn table over intervals) the exact transition      *)
(* matrix P(t -> t') of the same algorithm (same thresholds MergeTau /     *)
(* TopTau, same stopping structure) is computed as rationals by summing    *)
(* over direction bits and sub-sampling probabilities; DoublyStochastic    *)
(* says that the uniform law on the slice set is invariant (=> the target  *)
(* is invariant for a fixed step size and depth).  For the lattice orbits  *)
(* of part 1 the same operators give the exact law of the selected leaf    *)
(* (emitted as `row`); the harness checks that the probability weights w   *)
(* of the enumerated step-level behaviours add up to exactly that law,     *)
(* which ties part 2 to the actions that are bound to the code.            *)
(*                                                                         *)
(* Named deviations (DESIGN 2.7), all FALSE in the deciding configs:       *)
(*   DevBiasedWeight        sub-sampling weight n''/n' instead of          *)
(*                          n''/(n'+n'')            -> KDoublyStochastic   *)
(*   DevAlphaWholeTree      statistic accumulated over the whole tree      *)
(*                                                  -> AlphaStat           *)
(*   DevSliceSign           slice indicator with the wrong sign -> InSlice *)
(*   DevContinueAfterStop   second half built although the first stopped   *)
(*                                                  -> StopsAtFirst        *)
(*   DevStopWrongEnds       U-turn test on the ends of the second half     *)
(*                          only                    -> StopExact           *)
(*   DevFullKick            second kick of the leapfrog is a full kick     *)
(*                                                  -> Reversible          *)
(*   DevGradCacheStale      gradient cache not refreshed on selection      *)
(*                                                  -> CacheBelongs        *)
(*   DevNonFiniteSelectable top level selects a +inf candidate             *)
(*                                                  -> NoNonFiniteSelected *)
(***************************************************************************)
EXTENDS Mat, FiniteSets, Json

CONSTANTS Depths,      \* set of max_depth values D (doublings j = 0..D, as coded: `while s == 1 and j <= max_depth`)
          EpsDens,     \* step sizes 1/k, k in EpsDens (subset of {1, 2})
          WordSet,     \* set of <<word, phase>>: rho_t = RhoVals[word[(t + phase) mod Len(word)]]
          LpSet,       \* set of <<word, phase>> of log-density codes (half units; 9001 NaN, 9002 -inf, 9003 +inf)
          SliceDraws,  \* set of k: the exponential draw is e = k/3  (never on a boundary of the dyadic tables)
          Thin,        \* keep the combinations with hash % Thin = 0 (1 = all)
          Emit,        \* print @@CASE lines
          DevBiasedWeight, DevAlphaWholeTree, DevSliceSign, DevContinueAfterStop, DevStopWrongEnds,
          DevFullKick, DevGradCacheStale, DevNonFiniteSelectable,
          KSizes,      \* ring sizes of the kernel-level instance
          KDepths,     \* depths D of the kernel-level instance (2^(D+1) <= N)
          KTurnIds,    \* ids of U-turn tables
          KDiv         \* TRUE: patterns over {out, in, divergent}; FALSE: {out, in}

VARIABLES orb,     \* orbit id <<rho word, phase, lp word, phase, k>>  (eps = 1/k)
          ot,      \* the orbit tables [eps, x, g, r, lp, H] of that id (constant during a behaviour; a variable only
                   \* because TLC does not cache constant definitions that use RECURSIVE operators)
          md,      \* max_depth
          pc,      \* control: momentum, slice, direction, build, stopcheck, finish, done
          ed,      \* slice draw id (e = ed/3)
          logu,    \* slice level  log u = H_0 - e
          v,       \* direction of the doubling in progress
          tm, tp,  \* time indices of the extreme leaves  (ghost: the code carries positions only)
          zm, zp,  \* phase points <<x, r>> of the extreme leaves (as carried by the code)
          j, n, s, \* depth, number of slice members, continue flag
          cur,     \* time index of the chain's current point (the candidate selected so far)
          clp, cg, \* time indices the cached log-density / cached gradient belong to
          acc,     \* acceptance flag returned by step()
          stack,   \* frames of the recursive _BuildTree
          ret,     \* value returned by the last completed _BuildTree call (j = -1: none)
          al, na,  \* reported statistic: sequence of exponents min(0, H_t - H_0) (alpha = sum exp), n_alpha
          leaves,  \* history: time indices of all leaves built, in order
          last,    \* history: leaves of the doubling in progress / of the last doubling
          subs,    \* history: <<j, lo, hi, n', s', cand, n_alpha'>> returned by every _BuildTree call, in return order
          draws,   \* history: scripted draws in the order the code requests them
          flagAt,  \* -1, or Len(leaves) when the first stop flag (divergence / U-turn) was raised
          w,       \* probability of the decisions taken so far (directions 1/2, classes tau / 1 - tau)
          ntree,   \* number of _BuildTree calls (tree nodes)
          kc       \* kernel-level configuration (N = 0 in step-level behaviours)

vars == <<orb, ot, md, pc, ed, logu, v, tm, tp, zm, zp, j, n, s, cur, clp, cg, acc, stack, ret, al, na,
          leaves, last, subs, draws, flagAt, w, ntree, kc>>

\* ------------------------------------------------------------------------------------------------
\* extended values: rationals, NaN, -inf, +inf  (IEEE comparison semantics)
\* ------------------------------------------------------------------------------------------------
Fin(q) == [k |-> "fin", v |-> q]
NaN    == [k |-> "nan", v |-> Zero]
NInf   == [k |-> "ninf", v |-> Zero]
PInf   == [k |-> "pinf", v |-> Zero]
IsFin(a)      == a.k = "fin"
TSubR(a, q)   == IF IsFin(a) THEN Fin(RSub(a.v, q)) ELSE a                 \* a - q   (q finite)
TLeQ(q, a)    == CASE a.k = "fin" -> RLe(q, a.v) [] a.k = "pinf" -> TRUE [] OTHER -> FALSE           \* q <= a
TLtQ(q, a, c) == CASE a.k = "fin" -> RLt(q, RAdd(a.v, c)) [] a.k = "pinf" -> TRUE [] OTHER -> FALSE  \* q < c + a

Mod(i, m) == ((i % m) + m) % m
RECURSIVE Pow2(_)
Pow2(k) == IF k = 0 THEN 1 ELSE 2 * Pow2(k - 1)
DeltaMax == R(1000)

\* ------------------------------------------------------------------------------------------------
\* bounded instances (selected in the cfg files:  WordSet <- WordsQuick ...)
\*   rho letters: 1 = -1/2, 2 = -1/4, 3 = 1, 4 = 2;  one <<word, phase>> per U-turn signature class of the periodic
\*   words of length <= 4 (21 classes on depth <= 2)
\* ------------------------------------------------------------------------------------------------
WordsAllPhases(ws) == { <<wd, ph>> : wd \in ws, ph \in 0..3 } \cap { <<wd, ph>> \in ws \X (0..3) : ph < Len(wd) }
WordsQuick == { << <<3>>, 0 >>, << <<1, 4>>, 0 >>, << <<1, 4>>, 1 >>, << <<1, 2, 4>>, 0 >>, << <<1, 2, 4>>, 1 >>,
                << <<1, 2, 4>>, 2 >>, << <<1, 3, 3>>, 1 >>, << <<1, 1, 4, 4>>, 0 >>, << <<1, 1, 4, 4>>, 2 >>,
                << <<1, 3, 3, 3>>, 3 >>, << <<2, 2, 2, 4>>, 1 >> }
WordsThorough == WordsAllPhases({ <<3>>, <<4>>, <<1, 4>>, <<2, 3>>, <<1, 2, 4>>, <<2, 1, 4>>, <<1, 3, 3>>, <<1, 4, 3>>,
                                  <<1, 1, 4, 4>>, <<1, 2, 3, 4>>, <<1, 3, 3, 3>>, <<1, 4, 3, 4>>, <<2, 2, 2, 4>> })
\* log-density codes in half units; 9001 NaN, 9002 -inf, 9003 +inf; -4000 = -2000 is below the divergence threshold
LpQuick == { << <<0>>, 0 >>, << <<0, -2, -4>>, 1 >>, << <<0, 1, 9001, -1, -4000, 2>>, 0 >>,
             << <<-1, 9002, 1, 0, 9003, -3, 0>>, 3 >> }
LpThorough == LpQuick \cup { << <<0, -2, -4>>, 0 >>, << <<1, -1, 0, 3, -3>>, 2 >>, << <<0, 1, 9001, -1, -4000, 2>>, 3 >>,
                             << <<-1, 9002, 1, 0, 9003, -3, 0>>, 0 >>, << <<0, 0, 9003, 1>>, 1 >> }

\* ------------------------------------------------------------------------------------------------
\* orbits
\* ------------------------------------------------------------------------------------------------
RhoVals == << Q(-1, 2), Q(-1, 4), R(1), R(2) >>
MaxD    == CHOOSE d \in Depths : \A d2 \in Depths : d2 <= d
TMax    == Pow2(MaxD + 1) - 1
TR      == (-TMax)..TMax

LpCode(c) == CASE c = 9001 -> NaN [] c = 9002 -> NInf [] c = 9003 -> PInf [] OTHER -> Fin(Q(c, 2))

XTab(rho, eps) ==
    LET up[t \in 0..TMax]    == IF t = 0 THEN Zero ELSE RAdd(up[t - 1], RMul(eps, rho[t - 1]))
        dn[t \in (-TMax)..0] == IF t = 0 THEN Zero ELSE RSub(dn[t + 1], RMul(eps, rho[t]))
    IN F([t \in TR |-> IF t >= 0 THEN up[t] ELSE dn[t]])

MkOrbit(id) ==
    LET wd  == id[1]
        lw  == id[3]
        eps == Q(1, id[5])
        rho == F([t \in (-TMax - 1)..TMax |-> RhoVals[wd[Mod(t + id[2], Len(wd)) + 1]]])
        xs  == XTab(rho, eps)
        gs  == F([t \in TR |-> RDiv(RSub(rho[t], rho[t - 1]), eps)])
        rs  == F([t \in TR |-> RMul(Half, RAdd(rho[t - 1], rho[t]))])
        lps == F([t \in TR |-> IF t = 0 THEN Fin(Zero) ELSE LpCode(lw[Mod(t + id[4], Len(lw)) + 1])])
        Hs  == F([t \in TR |-> TSubR(lps[t], RMul(Half, RSq(rs[t])))])
    IN [eps |-> eps, x |-> xs, g |-> gs, r |-> rs, lp |-> lps, H |-> Hs]

OrbIds == { <<wp[1], wp[2], lq[1], lq[2], k>> : wp \in WordSet, lq \in LpSet, k \in EpsDens }
O      == ot
Z(Ob, t) == <<Ob.x[t], Ob.r[t]>>

Injective(Ob) == Cardinality({Ob.x[t] : t \in TR}) = 2 * TMax + 1
Sel(id, d)    == (Len(id[1]) + id[2] + Len(id[3]) + id[4] + id[5] + d) % Thin = 0

\* the target: log-density and gradient are look-ups keyed by the exact position
OnTab(Ob, x)  == \E t \in TR : Ob.x[t] = x
IdxOf(Ob, x)  == CHOOSE t \in TR : Ob.x[t] = x
GradAt(Ob, x) == IF OnTab(Ob, x) THEN Ob.g[IdxOf(Ob, x)] ELSE Zero
LpAt(Ob, x)   == IF OnTab(Ob, x) THEN Ob.lp[IdxOf(Ob, x)] ELSE NaN

\* leapfrog = half kick . drift . half kick; each factor is a shear (changes one coordinate by a function of the
\* other), hence volume preserving by structure
Kick(Ob, z, c) == <<z[1], RAdd(z[2], RMul(c, GradAt(Ob, z[1])))>>
Drift(z, c)    == <<RAdd(z[1], RMul(c, z[2])), z[2]>>
Leap(Ob, z, vv) ==
    LET h  == RMul(Q(vv, 2), Ob.eps)
        fs == RMul(R(vv), Ob.eps)
    IN Kick(Ob, Drift(Kick(Ob, z, h), fs), IF DevFullKick THEN fs ELSE h)

\* ------------------------------------------------------------------------------------------------
\* the tests of the algorithm, as implemented
\* ------------------------------------------------------------------------------------------------
\* U-turn criterion on the extreme phase points:  (x+ - x-) . r- >= 0  and  (x+ - x-) . r+ >= 0
NoTurn(zlo, zhi) ==
    LET d == RSub(zhi[1], zlo[1]) IN RLe(Zero, RMul(d, zlo[2])) /\ RLe(Zero, RMul(d, zhi[2]))

\* progressive sub-sampling: the candidate of the second half replaces that of the first with probability n''/(n'+n'')
MergeTau(n1, n2) ==
    IF DevBiasedWeight
    THEN (IF n1 = 0 THEN (IF n2 > 0 THEN One ELSE Zero) ELSE RMin(One, Q(n2, n1)))
    ELSE (IF n1 + n2 = 0 THEN Zero ELSE Q(n2, n1 + n2))
\* top level: the candidate of the new half-tree is accepted with probability min(1, n'/n)
TopTau(n1, nn) == RMin(One, Q(n1, nn))
Classes(tau)   == (IF RLt(Zero, tau) THEN {"Below"} ELSE {}) \cup (IF RLt(tau, One) THEN {"Above"} ELSE {})
PB(tau, cls)   == IF cls = "Below" THEN tau ELSE RSub(One, tau)

\* Metropolis exponent of a leaf:  min(0, H_t - H_0); a NaN or -inf energy is never accepted (probability 0 = exp(-inf))
AlphaExpOf(H1, H0) ==
    CASE H1.k = "fin" -> Fin(RMin(Zero, RSub(H1.v, H0))) [] H1.k = "pinf" -> Fin(Zero) [] OTHER -> NInf

\* ------------------------------------------------------------------------------------------------
\* declarative definitions on the orbit table (used by the invariants only)
\* ------------------------------------------------------------------------------------------------
InSliceDef(Ob, lu, t) == TLeQ(lu, Ob.H[t])                              \* log u <= H_t
LeafOKDef(Ob, lu, t)  == TLtQ(lu, Ob.H[t], DeltaMax)                    \* log u <  Delta_max + H_t
UTurnDef(Ob, lo, hi)  ==
    LET d == RSub(Ob.x[hi], Ob.x[lo]) IN RLt(RMul(d, Ob.r[lo]), Zero) \/ RLt(RMul(d, Ob.r[hi]), Zero)
CountDef(Ob, lu, lo, hi) == Cardinality({t \in lo..hi : InSliceDef(Ob, lu, t)})
\* no U-turn on any dyadic sub-interval (length 2^m, m = 1..jj, aligned to lo) of the complete interval lo..lo+2^jj-1
DyadicClear(Ob, lo, jj) ==
    \A m \in 1..jj : \A i \in 0..(Pow2(jj - m) - 1) : ~UTurnDef(Ob, lo + i * Pow2(m), lo + (i + 1) * Pow2(m) - 1)

\* ------------------------------------------------------------------------------------------------
\* frames, subtree records
\* ------------------------------------------------------------------------------------------------
NoRet == [j |-> -1]
HasRet == ret.j # -1
Frame(kk, jj, t, z, a) == [k |-> kk, j |-> jj, t |-> t, z |-> z, a |-> a]
\* a call _BuildTree(from, v, jj) descends immediately to its first leaf: frames first(jj) .. first(1), call(0)
PushCall(st, jj, t, z) ==
    st \o [i \in 1..jj |-> Frame("first", jj - i + 1, t, z, NoRet)] \o << Frame("call", 0, t, z, NoRet) >>
Top  == stack[Len(stack)]
Pop  == SubSeq(stack, 1, Len(stack) - 1)
Proj(rec) == [j |-> rec.j, lo |-> rec.lo, hi |-> rec.hi, n |-> rec.n, s |-> rec.s, cand |-> rec.cand, na |-> rec.na]
Flag(sflag, nl) == IF flagAt = -1 /\ sflag = 0 THEN nl ELSE flagAt

\* ------------------------------------------------------------------------------------------------
\* step-level behaviour
\* ------------------------------------------------------------------------------------------------
Dummy == /\ orb = <<>> /\ ot = <<>> /\ md = 0 /\ pc = "none" /\ ed = 0 /\ logu = Zero /\ v = 0 /\ tm = 0 /\ tp = 0
         /\ zm = <<Zero, Zero>> /\ zp = <<Zero, Zero>> /\ j = 0 /\ n = 0 /\ s = 1 /\ cur = 0 /\ clp = 0 /\ cg = 0
         /\ acc = 0 /\ stack = <<>> /\ ret = NoRet /\ al = <<>> /\ na = 0 /\ leaves = <<>> /\ last = <<>>
         /\ subs = <<>> /\ draws = <<>> /\ flagAt = -1 /\ w = One /\ ntree = 0

Init == /\ orb \in OrbIds
        /\ ot = MkOrbit(orb)
        /\ Injective(ot)
        /\ md \in Depths
        /\ Sel(orb, md)
        /\ pc = "momentum" /\ ed = 0 /\ logu = Zero /\ v = 0 /\ tm = 0 /\ tp = 0
        /\ zm = <<Zero, Zero>> /\ zp = <<Zero, Zero>> /\ j = 0 /\ n = 0 /\ s = 1 /\ cur = 0 /\ clp = 0 /\ cg = 0
        /\ acc = 0 /\ stack = <<>> /\ ret = NoRet /\ al = <<>> /\ na = 0 /\ leaves = <<>> /\ last = <<>>
        /\ subs = <<>> /\ draws = <<>> /\ flagAt = -1 /\ w = One /\ ntree = 0
        /\ kc = [N |-> 0]

\* r_k = standard_normal(dim): the draw that puts the chain's current point on the orbit
DrawMomentum ==
    /\ pc = "momentum"
    /\ zm' = Z(O, 0) /\ zp' = Z(O, 0)
    /\ draws' = Append(draws, [k |-> "normal", cls |-> "r0", tau |-> O.r[0]])
    /\ pc' = "slice"
    /\ UNCHANGED <<orb, ot, md, ed, logu, v, tm, tp, j, n, s, cur, clp, cg, acc, stack, ret, al, na, leaves, last, subs,
                   flagAt, w, ntree, kc>>

\* log_u = Ham - exponential(1);  Ham uses the CACHED log-density of the current point;  j, s, n = 0, 1, 1
DrawSlice(e) ==
    /\ pc = "slice" /\ e \in SliceDraws
    /\ ed' = e
    /\ logu' = RSub(TSubR(O.lp[clp], RMul(Half, RSq(zm[2]))).v, Q(e, 3))
    /\ draws' = Append(draws, [k |-> "exponential", cls |-> "e", tau |-> Q(e, 3)])
    /\ j' = 0 /\ s' = 1 /\ n' = 1
    /\ pc' = "direction"
    /\ UNCHANGED <<orb, ot, md, v, tm, tp, zm, zp, cur, clp, cg, acc, stack, ret, al, na, leaves, last, subs, flagAt, w,
                   ntree, kc>>

\* v ~ Uniform{-1, 1}; call _BuildTree from the extreme leaf in direction v
Direction(vv) ==
    /\ pc = "direction" /\ vv \in {-1, 1}
    /\ v' = vv
    /\ stack' = PushCall(<<>>, j, IF vv = 1 THEN tp ELSE tm, IF vv = 1 THEN zp ELSE zm)
    /\ ntree' = ntree + j + 1
    /\ last' = <<>>
    /\ draws' = Append(draws, [k |-> "dir", cls |-> IF vv = 1 THEN "plus" ELSE "minus", tau |-> Half])
    /\ w' = RMul(w, Half)
    /\ pc' = "build"
    /\ UNCHANGED <<orb, ot, md, ed, logu, tm, tp, zm, zp, j, n, s, cur, clp, cg, acc, ret, al, na, leaves, subs, flagAt, kc>>

\* base case: one leapfrog step in direction v, slice indicator, divergence flag, Metropolis exponent
Leaf(t) ==
    /\ pc = "build" /\ ~HasRet /\ stack # <<>> /\ Top.k = "call"
    /\ t = Top.t + v
    /\ LET z1  == Leap(O, Top.z, v)
           H1  == TSubR(LpAt(O, z1[1]), RMul(Half, RSq(z1[2])))
           in1 == IF DevSliceSign THEN ~TLeQ(logu, H1) ELSE TLeQ(logu, H1)
           n1  == IF in1 THEN 1 ELSE 0
           s1  == IF TLtQ(logu, H1, DeltaMax) THEN 1 ELSE 0
           rec == [j |-> 0, lo |-> t, hi |-> t, zlo |-> z1, zhi |-> z1, cand |-> t, n |-> n1, s |-> s1,
                   al |-> << AlphaExpOf(H1, RAdd(logu, Q(ed, 3))) >>, na |-> 1]
       IN /\ ret' = rec
          /\ leaves' = Append(leaves, t) /\ last' = Append(last, t)
          /\ subs' = Append(subs, Proj(rec))
          /\ flagAt' = Flag(s1, Len(leaves) + 1)
    /\ stack' = Pop
    /\ UNCHANGED <<orb, ot, md, pc, ed, logu, v, tm, tp, zm, zp, j, n, s, cur, clp, cg, acc, al, na, draws, w, ntree, kc>>

\* the first half returned with s' = 1: build the second half from its outer end
SecondHalf ==
    /\ pc = "build" /\ HasRet /\ stack # <<>> /\ Top.k = "first"
    /\ (ret.s = 1 \/ DevContinueAfterStop)
    /\ stack' = PushCall(Pop \o << Frame("second", Top.j, Top.t, Top.z, ret) >>, Top.j - 1,
                         IF v = 1 THEN ret.hi ELSE ret.lo, IF v = 1 THEN ret.zhi ELSE ret.zlo)
    /\ ntree' = ntree + Top.j
    /\ ret' = NoRet
    /\ UNCHANGED <<orb, ot, md, pc, ed, logu, v, tm, tp, zm, zp, j, n, s, cur, clp, cg, acc, al, na, leaves, last, subs,
                   draws, flagAt, w, kc>>

\* the first half returned with s' = 0: the call returns the values of the first half unchanged
EarlyReturn ==
    /\ pc = "build" /\ HasRet /\ stack # <<>> /\ Top.k = "first"
    /\ ret.s = 0 /\ ~DevContinueAfterStop
    /\ ret' = [ret EXCEPT !.j = Top.j]
    /\ subs' = Append(subs, Proj(ret'))
    /\ stack' = Pop
    /\ UNCHANGED <<orb, ot, md, pc, ed, logu, v, tm, tp, zm, zp, j, n, s, cur, clp, cg, acc, al, na, leaves, last, draws,
                   flagAt, w, ntree, kc>>

\* both halves built: progressive sub-sampling, counters, stopping criterion of the merged subtree
MergeSubtrees(cls) ==
    /\ pc = "build" /\ HasRet /\ stack # <<>> /\ Top.k = "second"
    /\ LET a   == Top.a
           b   == ret
           tau == MergeTau(a.n, b.n)
           lo  == IF v = 1 THEN a.lo ELSE b.lo
           hi  == IF v = 1 THEN b.hi ELSE a.hi
           zlo == IF v = 1 THEN a.zlo ELSE b.zlo
           zhi == IF v = 1 THEN b.zhi ELSE a.zhi
           nt  == IF DevStopWrongEnds THEN NoTurn(b.zlo, b.zhi) ELSE NoTurn(zlo, zhi)
           s1  == IF b.s = 1 /\ nt THEN 1 ELSE 0
           rec == [j |-> Top.j, lo |-> lo, hi |-> hi, zlo |-> zlo, zhi |-> zhi,
                   cand |-> IF cls = "Below" THEN b.cand ELSE a.cand,
                   n |-> a.n + b.n, s |-> s1, al |-> a.al \o b.al, na |-> a.na + b.na]
       IN /\ cls \in Classes(tau)
          /\ ret' = rec
          /\ subs' = Append(subs, Proj(rec))
          /\ draws' = Append(draws, [k |-> "merge", cls |-> cls, tau |-> tau])
          /\ w' = IF md <= 2 THEN RMul(w, PB(tau, cls)) ELSE w
          /\ flagAt' = Flag(s1, Len(leaves))
    /\ stack' = Pop
    /\ UNCHANGED <<orb, ot, md, pc, ed, logu, v, tm, tp, zm, zp, j, n, s, cur, clp, cg, acc, al, na, leaves, last, ntree, kc>>

\* top level: if the new half-tree is usable (s' = 1) its candidate is accepted with probability min(1, n'/n) -
\* unless its log-density is not finite; point, cached log-density and cached gradient are replaced together
TopLevelAccept(cls) ==
    /\ pc = "build" /\ HasRet /\ stack = <<>>
    /\ IF ret.s = 1
       THEN LET tau == TopTau(ret.n, n) IN
            /\ cls \in Classes(tau)
            /\ draws' = Append(draws, [k |-> "top", cls |-> cls, tau |-> tau])
            /\ w' = IF md <= 2 THEN RMul(w, PB(tau, cls)) ELSE w
            /\ IF cls = "Below" /\ (DevNonFiniteSelectable \/ IsFin(O.lp[ret.cand]))
               THEN /\ cur' = ret.cand /\ clp' = ret.cand /\ acc' = 1
                    /\ cg' = IF DevGradCacheStale THEN cg ELSE ret.cand
               ELSE UNCHANGED <<cur, clp, cg, acc>>
       ELSE cls = "Skip" /\ UNCHANGED <<draws, w, cur, clp, cg, acc>>
    /\ pc' = "stopcheck"
    /\ UNCHANGED <<orb, ot, md, ed, logu, v, tm, tp, zm, zp, j, n, s, stack, ret, al, na, leaves, last, subs, flagAt, ntree, kc>>

\* n += n'; new extreme leaves; s = s' [no U-turn between the extremes]; j += 1; statistic of THIS doubling reported
StopCheck ==
    /\ pc = "stopcheck"
    /\ LET zm1 == IF v = -1 THEN ret.zlo ELSE zm
           zp1 == IF v = 1 THEN ret.zhi ELSE zp
           s1  == IF ret.s = 1 /\ NoTurn(zm1, zp1) THEN 1 ELSE 0
       IN /\ n' = n + ret.n /\ zm' = zm1 /\ zp' = zp1
          /\ tm' = (IF v = -1 THEN ret.lo ELSE tm) /\ tp' = (IF v = 1 THEN ret.hi ELSE tp)
          /\ s' = s1 /\ j' = j + 1
          /\ al' = (IF DevAlphaWholeTree THEN al \o ret.al ELSE ret.al)
          /\ na' = (IF DevAlphaWholeTree THEN na + ret.na ELSE ret.na)
          /\ flagAt' = Flag(s1, Len(leaves))
          /\ pc' = IF s1 = 1 /\ j + 1 <= md THEN "direction" ELSE "finish"
    /\ ret' = NoRet
    /\ UNCHANGED <<orb, ot, md, ed, logu, v, cur, clp, cg, acc, stack, leaves, last, subs, draws, w, ntree, kc>>

\* diagnostics stored, step() returns acc
Finish ==
    /\ pc = "finish" /\ pc' = "done"
    /\ UNCHANGED <<orb, ot, md, ed, logu, v, tm, tp, zm, zp, j, n, s, cur, clp, cg, acc, stack, ret, al, na, leaves, last,
                   subs, draws, flagAt, w, ntree, kc>>

Next == \/ DrawMomentum
        \/ \E e \in SliceDraws : DrawSlice(e)
        \/ \E vv \in {-1, 1} : Direction(vv)
        \/ \E t \in TR : Leaf(t)
        \/ SecondHalf \/ EarlyReturn
        \/ \E cls \in {"Below", "Above"} : MergeSubtrees(cls)
        \/ \E cls \in {"Below", "Above", "Skip"} : TopLevelAccept(cls)
        \/ StopCheck \/ Finish

Spec == Init /\ [][Next]_vars

\* ------------------------------------------------------------------------------------------------
\* properties of one transition
\* ------------------------------------------------------------------------------------------------
Live == kc.N = 0 /\ pc # "momentum" /\ pc # "slice"

\* no comparison of the explored instance sits on a boundary (so `<` vs `<=` in the code is never decided here)
Generic == (kc.N = 0 /\ pc = "direction" /\ j = 0) =>
    /\ \A t \in TR : IsFin(O.H[t]) => (O.H[t].v # logu /\ RAdd(O.H[t].v, DeltaMax) # logu)
    /\ \A a, b \in TR : a < b => LET d == RSub(O.x[b], O.x[a])
                                 IN RMul(d, O.r[a]) # Zero /\ RMul(d, O.r[b]) # Zero

\* the computed leapfrog step lands on the table ...
OnLattice == (kc.N = 0 /\ pc = "momentum") =>
    \A t \in TR : \A vv \in {-1, 1} : (t + vv) \in TR => Leap(O, Z(O, t), vv) = Z(O, t + vv)
\* ... and the step in direction -v undoes the step in direction v (time reversibility of the integrator)
Reversible == (kc.N = 0 /\ pc = "momentum") =>
    \A t \in TR : \A vv \in {-1, 1} : (t + vv) \in TR => Leap(O, Leap(O, Z(O, t), vv), -vv) = Z(O, t)
\* the extreme phase points carried by the algorithm are those of the extreme leaves
EndsOnTable == Live => zm = Z(O, tm) /\ zp = Z(O, tp)

\* every counted leaf lies in the slice, the count is exact, candidates come from the slice, so does the chain state
InSlice == Live =>
    /\ InSliceDef(O, logu, cur)
    /\ \A i \in 1..Len(subs) :
         LET q == subs[i] IN /\ q.n = CountDef(O, logu, q.lo, q.hi)
                             /\ q.cand \in q.lo..q.hi
                             /\ (q.n > 0 => InSliceDef(O, logu, q.cand))
    /\ (pc \in {"direction", "finish", "done"} => n = CountDef(O, logu, tm, tp))

\* a subtree continues (s' = 1) exactly if it is complete, none of its leaves diverged and none of its dyadic
\* sub-intervals makes a U-turn; the same at top level (the start t = 0 is not tested for divergence)
StopExact == Live =>
    /\ \A i \in 1..Len(subs) :
         LET q == subs[i] IN
           (q.s = 1) <=> /\ q.hi - q.lo + 1 = Pow2(q.j)
                         /\ \A t \in q.lo..q.hi : LeafOKDef(O, logu, t)
                         /\ DyadicClear(O, q.lo, q.j)
    /\ (pc \in {"direction", "finish", "done"} =>
          ((s = 1) <=> /\ tp - tm + 1 = Pow2(j)
                       /\ \A t \in tm..tp : t # 0 => LeafOKDef(O, logu, t)
                       /\ DyadicClear(O, tm, j)))
\* no leaf is built after the first divergence / U-turn flag
StopsAtFirst == Live => (flagAt # -1 => Len(leaves) = flagAt)
\* the loop ends because of a flag or because the depth is exhausted; depth as coded: at most max_depth + 1 doublings
DepthBound == Live => (j <= md + 1 /\ (pc \in {"finish", "done"} => (s = 0 \/ j = md + 1)))

\* the reported statistic is the mean Metropolis probability over exactly the leaves of the last doubling
AlphaStat == (kc.N = 0 /\ pc \in {"finish", "done"}) =>
    /\ na = Len(last) /\ na = Len(al)
    /\ al = [i \in 1..Len(last) |-> AlphaExpOf(O.H[last[i]], O.H[0].v)]

NoNonFiniteSelected == Live => IsFin(O.lp[cur])
CacheBelongs        == Live => (clp = cur /\ cg = cur)
AccFlag             == Live => ((cur # 0 => acc = 1) /\ (pc \in {"direction", "finish", "done"} => cur \in tm..tp))

\* facets of a completed transition as they are logged from real runs (TraceNuts)
MaxNodes(d) == Pow2(d + 1) - d - 2                 \* sum over k < d of (2^(k+1) - 1)
FacetOK(f) == /\ f.cache_ok /\ f.finite_ok /\ f.slice_ok
              /\ f.depth >= 1 /\ f.depth <= f.maxd + 1
              /\ f.nleaf >= f.depth /\ f.nleaf <= Pow2(f.depth) - 1
              /\ f.ntree >= f.nleaf /\ f.ntree <= MaxNodes(f.depth)
              /\ (f.moved = 1 => f.acc = 1)
Facets == [cache_ok |-> (clp = cur /\ cg = cur), finite_ok |-> IsFin(O.lp[cur]), slice_ok |-> InSliceDef(O, logu, cur),
           depth |-> j, maxd |-> md, nleaf |-> Len(leaves), ntree |-> ntree, acc |-> acc,
           moved |-> IF cur # 0 THEN 1 ELSE 0]
FacetsHold == (kc.N = 0 /\ pc = "done") => FacetOK(Facets)

\* ------------------------------------------------------------------------------------------------
\* PART 2: exact kernel on an abstract environment
\*   E = [N, ring, inS, okS, fin (sequences over 1..N), turn (function over <<lo, len>>)]
\* ------------------------------------------------------------------------------------------------
KWrap(E, i)  == IF E.ring THEN Mod(i - 1, E.N) + 1 ELSE i
KPoint(N, i) == F([q \in 1..N |-> IF q = i THEN One ELSE Zero])
KMix(tau, da, db) == F([q \in 1..Len(da) |-> RAdd(RMul(RSub(One, tau), da[q]), RMul(tau, db[q]))])
KHi(E, a)    == KWrap(E, a.lo + a.len - 1)

RECURSIVE KTree(_, _, _, _)
KTree(E, from, vv, jj) ==
    IF jj = 0
    THEN LET i == KWrap(E, from + vv)
         IN [lo |-> i, len |-> 1, n |-> IF E.inS[i] THEN 1 ELSE 0, s |-> IF E.okS[i] THEN 1 ELSE 0,
             dist |-> KPoint(E.N, i)]
    ELSE LET a == KTree(E, from, vv, jj - 1)
         IN IF a.s = 0 THEN a
            ELSE LET b   == KTree(E, IF vv = 1 THEN KHi(E, a) ELSE a.lo, vv, jj - 1)
                     lo  == IF vv = 1 THEN a.lo ELSE b.lo
                     len == a.len + b.len
                 IN [lo |-> lo, len |-> len, n |-> a.n + b.n,
                     s |-> IF b.s = 1 /\ ~E.turn[<<lo, len>>] THEN 1 ELSE 0,
                     dist |-> KMix(MergeTau(a.n, b.n), a.dist, b.dist)]

RECURSIVE KTop(_, _, _, _, _, _, _)
KTop(E, D, lo, len, jj, nn, dist) ==
    IF jj > D THEN dist
    ELSE LET branch(vv) ==
               LET sub   == KTree(E, IF vv = 1 THEN KWrap(E, lo + len - 1) ELSE lo, vv, jj)
                   tau   == IF sub.s = 1 THEN TopTau(sub.n, nn) ELSE Zero
                   \* a candidate with a non-finite log-density is refused: its mass stays where it was
                   mv    == F([q \in 1..E.N |-> IF E.fin[q] THEN RMul(tau, sub.dist[q]) ELSE Zero])
                   stay  == RSub(One, RSumSeq(mv))
                   d1    == F([q \in 1..E.N |-> RAdd(RMul(stay, dist[q]), mv[q])])
                   lo1   == IF vv = 1 THEN lo ELSE sub.lo
                   len1  == len + sub.len
               IN IF sub.s = 1 /\ ~E.turn[<<lo1, len1>>]
                  THEN KTop(E, D, lo1, len1, jj + 1, nn + sub.n, d1)
                  ELSE d1
         IN KMix(Half, branch(-1), branch(1))

KRow(E, D, i0) == KTop(E, D, i0, 1, 0, 1, KPoint(E.N, i0))

DoublyStochastic(E, D) ==
    LET A    == {i \in 1..E.N : E.inS[i]}
        rows == F([i \in 1..E.N |-> IF i \in A THEN KRow(E, D, i) ELSE KPoint(E.N, i)])
    IN /\ \A i \in A : RSumSeq(rows[i]) = One
       /\ \A i2 \in 1..E.N :
            IF i2 \in A THEN RSumSeq([i \in 1..E.N |-> IF i \in A THEN rows[i][i2] ELSE Zero]) = One
                        ELSE \A i \in A : rows[i][i2] = Zero

\* ring environments: pattern code 0 = out of the slice, 1 = in the slice, 2 = divergent
KLens == {2, 4, 8, 16}
KTurnTab(tk, N) ==
    F([p \in (1..N) \X KLens |->
         IF tk = 0 THEN FALSE
         ELSE (((p[1] * 5 + p[2] * 3 + tk * 7 + p[1] * p[2] * tk + ((p[1] * p[1]) % (tk + 2))) % 11) % 3) = 0])
KEnvRing(c) == [N |-> c.N, ring |-> TRUE,
                inS |-> F([i \in 1..c.N |-> c.pat[i] = 1]), okS |-> F([i \in 1..c.N |-> c.pat[i] # 2]),
                fin |-> F([i \in 1..c.N |-> TRUE]), turn |-> KTurnTab(c.tk, c.N)]
KConfigs == { [N |-> N, D |-> D, pat |-> p, tk |-> tk] :
                N \in KSizes, D \in KDepths, p \in UNION {[1..N2 -> (IF KDiv THEN {0, 1, 2} ELSE {0, 1})] : N2 \in KSizes},
                tk \in KTurnIds }
KValid(c) == /\ DOMAIN c.pat = 1..c.N /\ Pow2(c.D + 1) <= c.N /\ \E i \in 1..c.N : c.pat[i] = 1

KInit == Dummy /\ kc \in {c \in KConfigs : KValid(c)}
KNext == UNCHANGED vars
KDoublyStochastic == kc.N > 0 => DoublyStochastic(KEnvRing(kc), kc.D)

\* environment of a lattice orbit at slice level lu (index i = t + TMax + 1, no wrap-around)
KEnvOrbit(Ob, lu) ==
    LET N == 2 * TMax + 1
    IN [N |-> N, ring |-> FALSE,
        inS |-> F([i \in 1..N |-> InSliceDef(Ob, lu, i - TMax - 1)]),
        okS |-> F([i \in 1..N |-> LeafOKDef(Ob, lu, i - TMax - 1)]),
        fin |-> F([i \in 1..N |-> IsFin(Ob.lp[i - TMax - 1])]),
        turn |-> F([p \in (1..N) \X KLens |->
                     IF p[1] + p[2] - 1 <= N THEN UTurnDef(Ob, p[1] - TMax - 1, p[1] + p[2] - 2 - TMax) ELSE FALSE])]

\* ------------------------------------------------------------------------------------------------
\* emission
\* ------------------------------------------------------------------------------------------------
SeqOf(f) == [i \in 1..(2 * TMax + 1) |-> f[i - TMax - 1]]
Emitted ==
    /\ (Emit /\ kc.N = 0 /\ pc = "momentum") =>
         PrintT("@@CASE " \o ToJson([kind |-> "orbit", orb |-> orb, T |-> TMax, eps |-> O.eps, x |-> SeqOf(O.x),
                                     r |-> SeqOf(O.r), g |-> SeqOf(O.g), lp |-> SeqOf(O.lp), H |-> SeqOf(O.H)]) \o " @@END")
    /\ (Emit /\ kc.N = 0 /\ pc = "direction" /\ j = 0 /\ md <= 2) =>
         PrintT("@@CASE " \o ToJson([kind |-> "row", orb |-> orb, md |-> md, ed |-> ed,
                                     row |-> KRow(KEnvOrbit(O, logu), md, TMax + 1)]) \o " @@END")
    /\ (Emit /\ kc.N = 0 /\ pc = "done") =>
         PrintT("@@CASE " \o ToJson([kind |-> "nuts", orb |-> orb, md |-> md, ed |-> ed, logu |-> logu, draws |-> draws,
                                     leaves |-> leaves, subs |-> subs, cur |-> cur, clp |-> clp, cg |-> cg, acc |-> acc,
                                     ntree |-> ntree, depth |-> j, n |-> n, s |-> s, tm |-> tm, tp |-> tp,
                                     al |-> al, na |-> na, last |-> last, w |-> w]) \o " @@END")
=============================================================================
