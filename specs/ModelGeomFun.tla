----------------------------- MODULE ModelGeomFun -----------------------------
(***************************************************************************)
(* Function-backed linear models whose user functions return VIEWS OF      *)
(* THEIR INPUT (property C07, round 7).                                    *)
(*                                                                         *)
(* Every function pair of ModelGeom is  x |-> F @ x  with a dense integer   *)
(* F: the result is always a freshly allocated array.  Restriction,        *)
(* permutation and reshaping operators are written differently by users:    *)
(*     lambda x: x          lambda x: x[::-1]        lambda x: x[::2]       *)
(*     lambda x: x[2:]      lambda X: X.T            lambda x: np.asarray(x) *)
(* - the result SHARES MEMORY with the argument.  With geometries that do   *)
(* not copy either (identity-like, Image2D reshapes) the array the library   *)
(* gets back from forward(v) is then a view of the array it passed in.  A   *)
(* library that re-uses a buffer for the inputs it passes (the unit vector   *)
(* of LinearModel._assemble_matrix is one buffer, modified in place) and     *)
(* keeps what it got back WITHOUT materialising it sees its stored columns   *)
(* change under its hands.                                                   *)
(*                                                                         *)
(* This module EXTENDS ModelGeom (not edited; geometries GM / GpM reused).   *)
(* Core operators are SELECTIONS (out[i] = in[idx[i]]): ident, rev, sub2     *)
(* (x[::2]), sub2off (x[1::2]), tail (x[2:]), transp (X.T of a 2 x 3 image). *)
(* FunKind = how the user's functions realise them:                          *)
(*     fresh    a newly allocated array                                      *)
(*     view     a numpy view of the argument                                 *)
(*     same     the argument object itself            (ident only)           *)
(*     asarray  np.asarray(argument)                  (ident only)           *)
(*     keeps    fresh result; the function keeps references to every         *)
(*              argument it saw and every result it returned                 *)
(* ABSTRACT MEMORY: named buffers with a content (the user's vectors xa, xb, *)
(* ya; the library's unit vectors; under a deviation a scratch buffer); a    *)
(* result is a HANDLE - either a value or (buffer, index map): reading a     *)
(* handle reads the buffer NOW.  Whether a view kind really aliases depends  *)
(* on numpy / the geometry (reshape of a non-contiguous array copies): the   *)
(* booleans al (forward side), alT (adjoint side) are chosen FREELY at Init  *)
(* wherever aliasing is possible at all (view kind, no geometry that         *)
(* allocates); the invariants hold for every choice.                         *)
(* Actions (one model object, <= MaxOps user-level operations):              *)
(*     CallFwd(xa | xb), CallAdj(ya)  the user keeps the returned array      *)
(*     StartAsm(transposed?) . AsmColumn^n . AsmFinish   = get_matrix() /     *)
(*         T.get_matrix(): per column  unit[j] := 1; col := forward(unit);   *)
(*         STORE col; unit[j] := 0;   the matrix is built from what was      *)
(*         stored                                                            *)
(* Invariants                                                               *)
(*   FunColumns        the matrix has the columns Fwd e_j (the transposed     *)
(*                     model's: Adj e_i), for every FunKind / al / alT         *)
(*   FunResultsStable  every array returned to the user still reads what it   *)
(*                     read when it was returned (the user never modifies     *)
(*                     xa, xb, ya), whatever the model did afterwards         *)
(*   FunSelection      (static) where aliasing is possible the par -> par     *)
(*                     matrix is a 0/1 selection and Fwd x = x[sel]            *)
(* Named deviations (TLC must refute):                                       *)
(*   ColumnsStackedAtTheEnd  STORE keeps the handle, the columns are read     *)
(*                     when the matrix is built (the seeded change)           *)
(*                     -> FunColumns                                          *)
(*   ScratchInputBuffer      forward copies its argument into ONE buffer the   *)
(*                     model keeps and applies the function to that buffer     *)
(*                     -> FunResultsStable                                    *)
(* Not modelled (undefined): user functions that MODIFY their argument, or    *)
(* that return one output buffer again and again.                            *)
(***************************************************************************)
EXTENDS ModelGeom

CONSTANTS MaxOps,     \* number of user-level operations per behaviour
          Wide        \* TRUE: all geometry pools

VARIABLE u            \* abstract memory + what the user holds

fvars == <<c, u>>

\* ---- selection operators (function space, C-order vectors) -----------------------------------------------------------
ND == 6
FunOps == {"ident", "rev", "sub2", "sub2off", "tail", "transp"}
FunIdx(op) == CASE op = "ident"   -> [i \in 1..ND |-> i]
                [] op = "rev"     -> [i \in 1..ND |-> (ND + 1) - i]
                [] op = "sub2"    -> [i \in 1..(ND \div 2) |-> (2 * i) - 1]
                [] op = "sub2off" -> [i \in 1..(ND \div 2) |-> 2 * i]
                [] op = "tail"    -> [i \in 1..(ND - 2) |-> i + 2]
                \* X (2 x 3) |-> X^T (3 x 2): out[(a-1)*2 + b] = in[(b-1)*3 + a]
                [] op = "transp"  -> [i \in 1..ND |-> ((((i - 1) % 2)) * (ND \div 2)) + ((i - 1) \div 2) + 1]
IsPerm(op) == op \in {"ident", "rev", "transp"}
FunKindsOf(op) == IF op = "ident" THEN {"fresh", "view", "same", "asarray", "keeps"} ELSE {"fresh", "view", "keeps"}
ViewKind(fk) == fk \in {"view", "same", "asarray"}
SelM(idx) == F([i \in 1..Len(idx) |-> VUnit(ND, idx[i])])

\* ---- geometry pools ---------------------------------------------------------------------------------------------------
G1(kind, n) == Geo(kind, n, n, 1, n, "", <<>>)
Img(kind, r, q) == Geo(kind, r * q, r * q, r, q, "", <<>>)
StepG(n) == Geo("step", n, StepK(n, FALSE), 1, n, "mean", StepAsg(n, FALSE))
FunDom(op) == IF op = "transp" THEN {Img("imgC", 2, 3), Img("cont2d", 2, 3)} \cup (IF Wide THEN {Img("imgF", 2, 3)} ELSE {})
              ELSE {G1("default1d", ND), G1("cont1d", ND), Img("imgC", 2, 3), StepG(ND)}
                   \cup (IF Wide THEN {G1("discrete", ND), Img("imgF", 2, 3), Img("cont2d", 2, 3), Geo("mapped", ND, ND, 1, ND, "", <<>>)} ELSE {})
FunRng(op) == LET nr == Len(FunIdx(op))
              IN IF op = "transp" THEN {Img("imgC", 3, 2)} \cup (IF Wide THEN {Img("imgF", 3, 2), Img("cont2d", 3, 2)} ELSE {})
                 ELSE IF nr = 3 THEN {G1("default1d", 3), G1("cont1d", 3)} \cup (IF Wide THEN {G1("discrete", 3)} ELSE {})
                 ELSE {G1("default1d", nr), Img("imgC", 2, nr \div 2)}
                      \cup (IF Wide THEN {G1("cont1d", nr), G1("discrete", nr), Img("imgF", 2, nr \div 2), StepG(nr)} ELSE {G1("discrete", nr)})

FunOrtho(g) == F2PLinear(g) /\ GpM(g) = MT(GM(g))
\* the par -> par matrix is a selection: exactly one One per row
RowSel(row) == CHOOSE j \in 1..Len(row) : row[j] = One
IsSelection(M) == \A i \in 1..Len(M) : \E j \in 1..Len(M[i]) : M[i] = VUnit(Len(M[i]), j)

FunDerive(op, fk, dg, rg) ==
    LET S   == SelM(FunIdx(op))
        Mat == MM(GpM(rg), MM(S, GM(dg)))
        pd  == dg.k
        pr  == rg.k
        xa  == VR(IVecA(pd, 1))
        xb  == VR(IVecB(pd, 2))
        ya  == VR(IVecB(pr, 1))
        can == ViewKind(fk) /\ IdType(dg) /\ IdType(rg)
    IN [part |-> "FUN", op |-> op, fk |-> fk, dg |-> dg, rg |-> rg, pd |-> pd, pr |-> pr, S |-> S, Mat |-> Mat, MatT |-> MT(Mat),
        xa |-> xa, xb |-> xb, ya |-> ya, fa |-> MV(Mat, xa), fb |-> MV(Mat, xb), aa |-> MV(MT(Mat), ya),
        ortho |-> FunOrtho(dg) /\ FunOrtho(rg), can |-> can, canT |-> can /\ IsPerm(op)]

FunConfigs == { <<op, fk, dg, rg>> : op \in FunOps, fk \in {"fresh", "view", "same", "asarray", "keeps"}, dg \in UNION {FunDom(o) : o \in FunOps},
                                      rg \in UNION {FunRng(o) : o \in FunOps} }
FunValid(q) == q[2] \in FunKindsOf(q[1]) /\ q[3] \in FunDom(q[1]) /\ q[4] \in FunRng(q[1])

\* ---- abstract memory --------------------------------------------------------------------------------------------------
Val(v)        == [b |-> "", sel |-> <<>>, v |-> v]
Ref(b, sel, v) == [b |-> b, sel |-> sel, v |-> v]
ReadIn(bufs, h) == IF h.b = "" THEN h.v ELSE F([i \in 1..Len(h.sel) |-> bufs[h.b][h.sel[i]]])
SelOf(M)      == [i \in 1..Len(M) |-> RowSel(M[i])]
NoAsm         == [on |-> FALSE, tr |-> FALSE, j |-> 0, cols |-> <<>>]

FunInit ==
    /\ \E q \in {p \in FunConfigs : FunValid(p)} : \E D \in {FunDerive(q[1], q[2], q[3], q[4])} :
          \E al \in (IF D.can THEN {TRUE, FALSE} ELSE {FALSE}) : \E alT \in (IF D.canT THEN {TRUE, FALSE} ELSE {FALSE}) :
             c = [D EXCEPT !.part = "FUN"] @@ [al |-> al, alT |-> alT]
    /\ u = [bufs |-> [xa |-> c.xa, xb |-> c.xb, ya |-> c.ya, unit |-> VZero(c.pd), unitT |-> VZero(c.pr), scr |-> VZero(c.pd)],
            held |-> <<>>, mat |-> <<>>, tmat |-> <<>>, asm |-> NoAsm, n |-> 0]

Idle == ~u.asm.on /\ u.n < MaxOps

CallFwd(w) ==
    /\ Idle
    /\ LET v == IF w = "xa" THEN c.fa ELSE c.fb
           scratch == "ScratchInputBuffer" \in Dev
           h == IF c.al THEN Ref(IF scratch THEN "scr" ELSE w, SelOf(c.Mat), v) ELSE Val(v)
       IN u' = [u EXCEPT !.bufs = IF scratch THEN [@ EXCEPT !.scr = u.bufs[w]] ELSE @,
                         !.held = Append(@, h), !.n = @ + 1]
    /\ UNCHANGED c
CallAdj ==
    /\ Idle /\ c.ortho
    /\ u' = [u EXCEPT !.held = Append(@, IF c.alT THEN Ref("ya", SelOf(c.MatT), c.aa) ELSE Val(c.aa)), !.n = @ + 1]
    /\ UNCHANGED c
StartAsm(tr) ==
    /\ Idle /\ (tr => c.ortho)
    /\ u' = [u EXCEPT !.asm = [on |-> TRUE, tr |-> tr, j |-> 0, cols |-> <<>>]]
    /\ UNCHANGED c
\* one column: unit[j] := 1; col := forward(unit); STORE col; unit[j] := 0
AsmColumn ==
    /\ u.asm.on
    /\ LET tr  == u.asm.tr
           dim == IF tr THEN c.pr ELSE c.pd
           M   == IF tr THEN c.MatT ELSE c.Mat
           bn  == IF tr THEN "unitT" ELSE "unit"
           j   == u.asm.j + 1
           e   == VUnit(dim, j)
           set == [u.bufs EXCEPT ![bn] = e]
           col == IF (IF tr THEN c.alT ELSE c.al) THEN Ref(bn, SelOf(M), MCol(M, j)) ELSE Val(MCol(M, j))
           kept == IF "ColumnsStackedAtTheEnd" \in Dev THEN col ELSE Val(ReadIn(set, col))
       IN /\ j <= dim
          /\ u' = [u EXCEPT !.asm.j = j, !.asm.cols = Append(@, kept), !.bufs = [set EXCEPT ![bn] = VZero(dim)]]
    /\ UNCHANGED c
AsmFinish ==
    /\ u.asm.on /\ u.asm.j = (IF u.asm.tr THEN c.pr ELSE c.pd)
    /\ LET cols == F([j \in 1..Len(u.asm.cols) |-> ReadIn(u.bufs, u.asm.cols[j])])
           M    == MT(cols)
       IN u' = [u EXCEPT !.asm = NoAsm, !.n = @ + 1, !.mat = IF u.asm.tr THEN @ ELSE M, !.tmat = IF u.asm.tr THEN M ELSE @]
    /\ UNCHANGED c
FunNext == CallFwd("xa") \/ CallFwd("xb") \/ CallAdj \/ StartAsm(FALSE) \/ StartAsm(TRUE) \/ AsmColumn \/ AsmFinish
FunSpec == FunInit /\ [][FunNext]_fvars

\* ---- invariants -------------------------------------------------------------------------------------------------------
FunColumns == /\ (u.mat # <<>> => u.mat = c.Mat)
              /\ (u.tmat # <<>> => u.tmat = c.MatT)
FunResultsStable == \A i \in 1..Len(u.held) : ReadIn(u.bufs, u.held[i]) = u.held[i].v
FunSelection == /\ NRows(c.Mat) = c.pr /\ NCols(c.Mat) = c.pd
                /\ (c.can => /\ IsSelection(c.Mat)
                             /\ c.fa = F([i \in 1..c.pr |-> c.xa[RowSel(c.Mat[i])]]))
                /\ (c.canT => IsSelection(c.MatT))
                /\ (c.al => c.can) /\ (c.alT => c.canT)
                \* the supplied adjoint (scatter) is the transpose of the selection:  <S x, y> = <x, S^T y>  on all basis pairs
                /\ \A i \in 1..ND : \A j \in 1..Len(c.S) : (c.S[j][i] = One) = (FunIdx(c.op)[j] = i)
FunInputsUntouched == u.bufs.xa = c.xa /\ u.bufs.xb = c.xb /\ u.bufs.ya = c.ya

\* layout / type of the user's vectors xa, xb, ya (same numbers; no expectation depends on it): varies over the configurations
OpNo(op) == CASE op = "ident" -> 0 [] op = "rev" -> 1 [] op = "sub2" -> 2 [] op = "sub2off" -> 3 [] op = "tail" -> 4 [] OTHER -> 5
FkNo(fk) == CASE fk = "fresh" -> 0 [] fk = "view" -> 1 [] fk = "same" -> 2 [] fk = "asarray" -> 3 [] OTHER -> 4
FunLayX(k) == <<"f64c", "int", "strided", "readonly">>[((OpNo(k.op) + FkNo(k.fk) + k.dg.k + k.rg.r) % 4) + 1]
FunCase == [kind |-> "fun", layX |-> FunLayX(c), op |-> c.op, fk |-> c.fk, dg |-> c.dg, rg |-> c.rg, idx |-> FunIdx(c.op), matrix |-> c.Mat,
            xa |-> c.xa, xb |-> c.xb, ya |-> c.ya, fwd_a |-> c.fa, fwd_b |-> c.fb, adj_a |-> c.aa, ortho |-> c.ortho, can_alias |-> c.can,
            Gd |-> GM(c.dg), Gpd |-> GpM(c.dg), Hr |-> GM(c.rg), Hpr |-> GpM(c.rg)]
FunEmit == (Emit /\ u.n = 0 /\ ~u.asm.on /\ ~c.al /\ ~c.alT) => PrintT("@@CASE " \o ToJson(FunCase) \o " @@END")

\* ===========================================================================================================================
\* part LAY: data layout / type of the arrays handed to a linear model (matrix-backed: the matrix; every kind: the vectors)
\* ===========================================================================================================================
\* The SAME numbers as an integer array, float32, column-major, a non-contiguous view, a read-only array.  No expectation depends
\* on it: a configuration of this part IS a configuration of ModelGeom part C07 (its invariants Adjoint / Columns / Transpose
\* are checked on it unchanged, the numbers are the `lin` case of that configuration) plus the two layouts.  float32 for the matrix
\* AND the vector at once is left out: the result would legitimately be computed in single precision.
LayMOf(mk) == IF mk = "dense" THEN <<"int", "f32", "fortran", "strided", "readonly">> ELSE <<"int", "f32">>
LayXs == <<"int", "f32", "strided", "readonly">>
Mapped(n) == Geo("mapped", n, n, 1, n, "", <<>>)
LayDom == {G1("default1d", 6), G1("cont1d", 6), StepG(6), Mapped(6), Geo("linexp", 6, LinK(6), 1, 6, "", <<>>)}    \* (linexp: fractional function values)
          \cup (IF Wide THEN {G1("discrete", 6), Geo("step", 6, StepK(6, TRUE), 1, 6, "mean", StepAsg(6, TRUE))} ELSE {})
LayRng == {G1("default1d", 4), G1("discrete", 4), StepG(4)} \cup (IF Wide THEN {G1("cont1d", 4), Mapped(4)} ELSE {})
LayConfigs == { [part |-> "C07", mk |-> mk, dg |-> dg, rg |-> rg, fi |-> 1, li |-> i, lj |-> j] :
                  mk \in {"dense", "sparse"}, dg \in LayDom, rg \in LayRng, i \in 1..5, j \in 1..4 }
LayValid(k) == /\ k.li <= Len(LayMOf(k.mk))
               /\ ~(LayMOf(k.mk)[k.li] = "f32" /\ LayXs[k.lj] = "f32")
               /\ (Wide \/ k.lj = ((k.li + k.dg.k + k.rg.k) % 4) + 1 \/ (LayMOf(k.mk)[k.li] = "f32" /\ k.lj = ((k.li + k.dg.k + k.rg.k + 1) % 4) + 1))
LayInit == c \in {k \in LayConfigs : LayValid(k)} /\ u = <<>>
LayNext == UNCHANGED fvars
LayEmit == Emit => PrintT("@@CASE " \o ToJson([kind |-> "lay", mk |-> c.mk, dg |-> c.dg, rg |-> c.rg, fi |-> c.fi,
                                                layM |-> LayMOf(c.mk)[c.li], layX |-> LayXs[c.lj]]) \o " @@END")
LayCovered == \* every layout of the matrix and of the vectors occurs (vacuity of the thinning)
    /\ \A mk \in {"dense", "sparse"} : \A i \in 1..Len(LayMOf(mk)) : \E k \in LayConfigs : LayValid(k) /\ k.mk = mk /\ k.li = i
    /\ \A j \in 1..4 : \E k \in LayConfigs : LayValid(k) /\ k.lj = j
=============================================================================
