----------------------------- MODULE LinGaussProc -----------------------------
(***************************************************************************)
(* C06, PROCESS HISTORY: ONE python process in which SEVERAL linear-Gaussian *)
(* posteriors of DIFFERENT configuration are built, given to a Linear RTO   *)
(* sampler and sampled, in every order and interleaving (round 6).          *)
(*                                                                         *)
(* Every other part of the C06 check answers "what does a sampler draw for  *)
(* THIS configuration" in a process that has, by then, seen hundreds of      *)
(* other configurations in one fixed order.  The property quantifies over    *)
(* configurations; it does not say "provided nothing else was created in    *)
(* the process before".  State that outlives an object - a module level      *)
(* table of factorisations keyed by a PROJECTION of the configuration, a     *)
(* default argument shared between calls, an id()-keyed memo - makes the     *)
(* draw of one posterior a function of what was created or used BEFORE it.   *)
(*                                                                         *)
(* Items (EXTENDS LinGauss: same catalogue of Gaussian input forms, data,    *)
(* noise forms; exact integers / rationals):                                 *)
(*   gmrf   GMRF prior, zero boundary, order 0..2, precision delta in {1,4}, *)
(*          on a 1-D grid with n nodes (n = 3, 4) or on a 2-D grid k x k      *)
(*          (k = 2, n = 4): structure D2 = [I (x) D1 ; D1 (x) I]             *)
(*          ("differences in both directions"; the stacking is C20's Kron2D), *)
(*          precision delta D^T D = delta (I (x) P1 + P1 (x) I)                *)
(*   gauss  Gaussian prior in the 16 input forms of LinGauss, n = 2, 3, 4     *)
(*   gaussw the SAME numeric matrix W handed in under another keyword          *)
(*          (cov = W / prec = W, sqrtcov = V / sqrtprec = V)                   *)
(*   by     BYSTANDERS: objects that are only created and evaluated (GMRF /   *)
(*          LMRF / CMRF with periodic / neumann boundary, ...); nothing is     *)
(*          asserted about them, they are history for the others              *)
(* The lists pair items that share (n, boundary, order) but differ in the     *)
(* PHYSICAL dimension, and items that share everything except ONE parameter   *)
(* (precision, order, n, mean, data, noise, keyword of the parameter, model    *)
(* kind); ProcListsDiscriminate checks that the posteriors of such a pair      *)
(* differ, and differ when one is computed with the other's prior factor.      *)
(*                                                                         *)
(* State machine: c = the list (set of item names, mode), d = table of the    *)
(* items, x = AMBIENT state of the process (what outlives an object; the      *)
(* intended design has none: the empty function), hist = events so far.       *)
(* Events per item: Build (distributions, model, posterior), Prep (both        *)
(* sampler objects constructed / initialised = everything precomputed), Draw   *)
(* (one transition per scripted perturbation).  mode "free": every             *)
(* interleaving with Build < Prep < Draw per item; mode "seq": item after item. *)
(* The draw of an item is a function of ITS OWN configuration:                 *)
(*   ItemsIndependent   the Gaussian every Draw event draws from is the         *)
(*                      posterior of the item's own configuration, whatever was *)
(*                      built / prepared / drawn before in the process          *)
(* Named deviations (ProcDev; a table keyed by a projection of the              *)
(* configuration, filled by the first Build (LeakAt = "build") or the first      *)
(* Prep (LeakAt = "prep") with that key, read by every later one):               *)
(*   StructureSharedByDimBcOrder   key (n, boundary, order): the structure        *)
(*                      factor of a GMRF is taken from the table (1-D grid with   *)
(*                      k*k nodes and k x k grid collide)                          *)
(*   FactorSharedByFamilyAndSize   key (family, n): the whole square-root          *)
(*                      precision of the prior is taken from the table              *)
(* TLC must refute ItemsIndependent under each of them.                            *)
(* Emission: one case per complete behaviour (order of events) with the exact      *)
(* posterior of every asserted item.  The replay runs every behaviour in a          *)
(* FRESH python process.                                                            *)
(***************************************************************************)
EXTENDS LinGauss

CONSTANTS ProcDev,    \* "none" | "StructureSharedByDimBcOrder" | "FactorSharedByFamilyAndSize"
          LeakAt      \* "build" | "prep"

VARIABLES hist

pvars == <<c, d, x, k, hist>>

ASSUME /\ ProcDev \in {"none", "StructureSharedByDimBcOrder", "FactorSharedByFamilyAndSize"} /\ LeakAt \in {"build", "prep"}
       /\ Dev = "none" /\ Part = "rto"

\* ---- catalogue ----------------------------------------------------------------------------------------------------
A4(m, v) == LET rows == IF v = 1 THEN << <<1, 0, 2, -1>>, <<-1, 1, 0, 2>>, <<0, 2, 1, 1>> >>
                                 ELSE << <<2, 1, 0, 1>>, <<0, -1, 1, 2>>, <<1, 0, -1, 0>> >>
            IN [i \in 1..m |-> rows[i]]
AOf(m, n, v) == IF n = 4 THEN A4(m, v) ELSE AMat(m, n, v)
MuOf(n, mk)  == CASE mk = "scalar" -> [i \in 1..n |-> 2] [] mk = "vec" -> [i \in 1..n |-> (2 * i) - 3] [] OTHER -> [i \in 1..n |-> 1 - (i % 3)]

IKron(A, B) == LET rb == Len(B) cb == Len(B[1])
               IN F([i \in 1..(Len(A) * rb) |-> [j \in 1..(Len(A[1]) * cb) |->
                       A[((i - 1) \div rb) + 1][((j - 1) \div cb) + 1] * B[((i - 1) % rb) + 1][((j - 1) % cb) + 1]]])
\* structure factor of a GMRF with zero boundary: rows of the difference operator (1-D: GD of LinGauss; 2-D k x k: both directions)
GStruct(pd, n, o) == IF pd = 1 THEN GD(n, o)
                     ELSE LET kk == IF n = 4 THEN 2 ELSE 3  D1 == GD(kk, o) IN IKron(IId(kk), D1) \o IKron(D1, IId(kk))

\* item record: all items carry the same fields
It(name, fam, pd, n, o, delta, bc, j, i1, m, av, mk, mdl, yv) ==
    [name |-> name, fam |-> fam, pd |-> pd, n |-> n, order |-> o, delta |-> delta, bc |-> bc, j |-> j, i1 |-> i1, m |-> m, av |-> av,
     mk |-> mk, mdl |-> mdl, yv |-> yv]
G(name, pd, n, o, delta) == It(name, "gmrf", pd, n, o, delta, "zero", 0, 5, 3, 1, "vec", "func", 1)
Items ==
    [ g1o1  |-> G("g1o1", 1, 4, 1, 4),   g2o1  |-> G("g2o1", 2, 4, 1, 4),
      g1o2  |-> G("g1o2", 1, 4, 2, 1),   g2o2  |-> G("g2o2", 2, 4, 2, 1),
      g1o0  |-> G("g1o0", 1, 4, 0, 4),   g2o0  |-> G("g2o0", 2, 4, 0, 4),
      g2o1d |-> G("g2o1d", 2, 4, 1, 1),                                               \* g2o1 with another precision
      g1o2d |-> G("g1o2d", 1, 4, 2, 4),                                               \* g1o1 with another order
      g1o1n |-> It("g1o1n", "gmrf", 1, 3, 1, 4, "zero", 0, 5, 3, 1, "vec", "func", 1),  \* g1o1 with another n
      g2o1m |-> It("g2o1m", "gmrf", 2, 4, 1, 4, "zero", 0, 5, 3, 1, "alt", "func", 1),  \* g2o1 with another mean
      g2o1y |-> It("g2o1y", "gmrf", 2, 4, 1, 4, "zero", 0, 5, 3, 1, "vec", "func", 2),  \* g2o1 with other data
      g2o1z |-> It("g2o1z", "gmrf", 2, 4, 1, 4, "zero", 0, 16, 3, 1, "vec", "func", 1), \* g2o1 with another noise
      g2o1a |-> It("g2o1a", "gmrf", 2, 4, 1, 4, "zero", 0, 5, 3, 2, "vec", "func", 1),  \* g2o1 with another operator
      g1o1s |-> It("g1o1s", "gmrf", 1, 4, 1, 4, "zero", 0, 2, 2, 1, "vec", "matrix", 1),\* 1-D, matrix model, m = 2
      c13   |-> It("c13", "gauss", 1, 4, 0, 0, "-", 13, 5, 3, 1, "vec", "func", 1),     \* full covariance matrix
      w13   |-> It("w13", "gaussw", 1, 4, 0, 0, "-", 13, 5, 3, 1, "vec", "func", 1),    \* the same matrix handed in as prec
      c15   |-> It("c15", "gauss", 1, 4, 0, 0, "-", 15, 5, 3, 1, "vec", "func", 1),     \* full sqrtcov
      w15   |-> It("w15", "gaussw", 1, 4, 0, 0, "-", 15, 5, 3, 1, "vec", "func", 1),    \* the same matrix handed in as sqrtprec
      c13x  |-> It("c13x", "gauss", 1, 4, 0, 0, "-", 13, 5, 3, 1, "vec", "matrix", 1),  \* c13 with a matrix model
      c6    |-> It("c6", "gauss", 1, 4, 0, 0, "-", 6, 9, 2, 1, "scalar", "matrix", 1),  \* vector of precisions, scalar mean
      c6n3  |-> It("c6n3", "gauss", 1, 3, 0, 0, "-", 6, 9, 2, 1, "scalar", "matrix", 1),
      c6n2  |-> It("c6n2", "gauss", 1, 2, 0, 0, "-", 6, 9, 3, 1, "scalar", "matrix", 1),
      c1    |-> It("c1", "gauss", 1, 4, 0, 0, "-", 1, 9, 2, 1, "scalar", "matrix", 1),  \* scalar variance
      bper  |-> It("bper", "by", 1, 4, 1, 4, "periodic", 0, 0, 0, 0, "-", "gmrf", 0),
      bneu  |-> It("bneu", "by", 2, 4, 1, 4, "neumann", 0, 0, 0, 0, "-", "gmrf", 0),
      bneu1 |-> It("bneu1", "by", 1, 4, 1, 4, "neumann", 0, 0, 0, 0, "-", "gmrf", 0),
      blm1  |-> It("blm1", "by", 1, 4, 1, 4, "zero", 0, 0, 0, 0, "-", "lmrf", 0),
      blm2  |-> It("blm2", "by", 2, 4, 1, 4, "zero", 0, 0, 0, 0, "-", "lmrf", 0),
      bcm2  |-> It("bcm2", "by", 2, 4, 1, 4, "zero", 0, 0, 0, 0, "-", "cmrf", 0) ]

\* lists: [items, mode];  pairs sharing (n, bc, order) across the physical dimension; pairs differing in ONE parameter; sizes; bystanders
Lst(s, mode) == [items |-> s, mode |-> mode]
StructPairs == { {"g1o1", "g2o1"}, {"g1o2", "g2o2"}, {"g1o0", "g2o0"} }
OneParam    == { {"g2o1", "g2o1d"}, {"g1o1", "g1o2d"}, {"g1o1n", "g1o1"}, {"g2o1", "g2o1m"}, {"g2o1", "g2o1y"}, {"g2o1", "g2o1z"},
                 {"g2o1", "g2o1a"}, {"g1o1", "g1o1s"}, {"c13", "w13"}, {"c15", "w15"}, {"c13", "c13x"}, {"c6", "c1"}, {"c6n3", "c6"} }
Triples     == { {"g1o1", "g2o1", "c13"}, {"c6n2", "c6n3", "c6"} }
WithBy      == { {"bper", "g1o1"}, {"bneu", "g2o1"}, {"blm2", "g2o1"} }
WideExtra   == { {"g1o1", "g2o1d"}, {"g1o2d", "g2o1"}, {"g1o0", "g2o1"}, {"g1o2", "g2o2", "g1o2d"}, {"bneu1", "g1o1"}, {"blm1", "g1o1"},
                 {"bcm2", "g2o1"}, {"g1o1s", "g2o1"}, {"c13", "g1o1"}, {"w15", "g2o2"} }
Lists == { Lst(s, "free") : s \in StructPairs }
         \cup { Lst(s, IF Thorough THEN "free" ELSE "seq") : s \in OneParam \cup WithBy }
         \cup { Lst(s, "seq") : s \in Triples }
         \cup (IF Thorough THEN { Lst(s, "free") : s \in WideExtra } \cup { Lst({"g1o1", "g2o1", "c13"}, "free") } ELSE {})
         \cup { Lst({nm}, "seq") : nm \in UNION (StructPairs \cup OneParam \cup Triples \cup WithBy \cup (IF Thorough THEN WideExtra ELSE {})) }

Asserted(it) == it.fam # "by"

\* ---- the Gaussian an item's samplers draw from, given the item `src` whose prior factor is used -----------------------
\* square-root precision (rows) of the prior of item `it`
GaussWL(j, n) == LET S == IAdj(RTri(n, 1)) IN IF j = 13 THEN IT(S) ELSE S      \* prec = S S^T = (S^T)^T S^T ;  sqrtprec = S
PriorL(it) == CASE it.fam = "gmrf"   -> IMSc(ISq(it.delta), GStruct(it.pd, it.n, it.order))
                [] it.fam = "gauss"  -> GaussL(PForm(it.j).kind, it.n, 1)
                [] it.fam = "gaussw" -> GaussWL(it.j, it.n)
\* what the (possibly deviating) process uses for `it` when the table entry of its key was written by `src`
UsedL(it, src) ==
    IF src.name = it.name \/ ProcDev = "none" THEN PriorL(it)
    ELSE IF ProcDev = "StructureSharedByDimBcOrder"
         THEN (IF it.fam = "gmrf" /\ src.fam = "gmrf" THEN IMSc(ISq(it.delta), GStruct(src.pd, src.n, src.order)) ELSE PriorL(it))
         ELSE PriorL(src)
Key(it) == IF ProcDev = "StructureSharedByDimBcOrder" THEN <<"s", it.fam = "gmrf", it.n, it.bc, it.order>>
           ELSE <<"f", it.fam \in {"gauss", "gaussw"}, it.n, "-", 0>>

Post(it, src) ==
    LET n   == it.n
        A   == AOf(it.m, n, it.av)
        Le  == GaussL(GForm(it.i1).kind, it.m, 1)
        y   == YVec(it.m, it.yv)
        Lp  == UsedL(it, src)
        mu0 == MuOf(n, it.mk)
        LA  == IMM(Le, A)
        M   == LA \o Lp
        bt  == IMV(Le, y) \o IMV(Lp, mu0)
        \* reference: information form with the prior precision of the item's OWN configuration when src = it
        Lam == IMAdd(IMM(IT(LA), LA), IMM(IT(Lp), Lp))
        rhs == IVAdd(IMV(IT(LA), IMV(Le, y)), IMV(IMM(IT(Lp), Lp), mu0))
        det == IDet(Lam)
        adj == IAdj(Lam)
    IN [n |-> n, A |-> A, Le |-> Le, y |-> y, Lp |-> Lp, mu0 |-> mu0, M |-> M, bt |-> bt, Lam |-> Lam, rhs |-> rhs, det |-> det, adj |-> adj,
        mu |-> QV(IMV(adj, rhs), det), LamInv |-> QM(adj, det)]

\* ---- state machine ------------------------------------------------------------------------------------------------
Phases == <<"build", "prep", "draw">>
Done(nm, ph) == \E i \in 1..Len(hist) : hist[i].item = nm /\ hist[i].ev = ph
NextPhase(nm) == IF ~Done(nm, "build") THEN 1 ELSE IF ~Done(nm, "prep") THEN 2 ELSE IF ~Done(nm, "draw") THEN 3 ELSE 4
Open(nm) == NextPhase(nm) \in {2, 3}                      \* built, not yet drawn

ProcInit == /\ c \in Lists
            /\ d = [nm \in c.items |-> Items[nm]]
            /\ x = <<>>                                    \* ambient table: sequence of <<key, item name>>
            /\ k = 0 /\ hist = <<>>

Lookup(key) == IF \E i \in 1..Len(x) : x[i][1] = key THEN x[CHOOSE i \in 1..Len(x) : x[i][1] = key /\ \A q \in 1..(i - 1) : x[q][1] # key][2] ELSE ""

Event ==
    \E nm \in c.items :
       /\ NextPhase(nm) <= 3
       /\ (c.mode = "seq" => \A other \in c.items \ {nm} : ~Open(other))
       /\ LET ph   == Phases[NextPhase(nm)]
              it   == d[nm]
              leak == ProcDev # "none" /\ ph = LeakAt /\ Asserted(it)
              x1   == IF leak /\ Lookup(Key(it)) = "" THEN Append(x, <<Key(it), nm>>) ELSE x
              \* the prior factor is fixed when the leak phase of the item runs (constructor resp. precomputation)
              src  == IF leak THEN (LET w == IF Lookup(Key(it)) = "" THEN nm ELSE Lookup(Key(it)) IN w) ELSE ""
          IN /\ x' = x1
             /\ hist' = Append(hist, [item |-> nm, ev |-> ph, src |-> src])
       /\ k' = k + 1
       /\ UNCHANGED <<c, d>>
ProcNext == Event
ProcSpec == ProcInit /\ [][ProcNext]_pvars

\* the item whose prior factor the draw of `nm` is computed with (intended design: its own)
SrcOf(nm) == IF \E i \in 1..Len(hist) : hist[i].item = nm /\ hist[i].src # ""
             THEN hist[CHOOSE i \in 1..Len(hist) : hist[i].item = nm /\ hist[i].src # ""].src ELSE nm

\* ---- invariants ---------------------------------------------------------------------------------------------------
ItemsIndependent ==
    \A i \in 1..Len(hist) :
       (hist[i].ev = "draw" /\ Asserted(d[hist[i].item])) =>
           LET it == d[hist[i].item]  got == Post(it, d[SrcOf(it.name)])  own == Post(it, it)
           IN got.mu = own.mu /\ got.LamInv = own.LamInv
\* reference facts of every asserted item (checked once per list)
ProcReference ==
    (Len(hist) = 0) => \A nm \in c.items : Asserted(d[nm]) =>
        LET it == d[nm]  p == Post(it, it)
        IN /\ IMM(IT(p.M), p.M) = p.Lam /\ IMV(IT(p.M), p.bt) = p.rhs               \* normal equations of the stacked problem
           /\ IPosDef(p.Lam) /\ IMM(p.adj, p.Lam) = IMSc(p.det, IId(it.n))
           /\ (it.fam = "gmrf" /\ it.pd = 1 => IMM(IT(GD(it.n, it.order)), GD(it.n, it.order)) = GDocP(it.n, it.order))
           /\ (it.fam = "gmrf" /\ it.pd = 2 =>                                        \* precision = I (x) P1 + P1 (x) I
                 LET D == GStruct(2, it.n, it.order)  P1 == GDocP(2, it.order)
                 IN IMM(IT(D), D) = IMAdd(IKron(IId(2), P1), IKron(P1, IId(2))))
           /\ (it.fam = "gaussw" => LET S == IAdj(RTri(it.n, 1))  L == PriorL(it)       \* the same numbers, another keyword
                                    IN IF it.j = 13 THEN IMM(IT(L), L) = IMM(S, IT(S)) ELSE L = S)
           /\ (it.fam = "gauss" => FormsAgree(PForm(it.j).kind, it.n, 1))
           /\ FormsAgree(GForm(it.i1).kind, it.m, 1)
\* the lists can tell: two asserted items of a list have different posteriors (unless they differ in the KIND of model only), and an item computed with the prior factor of
\* another item of its list (same number of unknowns) is NOT the item's posterior
ProcListsDiscriminate ==
    (Len(hist) = 0) => \A a \in c.items : \A b \in c.items \ {a} :
        (Asserted(d[a]) /\ Asserted(d[b])) =>
            LET pa == Post(d[a], d[a])  pb == Post(d[b], d[b])
            IN /\ ([d[a] EXCEPT !.name = "", !.mdl = ""] # [d[b] EXCEPT !.name = "", !.mdl = ""] => (pa.mu # pb.mu \/ pa.LamInv # pb.LamInv))
               /\ (d[a].n = d[b].n /\ PriorL(d[a]) # PriorL(d[b]) =>
                      LET Lb == PriorL(d[b])  LA == IMM(pa.Le, pa.A)
                          Lam2 == IMAdd(IMM(IT(LA), LA), IMM(IT(Lb), Lb))
                      IN Lam2 # pa.Lam)
ProcShape == Len(hist) <= 3 * Cardinality(c.items) /\ (ProcDev = "none" => x = <<>>)

\* ---- emission -----------------------------------------------------------------------------------------------------
ItemCase(it) ==
    IF ~Asserted(it) THEN [name |-> it.name, fam |-> it.fam, what |-> it.mdl, pd |-> it.pd, n |-> it.n, order |-> it.order, delta |-> it.delta, bc |-> it.bc]
    ELSE LET p == Post(it, it)  gi == GForm(it.i1)  pf == PForm(IF it.fam = "gmrf" THEN 17 ELSE it.j)
         IN [kind |-> "rto", name |-> it.name, fam |-> it.fam, pd |-> it.pd, n |-> it.n, nl |-> 1, m |-> <<it.m>>, mk |-> it.mk, mdl |-> it.mdl,
             i1 |-> it.i1, i2 |-> 0, j |-> it.j, av |-> it.av, yv |-> it.yv,
             A |-> <<p.A>>, y |-> <<p.y>>, Ln |-> <<p.Le>>,
             noise |-> << [kind |-> gi.kind, form |-> gi.form, shape |-> ParamShape(gi.kind), param_q |-> GaussParam(gi.kind, gi.form, it.m, 1)] >>,
             prior |-> [kind |-> (IF it.fam = "gmrf" THEN "gmrf" ELSE pf.kind),
                        form |-> (IF it.fam = "gaussw" THEN (IF it.j = 13 THEN "prec" ELSE "sqrtprec") ELSE pf.form),
                        order |-> it.order, delta |-> it.delta, shape |-> (IF it.fam = "gmrf" THEN "matrix" ELSE ParamShape(pf.kind)),
                        param_q |-> (CASE it.fam = "gmrf" -> Zero
                                       [] it.fam = "gaussw" -> GaussParam("full", IF it.j = 13 THEN "cov" ELSE "sqrtcov", it.n, 1)
                                       [] OTHER -> GaussParam(pf.kind, pf.form, it.n, 1)),
                        blocks |-> << [L |-> p.Lp, mu |-> p.mu0] >>],
             Lam |-> p.Lam, rhs |-> p.rhs, det |-> p.det, mu_q |-> p.mu, LamInv_q |-> p.LamInv]
ProcEmit ==
    (Emit /\ Len(hist) = 3 * Cardinality(c.items)) =>
        PrintT("@@CASE " \o ToJson([kind |-> "proc", mode |-> c.mode,
                                    events |-> [i \in 1..Len(hist) |-> [item |-> hist[i].item, ev |-> hist[i].ev]],
                                    items |-> [nm \in c.items |-> ItemCase(d[nm])]]) \o " @@END")
=============================================================================
