---------------------------- MODULE ModelGeomEdit ----------------------------
(***************************************************************************)
(* Property C07, part "SEQE": the user EDITS THE MATRIX IN PLACE.          *)
(*                                                                         *)
(* ModelGeom (parts SEQ / SEQ2) is a state machine over one model object / *)
(* a model and its shallow copy with the actions get_matrix, T, assignment *)
(* of a geometry.  A matrix-backed LinearModel is built from an array the  *)
(* USER keeps a reference to (dense C / F ordered ndarray, scipy CSR / CSC  *)
(* / COO), and get_matrix() may hand the stored matrix out again.  This    *)
(* module adds the action                                                  *)
(*     EditMatrixInPlace(route, kind)                                      *)
(*        route U   through the user's own reference  (M *= 2, M[i,j] = v, *)
(*                  M[:,j] += c, np.multiply(M, 2, out=M), M.data *= 2,    *)
(*                  M.data[k] = v)                                         *)
(*        route G   through what get_matrix() of an object returns         *)
(*                  (A.get_matrix()[i,j] = v, A.get_matrix().data[k] = v)  *)
(* to those machines (the SEQ operators of ModelGeom are applied UNCHANGED *)
(* to the record of the object acted on), a third way of deriving a second *)
(* object (copy.deepcopy) and the transposed model the user holds (t = m.T *)
(* created before / after the edit).                                       *)
(*                                                                         *)
(* Whether a model ALIASES the user's array or COPIES it is documented     *)
(* nowhere: both are legitimate.  The abstract state therefore has storage *)
(* CELLS with a CONTENT (the sequence of edits applied to the matrix in    *)
(* that cell; cell 1 = the user's array) and four booleans, chosen freely  *)
(* at Init, that say what the implementation does:                         *)
(*     ua   the model stores the user's array itself (else a private copy) *)
(*     ga   get_matrix() hands out the stored matrix itself (else a copy)  *)
(*     cs   a derived object (model(dist), copy, deepcopy) shares the cell *)
(*     ts   the transposed model shares the cell (a view)                  *)
(* Every object (the model, its copy, a held transposed model) has FOUR    *)
(* READ-OUTS of "its matrix":  forward (columns), adjoint (rows),          *)
(* get_matrix(), and the transposed model it builds now.  Each read-out    *)
(* reflects the content of some cell at some time.  INTENDED design,       *)
(* whatever the booleans:  in every reachable state the four read-outs of  *)
(* an object reflect THE SAME content (EAdjointFollows, EMatrixFollows,    *)
(* ETransposeFollows) - either all four follow an edit or none does.       *)
(* Whether they follow is not asserted (the replay only observes it).      *)
(* Named deviations (constant Dev of ModelGeom), each must be REFUTED:     *)
(*   AdjointKeepsTransposedCopy   the constructor stores a transposed COPY *)
(*                      for the adjoint: forward / get_matrix / a new T    *)
(*                      follow the cell, adjoint shows the content at      *)
(*                      construction                                       *)
(*   AssembledMatrixOutlivesEdit  the par->par matrix assembled by         *)
(*                      get_matrix() for non-identity geometries is kept   *)
(*                      across an edit: get_matrix() shows the content at  *)
(*                      assembly (tree as built, finding C07-F8)           *)
(*   DeepCopyKeepsCallablesOfOriginal  the deep copy has a storage of its  *)
(*                      own (get_matrix, T) but its forward / adjoint are  *)
(*                      the callables of the original, reading the         *)
(*                      original's cell (tree as built, finding C07-F9)    *)
(* NUMBERS: the table `etab` gives, for every content (sequence of edit    *)
(* kinds) and every pair of geometries of the pools SeqD x SeqR, the exact *)
(* edited core operator and the exact H+ F' G (and the composition         *)
(* G+ F'* H of the recorded deviation AdjointViaFun2par), so that the      *)
(* replay can tell WHICH content a read-out of the real object reflects.   *)
(* Only VALUE edits of stored entries: the sparsity pattern never changes. *)
(***************************************************************************)
EXTENDS ModelGeom

CONSTANTS EParts,    \* subset of {"E1", "E2"}: one object / a model and an object derived from it
          EDepth,    \* E1: length of a behaviour
          EPost,     \* E2: number of actions after the derivation
          EWide,     \* FALSE: lean instance (quick tier)
          EFree      \* TRUE: the four booleans range over BOOLEAN; FALSE: all TRUE (the tree as built)

EMax == 2            \* edits per behaviour
EPre == 1            \* E2: actions before the derivation

\* ---------------------------------------------------------------------------
\* edits of the core operator (exact integers)
\* ---------------------------------------------------------------------------
EKindsAll == {"scale", "entry", "col"}
\* "entry" edits one STORED (non-zero, off-diagonal) entry: the first one in row-major order of the operator as given
ECand(F0) == {p \in (1..Len(F0)) \X (1..Len(F0[1])) : p[1] # p[2] /\ F0[p[1]][p[2]] # 0}
EPos(F0)  == CHOOSE p \in ECand(F0) : \A q \in ECand(F0) : ((p[1] * 100) + p[2]) <= ((q[1] * 100) + q[2])
EditF(M, k, p) ==
    CASE k = "scale" -> [i \in 1..Len(M) |-> [j \in 1..Len(M[1]) |-> 2 * M[i][j]]]                      \* M *= 2
      [] k = "entry" -> [i \in 1..Len(M) |-> [j \in 1..Len(M[1]) |-> IF <<i, j>> = p THEN M[i][j] + 5 ELSE M[i][j]]]   \* M[p] = M[p] + 5
      [] k = "col"   -> [i \in 1..Len(M) |-> [j \in 1..Len(M[1]) |-> IF j = 1 THEN M[i][j] + 1 ELSE M[i][j]]]   \* M[:, 0] += 1
RECURSIVE EApply(_, _, _)
EApply(M, ks, p) == IF ks = <<>> THEN M ELSE EApply(EditF(M, Head(ks), p), Tail(ks), p)
ECore(fi, ks) == LET F0 == CoreF(fi, 4, 6) IN F(EApply(F0, ks, EPos(F0)))
EContents == {<<>>} \cup {<<a>> : a \in EKindsAll} \cup {<<a, b>> : a \in EKindsAll, b \in EKindsAll}

\* ---------------------------------------------------------------------------
\* storage formats, edit kinds per route
\* ---------------------------------------------------------------------------
EMk(fmt) == IF fmt \in {"denseC", "denseF"} THEN "dense" ELSE "sparse"
\* (a column update of a sparse matrix would touch entries that are not stored: dense only)
EUKinds(fmt) == IF EMk(fmt) = "dense" THEN (IF EWide THEN {"scale", "entry", "col"} ELSE {"scale", "entry"}) ELSE {"scale", "entry"}
EGKinds(fmt) == IF EWide THEN (IF EMk(fmt) = "dense" THEN {"entry", "col"} ELSE {"entry", "scale"}) ELSE {"entry"}
ECopyKinds   == {"call", "copy", "deepcopy"}

\* <<format, domain geometry, range geometry, core operator>>
EStart1 == IF EWide
           THEN { <<f, p[1], p[2], 1>> : f \in {"denseC", "denseF", "csr", "csc", "coo"}, p \in {<<1, 1>>, <<2, 3>>, <<4, 2>>, <<3, 1>>} }
           ELSE { <<"denseF", 1, 1, 1>>, <<"csr", 1, 1, 1>>, <<"coo", 1, 1, 1>>, <<"denseC", 2, 3, 1>>, <<"csc", 4, 2, 1>> }
EStart2 == IF EWide
           THEN { <<f, p[1], p[2], 1>> : f \in {"denseC", "denseF", "csr", "csc", "coo"}, p \in {<<1, 1>>, <<2, 3>>} }
           ELSE { <<"denseC", 1, 1, 1>>, <<"csc", 1, 1, 1>>, <<"denseF", 2, 3, 1>> }
\* the lean instance of E2 (quick tier): the derivation x the edits x get_matrix on either object (the transposed model built NOW
\* is one of the read-outs of every object after every action); the assignments of geometries to a model and its copy are
\* part SEQ2 of ModelGeom, those interleaved with edits and the HELD transposed model are E1 (lean: the domain side only)
E2Sets(s)   == EWide \/ s.ep = "E1"
E2UKinds(s) == IF EWide \/ s.ep = "E1" THEN EUKinds(s.fmt) ELSE {"scale"}
\* the initial state that emits the tables
EFirst == LET ep == IF "E1" \in EParts THEN "E1" ELSE "E2"
          IN <<ep, CHOOSE k \in (IF ep = "E1" THEN EStart1 ELSE EStart2) : TRUE>>

\* ---------------------------------------------------------------------------
\* state
\* ---------------------------------------------------------------------------
\* book-keeping of an object: cell = the storage get_matrix() / T read, fcell = the storage forward / adjoint read,
\* snap = content of the storage when the object was constructed, mcv = content the kept assembled matrix was computed from
NoX == [cell |-> 0, fcell |-> 0, snap |-> <<>>, mcv |-> <<>>]
EFS == IF EFree THEN BOOLEAN ELSE {TRUE}
EFlags == [ua : EFS, ga : EFS, cs : EFS, ts : EFS]
AllTrue(fl) == fl.ua /\ fl.ga /\ fl.cs /\ fl.ts

AKTC == "AdjointKeepsTransposedCopy" \in Dev
AMOE == "AssembledMatrixOutlivesEdit" \in Dev
DCKC == "DeepCopyKeepsCallablesOfOriginal" \in Dev

EStored(s, o) == SeqIdPair(<<s.obj[o].d, s.obj[o].r>>)     \* get_matrix() of a matrix-backed model is the stored matrix itself

\* the four read-outs (as contents) of an object with book-keeping x, whose assembled matrix (if kept) is mc
ERd(s, x, stored, mc) ==
    [f |-> s.cells[x.fcell],
     a |-> IF AKTC THEN x.snap ELSE s.cells[x.fcell],
     g |-> IF stored THEN s.cells[x.cell] ELSE IF AMOE /\ mc # <<>> THEN x.mcv ELSE s.cells[x.fcell],
     t |-> s.cells[x.cell]]
NoRd == [f |-> <<>>, a |-> <<>>, g |-> <<>>, t |-> <<>>]
ERdAll(s) == [o \in 1..Len(s.obj) |->
                [m  |-> ERd(s, s.xs[o], EStored(s, o), s.obj[o].mc),
                 on |-> s.obj[o].t.on,
                 t  |-> IF s.obj[o].t.on THEN ERd(s, s.txs[o], EStored(s, o), s.obj[o].t.mc) ELSE NoRd]]
WithRd(s) == [s EXCEPT !.rdh = Append(@, ERdAll(s))]

\* a SEQ action of ModelGeom turned the record of object o into v
EBase(s, o, v) ==
    LET s2   == Seq2Put(s, o, v)
        a    == v.hist[Len(v.hist)].a
        asm  == a = "G" /\ s.obj[o].mc = <<>> /\ v.mc # <<>>                 \* the matrix is assembled from forward now
        newc == a = "T" /\ ~s.fl.ts
        cl2  == IF newc THEN Append(s.cells, s.cells[s.xs[o].cell]) ELSE s.cells
        tcl  == IF newc THEN Len(cl2) ELSE s.xs[o].cell
        x2   == IF asm THEN [s.xs[o] EXCEPT !.mcv = s.cells[s.xs[o].fcell]] ELSE s.xs[o]
        t2   == CASE a = "T" -> [cell |-> tcl, fcell |-> tcl, snap |-> s.cells[s.xs[o].cell], mcv |-> <<>>]
                  [] a \in {"SD", "SR"} -> NoX                                   \* the user drops the transposed model
                  [] OTHER -> s.txs[o]
    IN [s2 EXCEPT !.cells = cl2, !.xs = [s.xs EXCEPT ![o] = x2], !.txs = [s.txs EXCEPT ![o] = t2]]

\* a second object derived from the model: model(distribution) / copy.copy / copy.deepcopy
ECopy(s, k) ==
    LET o1  == s.obj[1]
        o2  == [o1 EXCEPT !.t = NoT]
        x1  == s.xs[1]
        dc  == k = "deepcopy" /\ DCKC
        new == dc \/ ~s.fl.cs
        cl2 == IF new THEN Append(s.cells, s.cells[x1.cell]) ELSE s.cells
        n   == Len(cl2)
        x2  == IF dc THEN [x1 EXCEPT !.cell = n]
               ELSE IF new THEN [x1 EXCEPT !.cell = n, !.fcell = n] ELSE x1
    IN [s EXCEPT !.obj = <<o1, o2>>, !.ck = k, !.post = 0, !.cells = cl2, !.xs = <<x1, x2>>, !.txs = <<s.txs[1], NoX>>,
                 !.hist = Append(s.hist, [a |-> "C", g |-> 0, o |-> 2, d |-> o2.d, r |-> o2.r, tp |-> <<>>, mp |-> <<>>,
                                          inh |-> FALSE, pairs |-> Seq2Pairs(<<o1, o2>>)])]

\* EditMatrixInPlace: route U = the user's array (cell 1), route G = what get_matrix() of object o returned
EEdit(s, route, o, k) ==
    LET tgt == IF route = "U" THEN 1 ELSE IF s.fl.ga THEN s.xs[o].cell ELSE 0      \* 0: a copy was handed out, the edit is lost
        cl2 == IF tgt = 0 THEN s.cells ELSE [s.cells EXCEPT ![tgt] = Append(@, k)]
        q   == IF route = "U" THEN 1 ELSE o
    IN [s EXCEPT !.cells = cl2, !.ne = @ + 1, !.post = IF Len(s.obj) = 2 THEN @ + 1 ELSE @,
                 !.hist = Append(s.hist, [a |-> "E" \o route \o k, g |-> 0, o |-> (IF route = "U" THEN 0 ELSE o),
                                          d |-> s.obj[q].d, r |-> s.obj[q].r, tp |-> <<>>, mp |-> <<>>,
                                          inh |-> FALSE, pairs |-> Seq2Pairs(s.obj)])]

InitE == /\ c \in { [part |-> "SEQE", ep |-> ep, mk |-> EMk(k[1]), fmt |-> k[1], fi |-> k[4], d0 |-> k[2], r0 |-> k[3],
                     ck |-> "", post |-> 0, ne |-> 0,
                     obj |-> << [d |-> k[2], r |-> k[3], mc |-> <<>>, t |-> NoT, tc |-> NoT] >>, hist |-> <<>>,
                     fl |-> fl, cells |-> IF fl.ua THEN << <<>> >> ELSE << <<>>, <<>> >>,
                     xs |-> << [cell |-> IF fl.ua THEN 1 ELSE 2, fcell |-> IF fl.ua THEN 1 ELSE 2, snap |-> <<>>, mcv |-> <<>>] >>,
                     txs |-> << NoX >>, rdh |-> <<>>] :
                    ep \in EParts, k \in EStart1 \cup EStart2, fl \in EFlags }
         /\ (c.ep = "E1") => (<<c.fmt, c.d0, c.r0, c.fi>> \in EStart1)
         /\ (c.ep = "E2") => (<<c.fmt, c.d0, c.r0, c.fi>> \in EStart2)

\* actions left (a behaviour is emitted when none is left)
ELeft(s) == IF s.ep = "E1" THEN EDepth - Len(s.hist)
            ELSE IF Len(s.obj) = 2 THEN EPost - s.post ELSE (EPre - Len(s.hist)) + EPost
EMore(s) == IF s.ep = "E1" THEN Len(s.hist) < EDepth
            ELSE IF Len(s.obj) = 2 THEN s.post < EPost ELSE Len(s.hist) < EPre
\* every behaviour contains an edit: the last action of a behaviour without one is an edit
EOther(s) == ~(s.ne = 0 /\ ELeft(s) = 1)

NextE == /\ c.part = "SEQE"
         /\ \/ /\ c.ep = "E2" /\ Len(c.obj) = 1
               /\ \E k \in ECopyKinds : c' = WithRd(ECopy(c, k))
            \/ /\ EMore(c)
               /\ \/ /\ EOther(c)
                     /\ \E o \in 1..Len(c.obj) :
                          LET v   == Seq2View(c, o)
                              two == c.ep = "E1" \/ Len(c.obj) = 2      \* (before the derivation: get_matrix and edits only)
                              set == two /\ E2Sets(c)
                          IN
                          \/ c' = WithRd(EBase(c, o, SeqGetMatrix(v)))
                          \/ set /\ c' = WithRd(EBase(c, o, SeqT(v)))
                          \/ set /\ \E g \in 1..Len(SeqD) : Seq2Alt(SeqD, v.d, g, o) /\ SeqGeoOK(c.mk, SeqD[g])
                                                     /\ c' = WithRd(EBase(c, o, SeqSet(v, "D", g)))
                          \/ set /\ EWide /\ \E g \in 1..Len(SeqR) : Seq2Alt(SeqR, v.r, g, o) /\ SeqGeoOK(c.mk, SeqR[g])
                                                     /\ c' = WithRd(EBase(c, o, SeqSet(v, "R", g)))
                  \/ /\ c.ne < EMax
                     /\ \/ \E k \in E2UKinds(c) : c' = WithRd(EEdit(c, "U", 0, k))
                        \/ \E o \in 1..Len(c.obj) : (c.ep = "E1" \/ Len(c.obj) = 2 \/ EWide) /\ EStored(c, o) /\ \E k \in EGKinds(c.fmt) : c' = WithRd(EEdit(c, "G", o, k))

\* ---------------------------------------------------------------------------
\* the property: the four read-outs of every object reflect the same content
\* ---------------------------------------------------------------------------
ERds == IF c.part = "SEQE"
        THEN LET all == ERdAll(c) IN {all[o].m : o \in 1..Len(c.obj)} \cup {all[o].t : o \in {q \in 1..Len(c.obj) : all[q].on}}
        ELSE {}
EAdjointFollows   == \A rd \in ERds : rd.a = rd.f        \* adjoint is the transpose of forward AT THE SAME TIME
EMatrixFollows    == \A rd \in ERds : rd.g = rd.f        \* get_matrix() has the columns of forward AT THE SAME TIME
ETransposeFollows == \A rd \in ERds : rd.t = rd.f        \* the transposed model built now swaps the two

\* ---------------------------------------------------------------------------
\* emission: tables of exact numbers (once), behaviours (final states of the all-alias instance)
\* ---------------------------------------------------------------------------
ETab(fi) ==
    \A d \in 1..Len(SeqD) : \A r \in 1..Len(SeqR) :
      (VecFun(SeqD[d]) /\ VecFun(SeqR[r])) =>
        LET G  == GM(SeqD[d])   Gp == GpM(SeqD[d])
            H  == GM(SeqR[r])   Hp == GpM(SeqR[r])
            pd == SeqD[d].k     pr == SeqR[r].k
            x  == VR(IVecA(pd, fi))
            y  == VR(IVecB(pr, fi))
        IN \A ks \in EContents :
             LET Fm == MR(ECore(fi, ks))
                 M  == MM(Hp, MM(Fm, G))                       \* par -> par matrix  H+ F' G
                 C  == MM(Gp, MM(MT(Fm), H))                   \* columns G+ F'* H e_j  (recorded deviation AdjointViaFun2par)
             IN PrintT("@@CASE " \o ToJson(
                  [kind |-> "etab", fi |-> fi, ks |-> ks, d |-> d, r |-> r, F |-> ECore(fi, ks),
                   x |-> IVecA(pd, fi), y |-> IVecB(pr, fi), matrix |-> M, coded |-> C,
                   fwd_x |-> MV(M, x), adj_y |-> MV(MT(M), y), adj_y_coded |-> MV(C, y)]) \o " @@END")
EGeo == /\ \A d \in 1..Len(SeqD) : VecFun(SeqD[d]) =>
             PrintT("@@CASE " \o ToJson([kind |-> "egeo", side |-> "D", i |-> d, G |-> GM(SeqD[d]), Gp |-> GpM(SeqD[d])]) \o " @@END")
        /\ \A r \in 1..Len(SeqR) : VecFun(SeqR[r]) =>
             PrintT("@@CASE " \o ToJson([kind |-> "egeo", side |-> "R", i |-> r, G |-> GM(SeqR[r]), Gp |-> GpM(SeqR[r])]) \o " @@END")

EFinal(s) == ~EMore(s) /\ (s.ep = "E2" => Len(s.obj) = 2)
EEmit == (Emit /\ c.part = "SEQE") =>
           IF c.hist = <<>>
           THEN IF <<c.ep, <<c.fmt, c.d0, c.r0, c.fi>>>> = EFirst /\ AllTrue(c.fl)
                THEN /\ PrintT("@@CASE " \o ToJson([kind |-> "seqeinit", D |-> SeqD, R |-> SeqR, depth |-> EDepth, pre |-> EPre, post |-> EPost,
                                                     pos |-> EPos(CoreF(c.fi, 4, 6))]) \o " @@END")
                     /\ EGeo
                     /\ ETab(c.fi)
                ELSE TRUE
           ELSE IF EFinal(c) /\ c.ne > 0 /\ AllTrue(c.fl)
           THEN PrintT("@@CASE " \o ToJson([kind |-> "seqe", ep |-> c.ep, fmt |-> c.fmt, mk |-> c.mk, fi |-> c.fi, d0 |-> c.d0, r0 |-> c.r0,
                                             ck |-> c.ck, steps |-> c.hist, rd |-> c.rdh]) \o " @@END")
           ELSE TRUE
=============================================================================
