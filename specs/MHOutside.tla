----------------------------- MODULE MHOutside -----------------------------
(***************************************************************************)
(* C02, round 8: chains STARTED OUTSIDE THE SUPPORT and boundary uniforms.  *)
(* EXTENDS MHKernel (kernels, lattice, tables, proposal mechanisms, caches).*)
(*                                                                         *)
(* MHKernel starts every chain at a point of finite log-density and its     *)
(* NoNonFiniteAccept is inductive from there.  Here the initial point may   *)
(* be a point of log-density -inf (pi(x) = 0: outside the support; the      *)
(* samplers accept such an initial point).  From such a state               *)
(*   - a proposal with FINITE log-density has Metropolis-Hastings ratio     *)
(*     pi(y)q(x|y) / (pi(x)q(y|x)) = +inf: it is accepted with probability 1 *)
(*     (whatever the uniform) - this is what the unchanged kernels do       *)
(*     (ratio = tv - (-inf) = +inf, min(0, +inf) = 0);                      *)
(*   - a proposal with log-density NaN or -inf is NEVER accepted, whatever  *)
(*     the uniform: the chain stays put and reports no acceptance           *)
(*     (the difference -inf - (-inf) = NaN must not be read as "accept").   *)
(* Boundary uniforms: Decide carries the kind of uniform, "gen" (a generic  *)
(* value of the decision class) or "zero" (the draw is exactly 0, log u =   *)
(* -inf: below EVERY threshold exp(r) > 0 - a finite proposal is accepted,  *)
(* a non-finite one still is not; -inf <= -inf must not accept).            *)
(* Values: PosInf = <<2, 0>> is the log-ratio +inf (only in pending.r).     *)
(*                                                                         *)
(* Named deviation InfGuardDropped (FALSE in the deciding cfgs): the accept *)
(* test is  log u <= min(0, tv - c) /\ ~isnan(tv)  only: a -inf proposal is *)
(* accepted from a -inf state (NaN ratio, min(0, NaN) = 0) and for the      *)
(* uniform 0 (-inf <= -inf) -> NeverAcceptsNonFinite.                       *)
(***************************************************************************)
EXTENDS MHKernel

CONSTANTS Kernels2,        \* kernels enumerated in dimension 2 (the others in dimension 1 only)
          Starts,          \* subset of {"outside", "inside"}: initial point of log-density -inf / the origin
          InfGuardDropped

PosInf == <<2, 0>>

\* the cached evaluation the acceptance ratio is computed from
CurVal == IF HasLik(cfg.k) THEN c_lik ELSE c_lp
CurFinite == Finite(CurVal)

OutPoints(c) == {p \in X(c.d) : Table(c.d, c.tgt, p) = NegInf}
StartsOf(c) == (IF "outside" \in Starts THEN OutPoints(c) ELSE {}) \cup (IF "inside" \in Starts THEN {Origin(c.d)} ELSE {})
OConfigs == UNION {{[c EXCEPT !.x0 = p] : p \in StartsOf(c)} : c \in {q \in Configs : q.d = 2 => q.k \in Kernels2}}

InitO == /\ cfg \in OConfigs
         /\ x = cfg.x0 /\ c_lp = CLp(cfg, cfg.x0) /\ c_grad = CGrad(cfg, cfg.x0) /\ c_lik = CLik(cfg, cfg.x0)
         /\ scale = cfg.sc /\ pending = <<>> /\ phase = "idle" /\ comp = 1
         /\ nT = 0 /\ nTune = 0 /\ nLoad = 0 /\ nAbort = 0 /\ sw = <<cfg.x0, CLp(cfg, cfg.x0)>>
         /\ last = "init" /\ lastAcc = -1 /\ prog = <<>>

ProposeO(y) ==
    /\ phase = "idle" /\ nT < MaxT(cfg) /\ y \in Moves
    /\ LET tv == Table(cfg.d, cfg.tgt, y)
           xi == Noise(cfg, scale, x, y)
           gy == CGrad(cfg, y)
           r  == IF ~Finite(tv) THEN NaN
                 ELSE IF ~CurFinite THEN PosInf
                 ELSE RCodeAt(cfg, scale, x, y, c_lp, c_grad, c_lik)
       IN /\ pending' = [y |-> y, xi |-> xi, tv |-> tv, gy |-> gy, r |-> r]
          /\ prog' = Log([a |-> "p", j |-> IF cfg.k = "CW" THEN comp ELSE 0, y |-> y, xi |-> xi, tv |-> tv, gy |-> gy, r |-> r,
                          out |-> ~CurFinite, yraw |-> <<>>])
    /\ phase' = "proposed" /\ last' = "propose"
    /\ UNCHANGED <<cfg, x, c_lp, c_grad, c_lik, scale, comp, nT, nTune, nLoad, nAbort, sw, lastAcc>>

ClassesO == IF ~Finite(pending.tv) THEN {"Any"}
            ELSE IF pending.r = PosInf THEN {"Below"}
            ELSE IF RLt(pending.r, Zero) THEN {"Below", "Above"} ELSE {"Below"}

\* u = "zero": the uniform is exactly 0 (it is below every threshold: classes Below and Any only)
DecideO(cls, u) ==
    /\ phase = "proposed" /\ cls \in ClassesO /\ (u = "zero" => cls # "Above")
    /\ LET accept == IF Finite(pending.tv) THEN cls = "Below"
                     ELSE (InfGuardDropped /\ pending.tv = NegInf /\ (~CurFinite \/ u = "zero"))
           sweepEnd == cfg.k # "CW" \/ comp = cfg.d
           nx   == IF accept THEN pending.y ELSE x
           nlp  == IF accept /\ HasLp(cfg.k) THEN pending.tv ELSE c_lp
           ngr  == IF accept /\ HasGrad(cfg.k) THEN pending.gy ELSE c_grad
           nlk  == IF accept /\ HasLik(cfg.k) THEN pending.tv ELSE c_lik
       IN /\ x' = nx /\ c_lp' = nlp /\ c_grad' = ngr /\ c_lik' = nlk
          /\ lastAcc' = IF accept THEN 1 ELSE 0
          /\ comp' = IF sweepEnd THEN 1 ELSE comp + 1
          /\ nT' = IF sweepEnd THEN nT + 1 ELSE nT
          /\ sw' = IF sweepEnd THEN <<nx, nlp>> ELSE sw
          /\ prog' = Log([a |-> "d", cls |-> cls, u |-> u, acc |-> IF accept THEN 1 ELSE 0, x |-> nx, clp |-> nlp, cgrad |-> ngr,
                          clik |-> nlk, fin |-> sweepEnd])
    /\ pending' = <<>> /\ phase' = "idle" /\ last' = "decide"
    /\ UNCHANGED <<cfg, scale, nTune, nLoad, nAbort>>

NextO == \/ \E y \in X(cfg.d) : ProposeO(y)
         \/ \E cls \in {"Below", "Above", "Any"}, u \in {"gen", "zero"} : DecideO(cls, u)

\* ------------------------------ properties ------------------------------
\* the log-ratio decided with is the Metropolis-Hastings log-ratio; +inf from a state of zero density
RatioIsMHO == (phase = "proposed" /\ Finite(pending.tv)) =>
                  IF CurFinite THEN pending.r = RTrue(cfg, scale, x, pending.y) ELSE pending.r = PosInf

\* a proposal whose log-density is NaN / -inf is never accepted - from every state, for every uniform
NeverAcceptsNonFinite == [][IsDecide => (~Finite(pending.tv) => (lastAcc' = 0 /\ UNCHANGED <<x, c_lp, c_grad, c_lik>>))]_vars
\* the chain never MOVES to a point of non-finite log-density, and never leaves the support once inside
MovesOnlyToFinite == [][(IsDecide /\ (x' # x \/ lastAcc' = 1)) => Finite(LP(cfg, x'))]_vars
StaysInside == [][Finite(LP(cfg, x)) => Finite(LP(cfg, x'))]_vars
\* from outside the support a finite proposal is accepted whatever the uniform
EscapesWithProbabilityOne == [][(IsDecide /\ ~CurFinite /\ Finite(pending.tv)) => lastAcc' = 1]_vars

\* non-vacuity: every enumerated target has a point of log-density -inf
ASSUME "outside" \in Starts => \A c \in {q \in Configs : q.d = 2 => q.k \in Kernels2} : OutPoints(c) # {}

\* ------------------------------ emission ------------------------------
EmittedO ==
    /\ (Emit /\ last = "init") =>
          PrintT("@@CASE " \o ToJson([kind |-> "root", cfg |-> cfg, sv |-> SV(cfg.sc, cfg.d), clp |-> c_lp, cgrad |-> c_grad,
                                      clik |-> c_lik, rows |-> Rows(cfg)]) \o " @@END")
    /\ (Emit /\ Hist /\ Terminal) =>
          PrintT("@@CASE " \o ToJson([kind |-> "beh", cfg |-> cfg, prog |-> prog]) \o " @@END")
=============================================================================
