---------------------------- MODULE SolverScale ----------------------------
(***************************************************************************)
(* C16, two dimensions every solver problem has and Solvers.tla fixes:      *)
(*                                                                         *)
(* SCALE ("physical units").  A problem (A, b, x0, shift, ...) and the      *)
(* problem (2^ea A, 2^eb b, 2^(eb-ea) x0, 4^ea shift, ...) are the same      *)
(* problem in other units: the solution of the second is 2^(eb-ea) times    *)
(* the solution of the first, the residual 2^eb times, the normal residual  *)
(* 2^(ea+eb) times.  A RELATIVE stopping rule |s_k| <= tol |s_0| fires at    *)
(* the same iteration in both.  The conjugate-gradient machine below runs   *)
(* BOTH problems side by side (it.base / it.sc), action Iterate written     *)
(* after the loop of CGLS.solve / PCGLS.solve; invariant ScalingLaw: every   *)
(* reachable state of the scaled run is the scaled state of the base run    *)
(* (iterate, residual, normal residual, iteration count, stop flag).        *)
(* The law is checked exactly for the exponent pairs ScaleChecked; the      *)
(* emitted cases carry the pairs ScaleEmitted (2^-40 .. 2^40, i.e. data of   *)
(* size 1e-12 .. 1e12) for the replay - powers of two keep the real inputs   *)
(* exact in binary floating point.                                          *)
(* Kind post (postcondition form): proximal-gradient problems constructed   *)
(* from a KKT certificate (x*, g), the three projections / proximal maps    *)
(* and Levenberg-Marquardt residual families: PostScalingLaw - the          *)
(* certificate of the scaled problem is the scaled certificate.             *)
(*                                                                         *)
(* THRESHOLD.  PCGLS applies P^-1 / P^-T through the explicit inverse when   *)
(* len(x0) < cuqi.config.MAX_DIM_INV ("below") and through solves with P    *)
(* and P^T otherwise ("above").  pb.thr / pb.rep say how the side is         *)
(* reached: the public configuration value lowered to n ("n": above) or     *)
(* n + 1 ("n1": below), or the default 2000 with the problem replicated     *)
(* rep times block-diagonally (BlockLaw: the solution of the replicated     *)
(* problem is the replicated solution; rep = 999 below, 1000 above).        *)
(* Preconditioners: symmetric (diagonal, SPD) and NON-symmetric (lower /    *)
(* upper triangular).  NormalResidualInv (s = P^-T (A^T r - shift x)),      *)
(* FiniteTermination, NormalEquations hold on both sides.                   *)
(*                                                                         *)
(* Named deviations (TLC must refute them):                                 *)
(*   AbsoluteStop           a start whose normal residual is <= tol in       *)
(*                          ABSOLUTE terms is returned after 0 iterations   *)
(*                          -> ScalingLaw                                   *)
(*   TransposeReusesFactor  above the threshold the transposed solve uses   *)
(*                          the factors of P (as if P were symmetric)       *)
(*                          -> NormalResidualInv                            *)
(***************************************************************************)
EXTENDS MatQ, FiniteSets, TLC, Json

CONSTANTS Level,                      \* 1 quick, 2 thorough
          Emit,
          AbsoluteStop,
          TransposeReusesFactor

VARIABLES pb, it
vars == <<pb, it>>

RECURSIVE Pow2(_)
Pow2(k) == IF k = 0 THEN One ELSE IF k > 0 THEN QMul(R(2), Pow2(k - 1)) ELSE QMul(Half, Pow2(k + 1))

\* comparisons through the gcd-aware difference (RLe multiplies the denominators: 32-bit overflow on scaled data)
QLe(a, b) == QSub(a, b)[1] <= 0
QLt(a, b) == QSub(a, b)[1] < 0

\* stopping tolerance of the machine (tol = 2^-8): |s_k|^2 <= Tol2 |s_0|^2
Tol2 == Q(1, 65536)
LeTol2(a) == a[1] = 0 \/ (a[2] \div a[1]) >= Tol2[2]          \* a <= Tol2 for a >= 0, without products (32 bit)
DefaultMaxDimInv == 2000

\* ---- scale pairs <<ea, eb>> ----------------------------------------------------------------------------
ScaleChecked == { <<0, 0>>, <<0, -3>>, <<-2, -2>>, <<2, 2>>, <<-2, 0>>, <<1, -2>> }
\* pairs that make the data tiny in ABSOLUTE terms (normal residual of the start below tol): exact 32-bit rationals allow them
\* only for problems that conjugate gradients solve in one step (A^T A a multiple of the identity)
\* preconditioned two-step runs: the exact iterates of the second step have denominators ~ 3 10^4 (squared in gamma): no room
\* for a scale factor in 32 bits; their scale law is SolutionScales / the one-step family A = Orth P (PcOneStep) with ScaleTiny
ScalePre == { <<0, 0>> }
ScaleTiny == { <<0, -10>>, <<-5, -5>>, <<0, 0>> }
\* what the replay runs in addition (magnitudes a cfg / 32-bit integer cannot hold: exponents only).
\* |eb - ea| <= 20: the size of the solution stays below 1/tol (CGLS / PCGLS give up when |x| tol >= 1, see GuardSilent)
ScaleEmitted == << <<0, -40>>, <<-40, -40>>, <<40, 40>>, <<-20, -40>>, <<40, 20>>, <<-20, 0>>, <<0, -30>>, <<30, 40>>, <<-40, -30>> >>

\* ---- least-squares problems ------------------------------------------------------------------------------
Pb(nm, A, b, x0, sh) == [nm |-> nm, A |-> MR(A), b |-> VR(b), x0 |-> VR(x0), shift |-> R(sh)]
Sq  == << <<1, 1>>, <<0, 1>> >>
Tl  == << <<1, 0>>, <<1, 1>>, <<0, 1>> >>
Sq2 == << <<2, 1>>, <<1, -1>> >>
Orth == << <<1, 1>>, <<1, -1>> >>
OneStep == { Pb("orth0", Orth, <<1, 3>>, <<0, 0>>, 0), Pb("orth1", Orth, <<1, 3>>, <<1, 0>>, 1) }
Bases == { Pb("sq0", Sq, <<1, 2>>, <<0, 0>>, 0),
           Pb("tl0", Tl, <<1, 0, 2>>, <<1, -1>>, 0),
           Pb("sq1", Sq, <<2, -1>>, <<0, 1>>, 1),
           Pb("tl1", Tl, <<0, 1, 1>>, <<0, 0>>, 1) }
         \cup (IF Level >= 2 THEN { Pb("sqb0", Sq2, <<1, -1>>, <<1, 0>>, 0), Pb("sqb1", Sq2, <<0, 2>>, <<0, 0>>, 1),
                                    Pb("tl2", Tl, <<2, 1, -1>>, <<-1, 1>>, 0) } ELSE {})

\* preconditioners (2 x 2): symmetric and non-symmetric
Pre(nm, P) == [nm |-> nm, P |-> MR(P), sym |-> (P = << <<P[1][1], P[2][1]>>, <<P[1][2], P[2][2]>> >>)]
Pres == { Pre("diag", << <<1, 0>>, <<0, 2>> >>), Pre("spd", << <<2, 1>>, <<1, 1>> >>),
          Pre("lower", << <<1, 0>>, <<1, 1>> >>), Pre("upper", << <<1, -1>>, <<0, 2>> >>) }
NoPre == [nm |-> "none", P |-> MId(2), sym |-> TRUE]

\* how the side of the threshold is reached: <<configuration value, block replication>>
Routes == { <<"default", 1>>, <<"n", 1>>, <<"n1", 1>>, <<"default", 999>>, <<"default", 1000>> }
Threshold(thr, n) == IF thr = "default" THEN DefaultMaxDimInv ELSE IF thr = "n" THEN n ELSE n + 1
Above(p) == p.rep * Len(p.x0) >= Threshold(p.thr, p.rep * Len(p.x0))

CgProblems ==
    { [kind |-> "cg", solver |-> "cgls", base |-> bs, pre |-> NoPre, thr |-> "default", rep |-> 1, sc |-> sc, x0 |-> bs.x0]
        : bs \in Bases, sc \in ScaleChecked }
    \cup
    { [kind |-> "cg", solver |-> "cgls", base |-> bs, pre |-> NoPre, thr |-> "default", rep |-> 1, sc |-> sc, x0 |-> bs.x0]
        : bs \in OneStep, sc \in ScaleTiny }
    \cup
    { [kind |-> "cg", solver |-> "pcgls", pre |-> pr, thr |-> rt[1], rep |-> 1, sc |-> sc, x0 |-> VR(<<0, 0>>),
       base |-> [nm |-> "orthp", A |-> QMM(MR(Orth), pr.P), b |-> VR(<<1, 3>>), x0 |-> VR(<<0, 0>>), shift |-> Zero]]
        : pr \in Pres, sc \in ScaleTiny, rt \in { <<"default", 1>>, <<"n", 1>> } }
    \cup
    UNION { { [kind |-> "cg", solver |-> "pcgls", base |-> bs, pre |-> pr, thr |-> rt[1], rep |-> rt[2], sc |-> sc, x0 |-> bs.x0]
                : bs \in (IF rt = <<"default", 999>> /\ Level < 2 THEN { q \in Bases : q.nm = "sq0" } ELSE Bases),     \* 1998 unknowns: the explicit inverse is slow
                  pr \in Pres, sc \in (IF rt = <<"default", 1>> THEN ScalePre ELSE { <<0, 0>> }) }
            : rt \in Routes }

\* the problem of the run `which` (base: as given; sc: in the units of pb.sc)
Prob(p, which) ==
    LET ea == IF which = "sc" THEN p.sc[1] ELSE 0
        eb == IF which = "sc" THEN p.sc[2] ELSE 0
    IN [A |-> QMScale(Pow2(ea), p.base.A), b |-> QVScale(Pow2(eb), p.base.b), x0 |-> QVScale(Pow2(eb - ea), p.base.x0),
        shift |-> QMul(Pow2(2 * ea), p.base.shift), P |-> p.pre.P]

\* application of P^-1 (flag 1) and P^-T (flag 2) on the side of the threshold the problem is on
PinvApply(p, P, v, flag) ==
    IF ~Above(p) THEN (IF flag = 1 THEN QMV(QMInv(P), v) ELSE QMV(MT(QMInv(P)), v))           \* explicit inverse and its transpose
    ELSE IF flag = 1 THEN QSolve(P, v)
    ELSE QSolve(IF TransposeReusesFactor THEN P ELSE MT(P), v)                                \* solve with P^T

NormalRes(p, q, x, r) == PinvApply(p, q.P, QVSub(QMV(MT(q.A), r), QVScale(q.shift, x)), 2)

StartRun(p, which) ==
    LET q  == Prob(p, which)
        r  == F(QVSub(q.b, QMV(q.A, q.x0)))
        s  == F(NormalRes(p, q, q.x0, r))
        g  == QNorm2(s)
    IN [x |-> q.x0, r |-> r, s |-> s, p |-> s, gamma |-> g, gamma0 |-> g, k |-> 0,
        \* the loop is entered unconditionally (flag = 0); deviation: "the start already solves the normal equations" tested absolutely
        stop |-> (AbsoluteStop /\ LeTol2(g))]

StepRun(p, which, st) ==
    IF st.stop THEN st
    ELSE LET q     == Prob(p, which)
             t     == F(PinvApply(p, q.P, st.p, 1))
             qq    == F(QMV(q.A, t))
             delta == QAdd(QNorm2(qq), QMul(q.shift, QNorm2(t)))
         IN IF delta = Zero THEN [st EXCEPT !.stop = TRUE]              \* p = 0: nothing left to do (gamma = 0)
            ELSE LET alpha == QDiv(st.gamma, delta)
                     x1    == F(QAxpy(st.x, alpha, t))
                     r1    == F(QAxpy(st.r, QNeg(alpha), qq))
                     s1    == F(NormalRes(p, q, x1, r1))
                     g1    == QNorm2(s1)
                     p1    == F(QAxpy(s1, QDiv(g1, st.gamma), st.p))
                 IN [x |-> x1, r |-> r1, s |-> s1, p |-> p1, gamma |-> g1, gamma0 |-> st.gamma0, k |-> st.k + 1,
                     stop |-> LeTol2(QDiv(g1, st.gamma0))]

\* ---- kind post: problems in postcondition form -------------------------------------------------------------
\* proximal gradient: minimise 1/2 |A x - b|^2 + h(x), h = th |x|_1 / indicator of [lo, up]^2 / of the orthant;
\* certificate: x*, g in dh(x*), A unimodular, b = A x* + A^-T g  (then A^T (A x* - b) + g = 0).
\* units: b, x*, x0, th, lo, up, abstol (the stopping rule of FISTA is |x_new - x_old| <= abstol: the user states it in the units of x) x 2^e
Uni == MR(<< <<1, 1>>, <<0, 1>> >>)
PostFista ==
    { [kind |-> "post", solver |-> "fista", h |-> "l1", A |-> Uni, xs |-> VR(<<1, 0>>), g |-> <<R(1), Half>>, th |-> One, lo |-> Zero, up |-> Zero, x0 |-> VR(<<0, 1>>)],
      [kind |-> "post", solver |-> "fista", h |-> "l1", A |-> Uni, xs |-> VR(<<-1, 2>>), g |-> <<R(-2), R(2)>>, th |-> R(2), lo |-> Zero, up |-> Zero, x0 |-> VR(<<0, 0>>)],
      [kind |-> "post", solver |-> "fista", h |-> "nonneg", A |-> Uni, xs |-> VR(<<2, 0>>), g |-> <<Zero, R(-1)>>, th |-> Zero, lo |-> Zero, up |-> Zero, x0 |-> VR(<<1, 1>>)],
      [kind |-> "post", solver |-> "fista", h |-> "box", A |-> Uni, xs |-> VR(<<-1, 1>>), g |-> <<R(-1), R(2)>>, th |-> Zero, lo |-> R(-1), up |-> One, x0 |-> VR(<<0, 0>>)] }
\* projections / soft thresholding on half-integer points
PostProx ==
    { [kind |-> "post", solver |-> "prox", h |-> hh, A |-> Uni, xs |-> <<Q(a, 2), Q(c, 2)>>, g |-> <<Zero, Zero>>, th |-> Half,
       lo |-> Q(-1, 2), up |-> One, x0 |-> <<Zero, Zero>>] : hh \in {"l1", "nonneg", "box"}, a \in {-3, 1}, c \in {-1, 0, 3} }
\* Levenberg-Marquardt: residual F(x) = c (B x - d) in units 2^e (c = 2^e): the stationary point B^T(B x - d) = 0 does not move
PostLm ==
    { [kind |-> "post", solver |-> "lm", h |-> "lin", A |-> MR(Tl), xs |-> VR(<<1, 0, 2>>), g |-> <<Zero, Zero>>, th |-> Zero,
       lo |-> Zero, up |-> Zero, x0 |-> VR(<<1, -1>>)] }
PostProblems == { q @@ [e |-> e] : q \in PostFista \cup PostProx \cup PostLm, e \in {-3, 0, 2} }
PostEmitted == <<-40, -20, 20, 40>>

InSubdiff(q, e, x, g) ==          \* g in dh(x) for the problem in units 2^e
    LET c == Pow2(e) IN
    \A i \in 1..2 :
       CASE q.h = "l1"     -> IF x[i] = Zero THEN RLe(RAbs(g[i]), QMul(c, q.th)) ELSE g[i] = QMul(QMul(c, q.th), IF RLt(Zero, x[i]) THEN One ELSE R(-1))
         [] q.h = "nonneg" -> RLe(Zero, x[i]) /\ (IF x[i] = Zero THEN RLe(g[i], Zero) ELSE g[i] = Zero)
         [] q.h = "box"    -> /\ RLe(QMul(c, q.lo), x[i]) /\ RLe(x[i], QMul(c, q.up))
                              /\ (IF x[i] = QMul(c, q.lo) THEN RLe(g[i], Zero) ELSE IF x[i] = QMul(c, q.up) THEN RLe(Zero, g[i]) ELSE g[i] = Zero)
Soft(a, t) == IF RLt(t, a) THEN QSub(a, t) ELSE IF RLt(a, QNeg(t)) THEN QAdd(a, t) ELSE Zero
ProxImage(q, e, x) ==
    LET c == Pow2(e) IN
    [i \in 1..2 |-> CASE q.h = "l1"     -> Soft(x[i], QMul(c, q.th))
                      [] q.h = "nonneg" -> RMax(x[i], Zero)
                      [] q.h = "box"    -> RMin(RMax(x[i], QMul(c, q.lo)), QMul(c, q.up))]
FistaData(q) == F(QVAdd(QMV(q.A, q.xs), QMV(MT(QMInv(q.A)), q.g)))          \* b = A x* + A^-T g
LmSolution(q) == F(QSolve(QMM(MT(q.A), q.A), QMV(MT(q.A), q.xs)))            \* d = q.xs (3 data), B = q.A

AllProblems == CgProblems \cup PostProblems

\* ---- the machine --------------------------------------------------------------------------------------------
Init == pb \in AllProblems /\ it = [ph |-> "new"]

Start ==
    /\ it.ph = "new"
    /\ it' = IF pb.kind = "cg" THEN [ph |-> "run", base |-> StartRun(pb, "base"), sc |-> StartRun(pb, "sc")] ELSE [ph |-> "done"]
    /\ UNCHANGED pb

\* 32-bit rationals: a run whose search direction has grown beyond MagBound is not followed further (its start state, the
\* closed-form solution and the laws that do not need the recurrence are still checked and emitted)
MagBound == 20000
SmallV(v) == \A i \in 1..Len(v) : Abs(v[i][1]) <= MagBound /\ v[i][2] <= MagBound
Small(st) == SmallV(st.p) /\ SmallV(st.x) /\ SmallV(st.r)

Iterate ==
    /\ it.ph = "run"
    /\ Small(it.base) /\ Small(it.sc)
    /\ ~(it.base.stop /\ it.sc.stop)
    /\ it.base.k < 4 /\ it.sc.k < 4
    /\ it' = [ph |-> "run", base |-> StepRun(pb, "base", it.base), sc |-> StepRun(pb, "sc", it.sc)]
    /\ UNCHANGED pb

Next == Start \/ Iterate
Spec == Init /\ [][Next]_vars

IsCgRun == pb.kind = "cg" /\ it.ph = "run"
Terminated == IsCgRun /\ it.base.stop /\ it.sc.stop

\* ---- invariants ---------------------------------------------------------------------------------------------
\* the scaled run is the scaled base run, state by state: same iteration count, same stop flag
ScalingLaw ==
    IsCgRun =>
        LET ea == pb.sc[1]  eb == pb.sc[2] IN
        /\ it.sc.k = it.base.k
        /\ it.sc.stop = it.base.stop
        /\ it.sc.x = QVScale(Pow2(eb - ea), it.base.x)
        /\ it.sc.r = QVScale(Pow2(eb), it.base.r)
        /\ it.sc.s = QVScale(Pow2(ea + eb), it.base.s)
        /\ it.sc.gamma = QMul(Pow2(2 * (ea + eb)), it.base.gamma)

\* recurrence residuals are the residuals of the iterate, on both sides of the threshold, for every preconditioner
ResidualInv ==
    IsCgRun => \A w \in {"base", "sc"} : LET q == Prob(pb, w) IN it[w].r = QVSub(q.b, QMV(q.A, it[w].x))
NormalResidualInv ==
    IsCgRun => \A w \in {"base", "sc"} :
        LET q == Prob(pb, w) IN
        /\ it[w].s = QMV(MT(QMInv(q.P)), QVSub(QMV(MT(q.A), it[w].r), QVScale(q.shift, it[w].x)))
        /\ it[w].gamma = QNorm2(it[w].s)

\* exact conjugate gradients terminate within n steps with gamma = 0; the relative rule does not fire earlier on this instance
FiniteTermination ==
    IsCgRun => \A w \in {"base", "sc"} :
        /\ it[w].k <= Len(pb.x0)
        /\ (it[w].stop => it[w].gamma = Zero)
        /\ (it[w].k = Len(pb.x0) => it[w].gamma = Zero)

CgSolution(q) == QSolve(QMAdd(QMM(MT(q.A), q.A), QMScale(q.shift, MId(Len(q.x0)))), QMV(MT(q.A), q.b))
NormalEquations ==
    Terminated => \A w \in {"base", "sc"} : it[w].x = CgSolution(Prob(pb, w))

\* the law without the machine: the solution of the problem in other units is the solution in those units
SolutionScales ==
    pb.kind = "cg" => CgSolution(Prob(pb, "sc")) = QVScale(Pow2(pb.sc[2] - pb.sc[1]), CgSolution(Prob(pb, "base")))

\* CGLS / PCGLS also stop when |x| tol >= 1 ("x seems to diverge", inherited from the SOL code): the instance stays inside
GuardSilent ==
    IsCgRun => \A w \in {"base", "sc"} : (QNorm2(it[w].x)[1] \div QNorm2(it[w].x)[2]) < Tol2[2]              \* |x|^2 < 1 / tol^2 (Tol2 = 1 / Tol2[2])

\* the start does not solve the problem (the runs are not trivial) and the problems are not already tiny in absolute terms
NonTrivial == IsCgRun => (it.base.gamma0 # Zero /\ ~LeTol2(it.base.gamma0))

\* replication: the block-diagonal problem of rep copies has the replicated solution (checked for 2 copies)
BlockLaw ==
    (pb.kind = "cg" /\ it.ph = "new") =>
        LET q  == Prob(pb, "base")
            A2 == Kron(MId(2), q.A)
            q2 == [A |-> A2, b |-> q.b \o q.b, x0 |-> q.x0 \o q.x0, shift |-> q.shift]
            xs == CgSolution(q)
        IN CgSolution(q2) = xs \o xs

SideTable ==
    pb.kind = "cg" =>
        /\ (pb.thr = "n" => Above(pb)) /\ (pb.thr = "n1" => ~Above(pb))
        /\ (pb.thr = "default" => (Above(pb) <=> pb.rep * Len(pb.x0) >= DefaultMaxDimInv))

\* kind post: the certificate of the problem in units 2^e is the scaled certificate of the problem as given
PostScalingLaw ==
    pb.kind = "post" =>
        LET c == Pow2(pb.e) IN
        CASE pb.solver = "fista" ->
               LET b  == FistaData(pb)
                   xs == QVScale(c, pb.xs)   g == QVScale(c, pb.g)   bs == QVScale(c, b)
               IN /\ InSubdiff(pb, 0, pb.xs, pb.g) /\ InSubdiff(pb, pb.e, xs, g)
                  /\ QVAdd(QMV(MT(pb.A), QVSub(QMV(pb.A, xs), bs)), g) = <<Zero, Zero>>                 \* stationarity in the new units
                  /\ \A t \in {Half, Q(1, 4)} :                                                            \* fixed point of the proximal-gradient map
                        LET z == QVSub(xs, QVScale(t, QMV(MT(pb.A), QVSub(QMV(pb.A, xs), bs))))
                        IN (pb.h = "l1" => [i \in 1..2 |-> Soft(z[i], QMul(t, QMul(c, pb.th)))] = xs)
                           /\ (pb.h # "l1" => ProxImage(pb, pb.e, z) = xs)
          [] pb.solver = "prox" ->
               ProxImage(pb, pb.e, QVScale(c, pb.xs)) = QVScale(c, ProxImage(pb, 0, pb.xs))
          [] pb.solver = "lm" ->
               LET x == LmSolution(pb) IN QMV(MT(QMScale(c, pb.A)), QVScale(c, QVSub(QMV(pb.A, x), pb.xs))) = <<Zero, Zero>>

\* ---- emission -----------------------------------------------------------------------------------------------
EmitCg ==
    (Emit /\ IsCgRun /\ it.base.k = 0) =>
        PrintT("@@CASE " \o ToJson([kind |-> "cgscale", solver |-> pb.solver, name |-> pb.base.nm, A |-> pb.base.A, b |-> pb.base.b,
                                    x0 |-> pb.base.x0, shift |-> pb.base.shift, m |-> Len(pb.base.A), n |-> Len(pb.x0),
                                    pre |-> pb.pre.nm, P |-> pb.pre.P, psym |-> pb.pre.sym, thr |-> pb.thr, rep |-> pb.rep,
                                    above |-> Above(pb), sc |-> pb.sc,
                                    xsol |-> CgSolution(Prob(pb, "base")), xsol_sc |-> CgSolution(Prob(pb, "sc")),
                                    scales |-> ScaleEmitted, tol2 |-> Tol2]) \o " @@END")
EmitPost ==
    (Emit /\ pb.kind = "post" /\ it.ph = "done") =>
        PrintT("@@CASE " \o ToJson([kind |-> "postscale", solver |-> pb.solver, h |-> pb.h, A |-> pb.A, xs |-> pb.xs, g |-> pb.g, th |-> pb.th,
                                    lo |-> pb.lo, up |-> pb.up, x0 |-> pb.x0, e |-> pb.e, exps |-> PostEmitted,
                                    b |-> IF pb.solver = "fista" THEN FistaData(pb) ELSE pb.xs,
                                    image |-> IF pb.solver = "prox" THEN ProxImage(pb, 0, pb.xs) ELSE <<>>,
                                    xlm |-> IF pb.solver = "lm" THEN LmSolution(pb) ELSE <<>>]) \o " @@END")
=============================================================================
