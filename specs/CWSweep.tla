----------------------------- MODULE CWSweep -----------------------------
(***************************************************************************)
(* One SWEEP of the component-wise Metropolis kernel (property C02):        *)
(*   cuqi.experimental.mcmc.CWMH.step  /  cuqi.sampler.CWMH.single_update   *)
(* seen as the sequence of points at which the target is EVALUATED.         *)
(*                                                                         *)
(* Module MHKernel models the sweep as d Propose/Decide pairs in dimension  *)
(* 2 on targets whose non-finite entries are two isolated lattice points.   *)
(* This module is about what a component proposal is made FROM: the j-th    *)
(* proposal of a sweep must be the CURRENT state - as left by the components*)
(* decided so far, whether they were accepted, rejected or refused as       *)
(* non-finite - with ONLY component j replaced.  It is the point at which   *)
(* the target is evaluated, the ratio  pi(y)/pi(x)  is formed with the      *)
(* cached value of the current state, and on acceptance only component j    *)
(* of the state and the cache change.                                       *)
(*                                                                         *)
(* Lattice {-1,0,1}^d, d = 2, 3.  Targets: exact rational tables whose      *)
(* SUPPORT COUPLES the components (so that a refused component changes what *)
(* the later components see):                                               *)
(*   "band"  |p_i - p_j| <= 1 for all i, j;   NaN outside                   *)
(*   "disc"  sum p_i^2 <= d - 1;              -inf outside                  *)
(*   "ring"  NaN at the origin (a hole), -inf where p_1 p_2 = 1             *)
(* (the point (1,..,1), at which the stateful sampler validates its target *)
(* - documented: a NaN there is refused -, is finite or -inf in all three)  *)
(* Every lattice point of the support is an initial state; every component  *)
(* proposes a MOVE (v # x[j]; a proposal equal to the current value has     *)
(* probability zero and decides nothing); every outcome per component is    *)
(* enumerated: Below (accept) / Above (reject, only when r < 0) / Any (the  *)
(* proposal is non-finite: refused whatever the uniform).                   *)
(*                                                                         *)
(* State: x (chain point), c_lp (cached log-density), buf (the buffer the   *)
(* implementation evaluates: x with component j replaced), comp, the        *)
(* sequence `evals` of evaluation points of the sweep in progress (part of  *)
(* the emitted trace), sw (the state at the start of the sweep).            *)
(*                                                                         *)
(* Named deviations (Deviation = "none" in the deciding cfgs; TLC must      *)
(* refute the invariant named):                                             *)
(*   "RefusedStaysInBuffer"    the buffer is not rebuilt from x after a     *)
(*        component: a refused (non-finite) value stays in it and the later *)
(*        components are evaluated with it      -> EvalAtOneReplaced        *)
(*   "ProposalsFromSweepStart" component j is evaluated at the state of the *)
(*        sweep START with j replaced (components accepted earlier in the   *)
(*        sweep are forgotten by the buffer)    -> EvalAtOneReplaced        *)
(*   "CacheLastEvaluated"      the cache keeps the last finite evaluation   *)
(*        instead of the last accepted one      -> CacheCoherent            *)
(***************************************************************************)
EXTENDS Mat, FiniteSets, TLC, Json

CONSTANTS Dims,        \* subset of {2, 3}
          Targets,     \* subset of {"band", "disc", "ring"}
          Scales2,     \* scales used in dimension 2 (subset of {"one", "percomp"})
          Scales3,     \* scales used in dimension 3
          MaxSweeps,   \* sweeps per behaviour
          Emit,
          Deviation

VARIABLES cfg,      \* [d, tgt, sc, x0]
          x, c_lp,  \* chain point, cached log-density
          buf,      \* evaluation buffer of the implementation
          sw,       \* chain point at the start of the sweep in progress
          comp,     \* component updated next
          nS,       \* completed sweeps
          pending, phase,
          evals,    \* evaluation points of the sweep in progress, in order
          lastAcc,
          prog      \* history

vars == <<cfg, x, c_lp, buf, sw, comp, nS, pending, phase, evals, lastAcc, prog>>

\* ------------------------------ extended rationals (as in MHKernel) ------------------------------
NaN    == <<0, 0>>
NegInf == <<-1, 0>>
Finite(v) == v[2] > 0

\* ------------------------------ lattice and targets ------------------------------
Vals == -1..1
X(d) == IF d = 2 THEN {<<a, b>> : a \in Vals, b \in Vals} ELSE {<<a, b, c>> : a \in Vals, b \in Vals, c \in Vals}
XSeq(d) == IF d = 2 THEN [i \in 1..9 |-> <<((i - 1) \div 3) - 1, ((i - 1) % 3) - 1>>]
           ELSE [i \in 1..27 |-> <<((i - 1) \div 9) - 1, (((i - 1) \div 3) % 3) - 1, ((i - 1) % 3) - 1>>]

A1 == [i \in Vals |-> CASE i = -1 -> Q(-1, 2) [] i = 0 -> Zero [] i = 1 -> Q(-2, 3)]
A2 == [i \in Vals |-> CASE i = -1 -> Q(-1, 1) [] i = 0 -> Zero [] i = 1 -> Q(-1, 4)]
A3 == [i \in Vals |-> CASE i = -1 -> Q(-1, 3) [] i = 0 -> Q(-1, 8) [] i = 1 -> Q(-3, 5)]
\* finite part: sum of one-dimensional tables + pairwise couplings (an arbitrary table: nothing depends on the values)
Val(d, p) == LET b == RAdd(RAdd(A1[p[1]], A2[p[2]]), Q(p[1] * p[2], 3))
             IN IF d = 2 THEN b ELSE RAdd(RAdd(b, A3[p[3]]), RAdd(Q(p[1] * p[3], 5), Q(p[2] * p[3], 7)))
SumSq(d, p) == IF d = 2 THEN p[1] * p[1] + p[2] * p[2] ELSE p[1] * p[1] + p[2] * p[2] + p[3] * p[3]
Table(d, tgt, p) ==
    CASE tgt = "band" -> IF \A i, j \in 1..d : Abs(p[i] - p[j]) <= 1 THEN Val(d, p) ELSE NaN
      [] tgt = "disc" -> IF SumSq(d, p) <= d - 1 THEN Val(d, p) ELSE NegInf
      [] tgt = "ring" -> IF SumSq(d, p) = 0 THEN NaN ELSE IF p[1] * p[2] = 1 THEN NegInf ELSE Val(d, p)

SV(id, d) == IF id = "one" THEN [i \in 1..d |-> One]
             ELSE IF d = 2 THEN <<One, Half>> ELSE <<Half, One, Q(1, 4)>>

Configs == {c \in [d : Dims, tgt : Targets, sc : Scales2 \cup Scales3, x0 : X(2) \cup X(3)] :
                /\ c.x0 \in X(c.d) /\ Finite(Table(c.d, c.tgt, c.x0))
                /\ c.sc \in (IF c.d = 2 THEN Scales2 ELSE Scales3)}

T(p) == Table(cfg.d, cfg.tgt, p)

\* ------------------------------ actions ------------------------------
Init == /\ cfg \in Configs
        /\ x = cfg.x0 /\ c_lp = Table(cfg.d, cfg.tgt, cfg.x0) /\ buf = cfg.x0 /\ sw = cfg.x0
        /\ comp = 1 /\ nS = 0 /\ pending = <<>> /\ phase = "idle" /\ evals = <<>> /\ lastAcc = -1 /\ prog = <<>>

\* component `comp` proposes the value v: the implementation writes it into its buffer and evaluates the target there
Propose(v) ==
    /\ phase = "idle" /\ nS < MaxSweeps /\ v \in Vals /\ v # x[comp]
    /\ LET nbuf == [buf EXCEPT ![comp] = v]
           at   == IF Deviation = "ProposalsFromSweepStart" THEN [sw EXCEPT ![comp] = v] ELSE nbuf
           tv   == T(at)
           r    == IF Finite(tv) THEN RSub(tv, c_lp) ELSE NaN
           xi   == RDiv(R(v - x[comp]), SV(cfg.sc, cfg.d)[comp])      \* the noise of this component: v = x_j + s_j xi_j
       IN /\ pending' = [j |-> comp, v |-> v, at |-> at, tv |-> tv, r |-> r, xi |-> xi]
          /\ buf' = nbuf
          /\ evals' = Append(evals, at)
    /\ phase' = "proposed"
    /\ UNCHANGED <<cfg, x, c_lp, sw, comp, nS, lastAcc, prog>>

Classes == IF ~Finite(pending.tv) THEN {"Any"}
           ELSE IF RLt(pending.r, Zero) THEN {"Below", "Above"} ELSE {"Below"}

Decide(cls) ==
    /\ phase = "proposed" /\ cls \in Classes
    /\ LET accept   == Finite(pending.tv) /\ cls = "Below"
           sweepEnd == comp = cfg.d
           nx       == IF accept THEN [x EXCEPT ![comp] = pending.v] ELSE x      \* only component `comp` is written
           nlp      == IF accept \/ (Deviation = "CacheLastEvaluated" /\ Finite(pending.tv)) THEN pending.tv ELSE c_lp
           \* intended: the buffer is rebuilt from the state after EVERY component
           nbuf     == IF Deviation = "RefusedStaysInBuffer" /\ ~Finite(pending.tv) /\ ~sweepEnd THEN buf ELSE
                       IF Deviation = "RefusedStaysInBuffer" /\ ~sweepEnd THEN [buf EXCEPT ![comp] = nx[comp]] ELSE nx
       IN /\ x' = nx /\ c_lp' = nlp /\ buf' = nbuf
          /\ lastAcc' = IF accept THEN 1 ELSE 0
          /\ comp' = IF sweepEnd THEN 1 ELSE comp + 1
          /\ nS' = IF sweepEnd THEN nS + 1 ELSE nS
          /\ sw' = IF sweepEnd THEN nx ELSE sw
          /\ evals' = IF sweepEnd THEN <<>> ELSE evals
          /\ prog' = Append(prog, [j |-> comp, v |-> pending.v, at |-> pending.at, tv |-> pending.tv, r |-> pending.r,
                                   xi |-> pending.xi, cls |-> cls, acc |-> IF accept THEN 1 ELSE 0, x |-> nx, clp |-> nlp,
                                   fin |-> sweepEnd])
    /\ pending' = <<>> /\ phase' = "idle"
    /\ UNCHANGED cfg

Next == \/ \E v \in Vals : Propose(v)
        \/ \E cls \in {"Below", "Above", "Any"} : Decide(cls)

Spec == Init /\ [][Next]_vars

\* ------------------------------ properties ------------------------------
\* the point at which the target is evaluated for component j is the current state with ONLY component j replaced -
\* whatever happened to the earlier components of the sweep
EvalAtOneReplaced == phase = "proposed" => pending.at = [x EXCEPT ![pending.j] = pending.v]

\* the whole record of evaluation points of the sweep in progress: the i-th agrees with the current state on the components
\* decided before it, with the state at the start of the sweep on the components that come after it
EvalTrace == \A i \in 1..Len(evals) : \A m \in 1..cfg.d :
                 /\ (m < i => evals[i][m] = x[m])
                 /\ (m > i => evals[i][m] = sw[m])

\* the log-ratio formed with the cache is the Metropolis log-ratio of the symmetric single-component proposal
RatioIsMH == (phase = "proposed" /\ Finite(pending.tv)) =>
                 pending.r = RSub(T([x EXCEPT ![pending.j] = pending.v]), T(x))

CacheCoherent == c_lp = T(x)
NoNonFiniteAccept == Finite(T(x))

IsDecide == phase = "proposed" /\ phase' = "idle"
RejectKeepsState == [][(IsDecide /\ lastAcc' = 0) => UNCHANGED <<x, c_lp>>]_vars
\* deciding component j changes at most component j of the state; an accepted component takes the proposed value
OnlyComponentJ == [][IsDecide => /\ \A i \in 1..cfg.d : i # pending.j => x'[i] = x[i]
                                 /\ (lastAcc' = 1 => x'[pending.j] = pending.v /\ c_lp' = T(x'))]_vars

\* ------------------------------ emission ------------------------------
Rows(c) == LET xs == XSeq(c.d) IN [i \in 1..Len(xs) |-> [p |-> xs[i], t |-> Table(c.d, c.tgt, xs[i]), g |-> <<>>]]
Emitted ==
    /\ (Emit /\ nS = 0 /\ comp = 1 /\ phase = "idle") =>
          PrintT("@@CASE " \o ToJson([kind |-> "root", cfg |-> cfg, sv |-> SV(cfg.sc, cfg.d), clp |-> c_lp, rows |-> Rows(cfg)]) \o " @@END")
    /\ (Emit /\ nS = MaxSweeps /\ phase = "idle") =>
          PrintT("@@CASE " \o ToJson([kind |-> "sweeps", cfg |-> cfg, prog |-> prog]) \o " @@END")
=============================================================================
