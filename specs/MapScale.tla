----------------------------- MODULE MapScale -----------------------------
(***************************************************************************)
(* C15, two dimensions the configurations of LinGauss.tla / MapProc.tla fix *)
(* (own module: LinGauss.tla is shared with C06).                           *)
(*                                                                         *)
(* kind "scale" - PHYSICAL UNITS of a linear-Gaussian problem.              *)
(*   y = A x + e,  e ~ N(0, Ce),  x ~ N(mu0, C0).  The same problem with    *)
(*   the operator in units 2^a and the unknown in units 2^k:                *)
(*       A' = 2^a A,  y' = 2^(a+k) y,  Ce' = 4^(a+k) Ce,                     *)
(*       C0' = 4^k C0,  mu0' = 2^k mu0                                       *)
(*   (data and noise scaled consistently with operator and prior).  Then    *)
(*       Lambda' = 4^-k Lambda,  rhs' = 2^-k rhs,                            *)
(*       mu_post' = 2^k mu_post,  Lambda'^-1 = 4^k Lambda^-1                 *)
(*   - invariant ScalingLaw, checked with exact rationals for the pairs     *)
(*   ScaleChecked, both in information form and in the Tarantola form the   *)
(*   direct route evaluates from the covariances and the matrix the model   *)
(*   hands out (MatrixOf: the ASSEMBLED matrix of a function-backed model   *)
(*   or of a matrix model with a non-identity geometry is the operator      *)
(*   itself, entry by entry - whatever the size of the entries).  The       *)
(*   emitted cases carry the pairs ScaleEmitted (operator 2^-50 .. 2^50).   *)
(*   Named deviation AssembledDropsSmallEntries: entries of the assembled   *)
(*   matrix with |a| <= 2^-Drop are not stored (absolute threshold) ->      *)
(*   ScalingLaw violated.                                                   *)
(*                                                                         *)
(* kind "nograd" - optimisation route WITHOUT exact gradient, n = 3 .. 32.  *)
(*   Forward model x -> A x handed over as a plain function (cuqi.model.    *)
(*   Model without jacobian), or a prior that offers no gradient (Gaussian  *)
(*   given by sqrtprec / with a gradient-free model given by prec).         *)
(*   A = upper bidiagonal (1 on, -1/2 above the diagonal), noise precision  *)
(*   pe, prior N(mu0, 1/px I); data and prior mean CONSTRUCTED from xs and  *)
(*   a residual res:  y = A xs + res,  mu0 = xs - (pe/px) A^T res, so that   *)
(*   xs is the exact maximiser of the (strictly concave, quadratic) log     *)
(*   posterior: Stationary (gradient exactly 0), Curvature (Hessian of the  *)
(*   negative log posterior >= px I; of the negative log likelihood >=      *)
(*   pe/4 I: A^T A - I/4 is symmetric, diagonally dominant with non-        *)
(*   negative diagonal).  With res = 0, xs is also the exact ML point.      *)
(***************************************************************************)
EXTENDS MatQ, FiniteSets, TLC, Json

CONSTANTS Level, Emit, AssembledDropsSmallEntries

VARIABLES c
vars == <<c>>

RECURSIVE Pow2(_)
Pow2(k) == IF k = 0 THEN One ELSE IF k > 0 THEN QMul(R(2), Pow2(k - 1)) ELSE QMul(Half, Pow2(k + 1))
QLe(a, b) == QSub(a, b)[1] <= 0
QLt(a, b) == QSub(a, b)[1] < 0

\* ---------------------------------------------------------------------------------------------------------
\* kind scale
\* ---------------------------------------------------------------------------------------------------------
ScaleChecked == { <<0, 0>>, <<-3, 0>>, <<2, 1>>, <<0, -2>>, <<-2, -1>> }
ScaleEmitted == << <<-50, 0>>, <<50, 0>>, <<-30, 10>>, <<30, -10>>, <<-50, -10>>, <<0, 20>>, <<-40, 20>>, <<0, -25>>, <<20, -25>>, <<-25, 25>>, <<0, -18>>, <<10, -15>>, <<-10, -21>> >>
\* dense sweep of the two exponents (one at a time) for the configurations with full covariance matrices: an absolute threshold
\* anywhere between 1e-18 and 1e18 separates entries of the same matrix for some exponent of the sweep
ScaleSweep == [i \in 1..61 |-> <<0, i - 31>>] \o [i \in 1..41 |-> <<(5 * i) - 105, 0>>]
Drop == 2                                   \* deviation: entries with |a| <= 2^-2 are not stored

A32 == MR(<< <<1, 2>>, <<0, 1>>, <<-1, 1>> >>)
A22 == MR(<< <<2, 1>>, <<1, 1>> >>)
Y3  == VR(<<-2, 0, 2>>)
Y2  == VR(<<1, -1>>)
\* noise covariance / prior covariance in two ways: scalar (times identity) and full matrix
CeOf(m, f) == IF f = "scalar" THEN QMScale(Q(1, 4), MId(m)) ELSE F(MDiag([i \in 1..m |-> IF i = 2 THEN One ELSE Q(1, 4)]))
C0Of(f)    == IF f = "scalar" THEN MId(2) ELSE MR(<< <<5, -2>>, <<-2, 1>> >>)
Mu0 == VR(<<-1, 1>>)
\* geometry: matrix of par2fun (identity, or the mapped geometry x -> 2 x)
EOf(g) == IF g = "scale" THEN QMScale(R(2), MId(2)) ELSE MId(2)

ScaleConfigs ==
    { [kind |-> "scale", A |-> a[1], y |-> a[2], m |-> Len(a[1]), n |-> 2, nf |-> nf, pf |-> pf, mdl |-> md[1], geo |-> md[2], sc |-> sc]
        : a \in { <<A32, Y3>>, <<A22, Y2>> }, nf \in {"scalar", "full"}, pf \in {"scalar", "full"},
          md \in { <<"matrix", "default">>, <<"function", "default">>, <<"matrix", "scale">>, <<"function", "scale">> },
          sc \in ScaleChecked }

\* the problem in the units sc = <<a, k>>
Units(q, sc) ==
    LET a == sc[1]  k == sc[2] IN
    [A |-> QMScale(Pow2(a), q.A), y |-> QVScale(Pow2(a + k), q.y), Ce |-> QMScale(Pow2(2 * (a + k)), CeOf(q.m, q.nf)),
     C0 |-> QMScale(Pow2(2 * k), C0Of(q.pf)), mu0 |-> QVScale(Pow2(k), Mu0), E |-> EOf(q.geo)]

\* the matrix the model hands out: given matrix with identity geometry = the matrix itself; otherwise ASSEMBLED column by
\* column from forward(e_i) = A E e_i  (deviation: small entries are not stored)
Stored(v) == IF AssembledDropsSmallEntries /\ QLe(RAbs(v), Pow2(-Drop)) THEN Zero ELSE v
MatrixOf(q, u) ==
    LET G == QMM(u.A, u.E) IN
    IF q.mdl = "matrix" /\ q.geo = "default" THEN G
    ELSE F([i \in 1..Len(G) |-> [j \in 1..Len(G[1]) |-> Stored(G[i][j])]])

\* information form (reference) and the Tarantola form of the direct route
Post(u) ==
    LET G   == QMM(u.A, u.E)
        Pe  == QMInv(u.Ce)   P0 == QMInv(u.C0)
        Lam == QMAdd(QMM(MT(G), QMM(Pe, G)), P0)
        rhs == QVAdd(QMV(MT(G), QMV(Pe, u.y)), QMV(P0, u.mu0))
        LI  == QMInv(Lam)
    IN [Lam |-> Lam, rhs |-> rhs, mu |-> QMV(LI, rhs), cov |-> LI, G |-> G]
Direct(q, u) ==
    LET G  == MatrixOf(q, u)
        S  == QMAdd(QMM(G, QMM(u.C0, MT(G))), u.Ce)
        K  == QMM(u.C0, QMM(MT(G), QMInv(S)))
    IN [mu |-> QVAdd(u.mu0, QMV(K, QVSub(u.y, QMV(G, u.mu0)))),
        cov |-> QMSub(u.C0, QMM(K, QMM(G, u.C0)))]

ScalingLaw ==
    c.kind = "scale" =>
        LET k  == c.sc[2]
            p0 == Post(Units(c, <<0, 0>>))
            u  == Units(c, c.sc)
            p  == Post(u)
            d  == Direct(c, u)
        IN /\ p.Lam = QMScale(Pow2(-(2 * k)), p0.Lam) /\ p.rhs = QVScale(Pow2(-k), p0.rhs)
           /\ p.mu = QVScale(Pow2(k), p0.mu) /\ p.cov = QMScale(Pow2(2 * k), p0.cov)
           /\ d.mu = p.mu /\ d.cov = p.cov                                   \* what the direct route evaluates, in every unit
           /\ MSym(p0.Lam) /\ QLt(Zero, p0.Lam[1][1]) /\ QLt(Zero, Det(p0.Lam))    \* positive definite (2 x 2)

\* ---------------------------------------------------------------------------------------------------------
\* kind nograd
\* ---------------------------------------------------------------------------------------------------------
Sizes == IF Level >= 2 THEN {3, 8, 16, 24, 32} ELSE {3, 8, 16, 32}
\* who lacks the gradient: the model is a plain function (no jacobian) / the prior is given by sqrtprec (offers no gradient)
NgForms == { <<"cov", "nograd">>, <<"sqrtprec", "jac">>, <<"prec", "nograd">>, <<"sqrtprec", "nograd">> }
NgConfigs ==
    { [kind |-> "nograd", n |-> n, pe |-> 4, px |-> px, rk |-> rk, which |-> w, prior |-> f[1], mdl |-> f[2]]
        : n \in Sizes, px \in {1, 2}, rk \in {0, 1}, w \in {"MAP", "ML"}, f \in NgForms }
NgValid(q) == (q.which = "ML" => (q.rk = 0 /\ q.px = 1)) /\ (q.px = 2 => (q.rk = 1 /\ q.prior = "cov"))

NgA(n)   == F([i \in 1..n |-> [j \in 1..n |-> IF j = i THEN One ELSE IF j = i + 1 THEN Q(-1, 2) ELSE Zero]])
NgXs(n)  == F([i \in 1..n |-> R((i % 3) - 1)])
NgRes(q) == F([i \in 1..q.n |-> IF q.rk = 1 /\ i % 2 = 1 THEN Q(1, 4) ELSE Zero])
NgY(q)   == F(QVAdd(QMV(NgA(q.n), NgXs(q.n)), NgRes(q)))
NgMu(q)  == F(QVSub(NgXs(q.n), QVScale(Q(q.pe, q.px), QMV(MT(NgA(q.n)), NgRes(q)))))
NgGradLik(q, z) == QVScale(R(q.pe), QMV(MT(NgA(q.n)), QVSub(QMV(NgA(q.n), z), NgY(q))))
NgGradPhi(q, z) == QVAdd(NgGradLik(q, z), QVScale(R(q.px), QVSub(z, NgMu(q))))

Stationary ==
    c.kind = "nograd" =>
        LET xs == NgXs(c.n)  zero == F([i \in 1..c.n |-> Zero]) IN
        /\ NgGradPhi(c, xs) = zero
        /\ (c.rk = 0 => (NgGradLik(c, xs) = zero /\ QMV(NgA(c.n), xs) = NgY(c)))
        /\ (c.which = "ML" => c.rk = 0)
        /\ c.pe > 0 /\ c.px > 0

\* A^T A - I/4 is symmetric and (weakly) diagonally dominant with non-negative diagonal, hence positive semidefinite:
\* lambda_min(A^T A) >= 1/4, Hessians  pe A^T A + px I >= (pe/4 + px) I  and  pe A^T A >= pe/4 I
Curvature ==
    c.kind = "nograd" =>
        LET n == c.n
            B == QMSub(QMM(MT(NgA(n)), NgA(n)), QMScale(Q(1, 4), MId(n)))
        IN /\ MSym(B)
           /\ \A i \in 1..n : QLe(QSumSeq([j \in 1..n |-> IF j = i THEN Zero ELSE RAbs(B[i][j])]), B[i][i])

Configs == ScaleConfigs \cup { q \in NgConfigs : NgValid(q) }

Init == c \in Configs
Next == UNCHANGED c
Spec == Init /\ [][Next]_vars

EmitCase ==
    Emit =>
      IF c.kind = "scale"
      THEN LET u0 == Units(c, <<0, 0>>)  p0 == Post(u0) IN
           PrintT("@@CASE " \o ToJson([kind |-> "scale", A |-> c.A, y |-> c.y, m |-> c.m, n |-> c.n, nf |-> c.nf, pf |-> c.pf, mdl |-> c.mdl,
                                       geo |-> c.geo, sc |-> c.sc, E |-> u0.E, Ce_q |-> u0.Ce, C0_q |-> u0.C0, mu0 |-> u0.mu0,
                                       mu_q |-> p0.mu, cov_q |-> p0.cov,
                                       scales |-> IF c.nf = "full" /\ c.pf = "full" THEN ScaleEmitted \o ScaleSweep ELSE ScaleEmitted]) \o " @@END")
      ELSE PrintT("@@CASE " \o ToJson([kind |-> "nograd", n |-> c.n, pe |-> c.pe, px |-> c.px, rk |-> c.rk, which |-> c.which, prior |-> c.prior,
                                       mdl |-> c.mdl, y_q |-> NgY(c), mu_q |-> NgMu(c), xstar_q |-> NgXs(c.n), res_q |-> NgRes(c),
                                       lam_lik_q |-> Q(c.pe, 4), lam_post_q |-> QAdd(Q(c.pe, 4), R(c.px))]) \o " @@END")
=============================================================================
