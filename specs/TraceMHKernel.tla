--------------------------- MODULE TraceMHKernel ---------------------------
(***************************************************************************)
(* Trace validation for MHKernel (property C02, code -> spec): every       *)
(* transition of a recorded real run of a Metropolis-type sampler must     *)
(* satisfy the boolean facets that MHKernel proves for every Decide step   *)
(* (action property FacetsHold):                                           *)
(*   cache_ok  : after the step every cached evaluation (target            *)
(*               log-density, gradient, likelihood log-density) equals a   *)
(*               fresh evaluation at the current point under the current   *)
(*               target                 (invariant CacheCoherent)          *)
(*   finite_ok : the chain moved => the log-density of the new point is    *)
(*               finite                 (invariant NoNonFiniteAccept)      *)
(*   moved <=> acc : the point changes exactly when the step reports an    *)
(*               acceptance             (RejectKeepsState; with continuous *)
(*               proposal noise an accepted proposal differs from x)       *)
(*                                                                         *)
(* The trace file (env TRACE_FILE) is a JSON array of traces recorded by   *)
(* record.install_sampler_life with the C02 facet callbacks; events        *)
(*   step(pid, win, mh, moved, acc, cache_ok, finite_ok) and any other     *)
(*   life-cycle event (begin, cb, end, get, reinit, setstate, tune, ...)   *)
(* Only steps of Metropolis-type samplers (mh = 1) made inside the         *)
(* sampler's own sample()/warmup() window (win = 1) are judged: a step     *)
(* driven from outside (HybridGibbs re-targets the sampler between steps;  *)
(* property C09) is not a transition of this specification.                *)
(* The abstract MHKernel state is not observable in a floating-point run;  *)
(* it stays at its initial value (stuttering) while the facets are checked.*)
(***************************************************************************)
EXTENDS MHKernel, IOUtils

Traces == JsonDeserialize(IOEnv.TRACE_FILE)

VARIABLES tid,     \* which trace
          l,       \* position in the trace
          judged   \* number of judged transitions so far

tvars == <<vars, tid, l, judged>>

Ev == Traces[tid].events
IsEvent(e) == l <= Len(Ev) /\ Ev[l].e = e /\ l' = l + 1 /\ UNCHANGED tid
B(v) == v = 1

TraceInit == /\ Init /\ cfg.sc = "one"
             /\ tid \in 1..Len(Traces) /\ l = 1 /\ judged = 0

Judged(ev) == "mh" \in DOMAIN ev /\ ev.mh = 1 /\ ev.win = 1

TStep == /\ IsEvent("step")
         /\ IF Judged(Ev[l])
            THEN /\ StepFacets(B(Ev[l].moved), B(Ev[l].acc), B(Ev[l].cache_ok), B(Ev[l].finite_ok))
                 /\ (B(Ev[l].acc) => B(Ev[l].moved))
                 /\ judged' = judged + 1
            ELSE UNCHANGED judged
         /\ UNCHANGED vars

\* every other event of the life-cycle recorder (begin, cb, end, get, reinit, setstate, sethist, tune, and whatever
\* record.install_sampler_life logs in the future for the properties it serves) is not a kernel transition: skipped.
\* (A closed list of names here made every trace with a warm-up fail when the recorder started to log `tune`.)
TOther == /\ l <= Len(Ev) /\ Ev[l].e # "step" /\ l' = l + 1 /\ UNCHANGED tid
          /\ UNCHANGED <<vars, judged>>

TraceNext == TStep \/ TOther

TraceSpec == TraceInit /\ [][TraceNext]_tvars

\* one line per completely consumed trace; the harness requires every trace id to be reported
Accepted == (l = Len(Ev) + 1) => PrintT("@@CASE " \o ToJson([acc |-> tid, judged |-> judged]) \o " @@END")
\* diagnostic run of a single rejected trace: report progress
Progress == PrintT("@@CASE " \o ToJson([tid |-> tid, l |-> l]) \o " @@END")
=============================================================================
