------------------------------ MODULE Sampling ------------------------------
(***************************************************************************)
(* Direct sampling from distributions (property C05).                      *)
(*                                                                         *)
(* Facet 1 - affine law.  A Gaussian-type distribution with mean mu and    *)
(*   precision P (the matrix of the quadratic form of ITS OWN log-density) *)
(*   draws   Sample(e) = mu + L e,   e standard normal,  with              *)
(*       P (L L^T) P = P      (and L L^T P = I when P is non-singular),    *)
(*   column by column for N draws.  Gaussian: every input form             *)
(*   cov / prec / sqrtcov / sqrtprec x every shape (scalar, vector,        *)
(*   diagonal, sparse diagonal, dense, sparse; upper-, lower-triangular    *)
(*   and full non-symmetric square roots) generated from one unit-         *)
(*   triangular integer matrix and one dyadic diagonal.  Conventions:      *)
(*   sqrtprec S => P = S^T S,  sqrtcov S => cov = S S^T.  For sqrtprec the *)
(*   docstring of Gaussian._sample fixes L = S^-1 exactly.  GMRF: P =      *)
(*   delta D^T D with D from DiffOps (the field's own operator), three     *)
(*   designs: Cholesky (zero), D^T-push through the pseudo-inverse (any    *)
(*   boundary condition), DFT of a circulant (periodic; applicable only    *)
(*   when P is circulant and with the eigenvalues in frequency order).     *)
(*   Lognormal = exp(Gaussian sample).                                     *)
(* Facet 2 - base-generator wiring of the univariate families: which base  *)
(*   draw, with which arguments, which size, how the (N x dim) base array  *)
(*   becomes the (dim x N) result.                                         *)
(* Facet 3 - stream state machine: variables gpos (global stream), lpos[r] *)
(*   (local generators; a position is the sequence of requests served      *)
(*   since seeding), hist; actions Sample(d, N, rng), Rewind(r).           *)
(*                                                                         *)
(* Named deviations (DESIGN 2.7; off in every deciding configuration):     *)
(*   "dft_on_noncirculant" - DFT design applied although the wrap-around   *)
(*                           row occurs twice (P not circulant)            *)
(*   "dft_sorted_eigs"     - DFT design fed with the eigenvalues sorted    *)
(*                           ascending instead of in frequency order       *)
(*   "lower_as_upper"      - lower-triangular sqrtprec solved with the     *)
(*                           upper-triangle of the matrix only             *)
(*   "ignores_rng"         - draws taken from the global stream although a *)
(*                           generator was given                           *)
(*   "stale_after_assign"  - (facet 4, Reassign) an assignment of a public *)
(*                           parameter keeps what the object derived from  *)
(*                           the old parameters                            *)
(*   "dia_as_diagonal"     - (facet 1c) the storage FORMAT of a matrix is  *)
(*                           taken for its STRUCTURE: a square root stored *)
(*                           by diagonals is solved with its main diagonal *)
(*   "shared_derived"      - (facet 5, Siblings) the conditioned copies of *)
(*                           one conditional object share what they derive *)
(*                           from their parameters for sampling            *)
(*   "sync_in_density_only" - (facet 6) `sample` answers from the inner    *)
(*                           state as it is                                *)
(*   "last_block_skipped"  - (facet 7, Counts) many draws are computed in  *)
(*                           blocks of B columns and the last N mod B      *)
(*                           columns are left as the raw noise when N > B  *)
(***************************************************************************)
EXTENDS DiffOps

CONSTANTS Facet,        \* "cases" (configuration enumeration) | "stream" (behaviours) | "reassign" (facet 4) | "siblings" (facet 5) | "firstobs" (facet 6) | "counts" (facet 7)
          Dev,          \* "none" or a named deviation
          MaxDim,       \* Gaussian lattice: dimensions 1..MaxDim (<= 3)
          PinvMax,      \* largest 1-D node count with the rational pseudo-inverse design check (orders 0, 1)
          BigDims,      \* dimensions at the real dense/sparse threshold (diagonal forms only)
          FsDims,       \* facet 1c (structure x format x threshold side): dimensions (3 or 4)
          FsFormats,    \* facet 1c: storage formats
          CountNs,      \* facet 7 (Counts): sample counts N
          CountBlocks,  \* facet 7: internal block sizes B an implementation may work with
          CountWide,    \* facet 7: FALSE = one representative per family / form x shape / bc x order, TRUE = every configuration
          MaxSteps,     \* stream facet: behaviour length
          StreamDists, StreamNs, StreamRngs

VARIABLES gpos, lpos, hist
svars == <<c, gpos, lpos, hist>>

\* ===========================================================================
\*  Facet 1a : Gaussian lattice
\* ===========================================================================
U3 == <<<<1, 2, -1>>, <<0, 1, 3>>, <<0, 0, 1>>>>          \* unit upper-triangular
M3 == <<<<1, 1, 0>>, <<1, 2, 0>>, <<1, 0, 1>>>>           \* unimodular, leading blocks unimodular and not triangular
DgS == <<R(2), Q(1, 2), R(4)>>                           \* dyadic row scaling (scaled = TRUE)
GdA == <<R(2), Q(1, 2), R(4)>>                           \* dyadic diagonal generator (square root of the precision)
GdB == <<Q(1, 2), R(2), Q(1, 4)>>
MuV == <<1, -2, 3>>

Lead(M, d) == F([i \in 1..d |-> [j \in 1..d |-> M[i][j]]])
Pre(v, d)  == F([i \in 1..d |-> v[i]])

\* generator G of a matrix-shaped configuration:  P = G^T G
GenMat(k) ==
    LET U  == MR(Lead(U3, k.dim))
        G0 == CASE k.tri = "upper" -> U
                [] k.tri = "lower" -> MT(U)
                [] k.tri = "full"  -> MM(U, MR(Lead(M3, k.dim)))
        \* row scaling: dyadic diagonal for triangular square-root precisions (non-unit, non-constant diagonal),
        \* the scalar 2 otherwise (keeps the rational Gauss-Jordan inverses of the dense forms small)
        Sc == IF k.tri \in {"upper", "lower"} /\ k.form = "sqrtprec" THEN MDiag(Pre(DgS, k.dim)) ELSE MScale(R(2), MId(k.dim))
    IN IF k.scaled THEN MM(Sc, G0) ELSE G0

\* generator of a diagonal configuration: g (square root of the diagonal precision)
GenDiag(k) ==
    LET g == IF k.scaled THEN GdB ELSE GdA
    IN IF k.shape = "scalar" THEN [i \in 1..k.dim |-> g[1]] ELSE Pre(g, k.dim)

IsMatShape(s)  == s \in {"dense", "sparse"}
IsDiagShape(s) == s \in {"scalar", "vector", "diag", "spdiag"}

GForms == {"cov", "prec", "sqrtcov", "sqrtprec"}

\* what is handed to the constructor, generated from G so that all four forms describe the same distribution
DataMat(form, G) ==
    CASE form = "sqrtprec" -> G
      [] form = "sqrtcov"  -> MInv(G)
      [] form = "prec"     -> MM(MT(G), G)
      [] form = "cov"      -> MInv(MM(MT(G), G))
DataDiag(form, g) ==
    CASE form = "sqrtprec" -> g
      [] form = "sqrtcov"  -> F([i \in 1..Len(g) |-> RInv(g[i])])
      [] form = "prec"     -> F([i \in 1..Len(g) |-> RSq(g[i])])
      [] form = "cov"      -> F([i \in 1..Len(g) |-> RInv(RSq(g[i]))])

\* canonical precision computed FROM THE DATA by the convention of the form (not from the generator)
PrecOfMat(form, X) ==
    CASE form = "sqrtprec" -> MM(MT(X), X)
      [] form = "sqrtcov"  -> MInv(MM(X, MT(X)))
      [] form = "prec"     -> X
      [] form = "cov"      -> MInv(X)
PrecOfDiag(form, x) ==
    CASE form = "sqrtprec" -> F([i \in 1..Len(x) |-> RSq(x[i])])
      [] form = "sqrtcov"  -> F([i \in 1..Len(x) |-> RInv(RSq(x[i]))])
      [] form = "prec"     -> x
      [] form = "cov"      -> F([i \in 1..Len(x) |-> RInv(x[i])])

\* upper triangle (with diagonal) of a matrix - what a triangular solve with lower = FALSE reads
UpperPart(X) == F([i \in 1..Len(X) |-> [j \in 1..Len(X) |-> IF j >= i THEN X[i][j] ELSE Zero]])
IsLower(X)   == \A i \in 1..Len(X) : \A j \in 1..Len(X) : j > i => X[i][j] = Zero

\* the design's L.  sqrtprec: L = X^-1 (docstring of Gaussian._sample); sqrtcov: L = X; cov / prec: any square
\* root of the covariance - the witness G^-1 is used for the spec-level check.
LOfMat(form, X, G) ==
    CASE form = "sqrtprec" -> IF Dev = "lower_as_upper" /\ IsLower(X) THEN MInv(UpperPart(X)) ELSE MInv(X)
      [] form = "sqrtcov"  -> X
      [] OTHER             -> MInv(G)
LOfDiag(form, x, g) == F([i \in 1..Len(g) |-> RInv(g[i])])

GaussConfigs ==
    { [kind |-> "gauss", wrap |-> w, form |-> f, shape |-> s, tri |-> t, dim |-> d, scaled |-> sc, mform |-> mf] :
        w \in {"gaussian", "lognormal"}, f \in GForms, s \in {"scalar", "vector", "diag", "spdiag", "dense", "sparse"},
        t \in {"na", "upper", "lower", "full"}, d \in 1..MaxDim, sc \in BOOLEAN, mf \in {"vector", "scalar"} }
GaussValid(k) ==
    /\ (IsMatShape(k.shape) <=> k.tri # "na")
    /\ (k.shape # "scalar" => k.dim >= 2)
    /\ (k.wrap = "lognormal" => k.form = "cov" /\ k.shape \in {"scalar", "vector", "diag", "dense"})

\* (configurations of the Reassign facet carry the optional field mu = 2: the second mean)
MuV2 == <<-3, 1, 2>>
MuOf(k) == IF "mu" \in DOMAIN k /\ k.mu = 2 THEN MuV2 ELSE MuV
GaussMean(k) == IF k.mform = "scalar" THEN [i \in 1..k.dim |-> MuOf(k)[2]] ELSE Pre(MuOf(k), k.dim)

\* the affine law on the specification:  L L^T P = I,  P symmetric, P independent of the form
AffineLawHolds(L, P) ==
    LET Lt == F(MT(L))
        C  == F(MM(L, Lt))
    IN F(MM(C, P)) = MId(Len(P))

GaussLaw ==
    (c.kind = "gauss" /\ IsMatShape(c.shape)) =>
        LET G == F(GenMat(c))
            X == F(DataMat(c.form, G))
            P == F(PrecOfMat(c.form, X))
            L == F(LOfMat(c.form, X, G))
        IN /\ P = MM(MT(G), G)                    \* SameDistribution: the four forms denote one precision
           /\ MSym(P)
           /\ AffineLawHolds(L, P)
GaussDiagLaw ==
    (c.kind = "gauss" /\ IsDiagShape(c.shape)) =>
        LET g == GenDiag(c)
            x == DataDiag(c.form, g)
            p == PrecOfDiag(c.form, x)
            l == LOfDiag(c.form, x, g)
        IN /\ p = F([i \in 1..c.dim |-> RSq(g[i])])
           /\ \A i \in 1..c.dim : RMul(RSq(l[i]), p[i]) = One

\* the real dense/sparse threshold: diagonal forms, symbolic in the index
BigConfigs == { [kind |-> "bigdiag", form |-> f, shape |-> s, dim |-> d] : f \in GForms, s \in {"scalar", "vector"}, d \in BigDims }
BigGen(k)  == F([i \in 1..k.dim |-> IF k.shape = "scalar" THEN GdA[1] ELSE GdA[(i % 3) + 1]])
BigLaw ==
    c.kind = "bigdiag" =>
        LET g == BigGen(c)
            p == PrecOfDiag(c.form, DataDiag(c.form, g))
        IN \A i \in 1..c.dim : RMul(RSq(RInv(g[i])), p[i]) = One

\* ===========================================================================
\*  Facet 1c : STRUCTURE of the matrix handed in  x  storage FORMAT  x  side of the dense/sparse threshold
\* ===========================================================================
\* The distribution a Gaussian denotes is a function of the VALUES of the matrix handed in (by the convention of the form),
\* not of the container that stores them and not of the side of cuqi.config.MIN_DIM_SPARSE the dimension lies on.  For every
\* form the matrix X has one of five structures; the spec supplies X, the precision P = PrecOf(form, X) and the design's L;
\* `format` (the container the replayer must use) and `side` / `thr` (value of MIN_DIM_SPARSE during construction: dim is
\* "above" iff dim > thr) are dimensions of the configuration that the expected values do NOT depend on - FsLaw checks the
\* affine law for every one of them, and the named deviation "dia_as_diagonal" (a format taken for a structure) refutes it.
\*   diag    dyadic diagonal
\*   upper   row-scaled unit upper-triangular integer matrix          (square-root forms only: cov / prec are symmetric)
\*   lower   its transpose                                           (square-root forms only)
\*   banded  tridiagonal: sqrtprec / sqrtcov  T = L1 U1 (unit bidiagonal factors: unimodular, NOT symmetric, NOT triangular);
\*                        cov / prec          U1^T U1 (symmetric positive definite, tridiagonal)
\*   full    sqrtprec / sqrtcov  U M (unimodular, every corner non-zero);  cov / prec  (U M)^T (U M)
FsU4 == <<<<1, 2, -1, 1>>, <<0, 1, 3, -2>>, <<0, 0, 1, 1>>, <<0, 0, 0, 1>>>>      \* unit upper-triangular (leading block U3)
FsM4 == <<<<1, 1, 0, 1>>, <<1, 2, 0, 0>>, <<1, 0, 1, 1>>, <<1, -1, 2, 2>>>>       \* unimodular (leading block M3)
FsDg == <<R(2), Q(1, 2), R(4), One>>
FsSub == <<1, 2, -1>>                                                             \* sub-diagonal of L1
FsSup == <<2, 1, -2>>                                                             \* super-diagonal of U1
FsMu == <<1, -2, 3, -1>>
FsL1(d) == F([i \in 1..d |-> [j \in 1..d |-> IF i = j THEN One ELSE IF i = j + 1 THEN R(FsSub[j]) ELSE Zero]])
FsU1(d) == F([i \in 1..d |-> [j \in 1..d |-> IF i = j THEN One ELSE IF j = i + 1 THEN R(FsSup[i]) ELSE Zero]])

FsStructs == {"diag", "lower", "upper", "banded", "full"}
FsSqrtForm(f) == f \in {"sqrtprec", "sqrtcov"}

FsBase(st, d) ==
    CASE st = "diag"   -> F(MDiag(Pre(FsDg, d)))
      [] st = "upper"  -> MM(MDiag(Pre(FsDg, d)), MR(Lead(FsU4, d)))
      [] st = "lower"  -> MT(MM(MDiag(Pre(FsDg, d)), MR(Lead(FsU4, d))))
      [] st = "banded" -> MM(FsL1(d), FsU1(d))
      [] st = "full"   -> MM(MR(Lead(FsU4, d)), MR(Lead(FsM4, d)))
\* factor B of the symmetric forms, X = B^T B
FsFactor(st, d) == IF st = "banded" THEN FsU1(d) ELSE FsBase(st, d)
FsData(k) == IF FsSqrtForm(k.form) THEN FsBase(k.structure, k.dim)
             ELSE LET B == F(FsFactor(k.structure, k.dim)) IN MM(MT(B), B)

FsDiagPart(X) == F([i \in 1..Len(X) |-> [j \in 1..Len(X) |-> IF i = j THEN X[i][j] ELSE Zero]])
\* the design's L: sqrtprec X^-1 (docstring of Gaussian._sample), sqrtcov X, prec = B^T B: B^-1, cov = B^T B: B^T
FsL(k, X) ==
    CASE k.form = "sqrtprec" -> IF Dev = "dia_as_diagonal" /\ k.format = "dia" THEN MInv(FsDiagPart(X)) ELSE MInv(X)
      [] k.form = "sqrtcov"  -> X
      [] k.form = "prec"     -> MInv(FsFactor(k.structure, k.dim))
      [] k.form = "cov"      -> MT(FsFactor(k.structure, k.dim))

IsUpper(X) == \A i \in 1..Len(X) : \A j \in 1..Len(X) : j < i => X[i][j] = Zero
FsHasStructure(X, st, form) ==
    LET d == Len(X)
    IN /\ d >= 3
       /\ CASE st = "diag"   -> \A i \in 1..d : \A j \in 1..d : (i # j => X[i][j] = Zero) /\ (i = j => X[i][j] # Zero)
            [] st = "upper"  -> IsUpper(X) /\ ~IsLower(X) /\ X[1][d] # Zero /\ \E i \in 1..d : X[i][i] # One
            [] st = "lower"  -> IsLower(X) /\ ~IsUpper(X) /\ X[d][1] # Zero /\ \E i \in 1..d : X[i][i] # One
            [] st = "banded" -> /\ \A i \in 1..d : \A j \in 1..d : (i - j > 1 \/ j - i > 1) => X[i][j] = Zero
                                /\ ~IsUpper(X) /\ ~IsLower(X)
                                /\ (FsSqrtForm(form) => ~MSym(X))
            [] st = "full"   -> X[1][d] # Zero /\ X[d][1] # Zero /\ (FsSqrtForm(form) => ~MSym(X))
       /\ (~FsSqrtForm(form) => MSym(X))

FsConfigs ==
    { [kind |-> "gfs", wrap |-> w, form |-> f, structure |-> st, format |-> fm, side |-> sd, dim |-> d] :
        w \in {"gaussian", "lognormal"}, f \in GForms, st \in FsStructs, fm \in FsFormats, sd \in {"below", "above"}, d \in FsDims }
FsValid(k) ==
    /\ (~FsSqrtForm(k.form) => k.structure \in {"diag", "banded", "full"})          \* a covariance / precision is symmetric
    /\ (k.wrap = "lognormal" => k.form = "cov" /\ k.format = "ndarray")             \* Lognormal documents ndarray mean / cov
FsThr(k) == IF k.side = "below" THEN k.dim ELSE k.dim - 1

FsLaw ==
    c.kind = "gfs" =>
        LET X == F(FsData(c))
            P == F(PrecOfMat(c.form, X))
            L == F(FsL(c, X))
        IN /\ FsHasStructure(X, c.structure, c.form)
           /\ MSym(P)
           /\ AffineLawHolds(L, P)

FsRec(k) ==
    LET X == F(FsData(k)) P == F(PrecOfMat(k.form, X))
    IN [kind |-> "gfs", wrap |-> k.wrap, form |-> k.form, structure |-> k.structure, format |-> k.format, side |-> k.side,
        thr |-> FsThr(k), dim |-> k.dim, mform |-> "vector", mean |-> Pre(FsMu, k.dim), data |-> X, prec |-> P,
        exact |-> (k.form = "sqrtprec"), L |-> FsL(k, X)]
EmitFs(k) == PrintT("@@CASE " \o ToJson(FsRec(k)) \o " @@END")

\* ===========================================================================
\*  Facet 1b : Gaussian Markov random fields (operators from DiffOps)
\* ===========================================================================
GmrfConfigs ==
    { [kind |-> "gmrf", pd |-> pd, n |-> n, bc |-> bc, order |-> o, wm |-> wm, sd |-> sd] :
        pd \in {1, 2}, n \in 2..MaxN1, bc \in BCs2, o \in 0..2, wm \in {1, 2}, sd \in {1, 2} }
GmrfValid(k) ==
    /\ (k.pd = 2 => k.n <= MaxN2)
    /\ (k.bc # "periodic" \/ k.order = 0 => k.wm = 1)
    /\ (k.order >= 1 => Valid([pd |-> k.pd, n |-> k.n, bc |-> k.bc, order |-> k.order, wm |-> k.wm]))

\* order 0 is the identity operator of cuqi (`none`), whatever the boundary condition
OpCfg(k) == IF k.order = 0 THEN [pd |-> k.pd, n |-> k.n, bc |-> "none", order |-> 1, wm |-> 1]
            ELSE [pd |-> k.pd, n |-> k.n, bc |-> k.bc, order |-> k.order, wm |-> k.wm]
GDim(k)  == IF k.pd = 1 THEN k.n ELSE k.n * k.n
GMean(k) == IF "mu" \in DOMAIN k /\ k.mu = 2 THEN [i \in 1..GDim(k) |-> ((3 * i) % 7) - 3]
            ELSE [i \in 1..GDim(k) |-> ((i * i) % 5) - 2]

\* pseudo-inverse of a symmetric PSD rational matrix whose null space is spanned by the rows of B
\* (every intermediate is forced once with F and bound by LET: TLC would otherwise re-evaluate nested arguments)
PInv(P, B) ==
    IF Len(B) = 0 THEN F(MInv(P))
    ELSE LET Bt   == F(MT(B))
             BBt  == F(MM(B, Bt))
             Gi   == F(MInv(BBt))
             Gi2  == F(MM(Gi, Gi))
             BtB  == F(MM(Bt, B))
             Reg  == F(MAdd(P, BtB))
             RegI == F(MInv(Reg))
             T1   == F(MM(Bt, Gi2))
             T2   == F(MM(T1, B))
         IN F(MSub(RegI, T2))

\* design "pinv": xi has one entry per row of D,  L = delta^(-1/2) (D^T D)^+ D^T   (valid for EVERY operator)
PinvDesignL(D, B, sd) ==
    LET Dt == F(MT(D))
        P0 == F(MM(Dt, D))
        Pp == PInv(P0, B)
        PD == F(MM(Pp, Dt))
    IN F(MScale(Q(1, sd), PD))

RangeLaw(L, P) ==
    LET Lt == F(MT(L))
        C  == F(MM(L, Lt))
        PC == F(MM(P, C))
    IN F(MM(PC, P)) = P

\* instances on which the rational pseudo-inverse stays inside TLC's 32-bit integers (measured)
PinvOk(k) == IF k.pd = 2 THEN k.n = 2 ELSE IF k.order = 2 THEN k.n <= 5 ELSE k.n <= PinvMax

GmrfLaw ==
    (c.kind = "gmrf" /\ PinvOk(c)) =>
        LET D  == F(MR(DOp(OpCfg(c))))
            B  == F(IF c.order = 0 THEN <<>> ELSE MR(NullBasis(OpCfg(c))))
            Dt == F(MT(D))
            P0 == F(MM(Dt, D))
            P  == F(MScale(R(c.sd * c.sd), P0))
            L  == PinvDesignL(D, B, c.sd)
        IN /\ MSym(P)
           /\ RangeLaw(L, P)
           /\ (Len(B) = 0 => AffineLawHolds(L, P))

\* ---- DFT design (periodic, 1-D): covariance (1/n) sum_k d_k cos(2 pi k (j-l)/n) ------------
CosN == {2, 3, 4, 6}
CosT(n, t) ==
    LET u == Mod(t, n)
    IN CASE n = 2 -> <<One, R(-1)>>[u + 1]
         [] n = 3 -> <<One, Q(-1, 2), Q(-1, 2)>>[u + 1]
         [] n = 4 -> <<One, Zero, R(-1), Zero>>[u + 1]
         [] n = 6 -> <<One, Half, Q(-1, 2), R(-1), Q(-1, 2), Half>>[u + 1]

\* eigenvalue of frequency k of the circulant with first row p (real part of the symbol)
Symbol(p, n, k) == RSumSeq([j \in 1..n |-> RMul(p[j], CosT(n, k * (j - 1)))])

RECURSIVE InsertSorted(_, _)
InsertSorted(s, x) == IF s = <<>> THEN <<x>> ELSE IF RLe(x, Head(s)) THEN <<x>> \o s ELSE <<Head(s)>> \o InsertSorted(Tail(s), x)
RECURSIVE SortR(_)
SortR(s) == IF s = <<>> THEN <<>> ELSE InsertSorted(SortR(Tail(s)), Head(s))
RECURSIVE MaxR(_)
MaxR(s) == IF Len(s) = 1 THEN s[1] ELSE RMax(Head(s), MaxR(Tail(s)))

\* the diagonal handed to the DFT (frequency k = 0..n-1 at position k+1)
DftDiag(p, n) ==
    LET lam  == F([k \in 1..n |-> Symbol(p, n, k - 1)])
        nz   == F(SelectSeq(lam, LAMBDA x : x # Zero))
        top  == F(MaxR(nz))
    IN IF Dev = "dft_sorted_eigs"
       THEN LET s == SortR(nz) \o [i \in 1..(n - Len(nz)) |-> top] IN [k \in 1..n |-> s[k]]       \* ascending, last repeated
       ELSE [k \in 1..n |-> IF lam[k] = Zero THEN top ELSE lam[k]]                                  \* frequency order

DftCov(P0, n, sd) ==
    LET d == F(DftDiag(P0[1], n))
    IN F([j \in 1..n |-> [l \in 1..n |->
          RMul(Q(1, n * sd * sd), RSumSeq([k \in 1..n |-> RMul(RInv(d[k]), CosT(n, (k - 1) * (j - l)))]))]])

DftApplicable(k, P0) == Circulant(P0) \/ Dev = "dft_on_noncirculant"

DftLaw ==
    (c.kind = "gmrf" /\ c.pd = 1 /\ c.bc = "periodic" /\ c.order >= 1 /\ c.n \in CosN) =>
        LET D  == F(MR(DOp(OpCfg(c))))
            Dt == F(MT(D))
            P0 == F(MM(Dt, D))
            P  == F(MScale(R(c.sd * c.sd), P0))
            C  == F(DftCov(P0, c.n, c.sd))
            PC == F(MM(P, C))
        IN DftApplicable(c, P0) => F(MM(PC, P)) = P

\* which sampler design the specification prescribes for a field
Design(k) ==
    LET D == DOp(OpCfg(k)) P0 == IMM(IT(D), D)
    IN IF k.bc = "zero" \/ k.order = 0 THEN "cholesky-or-any-root"
       ELSE IF k.bc = "periodic" /\ k.pd = 1 /\ Circulant(P0) THEN "dft-or-pinv" ELSE "pinv"

\* ===========================================================================
\*  Facet 2 : base-generator wiring of the univariate families
\* ===========================================================================
Families == {"Normal", "Gamma", "Laplace", "Uniform", "Beta", "InverseGamma", "Cauchy", "ModifiedHalfNormal"}

WNames(f) ==
    CASE f = "Normal"             -> <<"mean", "std">>
      [] f = "Gamma"              -> <<"shape", "rate">>
      [] f = "Laplace"            -> <<"location", "scale">>
      [] f = "Uniform"            -> <<"low", "high">>
      [] f = "Beta"               -> <<"alpha", "beta">>
      [] f = "InverseGamma"       -> <<"shape", "location", "scale">>
      [] f = "Cauchy"             -> <<"location", "scale">>
      [] f = "ModifiedHalfNormal" -> <<"alpha", "beta", "gamma">>

\* parameter lattices (component values 1..3 of every parameter)
WLat(f, l) ==
    CASE f = "Normal" /\ l = 1             -> << <<R(1), R(-2), Half>>,        <<Half, R(2), R(4)>> >>
      [] f = "Normal" /\ l = 2             -> << <<R(-3), Zero, R(5)>>,        <<R(4), Q(1, 4), One>> >>
      [] f = "Gamma" /\ l = 1              -> << <<R(2), Half, R(3)>>,         <<R(4), Half, One>> >>
      [] f = "Gamma" /\ l = 2              -> << <<One, R(5), Q(3, 2)>>,       <<Q(1, 4), R(2), R(8)>> >>
      [] f = "Laplace" /\ l = 1            -> << <<R(1), R(-2), Zero>>,        <<Half, R(2), R(4)>> >>
      [] f = "Laplace" /\ l = 2            -> << <<R(-4), Q(3, 2), R(2)>>,     <<R(3), Q(1, 4), One>> >>
      [] f = "Uniform" /\ l = 1            -> << <<R(-2), Zero, Half>>,        <<R(3), Q(1, 4), R(4)>> >>
      [] f = "Uniform" /\ l = 2            -> << <<R(-1), R(-5), Zero>>,       <<One, R(2), R(10)>> >>      \* (low of either lattice < high of either)
      [] f = "Beta" /\ l = 1               -> << <<R(2), Half, R(3)>>,         <<R(3), R(4), Half>> >>
      [] f = "Beta" /\ l = 2               -> << <<Q(3, 2), R(5), One>>,       <<Half, R(2), R(6)>> >>
      [] f = "InverseGamma" /\ l = 1       -> << <<R(3), Q(5, 2), R(2)>>,      <<Zero, R(-1), R(2)>>,  <<Half, R(2), One>> >>
      [] f = "InverseGamma" /\ l = 2       -> << <<R(4), R(6), Q(7, 2)>>,      <<One, Half, R(-3)>>,   <<R(3), Q(1, 4), R(5)>> >>
      [] f = "Cauchy" /\ l = 1             -> << <<R(1), R(-2), Zero>>,        <<R(2), Half, One>> >>
      [] f = "Cauchy" /\ l = 2             -> << <<R(-3), Half, R(4)>>,        <<Q(1, 4), R(3), R(2)>> >>
      [] f = "ModifiedHalfNormal" /\ l = 1 -> << <<R(2), R(2), R(2)>>,         <<R(3), R(3), R(3)>>,   <<R(-1), R(-1), R(-1)>> >>
      [] f = "ModifiedHalfNormal" /\ l = 2 -> << <<Half, Half, Half>>,         <<One, One, One>>,      <<R(2), R(2), R(2)>> >>

WiringConfigs ==
    { [kind |-> "wiring", family |-> f, dim |-> d, pform |-> pf, N |-> N, lat |-> l] :
        f \in Families, d \in 1..3, pf \in {"scalar", "vector", "mixed"}, N \in {1, 2, 3}, l \in {1, 2} }
WiringValid(k) ==
    /\ (k.dim = 1 => k.pform = "scalar")
    /\ (k.family = "ModifiedHalfNormal" => k.dim = 1)

\* how parameter q (position in WNames) is passed and what component i of it is
PassedAs(k, q) == IF k.pform = "scalar" \/ (k.pform = "mixed" /\ q > 1) THEN "scalar" ELSE "vector"
\* (configurations of the Reassign facet carry the optional field lats: the lattice of every single parameter)
LatOf(k, q)    == IF "lats" \in DOMAIN k THEN k.lats[q] ELSE k.lat
Theta(k, q)    == LET v == WLat(k.family, LatOf(k, q))[q]
                  IN F([i \in 1..k.dim |-> IF PassedAs(k, q) = "scalar" THEN v[1] ELSE v[i]])

\* scripted base values: entry (j, i) of the (N x dim) base array (draw j, component i); all distinct
TokMul == 10
TokDen == 64
Tok(j, i) == Q(TokMul * j + i, TokDen)
BaseZ(k)  == F([j \in 1..k.N |-> [i \in 1..k.dim |-> Tok(j, i)]])

\* the base request: generator, arguments (per component), size (rows = draws, columns = components)
BaseGen(f) ==
    CASE f = "Normal" -> "normal" [] f = "Gamma" -> "gamma" [] f = "Laplace" -> "laplace" [] f = "Uniform" -> "uniform"
      [] f = "Beta" -> "scipy.beta" [] f = "InverseGamma" -> "scipy.invgamma" [] f = "Cauchy" -> "scipy.cauchy"
      [] f = "ModifiedHalfNormal" -> "mhn"
Const(k, q) == F([i \in 1..k.dim |-> q])
BaseArgs(k) ==
    LET f == k.family t(q) == Theta(k, q)
    IN CASE f = "Normal"       -> << [name |-> "loc", val |-> t(1)], [name |-> "scale", val |-> t(2)] >>
         [] f = "Gamma"        -> << [name |-> "shape", val |-> t(1)],
                                     [name |-> "scale", val |-> F([i \in 1..k.dim |-> RInv(t(2)[i])])] >>      \* scale = 1 / rate
         [] f = "Laplace"      -> << [name |-> "loc", val |-> t(1)], [name |-> "scale", val |-> t(2)] >>
         [] f = "Uniform"      -> << [name |-> "low", val |-> t(1)], [name |-> "high", val |-> t(2)] >>
         [] f = "Beta"         -> << [name |-> "a", val |-> t(1)], [name |-> "b", val |-> t(2)],
                                     [name |-> "loc", val |-> Const(k, Zero)], [name |-> "scale", val |-> Const(k, One)] >>
         [] f = "InverseGamma" -> << [name |-> "a", val |-> t(1)], [name |-> "loc", val |-> t(2)], [name |-> "scale", val |-> t(3)] >>
         [] f = "Cauchy"       -> << [name |-> "loc", val |-> t(1)], [name |-> "scale", val |-> t(2)] >>
         [] f = "ModifiedHalfNormal" -> << [name |-> "alpha", val |-> t(1)], [name |-> "beta", val |-> t(2)], [name |-> "gamma", val |-> t(3)] >>

\* value of result entry (component i, draw j) given the scripted base value z = Z[j][i]
Post(k, i, z) ==
    CASE k.family = "Normal"  -> RAdd(Theta(k, 1)[i], RMul(Theta(k, 2)[i], z))                              \* loc + scale z
      [] k.family = "Uniform" -> RAdd(Theta(k, 1)[i], RMul(RSub(Theta(k, 2)[i], Theta(k, 1)[i]), z))        \* low + (high - low) u
      [] OTHER                -> z                                                                          \* the base draw as is
WResult(k) == LET Z == BaseZ(k) IN F([i \in 1..k.dim |-> [j \in 1..k.N |-> Post(k, i, Z[j][i])]])

WiringLaw ==
    c.kind = "wiring" =>
        LET Z == BaseZ(c) Res == WResult(c) A == BaseArgs(c)
        IN /\ Len(Res) = c.dim /\ \A i \in 1..c.dim : Len(Res[i]) = c.N                    \* (dim, N)
           /\ Cardinality({Res[i][j] : i \in 1..c.dim, j \in 1..c.N}) = c.dim * c.N        \* a transposition is observable
           /\ (c.family = "Gamma" => \A i \in 1..c.dim : RMul(A[2].val[i], Theta(c, 2)[i]) = One)       \* scale * rate = 1
           /\ (c.family = "Gamma" => \E i \in 1..c.dim : A[2].val[i] # Theta(c, 2)[i])                  \* scale/rate mix-up observable
           /\ (c.family = "Uniform" => \A i \in 1..c.dim : RLt(Theta(c, 1)[i], Theta(c, 2)[i]))
           /\ (c.family \in {"Normal", "Laplace", "Cauchy", "InverseGamma"} => \A i \in 1..c.dim : RLt(Zero, A[Len(A)].val[i]))

\* ===========================================================================
\*  Case emission (facets 1 and 2)
\* ===========================================================================
CaseConfigs ==
    {k \in GaussConfigs : GaussValid(k)} \cup BigConfigs \cup {k \in GmrfConfigs : GmrfValid(k)}
        \cup {k \in WiringConfigs : WiringValid(k)} \cup {k \in FsConfigs : FsValid(k)}

GaussRec(k) ==
    IF IsMatShape(k.shape)
    THEN LET G == F(GenMat(k)) X == F(DataMat(k.form, G)) P == F(PrecOfMat(k.form, X))
         IN [kind |-> "gauss", wrap |-> k.wrap, form |-> k.form, shape |-> k.shape, tri |-> k.tri,
                dim |-> k.dim, scaled |-> k.scaled, mform |-> k.mform, mean |-> GaussMean(k), data |-> X, prec |-> P,
                exact |-> (k.form = "sqrtprec"), L |-> LOfMat(k.form, X, G)]
    ELSE LET g == GenDiag(k) x == DataDiag(k.form, g)
         IN [kind |-> "gauss", wrap |-> k.wrap, form |-> k.form, shape |-> k.shape, tri |-> k.tri,
                dim |-> k.dim, scaled |-> k.scaled, mform |-> k.mform, mean |-> GaussMean(k), data |-> x,
                prec |-> MDiag(PrecOfDiag(k.form, x)), exact |-> (k.form = "sqrtprec"), L |-> MDiag(LOfDiag(k.form, x, g))]
EmitGauss(k) == PrintT("@@CASE " \o ToJson(GaussRec(k)) \o " @@END")

EmitBig(k) ==
    LET g == BigGen(k) x == DataDiag(k.form, g)
    IN PrintT("@@CASE " \o ToJson([kind |-> "bigdiag", form |-> k.form, shape |-> k.shape, dim |-> k.dim, data |-> x,
            precdiag |-> PrecOfDiag(k.form, x), ldiag |-> F([i \in 1..k.dim |-> RInv(g[i])])]) \o " @@END")

GmrfRec(k) ==
    LET D == DOp(OpCfg(k)) P0 == IMM(IT(D), D)
        B == IF k.order = 0 THEN <<>> ELSE NullBasis(OpCfg(k))
    IN [kind |-> "gmrf", pd |-> k.pd, n |-> k.n, bc |-> k.bc, order |-> k.order, wm |-> k.wm,
            sd |-> k.sd, delta |-> k.sd * k.sd, dim |-> GDim(k), mean |-> GMean(k), D |-> D, P0 |-> P0,
            rank |-> GDim(k) - Len(B), nullbasis |-> B, design |-> Design(k)]
EmitGmrf(k) == PrintT("@@CASE " \o ToJson(GmrfRec(k)) \o " @@END")

WiringRec(k) ==
    [kind |-> "wiring", family |-> k.family, dim |-> k.dim, pform |-> k.pform, N |-> k.N, lat |-> k.lat,
            params |-> [q \in 1..Len(WNames(k.family)) |-> [name |-> WNames(k.family)[q], passed |-> PassedAs(k, q), val |-> Theta(k, q)]],
            gen |-> BaseGen(k.family), args |-> BaseArgs(k), rows |-> k.N, cols |-> k.dim,
            Z |-> BaseZ(k), result |-> WResult(k)]
EmitWiring(k) == PrintT("@@CASE " \o ToJson(WiringRec(k)) \o " @@END")

EmitCase ==
    (Emit /\ Facet = "cases") =>
        CASE c.kind = "gauss"   -> EmitGauss(c)
          [] c.kind = "gfs"     -> EmitFs(c)
          [] c.kind = "bigdiag" -> EmitBig(c)
          [] c.kind = "gmrf"    -> EmitGmrf(c)
          [] c.kind = "wiring"  -> EmitWiring(c)
          [] OTHER              -> TRUE

\* ===========================================================================
\*  Facet 3 : stream state machine
\* ===========================================================================
\* A stream position is the sequence of requests <<d, N>> served since the generator was seeded.  r1 and r2 are two
\* generator objects of the same kind created from the same seed (equal positions = equal generator states);
\* "gen" is a generator of another kind.  "none" means no generator was given: the global stream is used.
IsCond(d)  == d = "dc"
SameKind(r) == IF r \in {"r1", "r2"} THEN "twin" ELSE r

StreamInit ==
    /\ c = [kind |-> "none"]
    /\ gpos = <<>>
    /\ lpos = [r \in StreamRngs |-> <<>>]
    /\ hist = <<>>

\* the stream a request is served from
Used(r) == IF r = "none" \/ Dev = "ignores_rng" THEN "global" ELSE r
StateOf(u) == IF u = "global" THEN <<"global", gpos>> ELSE <<SameKind(u), lpos[u]>>

Sample(d, N, r) ==
    /\ Len(hist) < MaxSteps
    /\ IF IsCond(d)
       THEN /\ hist' = Append(hist, [act |-> "sample", d |-> d, N |-> N, rng |-> r, out |-> "error"])      \* error step
            /\ UNCHANGED <<c, gpos, lpos>>
       ELSE LET u == Used(r)
            IN /\ gpos' = IF u = "global" THEN Append(gpos, <<d, N>>) ELSE gpos
               /\ lpos' = IF u \in StreamRngs THEN [lpos EXCEPT ![u] = Append(@, <<d, N>>)] ELSE lpos
               /\ hist' = Append(hist, [act |-> "sample", d |-> d, N |-> N, rng |-> r, out |-> "ok",
                                        ret   |-> IF N = 1 THEN "array" ELSE "samples", cols |-> N,
                                        given |-> <<d, N, StateOf(IF r = "none" THEN "global" ELSE r)>>,   \* request + state of the generator handed in
                                        draw  |-> <<d, N, StateOf(u)>>,                                     \* request + state actually consumed
                                        gmoved |-> (u = "global")])
               /\ UNCHANGED c

Rewind(r) ==
    /\ Len(hist) < MaxSteps
    /\ lpos[r] # <<>>
    /\ lpos' = [lpos EXCEPT ![r] = <<>>]
    /\ hist' = Append(hist, [act |-> "rewind", rng |-> r])
    /\ UNCHANGED <<c, gpos>>

StreamNext ==
    \/ \E d \in StreamDists, N \in StreamNs, r \in StreamRngs \cup {"none"} : Sample(d, N, r)
    \/ \E r \in StreamRngs : Rewind(r)

Samples(h) == {i \in 1..Len(h) : h[i].act = "sample"}
Oks(h)     == {i \in Samples(h) : h[i].out = "ok"}

\* rng given => the global stream does not move
GlobalUntouched == \A i \in Oks(hist) : hist[i].rng # "none" => ~hist[i].gmoved
GivenRngLeavesGlobal ==
    [][(Len(hist') > Len(hist) /\ hist'[Len(hist')].act = "sample" /\ hist'[Len(hist')].rng # "none") => gpos' = gpos]_svars
\* the result is a function of (dist, N, state of the generator handed in)
Deterministic == \A i, j \in Oks(hist) : hist[i].given = hist[j].given => hist[i].draw = hist[j].draw
\* one draw -> array with the geometry of the distribution; N draws -> sample collection with N columns
ReturnShape == \A i \in Oks(hist) : (hist[i].N = 1 <=> hist[i].ret = "array") /\ hist[i].cols = hist[i].N
\* a conditional distribution refuses, and nothing is consumed
CondRefuses == \A i \in Samples(hist) : IsCond(hist[i].d) <=> hist[i].out = "error"
ErrorConsumesNothing ==
    [][(Len(hist') > Len(hist) /\ hist'[Len(hist')].act = "sample" /\ hist'[Len(hist')].out = "error") => UNCHANGED <<gpos, lpos>>]_svars

\* state constraint of the deep configuration: only requests served by a given generator (long equal-state chains)
DeepOnlyLocal == \A i \in Samples(hist) : hist[i].rng # "none"

EmitBehaviour ==
    (Emit /\ Facet = "stream" /\ Len(hist) = MaxSteps) => PrintT("@@CASE " \o ToJson([kind |-> "behaviour", steps |-> hist]) \o " @@END")

\* ===========================================================================
\*  Facet 4 : Reassign - ONE distribution object, parameters replaced through the public attributes, then sampled
\* ===========================================================================
\* A draw is a function of the CURRENT parameters of the object (and of the generator): whatever an object derives from its
\* parameters for sampling (frozen base generators, factorisations, square roots, eigenvalues ...) must not outlive them.
\*   state  c = a configuration k of facets 1a / 1b / 2  @@  [re |-> [done, cached]]
\*            done    assignment units carried out so far, in order
\*                      wiring : unit q = the q-th parameter of the family  (second value: the other lattice of WLat)
\*                      gauss  : unit 1 = mean (second value MuV2), unit 2 = the matrix-valued input of the form (second value: the
\*                               other scaling and the next triangle - upper -> lower -> full -> upper - of the generator)
\*                      gmrf   : unit 1 = mean, unit 2 = precision (second value: the other delta)
\*            cached  <<>> or <<set of units that were assigned when the object last derived what it keeps>>
\*   ReSampEvaluate / ReSampAssign(u): as in Families.tla; orders = cyclic rotations of the units.
\* ReSampFresh: in every reachable state the base request / result (wiring) resp. mean and precision (affine law) the object
\* samples with are those of a freshly built object with the current parameters.  Named deviation Dev = "stale_after_assign"
\* (an assignment keeps what was derived before) must be refuted.  Every terminal state emits the start configuration and the
\* complete expected case after every assignment of the order.
ReSampUnits(k) ==
    CASE k.kind = "wiring" -> [q \in 1..Len(WNames(k.family)) |-> <<WNames(k.family)[q]>>]
      [] k.kind = "gauss"  -> << <<"mean">>, <<IF k.wrap = "lognormal" THEN "cov" ELSE k.form>> >>
      [] k.kind = "gmrf"   -> << <<"mean">>, <<"prec">> >>
NextTri(t) == CASE t = "upper" -> "lower" [] t = "lower" -> "full" [] t = "full" -> "upper" [] OTHER -> t
\* the configuration after the units of S have been assigned
ReSampMix(k, S) ==
    CASE k.kind = "wiring" ->
           [kind |-> "wiring", family |-> k.family, dim |-> k.dim, pform |-> k.pform, N |-> k.N, lat |-> k.lat,
            lats |-> [q \in 1..Len(WNames(k.family)) |-> IF q \in S THEN 3 - k.lat ELSE k.lat]]
      [] k.kind = "gauss" ->
           [kind |-> "gauss", wrap |-> k.wrap, form |-> k.form, shape |-> k.shape, dim |-> k.dim, mform |-> k.mform,
            tri |-> IF 2 \in S THEN NextTri(k.tri) ELSE k.tri, scaled |-> IF 2 \in S THEN ~k.scaled ELSE k.scaled,
            mu |-> IF 1 \in S THEN 2 ELSE 1]
      [] k.kind = "gmrf" ->
           [kind |-> "gmrf", pd |-> k.pd, n |-> k.n, bc |-> k.bc, order |-> k.order, wm |-> k.wm,
            sd |-> IF 2 \in S THEN 3 - k.sd ELSE k.sd, mu |-> IF 1 \in S THEN 2 ELSE 1]
ReSampRec(k) == CASE k.kind = "wiring" -> WiringRec(k) [] k.kind = "gauss" -> GaussRec(k) [] k.kind = "gmrf" -> GmrfRec(k)
\* what a draw depends on
ReSampObs(k) ==
    CASE k.kind = "wiring" -> [args |-> BaseArgs(k), result |-> WResult(k)]
      [] k.kind = "gauss"  -> LET r == GaussRec(k) IN [mean |-> r.mean, prec |-> r.prec]
      [] k.kind = "gmrf"   -> [mean |-> GMean(k), delta |-> k.sd * k.sd]
ReSampBase(s) == [f \in (DOMAIN s) \ {"re"} |-> s[f]]
ReSampStart ==
    {k \in GaussConfigs : GaussValid(k) /\ ~k.scaled}
      \cup {k \in GmrfConfigs : GmrfValid(k) /\ k.sd = 1 /\ GDim(k) <= 4}
      \cup {k \in WiringConfigs : WiringValid(k) /\ k.N = 2}
ReSampDoneSet(s) == {s.re.done[j] : j \in 1..Len(s.re.done)}
ReSampAfter(s, n) == ReSampMix(ReSampBase(s), {s.re.done[j] : j \in 1..n})
ReSampCur(s) == ReSampAfter(s, Len(s.re.done))
ReSampMay(s, u) ==
    /\ u \notin ReSampDoneSet(s)
    /\ (IF s.re.done = <<>> THEN TRUE ELSE u = (s.re.done[Len(s.re.done)] % Len(ReSampUnits(s))) + 1)
ReSampEvaluate ==
    /\ c.re.cached = <<>>
    /\ c' = [c EXCEPT !.re.cached = <<ReSampDoneSet(c)>>]
ReSampAssign(u) ==
    /\ ReSampMay(c, u)
    /\ c' = [c EXCEPT !.re.done = Append(@, u), !.re.cached = IF Dev = "stale_after_assign" THEN @ ELSE <<>>]
ReSampNext ==
    /\ (ReSampEvaluate \/ \E u \in 1..Len(ReSampUnits(c)) : ReSampAssign(u))
    /\ UNCHANGED <<gpos, lpos, hist>>
ReSampFresh ==
    (Facet = "reassign" /\ c.re.cached # <<>> /\ c.re.cached[1] # ReSampDoneSet(c)) =>
        ReSampObs(ReSampMix(ReSampBase(c), c.re.cached[1])) = ReSampObs(ReSampCur(c))
\* non-vacuity: every single unit changes what a draw depends on
ReSampDiffers ==
    (Facet = "reassign" /\ Len(c.re.done) = 1) => ReSampObs(ReSampCur(c)) # ReSampObs(ReSampMix(ReSampBase(c), {}))
\* the mixed configurations are configurations of the facets (their laws hold: checked by the invariants of facet 1 / 2 on c)
EmitReassign ==
    (Emit /\ Facet = "reassign" /\ Len(c.re.done) = Len(ReSampUnits(c)) /\ c.re.cached = <<>>) =>
        PrintT("@@CASE " \o ToJson(
            [kind |-> "reassign", sub |-> c.kind, order |-> c.re.done,
             from |-> ReSampRec(ReSampMix(ReSampBase(c), {})),
             trail |-> [n \in 1..Len(c.re.done) |->
                          [unit |-> c.re.done[n], assign |-> ReSampUnits(c)[c.re.done[n]], expect |-> ReSampRec(ReSampAfter(c, n))]]]) \o " @@END")
\* the laws of facets 1 and 2 on the CURRENT configuration of a Reassign state (c itself is the start configuration)
ReSampLaws ==
    Facet = "reassign" =>
        LET k == ReSampCur(c)
        IN CASE k.kind = "wiring" -> (k.family = "Uniform" => \A i \in 1..k.dim : RLt(Theta(k, 1)[i], Theta(k, 2)[i]))
                                       /\ (k.family \in {"Normal", "Laplace", "Cauchy", "InverseGamma"} =>
                                              \A i \in 1..k.dim : RLt(Zero, BaseArgs(k)[Len(BaseArgs(k))].val[i]))
             [] k.kind = "gauss" /\ IsMatShape(k.shape) ->
                   LET G == F(GenMat(k)) X == F(DataMat(k.form, G)) P == F(PrecOfMat(k.form, X)) L == F(LOfMat(k.form, X, G))
                   IN P = MM(MT(G), G) /\ MSym(P) /\ AffineLawHolds(L, P)
             [] OTHER -> TRUE

\* ===========================================================================
\*  Facet 5 : Siblings - TWO conditioned copies of ONE conditional distribution, alive at the same time, sampled in turn
\* ===========================================================================
\* A conditional distribution O (some parameters are callables of conditioning variables) is conditioned twice,
\*     A = O(values of configuration 1),   B = O(values of configuration 2),
\* and both results are kept.  Conditioning copies O shallowly, so whatever a copy derives from its parameters for sampling
\* (frozen base generators, factorisations, square roots, scaled operators ...) must belong to the copy that derived it:
\* sampling A, B, A again - in any interleaving with the two conditionings and with a use of the unconditioned original O
\* (which refuses to sample: CondRefuses of facet 3) - every draw is the one of the sampled copy's OWN configuration.
\* The pair (configuration 1, configuration 2) is a pair of facet 4: `from` and `trail[n].expect` of an emitted Reassign case
\* (the units assigned up to n are the callables of O); the exact expectation of each is the complete case emitted there.
\* This facet supplies the BEHAVIOURS: every interleaving of Condition(A), Condition(B), MaxSteps samples, at most one use of O.
\*   state  c = [kind |-> "sib", live, der, shared, last, ops, ns, no]
\*     live    the conditioned copies made so far
\*     der     per copy: the configuration ("A" | "B") whose derived quantities it samples with, or "none"
\*     shared  (deviation only) ONE slot of derived quantities that all copies of O see
\*     last    <<>> or <<sampled copy, configuration the draw was computed from>>
\* SibOwnDraw: the draw of a copy is computed from its own configuration.  Named deviation Dev = "shared_derived" (the copies
\* share the slot: a conditioning empties it - the setters run -, the first draw afterwards fills it, later draws of either copy
\* use it) must be refuted: Condition A, Condition B, Sample A, Sample B.
SibObjs == {"A", "B"}
SibShares == Dev = "shared_derived"
SibInit ==
    /\ c = [kind |-> "sib", live |-> {}, der |-> [w \in SibObjs |-> "none"], shared |-> "none", last |-> <<>>, ops |-> <<>>,
            ns |-> 0, no |-> 0]
    /\ gpos = <<>> /\ lpos = [r \in StreamRngs |-> <<>>] /\ hist = <<>>
SibCondition(w) ==
    /\ w \notin c.live
    /\ c' = [c EXCEPT !.live = @ \cup {w}, !.der[w] = "none", !.last = <<>>, !.shared = "none",
                      !.ops = Append(@, [op |-> "condition", who |-> w])]
SibSample(w) ==
    /\ w \in c.live
    /\ c.ns < MaxSteps
    /\ LET used == IF SibShares /\ c.shared # "none" THEN c.shared ELSE w
       IN c' = [c EXCEPT !.der[w] = used, !.last = <<w, used>>, !.ns = @ + 1, !.shared = IF SibShares THEN used ELSE @,
                         !.ops = Append(@, [op |-> "sample", who |-> w])]
SibOriginal ==                     \* the unconditioned original is used: sampling attempted (refused), conditioning variables listed
    /\ c.no < 1
    /\ c' = [c EXCEPT !.no = @ + 1, !.last = <<>>, !.ops = Append(@, [op |-> "original", who |-> "O"])]
SibNext ==
    /\ ((\E w \in SibObjs : SibCondition(w) \/ SibSample(w)) \/ SibOriginal)
    /\ UNCHANGED <<gpos, lpos, hist>>
SibOwnDraw == (Facet = "siblings" /\ c.last # <<>>) => c.last[2] = c.last[1]
SibDerivedOwn == Facet = "siblings" => \A w \in SibObjs : c.der[w] \in {"none", w}
SibTerminal == c.live = SibObjs /\ c.ns = MaxSteps
EmitSiblings ==
    (Emit /\ Facet = "siblings" /\ SibTerminal) => PrintT("@@CASE " \o ToJson([kind |-> "sibwalk", ops |-> c.ops]) \o " @@END")

\* ===========================================================================
\*  Facet 6 : FirstObservable - after a public setter, ANY observable may be the first one used
\* ===========================================================================
\* Some objects do not sample with their own parameters directly but with something made from them: an inner distribution
\* (Lognormal wraps a Gaussian), a frozen base generator, a factorisation.  Bringing that inner state up to date may happen
\* lazily - but then it has to happen in EVERY observable that uses it: after `obj.<parameter> = value` the user may call
\* sample, logpdf or gradient first, in any order, and the draw is a function of the CURRENT parameters in each case
\* ("samples follow the density the same object reports").
\*   state  c = [kind |-> "fo", done, inner, last, ops]
\*     done    number of assignment units carried out so far (the units and their order are those of a Reassign case of facet 4:
\*             the k-th "assign" of a walk is trail[k] of the case, the expected case after it is trail[k].expect)
\*     inner   number of assignments the inner / derived state reflects
\*     last    <<>> or <<assignments the answer was computed from, assignments carried out when it was computed>>
\*   FoAssign        the next unit of the order is assigned through its public attribute (nothing is synchronised yet)
\*   FoObserve(o)    o in {sample, logpdf, gradient}: the observable synchronises the inner state, then answers from it
\* FoUsesCurrent: every answer is computed from all assignments made so far.  Named deviation Dev = "sync_in_density_only"
\* (Sampling.dev.sync_in_density_only.cfg): `sample` answers from the inner state as it is - refuted by Assign . Sample.
\* Every behaviour of at most MaxSteps operations that ends in a sample after an assignment is emitted; the replay drives the
\* behaviours on real objects of every Reassign case (wiring families, Gaussian, Lognormal, GMRF) and judges EVERY sample by the
\* affine read-off / wiring table of the expected case, without evaluating anything the walk does not contain.
FoObs == {"sample", "logpdf", "gradient"}
MaxFoUnits == 3
FoSyncs(o) == ~(Dev = "sync_in_density_only" /\ o = "sample")
FoInit ==
    /\ c = [kind |-> "fo", done |-> 0, inner |-> 0, last |-> <<>>, ops |-> <<>>]
    /\ gpos = <<>> /\ lpos = [r \in StreamRngs |-> <<>>] /\ hist = <<>>
FoAssign ==
    /\ c.done < MaxFoUnits /\ Len(c.ops) < MaxSteps
    /\ c' = [c EXCEPT !.done = @ + 1, !.last = <<>>, !.ops = Append(@, [op |-> "assign"])]
FoObserve(o) ==
    /\ Len(c.ops) < MaxSteps
    /\ LET used == IF FoSyncs(o) THEN c.done ELSE c.inner
       IN c' = [c EXCEPT !.inner = used, !.last = <<used, c.done>>, !.ops = Append(@, [op |-> "observe", obs |-> o])]
FoNext ==
    /\ (FoAssign \/ \E o \in FoObs : FoObserve(o))
    /\ UNCHANGED <<gpos, lpos, hist>>
FoUsesCurrent == (Facet = "firstobs" /\ c.last # <<>>) => c.last[1] = c.last[2]
FoWorth == /\ Len(c.ops) >= 2
           /\ c.ops[Len(c.ops)].op = "observe" /\ c.ops[Len(c.ops)].obs = "sample"
           /\ \E i \in 1..(Len(c.ops) - 1) : c.ops[i].op = "assign"
EmitFirstObs ==
    (Emit /\ Facet = "firstobs" /\ FoWorth) => PrintT("@@CASE " \o ToJson([kind |-> "fowalk", ops |-> c.ops]) \o " @@END")

\* ===========================================================================
\*  Facet 7 : Counts - the sample count N across the block sizes an implementation may work with internally
\* ===========================================================================
\* sample(N) returns N draws, one per column: column j is the image of ITS OWN j-th noise column (Gaussian-type objects:
\* mean + L e_j; univariate families: component i of draw j = transformed base value (j, i)) - for EVERY N, whatever block size
\* B an implementation uses internally to bound its work space (right-hand sides handed to a solver at a time, chunks of a
\* base generator ...).  N and B are dimensions of the configuration; the result is modelled as the column map
\*     column j  |->  index of the noise column it was computed from   ("own" = j itself, "raw" = left as the noise),
\* kept compactly as a sequence of segments [lo, hi, src] (2500-element functions are never built).
\*   state  c = [kind |-> "count", rep, N, B, segs, fin]
\*     rep   a configuration of facet 1a / 1b / 2 (the object that is sampled)
\*     segs  the columns computed so far;  fin  the call has returned
\*   CountBlock    the next block of min(B, N - done) columns is computed, each column from its own noise column
\*   CountFinish   nothing is left to compute: the call returns (columns never computed are what the array was
\*                 initialised with: the raw noise)
\* ColumnsIndependent: when the call returns the column map is the identity on 1..N (segments contiguous from 1 to N, all
\* "own"; pointwise at the columns next to every block boundary).  Named deviation Dev = "last_block_skipped"
\* (Sampling.dev.last_block_skipped.cfg): once N > B only whole blocks are computed, the last N mod B columns stay raw -
\* refuted by N = 1001, B = 1000.  The terminal states emit: the representative (complete case of facet 1a, the constructor
\* data of a field, the compact wiring table), N, the column map, and the rule of the scripted noise (column j = w_j times the
\* (j mod M)-th unit vector, weights pairwise distinct, a few zero columns), so that every column is checkable by itself.
CountDim(s) == CASE s = "scalar" -> 2 [] s = "vector" -> 3 [] s = "diag" -> 2 [] s = "spdiag" -> 3 [] s = "dense" -> 2 [] s = "sparse" -> 3
CountReps ==
    {k \in GaussConfigs : GaussValid(k) /\ (CountWide \/ (~k.scaled /\ k.mform = "vector" /\ k.dim = CountDim(k.shape)))}
      \cup {k \in GmrfConfigs : GmrfValid(k) /\ k.wm = 1 /\ (CountWide \/ (k.sd = 2 /\ k.n = (IF k.pd = 1 THEN MaxN1 ELSE MaxN2)))}
      \cup {k \in WiringConfigs : WiringValid(k) /\ k.N = 1
                /\ (CountWide \/ (k.lat = 1 /\ k.dim = (IF k.family = "ModifiedHalfNormal" THEN 1 ELSE 3)
                                              /\ k.pform = (IF k.family = "ModifiedHalfNormal" THEN "scalar" ELSE "mixed")))}
CountInit ==
    /\ c \in {[kind |-> "count", rep |-> k, N |-> n, B |-> b, segs |-> <<>>, fin |-> FALSE] : k \in CountReps, n \in CountNs, b \in CountBlocks}
    /\ gpos = <<>> /\ lpos = [r \in StreamRngs |-> <<>>] /\ hist = <<>>
CountSkips == Dev = "last_block_skipped"
CountDone(s) == IF s.segs = <<>> THEN 0 ELSE s.segs[Len(s.segs)].hi
\* is another block computed?
CountMore(s) == LET rem == s.N - CountDone(s) IN rem > 0 /\ ((CountSkips /\ s.N > s.B) => rem >= s.B)
CountBlock ==
    /\ ~c.fin /\ CountMore(c)
    /\ LET done == CountDone(c)
           rem  == c.N - done
           len  == IF rem < c.B THEN rem ELSE c.B
       IN c' = [c EXCEPT !.segs = Append(@, [lo |-> done + 1, hi |-> done + len, src |-> "own"])]
CountFinish ==
    /\ ~c.fin /\ ~CountMore(c)
    /\ LET done == CountDone(c)
       IN c' = [c EXCEPT !.fin = TRUE,
                         !.segs = IF done < c.N THEN Append(@, [lo |-> done + 1, hi |-> c.N, src |-> "raw"]) ELSE @]
CountNext == (CountBlock \/ CountFinish) /\ UNCHANGED <<gpos, lpos, hist>>

\* the column map at column j: j ("own"), 0 ("raw" / not covered)
CountSrcOf(s, j) ==
    LET S == {i \in 1..Len(s.segs) : s.segs[i].lo <= j /\ j <= s.segs[i].hi}
    IN IF S = {} THEN 0 ELSE LET i == CHOOSE i \in S : TRUE IN IF s.segs[i].src = "own" THEN j ELSE 0
CountProbe(s) == {j \in {1, 2, 3, s.B - 1, s.B, s.B + 1, (2 * s.B) - 1, 2 * s.B, (2 * s.B) + 1, s.N - 1, s.N} : 1 <= j /\ j <= s.N}
ColumnsIndependent ==
    (Facet = "counts" /\ c.fin) =>
        /\ Len(c.segs) >= 1 /\ c.segs[1].lo = 1 /\ c.segs[Len(c.segs)].hi = c.N
        /\ \A i \in 1..Len(c.segs) : c.segs[i].src = "own" /\ c.segs[i].lo <= c.segs[i].hi
        /\ \A i \in 1..(Len(c.segs) - 1) : c.segs[i + 1].lo = c.segs[i].hi + 1
        /\ \A j \in CountProbe(c) : CountSrcOf(c, j) = j
\* non-vacuity of the bounded instance: every block size has a count below it and a count above it that is not a multiple
ASSUME Facet = "counts" => \A b \in CountBlocks : (\E n \in CountNs : n < b) /\ (\E n \in CountNs : n > b /\ n % b # 0)

\* scripted noise of the replay: noise column j (1-based) = CountW(j) x unit vector number ((j - 1) mod M) of the stacked noise
CountWDen == 1024
CountZMod == 211
CountZRes == 5
CountWNum(j) == IF j % CountZMod = CountZRes THEN 0 ELSE (IF j % 2 = 0 THEN -1 ELSE 1) * (CountWDen + j)      \* w_j = CountWNum(j) / CountWDen
CountMaxN == CHOOSE n \in CountNs : \A m \in CountNs : m <= n
ASSUME Facet = "counts" =>
          LET nz == {j \in 1..CountMaxN : CountWNum(j) # 0}
          IN /\ Cardinality({CountWNum(j) : j \in nz}) = Cardinality(nz)           \* every column is distinguishable by its weight
             /\ (CountMaxN >= CountZRes => nz # 1..CountMaxN)                       \* some columns are zero: the bare mean

\* compact wiring table: Z[j][i] = (TokMul j + i) / TokDen,  result[i][j] = a_i + b_i Z[j][i]  with post[i] = <<a_i, b_i>>
CountPost(k, i) == <<Post(k, i, Zero), RSub(Post(k, i, One), Post(k, i, Zero))>>
CountWiringRec(k, N) ==
    LET kk == [k EXCEPT !.N = N]
    IN [kind |-> "wiring", family |-> k.family, dim |-> k.dim, pform |-> k.pform, N |-> N, lat |-> k.lat,
        params |-> [q \in 1..Len(WNames(k.family)) |-> [name |-> WNames(k.family)[q], passed |-> PassedAs(k, q), val |-> Theta(k, q)]],
        gen |-> BaseGen(k.family), args |-> BaseArgs(kk), rows |-> N, cols |-> k.dim,
        tok |-> [mul |-> TokMul, den |-> TokDen], post |-> [i \in 1..k.dim |-> CountPost(kk, i)]]
\* the compact table IS the table of facet 2 (entry by entry for the first three draws and the last one), tokens pairwise distinct
CountWiringAffine ==
    (Facet = "counts" /\ c.rep.kind = "wiring") =>
        LET kk == [c.rep EXCEPT !.N = c.N]
        IN /\ c.rep.dim < TokMul
           /\ \A i \in 1..c.rep.dim : \A j \in {j \in {1, 2, 3, c.N} : j <= c.N} :
                  LET ab == CountPost(kk, i) IN Post(kk, i, Tok(j, i)) = RAdd(ab[1], RMul(ab[2], Tok(j, i)))
           /\ (c.N <= 3 => WResult(kk) = F([i \in 1..c.rep.dim |-> [j \in 1..c.N |->
                                LET ab == CountPost(kk, i) IN RAdd(ab[1], RMul(ab[2], Tok(j, i)))]]))

RECURSIVE CountMerge(_)
CountMerge(s) ==
    IF Len(s) <= 1 THEN s
    ELSE LET r == CountMerge(Tail(s))
         IN IF Head(s).src = Head(r).src /\ Head(s).hi + 1 = Head(r).lo
            THEN <<[lo |-> Head(s).lo, hi |-> Head(r).hi, src |-> Head(s).src]>> \o Tail(r)
            ELSE <<Head(s)>> \o r
CountRepRec(k, N) ==
    CASE k.kind = "gauss"  -> GaussRec(k)
      [] k.kind = "gmrf"   -> [kind |-> "gmrf", pd |-> k.pd, n |-> k.n, bc |-> k.bc, order |-> k.order, wm |-> k.wm, sd |-> k.sd,
                               delta |-> k.sd * k.sd, dim |-> GDim(k), mean |-> GMean(k)]
      [] k.kind = "wiring" -> CountWiringRec(k, N)
CountBMin == CHOOSE b \in CountBlocks : \A b2 \in CountBlocks : b <= b2
\* the expected values do not depend on B (that IS the statement): emitted once, from the run with the smallest block size
EmitCounts ==
    (Emit /\ Facet = "counts" /\ c.fin /\ c.B = CountBMin) =>
        PrintT("@@CASE " \o ToJson(
            [kind |-> "count", sub |-> c.rep.kind, N |-> c.N, colmap |-> CountMerge(c.segs),
             noise |-> [den |-> CountWDen, zmod |-> CountZMod, zres |-> CountZRes,
                        probe |-> {<<j, CountWNum(j)>> : j \in CountProbe(c) \cup ({CountZRes, CountZRes + CountZMod} \cap 1..c.N)}],
             rep |-> CountRepRec(c.rep, c.N)]) \o " @@END")

\* ===========================================================================
SInit ==
    IF Facet = "cases"
    THEN /\ c \in CaseConfigs
         /\ gpos = <<>> /\ lpos = [r \in StreamRngs |-> <<>>] /\ hist = <<>>
    ELSE IF Facet = "reassign"
    THEN /\ c \in {k @@ [re |-> [done |-> <<>>, cached |-> <<>>]] : k \in ReSampStart}
         /\ gpos = <<>> /\ lpos = [r \in StreamRngs |-> <<>>] /\ hist = <<>>
    ELSE IF Facet = "siblings" THEN SibInit
    ELSE IF Facet = "firstobs" THEN FoInit
    ELSE IF Facet = "counts" THEN CountInit
    ELSE StreamInit
SNext == IF Facet = "cases" THEN UNCHANGED svars ELSE IF Facet = "reassign" THEN ReSampNext
         ELSE IF Facet = "siblings" THEN SibNext ELSE IF Facet = "firstobs" THEN FoNext
         ELSE IF Facet = "counts" THEN CountNext ELSE StreamNext
SSpec == SInit /\ [][SNext]_svars
=============================================================================
