------------------------------ MODULE MapProc ------------------------------
(***************************************************************************)
(* C15, optimisation route: ONE PROCESS, a LIST of Bayesian problems of    *)
(* DIFFERENT SIZE, each solved by its own BayesianProblem object           *)
(* (MAP / ML by numerical optimisation), in every order.                   *)
(*                                                                         *)
(* Problems (exact rationals): non-linear forward model F : R^n -> R^n,    *)
(*     F_i(x) = x_{i+1} - x_i^2  (i < n),   F_n(x) = x_n                    *)
(* (a polynomial chain of Rosenbrock type), Gaussian noise with precision   *)
(* pe, Gaussian prior N(mu, 1/px I).  The data and the prior mean are       *)
(* CONSTRUCTED from the point xs = (1, ..., 1) and a residual res >= 0:     *)
(*     y = F(xs) + res,      mu = xs - (pe/px) J(xs)^T res                  *)
(* so that xs is a stationary point of                                      *)
(*     Phi(x) = pe/2 |y - F(x)|^2 + px/2 |x - mu|^2                         *)
(* and a strict local minimum of it: the Hessian at xs is                   *)
(*     pe J^T J + 2 pe diag(res_i, i < n) + px I  >=  px I  (res >= 0).     *)
(* With res = 0, xs is the global minimiser (Phi(xs) = 0) and the exact     *)
(* maximiser of the likelihood (F(xs) = y).                                 *)
(*                                                                         *)
(* State machine: lst = the calls of the list (a set; TLC explores every    *)
(* order), amb = ambient state of the process that outlives a call (module  *)
(* level variables, default arguments shared between calls; the intended    *)
(* design has none: 0), hist = the calls made so far with the iteration     *)
(* limit the optimiser works under.  Action Call.  A call is (problem,       *)
(* MAP | ML).  Its outcome is a function of ITS OWN problem: the limit is   *)
(* the documented default of scipy.optimize.minimize's BFGS for the         *)
(* dimension of THIS problem (200 n) - never what a smaller or larger       *)
(* problem solved before left behind (CallsIndependent).  The lists mix     *)
(* small problems (n = 1, 2, 5) with problems for which the optimiser       *)
(* needs MORE iterations than the limit of the small ones (n = 32, 64).     *)
(* Singleton lists give the outcome of every call ALONE in a process.       *)
(*                                                                         *)
(* Named deviation DefaultsLeakBetweenCalls: the limit 200 n of the first   *)
(* call of the process stays behind and governs every later call            *)
(* (violates CallsIndependent).                                             *)
(***************************************************************************)
EXTENDS MatQ, FiniteSets, TLC, Json

CONSTANTS Level,                       \* 1 quick, 2 thorough (more lists)
          Emit,
          DefaultsLeakBetweenCalls

VARIABLES lst, amb, hist
vars == <<lst, amb, hist>>

Two == R(2)

\* ---- problems ------------------------------------------------------------------------------------------
Pb(name, n, pe, px, rk) == [name |-> name, n |-> n, pe |-> pe, px |-> px, rk |-> rk]
Probs == [ p1  |-> Pb("p1", 1, 4, 1, 0),
           p2  |-> Pb("p2", 2, 16, 1, 1),
           p5  |-> Pb("p5", 5, 100, 1, 1),
           q5  |-> Pb("q5", 5, 16, 4, 0),
           p32 |-> Pb("p32", 32, 400, 1, 0),
           p64 |-> Pb("p64", 64, 1024, 1, 0) ]

Xs(p)  == F([i \in 1..p.n |-> One])
\* residual pattern rk = 1: 1/4 on the odd outputs below the last one (all >= 0)
Res(p) == F([i \in 1..p.n |-> IF p.rk = 1 /\ i < p.n /\ i % 2 = 1 THEN Q(1, 4) ELSE Zero])
X0(p)  == [i \in 1..p.n |-> IF i % 2 = 1 THEN -1 ELSE 0]            \* start of the optimiser (integers)

Fwd(p, z) == F([i \in 1..p.n |-> IF i < p.n THEN QSub(z[i + 1], QSq(z[i])) ELSE z[p.n]])
\* J(z)^T r :  J_ii = -2 z_i, J_i,i+1 = 1 (i < n),  J_nn = 1
JacT(p, z, r) ==
    F([j \in 1..p.n |->
         QAdd(IF j < p.n THEN QNeg(QMul(Two, QMul(z[j], r[j]))) ELSE r[p.n],
              IF j > 1 THEN r[j - 1] ELSE Zero)])
Data(p) == F(QVAdd(Fwd(p, Xs(p)), Res(p)))
Mu(p)   == F(QVSub(Xs(p), QVScale(Q(p.pe, p.px), JacT(p, Xs(p), Res(p)))))
\* gradient of Phi and of the negative log-likelihood pe/2 |y - F(x)|^2
GradLik(p, z) == QVScale(R(-p.pe), JacT(p, z, QVSub(Data(p), Fwd(p, z))))
GradPhi(p, z) == QVAdd(GradLik(p, z), QVScale(R(p.px), QVSub(z, Mu(p))))
Phi(p, z) == QAdd(QMul(Q(p.pe, 2), QNorm2(QVSub(Data(p), Fwd(p, z)))), QMul(Q(p.px, 2), QNorm2(QVSub(z, Mu(p)))))

\* ---- calls and lists -----------------------------------------------------------------------------------
Cl(name, pn, which) == [name |-> name, prob |-> pn, which |-> which]
Calls == [ p1m  |-> Cl("p1m", "p1", "MAP"),   p1l  |-> Cl("p1l", "p1", "ML"),
           p2m  |-> Cl("p2m", "p2", "MAP"),   q5l  |-> Cl("q5l", "q5", "ML"),
           p5m  |-> Cl("p5m", "p5", "MAP"),   q5m  |-> Cl("q5m", "q5", "MAP"),
           p32m |-> Cl("p32m", "p32", "MAP"), p64m |-> Cl("p64m", "p64", "MAP") ]

Mixed == { {"p1m", "p32m"}, {"p2m", "p64m"}, {"p1l", "p5m", "p32m"} }
         \cup (IF Level >= 2 THEN { {"q5l", "q5m", "p64m"}, {"p1m", "p2m", "p5m", "p32m"}, {"p1l", "p64m"} } ELSE {})
Lists == Mixed \cup { {nm} : nm \in UNION Mixed }                     \* every call of a mixed list also ALONE

ProbOf(c) == Probs[c.prob]
\* documented default iteration limit of scipy.optimize.minimize (BFGS, the method chosen without bounds / constraints)
DocLimit(c) == 200 * ProbOf(c).n

Init == lst \in Lists /\ amb = 0 /\ hist = <<>>

Call ==
    \E nm \in lst :
       /\ \A i \in 1..Len(hist) : hist[i].call.name # nm
       /\ LET c    == Calls[nm]
              amb1 == IF DefaultsLeakBetweenCalls /\ amb = 0 THEN DocLimit(c) ELSE amb
              lim  == IF amb1 # 0 THEN amb1 ELSE DocLimit(c)
          IN /\ amb' = amb1
             /\ hist' = Append(hist, [call |-> c, limit |-> lim])
       /\ UNCHANGED lst

Next == Call
Spec == Init /\ [][Next]_vars

\* ---- invariants ----------------------------------------------------------------------------------------
\* every call works under the limit its OWN problem defines, whatever was solved before in the process
CallsIndependent == \A i \in 1..Len(hist) : hist[i].limit = DocLimit(hist[i].call)

\* the constructed point is stationary and a strict local minimum of Phi; without residual it is the global minimiser
\* and the exact maximiser of the likelihood (checked once per list: the problems do not change)
Stationary ==
    (Len(hist) = 0) => \A nm \in lst :
        LET p == ProbOf(Calls[nm])  xs == Xs(p)  zero == F([i \in 1..p.n |-> Zero]) IN
        /\ GradPhi(p, xs) = zero
        /\ \A i \in 1..p.n : RLe(Zero, Res(p)[i])                                   \* Hessian >= px I
        /\ p.px > 0 /\ p.pe > 0
        /\ (p.rk = 0 => /\ Phi(p, xs) = Zero
                        /\ Fwd(p, xs) = Data(p)
                        /\ GradLik(p, xs) = zero)
        /\ (Calls[nm].which = "ML" => p.rk = 0)
        /\ \A i \in 1..p.n : \A s \in {-1, 1} :                                      \* strictly larger along every coordinate
              RLt(Phi(p, xs), Phi(p, F([j \in 1..p.n |-> IF j = i THEN QAdd(xs[j], Q(s, 4)) ELSE xs[j]])))

Shape == Len(hist) <= Cardinality(lst)

\* the lists are what they are meant to be: a mixed list has a call whose problem is at least 6 times larger than another one's
ListsMixed == (Cardinality(lst) > 1) => \E a \in lst : \E b \in lst : ProbOf(Calls[a]).n >= 6 * ProbOf(Calls[b]).n

EmitCase ==
    (Emit /\ Len(hist) = Cardinality(lst)) =>
        PrintT("@@CASE " \o ToJson([kind |-> "mapproc",
                                    calls |-> [i \in 1..Len(hist) |->
                                                 LET c == hist[i].call  p == ProbOf(c) IN
                                                 [name |-> c.name, which |-> c.which, prob |-> p.name, n |-> p.n, pe |-> p.pe, px |-> p.px,
                                                  rk |-> p.rk, y_q |-> Data(p), mu_q |-> Mu(p), xstar_q |-> Xs(p), res_q |-> Res(p),
                                                  x0 |-> X0(p), limit |-> hist[i].limit, doclimit |-> DocLimit(c)]]]) \o " @@END")
=============================================================================
