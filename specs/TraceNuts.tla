----------------------------- MODULE TraceNuts -----------------------------
(***************************************************************************)
(* Trace validation for Nuts (property C08): recorded executions of the    *)
(* real samplers on Gaussian targets, with and without warm-up.            *)
(*                                                                         *)
(* The trace file (env TRACE_FILE) is a JSON array of traces               *)
(*   [meta |-> ..., events |-> << event, ... >>]   with events             *)
(*   init(cache_ok, finite_ok)                                             *)
(*   trans(phase, pre_ok, cache_ok, finite_ok, slice_ok, depth, maxd,      *)
(*         nleaf, ntree, acc, moved, alpha_ok, eps_ok)                     *)
(*   tune(eps_ok)                                                          *)
(* logged by harness/cuqiverif/nuts_real.py from wrappers on step / tune / *)
(* _BuildTree / _Leapfrog (experimental) and _call_callback / _BuildTree / *)
(* _Leapfrog (stateless interface).  Floats never enter TLC: the recorder  *)
(* turns every floating-point fact into a boolean using FRESH evaluations  *)
(* of the target as oracle:                                                *)
(*   pre_ok    the point, log-density and gradient the transition starts   *)
(*             from are the chain state and fresh evaluations at it        *)
(*   cache_ok  after the transition the cached log-density and gradient    *)
(*             equal fresh evaluations at current_point                    *)
(*   slice_ok  log u <= H of the selected leaf (H recomputed from the      *)
(*             recorded momentum of that leaf)                             *)
(*   finite_ok the selected point and its log-density are finite           *)
(*   alpha_ok  the statistic handed to the step-size adaptation is the     *)
(*             mean of min(1, exp(H_leaf - H_0)) over the recorded leaves  *)
(*             of the last doubling                                        *)
(*                                                                         *)
(* Refinement: FacetOK is the projection of Nuts' invariants to these      *)
(* facets; TLC checks FacetsHold (every terminal state of Nuts satisfies   *)
(* FacetOK(Facets)) on the model, and here requires FacetOK of every       *)
(* recorded transition.  The only state kept is the phase automaton        *)
(*   new --init--> ready --trans/tune--> ready                             *)
(* (tune only follows a warm-up transition).                               *)
(***************************************************************************)
EXTENDS Nuts, IOUtils

Traces == JsonDeserialize(IOEnv.TRACE_FILE)

VARIABLES tid,     \* which trace
          l,       \* position in the trace
          tph,     \* "new" | "ready"
          lastp    \* phase of the last transition

tvars == <<vars, tid, l, tph, lastp>>

Ev         == Traces[tid].events
IsEvent(e) == l <= Len(Ev) /\ Ev[l].e = e /\ l' = l + 1 /\ UNCHANGED <<tid, vars>>

TraceInit == /\ Dummy /\ kc = [N |-> -1]
             /\ tid \in 1..Len(Traces) /\ l = 1 /\ tph = "new" /\ lastp = "none"

\* _initialize / start of a stateless run: the caches are those of the initial point
TInit == /\ IsEvent("init")
         /\ Ev[l].cache_ok /\ Ev[l].finite_ok
         /\ tph' = "ready" /\ lastp' = "none"

\* one complete transition: the facets of Nuts' invariants plus the float-side facts decided by the recorder
TTrans == /\ IsEvent("trans")
          /\ tph = "ready"
          /\ FacetOK(Ev[l])
          /\ Ev[l].pre_ok /\ Ev[l].alpha_ok /\ Ev[l].eps_ok
          /\ lastp' = Ev[l].phase /\ UNCHANGED tph

\* dual averaging: only during warm-up, and it leaves a usable step size
TTune == /\ IsEvent("tune")
         /\ tph = "ready" /\ lastp = "warmup"
         /\ Ev[l].eps_ok
         /\ UNCHANGED <<tph, lastp>>

TraceNext == TInit \/ TTrans \/ TTune

TraceSpec == TraceInit /\ [][TraceNext]_tvars

\* one line per completely consumed trace; the harness requires every trace id to be reported
Accepted == (l = Len(Ev) + 1) => PrintT("@@CASE " \o ToJson([acc |-> tid]) \o " @@END")
\* diagnostic run of a single rejected trace: report progress
Progress == PrintT("@@CASE " \o ToJson([tid |-> tid, l |-> l]) \o " @@END")
=============================================================================
