--------------------------- MODULE TraceJointCond ---------------------------
(***************************************************************************)
(* Trace validation for conditioning lineages (property C01, code -> spec). *)
(* A trace is the history of ONE root JointDistribution and of every object *)
(* derived from it by conditioning (harness/cuqiverif/record_joint.py):     *)
(*   construct(names, parents)            the root: variable names in factor *)
(*                                        order, parents of every factor    *)
(*   condition(obj, given, res, names, cls)  obj conditioned on `given` returned *)
(*                                        res whose parameter names are     *)
(*                                        `names` (cls: class name, logged  *)
(*                                        for coverage, never constrained)  *)
(*   logd(obj, given, outcome, value_ok)  evaluation of obj with the        *)
(*                                        variables `given`: outcome is     *)
(*                                        "value" or "error"; value_ok says  *)
(*                                        whether the returned number equals *)
(*                                        the sum of the ROOT factors at the *)
(*                                        accumulated assignment            *)
(* A conditional factor used STAND-ALONE is the one-factor instance: the    *)
(* root is the factor, its variables are its own variable (1) and its       *)
(* parents (2..N, which have no factor of their own: parents = <<>>); the   *)
(* harness logs the same events for it (props/c01.py factor_lineages).      *)
(* `malformed` says that the call carried a keyword that names no variable. *)
(* Variable names are mapped to 1..N by the recorder (position in the root). *)
(* The specification state is JointCond's: for every live object the set of *)
(* fixed variables, from which kinds / open parameters / shape / token      *)
(* bookkeeping follow (OrderIndependent), and the event actions require     *)
(* the logged fields to equal what the specification predicts.             *)
(***************************************************************************)
EXTENDS Integers, Sequences, FiniteSets, TLC, Json, IOUtils

Traces == JsonDeserialize(IOEnv.TRACE_FILE)

VARIABLES tid, l, fixedOf     \* fixedOf: function object id -> set of fixed variables (live objects)
tvars == <<tid, l, fixedOf>>

Ev == Traces[tid].events
N  == Len(Ev[1].names)
V  == 1..N
Par(v) == {Ev[1].parents[v][i] : i \in 1..Len(Ev[1].parents[v])}
ToSet(s) == {s[i] : i \in 1..Len(s)}

\* JointCond's abstract result for a fixed set F
Open(v, F) == Par(v) \ F
KindOf(v, F) == IF v \notin F THEN "dist" ELSE IF Open(v, F) = {} THEN "eval" ELSE "lik"
Shape(F) ==
    LET D == {v \in V : KindOf(v, F) = "dist"}  L == {v \in V : KindOf(v, F) = "lik"}
        nd == Cardinality(D)  nl == Cardinality(L)
    IN IF nd > 1 THEN "Joint"
       ELSE IF nd = 1 /\ nl > 1 THEN "MultiLik"
       ELSE IF nd = 1 /\ nl = 1 THEN "Posterior"
       ELSE IF nd = 1 THEN "Distribution"
       ELSE IF nl = 1 THEN "Likelihood"
       ELSE "ConstJoint"
IsEvent(e) == l <= Len(Ev) /\ Ev[l].e = e /\ l' = l + 1 /\ UNCHANGED tid

TraceInit == /\ tid \in 1..Len(Traces) /\ l = 2 /\ Ev[1].e = "construct"
             /\ fixedOf = (1 :> {})

TCondition ==
    /\ IsEvent("condition")
    /\ Ev[l].obj \in DOMAIN fixedOf
    /\ LET F == fixedOf[Ev[l].obj]  S == ToSet(Ev[l].given)  F2 == F \cup S
       IN /\ S \subseteq V \ F                                  \* only free variables can be fixed
          /\ ToSet(Ev[l].names) = V \ F2                        \* FreeVars: the result's parameters are the variables still free
          \* (the class of the result, Ev[l].cls, is logged for coverage only: result classes are not part of the property)
          /\ fixedOf' = (Ev[l].res :> F2) @@ fixedOf

TLogd ==
    /\ IsEvent("logd")
    /\ Ev[l].obj \in DOMAIN fixedOf
    /\ LET F == fixedOf[Ev[l].obj]  G == ToSet(Ev[l].given)
       IN IF G = V \ F /\ ~Ev[l].malformed
          THEN Ev[l].outcome = "value" /\ Ev[l].value_ok      \* every factor counted exactly once
          ELSE Ev[l].outcome = "error"                         \* missing / unknown / doubly specified: refused
    /\ UNCHANGED fixedOf

TraceNext == TCondition \/ TLogd

Accepted == (l = Len(Ev) + 1) => PrintT("@@CASE " \o ToJson([acc |-> tid]) \o " @@END")
Progress == PrintT("@@CASE " \o ToJson([tid |-> tid, l |-> l]) \o " @@END")
=============================================================================
