------------------------------ MODULE Geometry ------------------------------
(***************************************************************************)
(* Geometries of cuqi.geometry and the conversions of cuqi.samples.Samples *)
(* and cuqi.array.CUQIarray between parameter, function and vectorised-    *)
(* function form (property C13).                                           *)
(*                                                                         *)
(* Index-level definitions, nothing copied from the implementation:        *)
(*   ident   Continuous1D(n) / _DefaultGeometry1D(n) / Discrete(n): all    *)
(*           maps are the identity on vectors of length n.                 *)
(*   image   Image2D((r, cc), order) / _DefaultGeometry2D / Continuous2D / *)
(*           visual_only: pixel (i, j) <-> parameter k,                    *)
(*             order C: k = i cc + j      order F: k = j r + i   (0-based) *)
(*           vector form of a function = its parameter vector.             *)
(*   maps    a configuration with a non-empty stack `maps` = <<m1, .., mj>> *)
(*           is MappedGeometry(.. MappedGeometry(inner, m1, im1) .., mj,   *)
(*           imj) around the inner geometry the other fields describe:     *)
(*             par2fun = mj . .. . m1 . inner.par2fun                      *)
(*             fun2par = inner.fun2par . im1 . .. . imj                    *)
(*             fun2vec / vec2fun / shapes = the inner geometry's           *)
(*           entry-wise maps: affine 2v+1 | cube v^3 (both exact in        *)
(*           rationals; cube roots of exact cubes are exact) | exp (only   *)
(*           the structure: a tagged value "exp of <pre-image>").          *)
(*   kl      KLExpansion(grid of n nodes, decay 2, normalizer 12,          *)
(*           num_modes m): abstractly, in the coordinates of the sine      *)
(*           basis of the docstring: par2fun scales mode i by              *)
(*           1/((i+1)^2 12) and pads with zeros, fun2par truncates and     *)
(*           unscales (a projection).  n2 > 0: the grid is replaced by one *)
(*           with n2 nodes after the coefficients were used once.          *)
(*   step    StepExpansion(grid x0 + j h, j < n, h = L/(n-1); s steps):    *)
(*           step i is (x0 + i L/s, x0 + (i+1) L/s], the first one closed  *)
(*           on the left; membership in exact rational arithmetic.         *)
(*                                                                         *)
(* mode "maps": one state per configuration (enumeration); the invariants  *)
(* Partition, Bijection, RoundTrip, Idempotent, Columnwise, Shapes are     *)
(* checked and the exact index maps / partitions / rational projections    *)
(* are emitted.                                                            *)
(* mode "seq": ONE object, a behaviour of <= MaxSeq public calls: Use      *)
(* (shape queries, par2fun, fun2par, a Samples conversion) and Set (a       *)
(* public setter: grid of the Continuous* / KL / step geometries, also of   *)
(* the geometry inside a MappedGeometry; variables of Discrete).  After     *)
(* every action the object must answer like a freshly constructed geometry  *)
(* with the current settings (SeqFresh): whatever was remembered at first   *)
(* use (step partition, vector-form shape, a wrapper's function shape, KL   *)
(* coefficients) is recomputed by the setter.                               *)
(* mode "conv": the flag automaton of Samples (funvals / vector /          *)
(* parameters) and CUQIarray (funvals / parameters) with explicit content: *)
(* real actions, a trail of at most MaxOps operations, invariants          *)
(* FlagsLegal and Lossless; every behaviour is emitted with its content.   *)
(* Sample sets hold Ns = 1, 2 and 3 samples (Widths); `shp` is the shape   *)
(* of the array the object holds: per-sample shape, then Ns - the batch    *)
(* axis is the last one and is never dropped, also for ONE sample          *)
(* (SamplesShape).  The geometry maps themselves remove the batch axis of  *)
(* a one-column input (Squeezed): a conversion that hands the whole array  *)
(* to the map (deviation "batchfast") loses the sample axis at Ns = 1.     *)
(*                                                                         *)
(* CONSTRUCTOR OPTIONS are a dimension of the configuration space that TLC *)
(* enumerates (constants StepOpts, KLDecay2, KLNorms, Forms): every        *)
(* documented option value of every geometry is a configuration of mode    *)
(* "maps" and therefore goes through EVERY invariant and EVERY replayed    *)
(* facet (single vectors, batches of 1, 2, 3 pairwise different columns,   *)
(* sample sets, round trips):                                              *)
(*   step   fun2par_projection 'mean' | 'max' | 'min' in any letter case   *)
(*          (field proj; LowerOf names the documented projection)          *)
(*   kl     decay_rate d2/2 (d2 = 5: the documented default 2.5, the       *)
(*          argument is omitted) x normalizer tau: mode i is scaled by     *)
(*          1/((i+1)^decay tau).  Half-integer decays: the specification   *)
(*          holds functions in the sine basis whose mode i is divided by   *)
(*          sqrt(i+1), so that all coefficients stay rational.             *)
(*   form   the form of the constructor argument on which the maps do not  *)
(*          depend: grid of Continuous1D / default 1D as int | (n,) | list *)
(*          | array, of KLExpansion as a list, of Continuous2D as ints |    *)
(*          arrays | mixed, Discrete(variables) as int | list of names,    *)
(*          Image2D without its order argument (= 'C'), default 2D with    *)
(*          visual_only (class DefaultVisual), MappedGeometry without imap  *)
(*          (par2fun only: HasInv), and the bare _WrappedGeometry (map     *)
(*          "wrap": all maps are those of the wrapped geometry).           *)
(* fun2par of a MATRIX of stacked functions (columns GB, pairwise          *)
(* different, extrema of a step in different columns) is the column-wise   *)
(* projection (ColumnwiseF2P); deviation "batchreduce": the block of node  *)
(* values of a step is reduced over all columns at once.                   *)
(***************************************************************************)
EXTENDS Mat, FiniteSets, Json

CONSTANTS MaxN1,       \* ident: n in 1..MaxN1
          MaxR,        \* image: r, cc in 1..MaxR
          MaxKL,       \* kl: grid sizes 1..MaxKL
          MaxStepN,    \* step: n in 2..MaxStepN
          NX0, NL,     \* step: number of grid offsets / lengths taken from X0Seq / LSeq
          MaxOps,      \* conv: length of the trail
          MaxSeq,      \* seq: number of actions of a behaviour
          Dev,         \* "none" | "openfirst" | "batchmix" | "vectorsetspar" | "stalekl" | "ravelC"
                       \* | "imapafter" | "stalestep" | "stalefunvec" | "stalewrap" | "batchfast" | "batchreduce"
          Emit,
          \* constructor options (every value is crossed with every invariant / facet of mode "maps")
          StepOpts,    \* step: fun2par_projection strings handed to the constructor (any letter case, see LowerOf)
          KLDecay2,    \* kl: twice the decay rate (4 = decay 2; 5 = the documented default 2.5)
          KLNorms,     \* kl: normalizer (integers)
          Forms        \* forms of the constructor argument: subset of AllForms

VARIABLES c,        \* configuration record (uniform shape, see Cfg)
          mode,     \* "maps" | "conv"
          rep,      \* "samples" | "array"      (conv)
          origin,   \* "par" | "fun": what the object was created from (conv)
          par, vec, \* representation flags
          val,      \* content: sequence over the columns (samples) / one value wrapped in a 1-sequence (array)
          trail,    \* operations applied so far
          indices,  \* StepExpansion: the partition computed at construction / by the grid setter (sequence over steps of node sets)
          c0,       \* seq: the configuration the object was constructed with
          cache,    \* seq: what the object remembered at first use (see EmptyCache)
          shp       \* conv: shape of the array the object holds (Samples: per-sample shape, then the number of samples)
vars == <<c, mode, rep, origin, par, vec, val, trail, indices, c0, cache, shp>>

Cfg(kind, cls, n, r, cc, m, n2, s, x0, len, proj) ==
    [kind |-> kind, cls |-> cls, n |-> n, r |-> r, cc |-> cc, m |-> m, n2 |-> n2, s |-> s, x0 |-> x0, len |-> len, proj |-> proj,
     maps |-> <<>>, d2 |-> 4, tau |-> 12, form |-> ""]
WithMaps(k, ms) == [k EXCEPT !.maps = ms]
Inner(k)        == [k EXCEPT !.maps = <<>>]
IsMapped(k)     == k.maps # <<>>

\* ---- configuration space -------------------------------------------------------------------
X0Seq == << <<0, 1>>, <<1, 3>>, <<-1, 1>>, <<1, 10>>, <<2, 1>> >>
LSeq  == << <<1, 1>>, <<1, 3>>, <<3, 10>>, <<2, 1>>, <<3, 1>>, <<7, 1>> >>

\* DefaultVisual: _DefaultGeometry2D(im_shape, visual_only=True)
ImageCls == {"Image2D_C", "Image2D_F", "Visual_C", "Visual_F", "Default2D", "DefaultVisual", "Continuous2D"}
OrderOf(cls)  == IF cls \in {"Image2D_F", "Visual_F"} THEN "F" ELSE "C"
VisualOf(cls) == cls \in {"Visual_C", "Visual_F", "DefaultVisual"}

\* ---- constructor options -----------------------------------------------------------------------
\* the documented projection an option string names (the letter case is ignored)
LowerOf(o) == CASE o \in {"mean", "MEAN", "Mean", "mEaN"} -> "mean"
                [] o \in {"max", "MAX", "Max", "mAx"}     -> "max"
                [] o \in {"min", "MIN", "Min", "MiN"}     -> "min"
AllForms == {"tuple", "list", "array", "mixed", "names", "noorder", "noimap", "wrap"}
FormsOf(k) == CASE k.cls \in {"Continuous1D", "Default1D"} -> {"tuple", "list", "array"}
                [] k.cls = "KLExpansion"                   -> {"list"}
                [] k.cls = "Discrete"                      -> {"names"}
                [] k.cls = "Continuous2D"                  -> {"array", "mixed"}
                [] k.cls \in {"Image2D_C", "Visual_C"}     -> {"noorder"}
                [] OTHER                                   -> {}
ASSUME Forms \subseteq AllForms

IdentConfigs  == {Cfg("ident", cls, n, 0, 0, 0, 0, 0, Zero, Zero, "") :
                    cls \in {"Continuous1D", "Default1D", "Discrete"}, n \in 1..MaxN1}
ImageConfigs  == {Cfg("image", cls, 0, r, cc, 0, 0, 0, Zero, Zero, "") : cls \in ImageCls, r \in 1..MaxR, cc \in 1..MaxR}
\* mapped geometries: every kind of inner geometry x every stack of maps.  <<m1, m2>> is a MappedGeometry of a MappedGeometry
MapStacks == {<<"affine">>, <<"cube">>, <<"exp">>, <<"affine", "cube">>, <<"cube", "affine">>}
             \cup (IF "wrap" \in Forms THEN {<<"wrap">>} ELSE {})          \* _WrappedGeometry(inner): no map at all
StepCfg(n, s, a, b) == Cfg("step", "StepExpansion", n, 0, 0, 0, 0, s, X0Seq[a], LSeq[b], "")
KLCfg(n, m)         == Cfg("kl", "KLExpansion", n, 0, 0, m, 0, 0, Zero, Zero, "")
MappedInner ==
    {Cfg("ident", cls, 3, 0, 0, 0, 0, 0, Zero, Zero, "") : cls \in {"Continuous1D", "Discrete", "Default1D"}}
    \cup {Cfg("image", cls, 0, 2, 3, 0, 0, 0, Zero, Zero, "") : cls \in {"Image2D_F", "Continuous2D", "Default2D"}}
    \cup {Cfg("image", cls, 0, 3, 2, 0, 0, 0, Zero, Zero, "") : cls \in {"Image2D_C", "Visual_F"}}
    \cup {KLCfg(n, m) : n \in 3..MaxKL, m \in {0, 1, 2}}                       \* all modes and truncated
    \cup {StepCfg(5, 2, 1, 1), StepCfg(7, 3, 2, 2), StepCfg(4, 4, 3, 1)}
MappedConfigs == {WithMaps(k, ms) : k \in MappedInner, ms \in MapStacks}
\* option configurations: a few sizes of every geometry x EVERY value of its constructor options
StepOptConfigs == {[StepCfg(q[1], q[2], q[3], q[4]) EXCEPT !.proj = o] :
                      q \in {<<5, 2, 1, 1>>, <<7, 3, 2, 2>>, <<4, 4, 3, 1>>, <<9, 3, 1, 3>>, <<6, 1, 1, 1>>}, o \in StepOpts}
KLOptConfigs   == {[KLCfg(q[1], q[2]) EXCEPT !.d2 = d, !.tau = t] : q \in {<<4, 0>>, <<4, 2>>, <<3, 1>>}, d \in KLDecay2, t \in KLNorms}
FormBase == {Cfg("ident", cls, n, 0, 0, 0, 0, 0, Zero, Zero, "") : cls \in {"Continuous1D", "Default1D", "Discrete"}, n \in {1, 3}}
            \cup {Cfg("image", cls, 0, q[1], q[2], 0, 0, 0, Zero, Zero, "") :
                     cls \in {"Continuous2D", "Image2D_C", "Visual_C"}, q \in {<<2, 3>>, <<1, 3>>, <<3, 1>>}}
            \cup {KLCfg(4, 0), KLCfg(4, 2)}
FormConfigs == UNION {{[k EXCEPT !.form = f] : f \in (FormsOf(k) \cap Forms)} : k \in FormBase}
               \* MappedGeometry(geometry, map) without imap: par2fun only
               \cup (IF "noimap" \in Forms
                     THEN {[WithMaps(k, <<"affine">>) EXCEPT !.form = "noimap"] :
                              k \in {Cfg("ident", "Continuous1D", 3, 0, 0, 0, 0, 0, Zero, Zero, ""),
                                     Cfg("image", "Image2D_F", 0, 2, 3, 0, 0, 0, Zero, Zero, ""), StepCfg(5, 2, 1, 1)}}
                     ELSE {})
OptConfigs == StepOptConfigs \cup KLOptConfigs \cup FormConfigs
\* m = 0 stands for num_modes = None
KLConfigs     == {Cfg("kl", "KLExpansion", n, 0, 0, m, n2, 0, Zero, Zero, "") :
                    n \in 1..MaxKL, m \in 0..(MaxKL + 1), n2 \in 0..MaxKL}
StepConfigs   == {Cfg("step", "StepExpansion", n, 0, 0, 0, 0, s, X0Seq[a], LSeq[b], "") :
                    n \in 2..MaxStepN, s \in 1..MaxStepN, a \in 1..NX0, b \in 1..NL}
ValidCfg(k) == /\ (k.kind = "step" => k.s <= k.n)              \* documented: at least as many grid points as steps
               /\ (k.kind = "kl" => k.m <= k.n + 1 /\ (k.n2 > 0 => k.n2 # k.n))
MapConfigs  == {k \in IdentConfigs \cup ImageConfigs \cup MappedConfigs \cup KLConfigs \cup StepConfigs \cup OptConfigs : ValidCfg(k)}

\* configurations on which the conversion automaton runs (small; step grids away from float coincidences)
MappedConv ==
    {k \in MappedConfigs :
        \/ k.maps = <<"affine">> /\ k.kind \in {"ident", "image"} /\ k.cls \notin {"Default1D", "Default2D"}
        \/ k.maps = <<"cube">> /\ (k.kind = "step" \/ (k.kind = "kl" /\ k.n = 4 /\ k.m \in {0, 2}))
        \/ k.maps = <<"cube">> /\ k.cls \in {"Image2D_F", "Image2D_C"}
        \/ k.maps = <<"exp">> /\ (k.cls \in {"Image2D_F", "Discrete"} \/ (k.kind = "kl" /\ k.n = 3 /\ k.m = 1))
        \/ k.maps = <<"affine", "cube">> /\ (k.cls = "Continuous2D" \/ (k.kind = "kl" /\ k.n = 3 /\ k.m = 0))
        \/ k.maps = <<"cube", "affine">> /\ (k.cls = "Image2D_C" \/ (k.kind = "step" /\ k.s = 2))}
ConvConfigs ==
    {k \in IdentConfigs : k.n \in {1, 3}}
    \cup {k \in ImageConfigs : k.r <= 3 /\ k.cc <= 3 /\ (k.r + k.cc) \in {3, 4, 5}}
    \cup {(IF k.kind = "step" THEN [k EXCEPT !.proj = "mean"] ELSE k) : k \in MappedConv}
    \cup {k \in KLConfigs : k.n \in {3, 4} /\ k.m \in {0, 2} /\ k.n2 = 0}
    \cup {Cfg("step", "StepExpansion", n, 0, 0, 0, 0, s, Zero, One, p) : n \in {4, 5}, s \in {1, 2, 4}, p \in {"mean", "max", "min"}}
    \* sample sets / arrays on option configurations (a letter-case variant, a non-default decay and normalizer, argument forms)
    \cup {k \in StepOptConfigs : k.n = 7 /\ k.proj \notin {"mean", "max", "min"}}
    \cup {k \in KLOptConfigs : k.n = 4 /\ k.m = 2 /\ k.d2 # 4 /\ k.tau # 12}
    \cup {k \in FormConfigs : k.form \in {"list", "names", "mixed"} /\ k.kind \in {"ident", "image"} /\ (k.n = 3 \/ k.r = 2)}

\* ---- shapes ---------------------------------------------------------------------------------
EffN(k)   == IF k.kind = "kl" /\ k.n2 > 0 THEN k.n2 ELSE k.n               \* current grid size
IMin(a, b) == IF a < b THEN a ELSE b
\* shapes and dimensions of a mapped geometry are those of the geometry it wraps (the maps act entry-wise)
Is2D(k)   == k.kind = "image" /\ ~VisualOf(k.cls)
ParDim(k) == CASE k.kind = "ident" -> k.n
               [] k.kind = "image" -> k.r * k.cc
               [] k.kind = "kl" -> IF k.m = 0 THEN EffN(k) ELSE IMin(k.m, EffN(k))
               [] k.kind = "step" -> k.s
FunShape(k) == IF Is2D(k) THEN <<k.r, k.cc>>
               ELSE CASE k.kind \in {"ident", "step"} -> <<k.n>>
                      [] k.kind = "kl" -> <<EffN(k)>>
                      [] OTHER -> <<ParDim(k)>>                        \* visual-only image
FunDim(k) == IF Is2D(k) THEN k.r * k.cc ELSE FunShape(k)[1]
\* no vector form: Continuous2D; the bare wrapper around a geometry with 2-D functions (base-class fun2vec)
HasVec(k) == ~(k.kind = "image" /\ k.cls = "Continuous2D") /\ ~(k.maps = <<"wrap">> /\ Is2D(k))
FunvecDim(k) == IF Is2D(k) THEN ParDim(k) ELSE FunDim(k)
HasInv(k) == k.form # "noimap"                                      \* fun2par: not for a MappedGeometry without imap
Order(k)  == OrderOf(k.cls)

\* ---- pixel <-> parameter index (1-based in the module, emitted 0-based) ---------------------------
PIdx(k, i, j) == IF Order(k) = "C" THEN (i - 1) * k.cc + j ELSE (j - 1) * k.r + i
PRow(k, q)    == IF Order(k) = "C" THEN ((q - 1) \div k.cc) + 1 ELSE ((q - 1) % k.r) + 1
PCol(k, q)    == IF Order(k) = "C" THEN ((q - 1) % k.cc) + 1 ELSE ((q - 1) \div k.r) + 1
\* deviation "ravelC": fun2par always ravels in C order
RRow(k, q)    == IF Dev = "ravelC" THEN ((q - 1) \div k.cc) + 1 ELSE PRow(k, q)
RCol(k, q)    == IF Dev = "ravelC" THEN ((q - 1) % k.cc) + 1 ELSE PCol(k, q)

\* ---- step expansion: exact membership --------------------------------------------------------------
Node(k, j)  == RAdd(k.x0, RMul(R(j), RDiv(k.len, R(k.n - 1))))             \* j = 0..n-1
Start(k, i) == RAdd(k.x0, RDiv(RMul(R(i), k.len), R(k.s)))                 \* i = 0..s-1
End(k, i)   == RAdd(k.x0, RDiv(RMul(R(i + 1), k.len), R(k.s)))
InStep(k, j, i) ==
    /\ IF i = 0 /\ Dev # "openfirst" THEN RLe(Start(k, i), Node(k, j)) ELSE RLt(Start(k, i), Node(k, j))
    /\ RLe(Node(k, j), End(k, i))
StepsOf(k, j) == {i \in 0..(k.s - 1) : InStep(k, j, i)}
NodesOf(k, i) == {j \in 0..(k.n - 1) : InStep(k, j, i)}
\* what the constructor computes and stores (the maps below only read `indices`)
ComputeIndices(k) == IF k.kind = "step" THEN F([i \in 1..k.s |-> NodesOf(k, i - 1)]) ELSE <<>>
StepOf(k, j)  == CHOOSE i \in 0..(k.s - 1) : j \in indices[i + 1]
Covered(k, j) == \E i \in 0..(k.s - 1) : j \in indices[i + 1]
OnBoundary(k, j) == \E i \in 0..(k.s - 2) : Node(k, j) = End(k, i)         \* node on an interior step boundary
StepTable(k) == F([j \in 1..k.n |-> StepOf(k, j - 1)])

Partition(k) ==
    k.kind = "step" =>
        /\ \A j \in 0..(k.n - 1) : Cardinality({i \in 1..k.s : j \in indices[i]}) = 1    \* every node in exactly one step
        /\ \A i \in 1..k.s : indices[i] # {}                                            \* no step is empty
        \* closed form: node j > 0 lies in step ceil(j s / (n-1)) - 1 (the offset and the length cancel)
        /\ \A j \in 0..(k.n - 1) : StepOf(k, j) = IF j = 0 THEN 0 ELSE ((j * k.s + (k.n - 2)) \div (k.n - 1)) - 1

\* ---- rational folds ------------------------------------------------------------------------------------
RECURSIVE RFold(_, _)
RFold(op, s) == IF Len(s) = 1 THEN s[1]
                ELSE LET rest == RFold(op, Tail(s))
                     IN CASE op = "min" -> RMin(s[1], rest) [] op = "max" -> RMax(s[1], rest) [] op = "sum" -> RAdd(s[1], rest)
Project(op, s) == IF op = "mean" THEN RDiv(RFold("sum", s), R(Len(s))) ELSE RFold(op, s)
SetToSeq(S) == F([q \in 1..Cardinality(S) |-> CHOOSE x \in S : Cardinality({y \in S : y < x}) = q - 1])

\* ---- KL coefficients (decay 2, normalizer 12): 1 / ((i+1)^2 12), i 0-based ---------------------------
\* decay d2/2, normalizer tau: 1 / ((i+1)^decay tau).  For an odd d2 the remaining factor (i+1)^(-1/2) is part of the
\* basis the specification holds KL functions in (emitted as halfpow), so the coefficient is rational
KLCoef(k, i) == RInv(RMul(R(k.tau), RPow(R(i), k.d2 \div 2)))           \* i 1-based here
\* number of coefficients the cache holds: intended = the current mode count; deviation: the one of the first grid
KLCached(k) == IF Dev = "stalekl" /\ k.n2 > 0 THEN (IF k.m = 0 THEN k.n ELSE IMin(k.m, k.n)) ELSE ParDim(k)

\* ---- entry-wise maps of MappedGeometry -----------------------------------------------------------------
\* Irr: "a real number the rational lattice cannot hold" (a cube root of a non-cube).  It only arises when a
\* deviation is switched on; NoIrr states that the intended design never leaves the lattice.
Irr == <<1, 0>>
IsIrr(x) == x[2] = 0
RECURSIVE CbrtFloor(_, _, _)
CbrtFloor(a, lo, hi) == IF lo = hi THEN lo
                        ELSE LET mid == (lo + hi + 1) \div 2
                             IN IF mid * mid * mid <= a THEN CbrtFloor(a, mid, hi) ELSE CbrtFloor(a, lo, mid - 1)
ICbrt(a) == LET r == CbrtFloor(a, 0, 1290) IN IF r * r * r = a THEN r ELSE -1          \* a >= 0;  1290^3 < 2^31
RCbrt(y) == LET rn == ICbrt(Abs(y[1]))  rd == ICbrt(y[2])                              \* y is normalised: n/d is a cube iff n and d are
            IN IF rn < 0 \/ rd < 0 THEN Irr ELSE <<(IF y[1] < 0 THEN -rn ELSE rn), rd>>
ExactMap(mp) == mp \in {"affine", "cube", "wrap"}
MapLeaf(mp, x)  == IF IsIrr(x) THEN Irr
                   ELSE CASE mp = "affine" -> RAdd(RMul(R(2), x), One)
                          [] mp = "cube"   -> RMul(x, RMul(x, x))
                          [] mp = "wrap"   -> x
IMapLeaf(mp, y) == IF IsIrr(y) THEN Irr
                   ELSE CASE mp = "affine" -> RDiv(RSub(y, One), R(2))
                          [] mp = "cube"   -> RCbrt(y)
                          [] mp = "wrap"   -> y
\* the stack <<m1, .., mj>>: forward mj(..m1(x)); inverse im1(..imj(y))
RECURSIVE LeafAll(_, _)
LeafAll(ms, x)  == IF ms = <<>> THEN x ELSE LeafAll(Tail(ms), MapLeaf(Head(ms), x))
RECURSIVE ILeafAll(_, _)
ILeafAll(ms, y) == IF ms = <<>> THEN y ELSE IMapLeaf(Head(ms), ILeafAll(Tail(ms), y))
\* deviation "imapafter": every wrapper applies its inverse map to the PARAMETERS its inner geometry returned: imj(..im1(.))
RECURSIVE ILeafFwd(_, _)
ILeafFwd(ms, y) == IF ms = <<>> THEN y ELSE ILeafFwd(Tail(ms), IMapLeaf(Head(ms), y))

\* Function values of a mapped geometry are held exactly (entry-wise rationals in node space) when every map is exact and
\* the inner function values are node values (all kinds but kl, whose functions are held in mode coordinates: an
\* entry-wise non-linear map does not act on those).  Otherwise the value is *tagged*: [maps, arg] = "the maps applied
\* entry-wise to the node values of the inner function arg"; the inverse maps undo exactly that and nothing else.
Exact(k)  == k.kind # "kl" /\ \A i \in 1..Len(k.maps) : ExactMap(k.maps[i])
Tagged(k) == IsMapped(k) /\ ~Exact(k)
Lift(k, op(_), v) == IF Is2D(k) THEN F([i \in 1..Len(v) |-> [j \in 1..Len(v[i]) |-> op(v[i][j])]])
                     ELSE F([i \in 1..Len(v) |-> op(v[i])])
MapF(k, g)  == IF ~IsMapped(k) THEN g
               ELSE IF Tagged(k) THEN [maps |-> k.maps, arg |-> g]
               ELSE Lift(k, LAMBDA x : LeafAll(k.maps, x), g)
IMapF(k, f) == IF ~IsMapped(k) THEN f
               ELSE IF Tagged(k) THEN f.arg                                    \* f.maps = k.maps: see MappedProjection
               ELSE Lift(k, LAMBDA y : ILeafAll(k.maps, y), f)
Bare(k, f)  == IF Tagged(k) THEN f.arg ELSE f                                  \* the array that carries the shape
IrrVec(d)   == [i \in 1..d |-> Irr]

\* ---- the four maps on one value (nested sequences of rationals) ----------------------------------------
Reshape(k, p) == F([i \in 1..k.r |-> [j \in 1..k.cc |-> p[PIdx(k, i, j)]]])
Ravel(k, f)   == F([q \in 1..(k.r * k.cc) |-> f[RRow(k, q)][RCol(k, q)]])

P2FBase(k, p) ==
    CASE k.kind = "ident" -> p
      [] k.kind = "image" -> IF Is2D(k) THEN Reshape(k, p) ELSE p
      [] k.kind = "kl" -> F([i \in 1..EffN(k) |-> IF i <= ParDim(k) /\ i <= KLCached(k) THEN RMul(KLCoef(k, i), p[i]) ELSE Zero])
      \* zeros, then every step writes its value on its nodes
      [] k.kind = "step" -> F([j \in 1..k.n |-> IF Covered(k, j - 1) THEN p[StepOf(k, j - 1) + 1] ELSE Zero])
F2PBase(k, f) ==
    CASE k.kind = "ident" -> f
      [] k.kind = "image" -> IF Is2D(k) THEN Ravel(k, f) ELSE f
      [] k.kind = "kl" -> F([i \in 1..ParDim(k) |-> IF i <= KLCached(k) THEN RDiv(f[i], KLCoef(k, i)) ELSE Zero])
      [] k.kind = "step" -> F([i \in 1..k.s |-> LET nodes == SetToSeq(indices[i])
                                                IN Project(LowerOf(k.proj), [q \in 1..Len(nodes) |-> f[nodes[q] + 1]])])
\* MappedGeometry, structurally:  par2fun = Map . inner.par2fun,   fun2par = inner.fun2par . IMap
InnerPar2Fun(k, p) == P2FBase(k, p)
InnerFun2Par(k, f) == F2PBase(k, f)
MappedPar2Fun(k, p) == MapF(k, InnerPar2Fun(k, p))
MappedFun2Par(k, f) ==
    IF Dev = "imapafter"
    THEN \* IMapAfterInnerFun2Par: the inner projection is applied to the mapped function, the inverse maps to its result
         IF Tagged(k) THEN IrrVec(ParDim(k))                                   \* not a function of the pre-image alone
         ELSE LET q == InnerFun2Par(k, f) IN F([i \in 1..Len(q) |-> ILeafFwd(k.maps, q[i])])
    ELSE InnerFun2Par(k, IMapF(k, f))
P2F(k, p) == IF IsMapped(k) THEN MappedPar2Fun(k, p) ELSE P2FBase(k, p)
F2P(k, f) == IF IsMapped(k) THEN MappedFun2Par(k, f) ELSE F2PBase(k, f)
\* vector form: the function itself when it is one-dimensional, else the inner geometry's ravel (no inverse map!)
F2V(k, f) == IF ~Is2D(k) THEN f ELSE IF Tagged(k) THEN [maps |-> f.maps, arg |-> Ravel(k, f.arg)] ELSE Ravel(k, f)
V2F(k, v) == IF ~Is2D(k) THEN v ELSE IF Tagged(k) THEN [maps |-> v.maps, arg |-> Reshape(k, v.arg)] ELSE Reshape(k, v)

\* ---- test inputs -----------------------------------------------------------------------------------------
Unit(d, q)  == [i \in 1..d |-> IF i = q THEN One ELSE Zero]
P0(k, w)    == F([i \in 1..ParDim(k) |-> R(i + 10 * (w - 1))])                     \* column w of a parameter batch
\* a lattice function that is not in the range of the (inner) par2fun; column w of a function batch
G0(k, w)    == IF Is2D(k) THEN F([i \in 1..k.r |-> [j \in 1..k.cc |-> R(((i - 1) * k.cc + j) * ((i - 1) * k.cc + j) + w)]])
               ELSE F([j \in 1..FunDim(k) |-> R(j * j + w)])
\* mapped geometries: its image under the maps (in the range of the maps, not of par2fun; G0 is its pre-image)
F0(k, w)    == MapF(k, G0(k, w))
\* column w of a MATRIX of stacked functions: odd integers in -23..21 (no zero entry), pairwise different columns, and the
\* column that holds the largest / smallest value changes from node to node - so the extrema of the steps of a step
\* expansion lie in different columns (both checked on the emitted columns by the harness: vacuity guards)
GBVal(q, w) == R(2 * ((q * q * (w + 1) + 3 * q + 5 * w) % 23) - 23)
GB(k, w)    == IF Is2D(k) THEN F([i \in 1..k.r |-> [j \in 1..k.cc |-> GBVal((i - 1) * k.cc + j, w)]])
               ELSE F([j \in 1..FunDim(k) |-> GBVal(j, w)])
FB(k, w)    == MapF(k, GB(k, w))

\* ---- numpy's reshape-based batch handling of Image2D / Continuous2D, index by index --------------------
\* a (par_dim, W) matrix is flattened in `order` and refilled into (r, cc, W) in `order`
FlatIn(k, ord, a, w, W)     == IF ord = "C" THEN (a - 1) * W + (w - 1) ELSE (a - 1) + ParDim(k) * (w - 1)
FlatOut(k, ord, i, j, w, W) == IF ord = "C" THEN ((i - 1) * k.cc + (j - 1)) * W + (w - 1)
                               ELSE (i - 1) + k.r * (j - 1) + k.r * k.cc * (w - 1)
BatchReshape(k, M, W) ==       \* M[a][w];  result T[i][j][w]
    LET ordOut == IF Dev = "batchmix" THEN "C" ELSE Order(k)
        src(fl) == CHOOSE aw \in (1..ParDim(k)) \X (1..W) : FlatIn(k, Order(k), aw[1], aw[2], W) = fl
    IN F([i \in 1..k.r |-> [j \in 1..k.cc |-> [w \in 1..W |->
            LET aw == src(FlatOut(k, ordOut, i, j, w, W)) IN M[aw[1]][aw[2]]]]])
\* back (Continuous2D: reshape((par_dim, -1)), C order): stacked functions T[i][j][w] -> matrix M[a][w]
BatchRavel(k, T, W) ==
    LET dst(fl) == CHOOSE ijw \in (1..k.r) \X (1..k.cc) \X (1..W) : FlatOut(k, "C", ijw[1], ijw[2], ijw[3], W) = fl
    IN F([a \in 1..ParDim(k) |-> [w \in 1..W |->
            LET ijw == dst(FlatIn(k, "C", a, w, W)) IN T[ijw[1]][ijw[2]][ijw[3]]]])

\* ---- batch widths ----------------------------------------------------------------------------------------------
\* Every batch facet runs with 1, 2 and 3 columns.  The geometry maps return the batch axis only for more than one
\* column ("squeeze to return a single function if only one parameter vector was given"); a sample set keeps it.
MaxW   == 3
Widths == 1..MaxW
Squeezed(sh, W)  == IF W = 1 THEN sh ELSE sh \o <<W>>
\* which maps do so: par2fun of the reshaping geometries (2-D functions) and of the expansions; fun2par of Continuous2D
\* and of the expansions.  The identity maps (Continuous1D, Discrete, visual-only images) return what they are given; a
\* MappedGeometry applies its entry-wise maps to what the wrapped geometry returns.  Image2D.fun2par of stacked images:
\* the specification is silent (<<>>).
P2FSqueezes(k) == Is2D(k) \/ k.kind \in {"kl", "step"}
MapFunShape(k, W) == IF P2FSqueezes(k) THEN Squeezed(FunShape(k), W) ELSE FunShape(k) \o <<W>>
MapParShape(k, W) == IF k.kind \in {"kl", "step"} \/ k.cls = "Continuous2D" THEN Squeezed(<<ParDim(k)>>, W)
                     ELSE IF Is2D(k) THEN <<>> ELSE <<ParDim(k), W>>
SqueezeLast(k, T) == F([i \in 1..k.r |-> [j \in 1..k.cc |-> T[i][j][1]]])      \* T[i][j][w] holding one column

\* ---- properties of the maps (mode "maps") ------------------------------------------------------------------
Bijection(k) ==
    Is2D(k) => /\ {PIdx(k, i, j) : i \in 1..k.r, j \in 1..k.cc} = 1..(k.r * k.cc)
               /\ \A q \in 1..(k.r * k.cc) : PIdx(k, PRow(k, q), PCol(k, q)) = q

RoundTrip(k) ==
    /\ \A q \in 1..ParDim(k) : F2P(k, P2F(k, Unit(ParDim(k), q))) = Unit(ParDim(k), q)
    /\ F2P(k, P2F(k, P0(k, 2))) = P0(k, 2)
    /\ (HasVec(k) => V2F(k, F2V(k, P2F(k, P0(k, 2)))) = P2F(k, P0(k, 2)))

\* for geometries whose inverse is a projection: once more back and forth changes nothing
StepProj(k, pr) == [k EXCEPT !.proj = pr]
\* the projections a step configuration is checked with: the one its constructor option names, else all three
ProjsOf(k) == IF k.proj = "" THEN {"mean", "min", "max"} ELSE {k.proj}
Idempotent(k) ==
    /\ (k.kind = "kl" => LET g == P2F(k, F2P(k, F0(k, 1))) IN P2F(k, F2P(k, g)) = g)
    /\ (k.kind = "step" => \A pr \in ProjsOf(k) :
            LET kk == StepProj(k, pr)  g == P2F(kk, F2P(kk, F0(kk, 1))) IN P2F(kk, F2P(kk, g)) = g)
    /\ (k.kind \in {"ident", "image"} => P2F(k, F2P(k, F0(k, 1))) = F0(k, 1))     \* exact inverses (mapped or not)

Columnwise(k) ==
    (k.kind = "image" /\ Is2D(k) /\ ~IsMapped(k)) =>
        \A W \in Widths :
            LET M == F([a \in 1..ParDim(k) |-> [w \in 1..W |-> P0(k, w)[a]]])
                T == BatchReshape(k, M, W)
            IN /\ \A w \in 1..W : \A i \in 1..k.r : \A j \in 1..k.cc : T[i][j][w] = P2F(k, P0(k, w))[i][j]
               \* one column: without its batch axis the result is the function of that column
               /\ (W = 1 => SqueezeLast(k, T) = P2F(k, P0(k, 1)))
               \* stacked functions back to a matrix of columns (the geometry whose fun2par documents multiple functions)
               /\ (k.cls = "Continuous2D" =>
                      LET B == BatchRavel(k, T, W) IN \A w \in 1..W : \A a \in 1..ParDim(k) : B[a][w] = F2P(k, P2F(k, P0(k, w)))[a])

\* fun2par of a matrix of stacked functions FB[w] (w = 1..W), written like the implementation's loop over the steps: the
\* block of node values of step i (nodes x columns) is reduced along the nodes, one result per column.
\* Deviation "batchreduce": the block is reduced over all its entries at once (every column gets the same number).
StepBlock(FBm, nodes, W) == [t \in 1..(Len(nodes) * W) |-> FBm[((t - 1) % W) + 1][nodes[((t - 1) \div W) + 1] + 1]]
F2PBatch(k, FBm, W) ==
    IF k.kind = "step"
    THEN F([w \in 1..W |-> [i \in 1..k.s |->
            LET nodes == SetToSeq(indices[i])
            IN IF Dev = "batchreduce" THEN Project(LowerOf(k.proj), StepBlock(FBm, nodes, W))
               ELSE Project(LowerOf(k.proj), [q \in 1..Len(nodes) |-> FBm[w][nodes[q] + 1]])]])
    ELSE F([w \in 1..W |-> F2PBase(k, FBm[w])])
\* column-wise: every column of the batch result is fun2par of that column - for functions outside the range of par2fun
\* (the documented projection of each) and for par2fun of a parameter batch (round trip of the batch)
ColumnwiseF2P(k) ==
    (k.kind \in {"step", "kl"} /\ ~IsMapped(k)) =>
        \A pr \in (IF k.kind = "step" THEN ProjsOf(k) ELSE {""}) : \A W \in Widths :
            LET kk  == IF k.kind = "step" THEN StepProj(k, pr) ELSE k
                FBm == F([w \in 1..W |-> GB(kk, w)])
                PBm == F([w \in 1..W |-> P2F(kk, P0(kk, w))])
                A   == F2PBatch(kk, FBm, W)
                B   == F2PBatch(kk, PBm, W)
            IN \A w \in 1..W : A[w] = F2P(kk, GB(kk, w)) /\ B[w] = P0(kk, w)

ShapeOf(k, v, twoD) == IF twoD THEN <<Len(v), Len(v[1])>> ELSE <<Len(v)>>
Shapes(k) ==
    /\ ShapeOf(k, Bare(k, P2F(k, P0(k, 1))), Is2D(k)) = FunShape(k)
    /\ (HasInv(k) => Len(F2P(k, F0(k, 1))) = ParDim(k))
    /\ (HasVec(k) => Len(Bare(k, F2V(k, F0(k, 1)))) = FunvecDim(k))
    /\ (HasVec(k) => ShapeOf(k, Bare(k, V2F(k, F2V(k, F0(k, 1)))), Is2D(k)) = FunShape(k))

\* MappedGeometry: fun2par of a mapped function - also one outside the range of par2fun - is the inner geometry's
\* fun2par (inverse / documented projection) of its pre-image under the maps; the lattice is never left
FlatLeaves(k, f) == IF Is2D(k) THEN {f[i][j] : i \in 1..k.r, j \in 1..k.cc} ELSE {f[i] : i \in 1..Len(f)}
NoIrr(k) == /\ \A x \in FlatLeaves(k, Bare(k, P2F(k, P0(k, 2)))) : ~IsIrr(x)
            /\ \A i \in 1..ParDim(k) : ~IsIrr(F2P(k, F0(k, 1))[i]) /\ ~IsIrr(F2P(k, P2F(k, P0(k, 2)))[i])
MappedProjection(k) ==
    IsMapped(k) => /\ F2P(k, MapF(k, G0(k, 1))) = F2P(Inner(k), G0(k, 1))
                   /\ F2P(k, MapF(k, P2F(Inner(k), P0(k, 2)))) = P0(k, 2)
                   /\ (Tagged(k) => P2F(k, P0(k, 1)).maps = k.maps)
                   /\ NoIrr(k)

IndexTable(k) == IF Is2D(k) THEN F([i \in 1..k.r |-> [j \in 1..k.cc |-> PIdx(k, i, j) - 1]]) ELSE <<>>

AllProj(k) == k.kind = "step" /\ k.proj = ""
FB2P(k)    == F([w \in 1..MaxW |-> F2P(k, FB(k, w))])
MapsRec(k) ==
    [kind |-> "maps", c |-> k,
     par_shape |-> <<ParDim(k)>>, fun_shape |-> FunShape(k), has_vec |-> HasVec(k),
     funvec_shape |-> IF HasVec(k) THEN <<FunvecDim(k)>> ELSE <<>>,
     index |-> IndexTable(k),
     stepof |-> IF k.kind = "step" THEN StepTable(k) ELSE <<>>,
     boundary |-> IF k.kind = "step" THEN F([j \in 1..k.n |-> OnBoundary(k, j - 1)]) ELSE <<>>,
     coefs |-> IF k.kind = "kl" THEN F([i \in 1..ParDim(k) |-> KLCoef(k, i)]) ELSE <<>>,
     \* kl: 1 = the basis functions are the sine modes divided by sqrt(i+1) (half-integer decay rate)
     halfpow |-> IF k.kind = "kl" THEN k.d2 % 2 ELSE 0,
     has_inv |-> HasInv(k),
     \* g0: a lattice function; the function handed to fun2par is f0 = maps(g0) (= g0 without maps).  f0 / p2f are the
     \* spec's exact values where it holds them (p2f: par2fun of the basis vectors and of the ramp P0)
     tagged |-> Tagged(k),
     g0 |-> G0(k, 1),
     f0 |-> IF Tagged(k) THEN <<>> ELSE F0(k, 1),
     p2f |-> IF IsMapped(k) /\ ~Tagged(k)
             THEN F([q \in 1..(ParDim(k) + 1) |-> P2F(k, IF q <= ParDim(k) THEN Unit(ParDim(k), q) ELSE P0(k, 1))]) ELSE <<>>,
     \* batches: par2fun of column w of the parameter batch P0 (a batch of W columns holds the first W), and for every
     \* width the shapes of a sample set of Ns = W samples in its three forms (fun_is_vec: function values that are
     \* vectors) and the shape a geometry map gives a W-column input when it removes the batch axis of one column
     bcols  |-> F([w \in 1..MaxW |-> P2F(k, P0(k, w))]),
     bshape |-> F([W \in 1..MaxW |->
                    [ns |-> W, par |-> <<ParDim(k), W>>, fun |-> FunShape(k) \o <<W>>,
                     vec |-> IF HasVec(k) THEN <<FunvecDim(k), W>> ELSE <<>>, fun_is_vec |-> ~Is2D(k),
                     map_fun |-> MapFunShape(k, W), map_par |-> MapParShape(k, W)]]),
     \* a step configuration without a projection option carries all three projections, else the one of its option
     f2p |-> IF AllProj(k) \/ ~HasInv(k) THEN <<>> ELSE F2P(k, F0(k, 1)),
     f2p_mean |-> IF AllProj(k) /\ HasInv(k) THEN F2P(StepProj(k, "mean"), F0(k, 1)) ELSE <<>>,
     f2p_min  |-> IF AllProj(k) /\ HasInv(k) THEN F2P(StepProj(k, "min"), F0(k, 1)) ELSE <<>>,
     f2p_max  |-> IF AllProj(k) /\ HasInv(k) THEN F2P(StepProj(k, "max"), F0(k, 1)) ELSE <<>>,
     \* the matrix of stacked functions: its columns (mapped: their pre-images under the maps) and fun2par of each column
     fb |-> F([w \in 1..MaxW |-> GB(k, w)]),
     fb2p |-> IF AllProj(k) \/ ~HasInv(k) THEN <<>> ELSE FB2P(k),
     fb2p_mean |-> IF AllProj(k) /\ HasInv(k) THEN FB2P(StepProj(k, "mean")) ELSE <<>>,
     fb2p_min  |-> IF AllProj(k) /\ HasInv(k) THEN FB2P(StepProj(k, "min")) ELSE <<>>,
     fb2p_max  |-> IF AllProj(k) /\ HasInv(k) THEN FB2P(StepProj(k, "max")) ELSE <<>>]

\* a MappedGeometry without imap: only the forward maps (par2fun, vector form) and the shapes
ForwardOnly(k) ==
    /\ ShapeOf(k, Bare(k, P2F(k, P0(k, 1))), Is2D(k)) = FunShape(k)
    /\ (HasVec(k) => V2F(k, F2V(k, P2F(k, P0(k, 2)))) = P2F(k, P0(k, 2)))
    /\ \A x \in FlatLeaves(k, Bare(k, P2F(k, P0(k, 2)))) : ~IsIrr(x)
Maps ==
    mode = "maps" =>
        /\ Partition(c)
        /\ (~HasInv(c) => Bijection(c) /\ Columnwise(c) /\ ForwardOnly(c))
        /\ (HasInv(c) =>
            /\ (c.kind = "step" \/ (Bijection(c) /\ RoundTrip(c) /\ Columnwise(c) /\ Shapes(c)))
            /\ (c.kind = "step" => \A pr \in ProjsOf(c) : RoundTrip(StepProj(c, pr)) /\ Shapes(StepProj(c, pr)))
            /\ Idempotent(c)
            /\ ColumnwiseF2P(c)
            /\ (c.kind = "step" => \A pr \in ProjsOf(c) : MappedProjection(StepProj(c, pr)))
            /\ (c.kind # "step" => MappedProjection(c)))
        /\ (Emit => PrintT("@@CASE " \o ToJson(MapsRec(c)) \o " @@END"))

\* the same properties one by one (used by the deviation configurations to name what breaks)
PartitionInv  == mode = "maps" => Partition(c)
RoundTripInv  == mode = "maps" /\ HasInv(c) => IF c.kind = "step" THEN \A pr \in ProjsOf(c) : RoundTrip(StepProj(c, pr))
                                                ELSE RoundTrip(c)
ColumnwiseInv == mode = "maps" => Columnwise(c)
ColumnwiseF2PInv == mode = "maps" /\ HasInv(c) => ColumnwiseF2P(c)
MappedRoundTripInv  == mode = "maps" /\ IsMapped(c) /\ HasInv(c) /\ c.kind # "step" /\ c.maps = <<"cube">> => RoundTrip(c)
MappedProjectionInv == mode = "maps" /\ IsMapped(c) /\ HasInv(c) /\ c.kind = "step" /\ c.maps = <<"cube">> => MappedProjection(StepProj(c, "mean"))

\* ---- the conversion automaton (mode "conv") ---------------------------------------------------------------------
Fun1D(k) == ~Is2D(k)
MapCols(op(_), v) == F([w \in 1..Len(v) |-> op(v[w])])

\* shape of ONE value in the form the flags name, and of the array an object holds
PerShape(k, p, v) == IF p THEN <<ParDim(k)>> ELSE IF v /\ Is2D(k) THEN <<FunvecDim(k)>> ELSE FunShape(k)
Ns == shp[Len(shp)]                                                    \* Samples.Ns: the length of the last axis
\* what a conversion to values of shape `per` allocates: Samples: per + (Ns,), filled sample by sample.
\* Deviation "batchfast": for the reshaping geometries the whole array is handed to the geometry map ("it acts
\* column-wise on a matrix of columns"), which removes the batch axis of one column
ConvShape(per) == IF rep = "array" THEN per
                  ELSE IF Dev = "batchfast" /\ P2FSqueezes(c) THEN Squeezed(per, Ns) ELSE per \o <<Ns>>

\* Samples.funvals / vector / parameters and CUQIarray.funvals / parameters, one value at a time (per-sample loops)
Funvals ==
    /\ mode = "conv" /\ Len(trail) < MaxOps
    /\ IF ~par /\ (~vec \/ rep = "array")
       THEN UNCHANGED <<par, vec, val, shp>>                                   \* already function values
       ELSE /\ val' = IF par THEN MapCols(LAMBDA x : P2F(c, x), val) ELSE MapCols(LAMBDA x : V2F(c, x), val)
            /\ par' = FALSE
            /\ shp' = ConvShape(FunShape(c))
            \* Samples: "vector" is read off the rank of the new array (at most one axis besides the samples)
            /\ vec' = IF rep = "samples" THEN Len(shp') <= 2 ELSE Fun1D(c)
    /\ trail' = Append(trail, "funvals")
    /\ UNCHANGED <<c, mode, rep, origin, indices, c0, cache>>

Vector ==
    /\ mode = "conv" /\ Len(trail) < MaxOps /\ rep = "samples"
    /\ (vec \/ par \/ HasVec(c))
    /\ IF vec \/ par
       THEN UNCHANGED <<par, vec, val, shp>>
       ELSE /\ val' = MapCols(LAMBDA x : F2V(c, x), val)
            /\ shp' = ConvShape(<<FunvecDim(c)>>)
            /\ vec' = TRUE
            /\ par' = (Dev = "vectorsetspar")
    /\ trail' = Append(trail, "vector")
    /\ UNCHANGED <<c, mode, rep, origin, indices, c0, cache>>

Parameters ==
    /\ mode = "conv" /\ Len(trail) < MaxOps
    /\ IF par
       THEN UNCHANGED <<par, vec, val, shp>>
       ELSE /\ val' = IF vec /\ rep = "samples" /\ ~Fun1D(c)
                      THEN MapCols(LAMBDA x : F2P(c, V2F(c, x)), val)
                      ELSE MapCols(LAMBDA x : F2P(c, x), val)
            /\ shp' = ConvShape(<<ParDim(c)>>)
            /\ par' = TRUE /\ vec' = TRUE
    /\ trail' = Append(trail, "parameters")
    /\ UNCHANGED <<c, mode, rep, origin, indices, c0, cache>>

\* ---- one object, a sequence of uses and reassignments (mode "seq") ------------------------------------------------
\* What an object may remember at first use:  funvec = the shape of the vector form, wfun = a wrapper's function
\* shape (<<>>: nothing yet); `indices` is the step partition.  (The KL coefficients are keyed by their number and
\* looked at on every use: see KLCached and the grid replacement n2 of mode "maps".)
EmptyCache == [funvec |-> <<>>, wfun |-> <<>>]
SeqUses == {"shape", "p2f", "f2p", "conv"}
SeqInner ==
    {Cfg("ident", "Continuous1D", 3, 0, 0, 0, 0, 0, Zero, Zero, ""), Cfg("ident", "Default1D", 2, 0, 0, 0, 0, 0, Zero, Zero, ""),
     Cfg("ident", "Discrete", 3, 0, 0, 0, 0, 0, Zero, Zero, ""), Cfg("image", "Continuous2D", 0, 2, 3, 0, 0, 0, Zero, Zero, ""),
     KLCfg(4, 0), KLCfg(4, 2), KLCfg(3, 1), StepCfg(5, 2, 1, 1), StepCfg(9, 3, 2, 2)}
SeqWrapped == {Cfg("ident", "Continuous1D", 3, 0, 0, 0, 0, 0, Zero, Zero, ""), KLCfg(4, 0), KLCfg(4, 2), StepCfg(5, 2, 1, 1)}
SeqConfigs == {[k EXCEPT !.proj = IF k.kind = "step" THEN "mean" ELSE ""] :
                  k \in SeqInner \cup {WithMaps(k, ms) : k \in SeqWrapped, ms \in {<<"cube">>, <<"affine", "cube">>}}}
\* the public setters: grid (number of nodes; for the step expansion also another offset / length), Discrete.variables
SeqTargets(k) ==
    CASE k.kind = "ident" -> {[k EXCEPT !.n = nn] : nn \in {2, 4} \ {k.n}}
      [] k.kind = "image" -> {[k EXCEPT !.r = sh[1], !.cc = sh[2]] : sh \in {<<3, 2>>, <<1, 3>>}}
      [] k.kind = "kl"    -> {[k EXCEPT !.n = nn] : nn \in {2, 3, 4} \ {k.n}}
      [] k.kind = "step"  -> {[k EXCEPT !.n = nn] : nn \in {5, 9} \ {k.n}} \cup {[k EXCEPT !.x0 = X0Seq[3], !.len = LSeq[3]]}
SetterOf(k) == IF k.cls = "Discrete" THEN "variables" ELSE "grid"

SeqUse(w) ==
    /\ mode = "seq" /\ Len(trail) < MaxSeq
    /\ cache' = [funvec |-> IF w = "shape" /\ HasVec(c) /\ cache.funvec = <<>> THEN <<FunvecDim(c)>> ELSE cache.funvec,
                 wfun   |-> IF w \in {"shape", "conv"} /\ IsMapped(c) /\ cache.wfun = <<>> THEN FunShape(c) ELSE cache.wfun]
    /\ trail' = Append(trail, [op |-> "use", what |-> w, c |-> c])
    /\ UNCHANGED <<c, mode, rep, origin, par, vec, val, indices, c0, shp>>
SeqSet(t) ==
    /\ mode = "seq" /\ Len(trail) < MaxSeq
    /\ c' = t
    \* the setter recomputes / forgets whatever was derived from the old value
    /\ indices' = IF Dev = "stalestep" THEN indices ELSE ComputeIndices(t)
    /\ cache' = [funvec |-> IF Dev = "stalefunvec" THEN cache.funvec ELSE <<>>,
                 wfun   |-> IF Dev = "stalewrap" THEN cache.wfun ELSE <<>>]
    /\ trail' = Append(trail, [op |-> "set", what |-> SetterOf(t), c |-> t])
    /\ UNCHANGED <<mode, rep, origin, par, vec, val, c0, shp>>
SeqNext == (\E w \in SeqUses : SeqUse(w)) \/ (mode = "seq" /\ \E t \in SeqTargets(c) : SeqSet(t))

\* the object answers like a freshly constructed geometry with the current settings
SeqFresh == mode = "seq" =>
    /\ indices = ComputeIndices(c)
    /\ cache.funvec \in {<<>>, <<FunvecDim(c)>>}
    /\ cache.wfun \in {<<>>, FunShape(c)}
\* the expected values of every configuration a behaviour passes through are those of the "maps" case of its inner geometry
SeqInMaps == mode = "seq" => [Inner(c) EXCEPT !.proj = ""] \in MapConfigs
SeqEmit == mode = "seq" =>
        ((Emit /\ Len(trail) = MaxSeq) => PrintT("@@CASE " \o ToJson([kind |-> "seq", c0 |-> c0, c |-> c, trail |-> trail]) \o " @@END"))

InitMaps == /\ mode = "maps" /\ c \in MapConfigs
            /\ rep = "none" /\ origin = "none" /\ par = TRUE /\ vec = TRUE /\ val = <<>> /\ trail = <<>> /\ shp = <<>>
InitSeq  == /\ mode = "seq" /\ MaxSeq > 0 /\ c \in SeqConfigs
            /\ rep = "none" /\ origin = "none" /\ par = TRUE /\ vec = TRUE /\ val = <<>> /\ trail = <<>> /\ shp = <<>>
InitConv == /\ mode = "conv" /\ c \in ConvConfigs
            /\ rep \in {"samples", "array"} /\ origin \in {"par", "fun"}
            /\ par = (origin = "par")
            /\ vec = (origin = "par" \/ (rep = "samples" /\ Fun1D(c)) \/ (rep = "array" /\ Fun1D(c)))
            \* a sample set of Ns = 1, 2 or 3 samples; an array holds one value (no batch axis)
            /\ \E W \in (IF rep = "samples" THEN Widths ELSE {1}) :
                 /\ val = IF origin = "par" THEN [w \in 1..W |-> P0(c, w)] ELSE [w \in 1..W |-> F0(c, w)]
                 /\ shp = IF rep = "samples" THEN PerShape(c, par, vec) \o <<W>> ELSE PerShape(c, par, vec)
            /\ trail = <<>>
Init == (InitMaps \/ InitConv \/ InitSeq) /\ indices = ComputeIndices(c) /\ c0 = c /\ cache = EmptyCache
Next == Funvals \/ Vector \/ Parameters \/ SeqNext
Spec == Init /\ [][Next]_vars

\* (is_par, not is_vec) does not exist; an array is "vector" exactly when its values are one-dimensional
FlagsLegal == mode = "conv" => /\ (par => vec)
                               /\ (rep = "array" /\ ~par => vec = Fun1D(c))
                               /\ (rep = "samples" /\ Fun1D(c) => vec)

\* lossless: the content is determined by the flags - whatever the sequence of conversions
Projected == \E q \in 1..Len(trail) : trail[q] = "parameters"
Canon(w) ==
    LET p0 == IF origin = "par" THEN P0(c, w) ELSE F2P(c, F0(c, w))
        f0 == IF origin = "fun" /\ ~Projected THEN F0(c, w) ELSE P2F(c, p0)
    IN IF par THEN p0 ELSE IF vec /\ ~Fun1D(c) THEN F2V(c, f0) ELSE f0
Lossless == mode = "conv" => \A w \in 1..Len(val) : val[w] = Canon(w)

\* the array of a sample set is the per-sample shape of its form followed by the number of samples, for EVERY number of
\* samples (one sample: a last axis of length 1, Ns = 1); the vector flag of function values agrees with its rank
SamplesShape == mode = "conv" =>
    /\ shp = IF rep = "samples" THEN PerShape(c, par, vec) \o <<Len(val)>> ELSE PerShape(c, par, vec)
    /\ (rep = "samples" => /\ Ns = Len(val)
                           /\ (~par => (vec <=> Len(shp) <= 2)))

Conv ==
    mode = "conv" =>
        (Emit => PrintT("@@CASE " \o ToJson([kind |-> "conv", c |-> c, rep |-> rep, origin |-> origin, trail |-> trail,
                                             par |-> par, vec |-> vec, val |-> val,
                                             shape |-> shp, ns |-> Len(val)]) \o " @@END"))
=============================================================================
