------------------------------ MODULE NutsSeq ------------------------------
(***************************************************************************)
(* ONE NUTS sampler object making SEVERAL transitions, with its public      *)
(* attributes reassigned in between (property C08).                        *)
(*                                                                         *)
(* Module Nuts describes ONE transition of a freshly built sampler that    *)
(* starts at t = 0 of a lattice orbit.  This module adds                   *)
(*                                                                         *)
(* 1. the SHIFT LEMMA.  For a flat log-density table the orbit seen from   *)
(*    the leaf c is again an orbit of the instance: ShiftId(id, c) (same   *)
(*    momentum word, phase advanced by c).  ShiftLemma (checked by TLC on  *)
(*    every flat orbit and every c): positions (relative to x_c),          *)
(*    gradients, momenta, log-densities and energies of MkOrbit(ShiftId(   *)
(*    id, c)) at t are those of MkOrbit(id) at t + c.  Hence a SECOND      *)
(*    transition of the same sampler object on the same target, started    *)
(*    where the first one ended (leaf c) with the momentum r_c, is the     *)
(*    behaviour of Nuts for ShiftId(id, c) translated by c: the state      *)
(*    carried over (point, cached log-density, cached gradient) is all the *)
(*    second transition needs.                                             *)
(*                                                                         *)
(* 2. the OBJECT MACHINE.  Abstract state `so` of the one sampler object:  *)
(*      tgt  orbit id installed as target, in the frame centred at the     *)
(*           current point (on = FALSE: the current point left the part    *)
(*           of a non-flat table that an orbit of the instance describes)  *)
(*      md   attribute max_depth          ka  attribute step_size (eps = 1/ka) *)
(*      ku   step size the transitions USE (set at (re)initialisation:     *)
(*           "used as initial step size")                                  *)
(*      cof  orbit id the cached log-density / gradient belong to          *)
(*      ri   (re)initialised since the target was assigned                 *)
(*    Actions: SetMaxDepth(d), SetStepSize(k), SetTarget(id) (public       *)
(*    attributes), Reinit (initial_point = current_point; reinitialize()   *)
(*    - what HybridGibbs does with a NUTS block), Trans(c) (one transition *)
(*    ending at leaf c; only specified when the caches belong to the       *)
(*    installed target at the current point and the step size in use is    *)
(*    the one the orbit was generated with).                               *)
(*    Invariants: TransSpecified (whenever a transition is specified its   *)
(*    configuration <<orbit, max_depth>> is an initial state of Nuts, so   *)
(*    the behaviours emitted by Nuts are the expectation), CacheCarried    *)
(*    (after a reinitialisation the caches belong to the installed target; *)
(*    after a transition to the new current point), DepthFollowsAttribute  *)
(*    (the depth bound of the next transition is the CURRENT attribute),   *)
(*    StepAtInit (the step size in use is the attribute as of the last     *)
(*    initialisation).  Named deviations: DevReinitKeepsCache,             *)
(*    DevDepthFrozenAtInit - TLC must refute CacheCarried /                *)
(*    DepthFollowsAttribute.                                               *)
(*                                                                         *)
(* Emission: (BInit / BNext) the orbits and behaviours of Nuts on the      *)
(* lattice of this module (all phases of the words, flat and non-flat      *)
(* tables); (ObjInit / ObjNext) the table ShiftId.  The replay drives ONE  *)
(* real sampler object through seeded walks of the object machine and      *)
(* compares every transition with the behaviour of the configuration the   *)
(* machine is in.                                                          *)
(***************************************************************************)
EXTENDS Nuts

CONSTANTS DevReinitKeepsCache, DevDepthFrozenAtInit,
          ObjDepth            \* bound on the number of operations of the object machine

VARIABLE so

\* ---- lattice of this module ---------------------------------------------------------------------------------------
WordsSeq == WordsAllPhases({ <<3>>, <<1, 4>>, <<1, 2, 4>>, <<1, 3, 3>> })
FlatLp   == << <<0>>, 0 >>
LpSeq    == { FlatLp, << <<0, -2, -4>>, 1 >>, << <<0, 1, 9001, -1, -4000, 2>>, 0 >> }
Flat(id) == id[3] = <<0>>
CMax     == 3                                  \* a transition of depth <= 1 ends at most 3 leaves from its start
TMaxSeq  == 7                                  \* tables reach 7 leaves to either side (cfg: TMax <- TMaxSeq): room for chains of transitions

ShiftId(id, c) == << id[1], Mod(id[2] + c, Len(id[1])), id[3], Mod(id[4] + c, Len(id[3])), id[5] >>

NoObj == [tgt |-> <<>>]

\* ---- part B: behaviours of Nuts on this lattice -------------------------------------------------------------------
BInit == Init /\ so = NoObj
BNext == Next /\ UNCHANGED so

ShiftLemma ==
    (kc.N = 0 /\ pc = "momentum" /\ Flat(orb)) =>
       \A c \in (-CMax)..CMax :
          LET O2 == MkOrbit(ShiftId(orb, c))
          IN \A t \in TR : (t + c) \in TR =>
                /\ O2.x[t] = RSub(ot.x[t + c], ot.x[c])
                /\ O2.g[t] = ot.g[t + c] /\ O2.r[t] = ot.r[t + c]
                /\ O2.lp[t] = ot.lp[t + c] /\ O2.H[t] = ot.H[t + c]
\* a transition of depth <= 1 stays within CMax leaves of its start (so the shifted orbit describes the next one)
WithinCMax == (kc.N = 0 /\ pc = "done" /\ md <= 1) => (cur >= -CMax /\ cur <= CMax /\ tm >= -CMax /\ tp <= CMax)

\* ---- part O: the object machine -----------------------------------------------------------------------------------
\* (the set of usable orbit ids is carried in the state: TLC does not cache constant definitions that use RECURSIVE operators)
ObjInit == /\ Dummy /\ kc = [N |-> -2]
           /\ \E U \in { {id \in OrbIds : Injective(MkOrbit(id))} } :          \* (bound once)
                 so \in { [tgt |-> id, on |-> TRUE, md |-> d, ka |-> id[5], ku |-> id[5], cof |-> id, ri |-> TRUE, mdi |-> d,
                           kai |-> id[5], h |-> 0, U |-> U] : id \in {q \in U : Flat(q)}, d \in Depths }
Usable(id) == id \in so.U
Step(s2) == so' = [s2 EXCEPT !.h = so.h + 1] /\ so.h < ObjDepth /\ UNCHANGED vars

SetMaxDepth(d) == d \in Depths /\ d # so.md /\ Step([so EXCEPT !.md = d])
SetStepSize(k) == k \in EpsDens /\ k # so.ka /\ Step([so EXCEPT !.ka = k])
\* (targets offered for assignment: phase 0 of two words, every table and step size - keeps the machine small)
Offered(id)    == id \in so.U /\ id[2] = 0 /\ id[1] \in {<<1, 4>>, <<1, 2, 4>>}
SetTarget(id)  == Offered(id) /\ id # so.tgt /\ Step([so EXCEPT !.tgt = id, !.on = TRUE, !.ri = FALSE])
Reinit         == Step([so EXCEPT !.ri = TRUE, !.ku = so.ka, !.kai = so.ka, !.mdi = so.md,
                                  !.cof = IF DevReinitKeepsCache THEN @ ELSE so.tgt])
Specified(q)   == q.on /\ q.ri /\ q.cof = q.tgt /\ q.ku = q.tgt[5]
DepthUsed(q)   == IF DevDepthFrozenAtInit THEN q.mdi ELSE q.md
\* one transition ending at leaf c: the frame moves with the current point; off a flat table (or off the instance) only c = 0
\* keeps the object in a described configuration
Trans(c) == /\ Specified(so) /\ c \in (-CMax)..CMax
            /\ LET sh == ShiftId(so.tgt, c)
                   ok == c = 0 \/ (Flat(so.tgt) /\ Usable(sh))
                   nxt == IF c # 0 /\ ok THEN sh ELSE so.tgt
               IN Step([so EXCEPT !.tgt = nxt, !.cof = nxt, !.on = ok])
ObjNext == \/ \E d \in Depths : SetMaxDepth(d)
           \/ \E k \in EpsDens : SetStepSize(k)
           \/ \E id \in so.U : SetTarget(id)
           \/ Reinit
           \/ \E c \in (-CMax)..CMax : Trans(c)

IsObj == kc.N = -2
TransSpecified == (IsObj /\ Specified(so)) => (so.tgt \in so.U /\ DepthUsed(so) \in Depths /\ so.ku \in EpsDens)
CacheCarried == (IsObj /\ so.ri /\ so.on) => so.cof = so.tgt
DepthFollowsAttribute == IsObj => DepthUsed(so) = so.md
StepAtInit == IsObj => so.ku = so.kai

ShiftTable ==
    (Emit /\ IsObj /\ so.h = 0 /\ so.md = 0) =>
        PrintT("@@CASE " \o ToJson([kind |-> "shift", orb |-> so.tgt,
                                    to |-> [i \in 1..(2 * CMax + 1) |->
                                              LET c == i - CMax - 1  id2 == ShiftId(so.tgt, c)
                                              IN [c |-> c, orb |-> id2, usable |-> Usable(id2)]]]) \o " @@END")
=============================================================================
