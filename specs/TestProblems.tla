--------------------------- MODULE TestProblems ---------------------------
(***************************************************************************)
(* Shipped test problems (property C17): the documented forward operators  *)
(* that are not convolutions (Abel quadrature, Wang's cubic, discretised   *)
(* Poisson and heat equations) and the OBJECT-CONSISTENCY record of every  *)
(* test problem as a small state machine.                                  *)
(*                                                                         *)
(* Part A - documented operators on exact (integer / rational) instances:  *)
(*   Abel1D   : midpoint quadrature of g(s) = INT_0^s f(t)/sqrt(s-t) dt,   *)
(*              nodes t_j = (j-1/2)h, s_i = i h:  A_ij = h/sqrt(s_i-t_j)   *)
(*              for t_j < s_i, else 0.  Kept rational through the squares: *)
(*              A_ij^2 (s_i - t_j) = h^2.                                   *)
(*   WangCubic: F(x) = 10 x2 - 10 x1^3 + 5 x1^2 + 6 x1, Jacobian = its     *)
(*              derivative (checked by exact central differences).         *)
(*   Poisson1D: -(kappa u')' = f on dim nodes with spacing dx, u = 0 at     *)
(*              both ends, conservative 3-point scheme:                    *)
(*              (D^T diag(kappa) D) u = f, D = first differences / dx with *)
(*              zero ghost values ((N+1) x N, N = dim-1).                   *)
(*   Heat1D   : u_t = u_xx, zero Dirichlet, N interior nodes, K explicit   *)
(*              Euler steps of size dt: u_K = (I + dt Dxx)^K u_0.           *)
(*                                                                         *)
(* Part B - the life of a test problem object, one action per code step:   *)
(*   BuildModel -> MakeExact -> MakeDataDist -> SampleData ->              *)
(*   MakeLikelihood -> Assemble -> GetComponents                           *)
(* over the option lattice (problem, sizes, PSF, BC, phantom, noise type,  *)
(* level, prior, scripted standard-normal draw Z).  Objects live in a heap *)
(* and refer to each other by name, so that "the same model / data /       *)
(* geometry" is a statement about references.  Invariants: SameModel,      *)
(* SameData, SameGeometries, ExactDataIsModelOfExactSolution,              *)
(* NoiseRelation (data - exactData = NoiseScale(type, level, exactData)    *)
(* .* Z), LikelihoodNoiseIsStated, PosteriorIsLikPlusPrior.                *)
(* Named deviations (off in the deciding configurations): VarianceAsStd,   *)
(* OtherModelInstance, GetComponentsCopiesData, OtherPhantom.              *)
(*                                                                         *)
(* Noise with an SNR option (Heat1D, Poisson1D, Abel1D): the docstrings do *)
(* not define the ratio; the spec states only that ONE scalar sigma scales *)
(* the draws and is the sigma of the likelihood ("snr" scale record).      *)
(***************************************************************************)
EXTENDS Mat, FiniteSets, TLC, Json

CONSTANTS Emit,        \* TRUE: print @@CASE lines
          Deviation,   \* "none" or the name of a deviation
          Size         \* 0 = tiny lattice (deviation runs), 1 = quick lattice, 2 = thorough lattice

VARIABLES opt,         \* option record (a model case or a problem case)
          pc,          \* control state
          heap,        \* named objects
          prob,        \* what the problem object stores
          comps        \* result of get_components()
vars == <<opt, pc, heap, prob, comps>>

CV == INSTANCE Conv WITH c <- 0, MaxN1 <- 0, MaxM1 <- 0, MaxN2 <- 0, MaxM2 <- 0, Emit <- FALSE, Deviation <- "none"

ISum(s)   == CV!ISum(s)
IAbs(a)   == IF a < 0 THEN -a ELSE a
IMV(A, x) == CV!IMV(A, x)

\* =========================================================================================
\* Part A: documented operators
\* =========================================================================================

\* ---- Abel1D: squares of the quadrature weights, h = hn/hd ---------------------------------
\* s_i - t_j = (i - j + 1/2) h = (2(i-j)+1) h / 2
AbelW2(N, h) == F([i \in 1..N |-> [j \in 1..N |-> IF j <= i THEN RDiv(RMul(R(2), h), R(2 * (i - j) + 1)) ELSE Zero]])
AbelGap(i, j, h) == RMul(Q(2 * (i - j) + 1, 2), h)          \* s_i - t_j
AbelDefining(N, h) ==
    LET W == AbelW2(N, h)
    IN \A i \in 1..N : \A j \in 1..N :
          IF RLt(Zero, AbelGap(i, j, h)) THEN RMul(W[i][j], AbelGap(i, j, h)) = RSq(h) ELSE W[i][j] = Zero
AbelStructure(N, h) ==
    LET W == AbelW2(N, h)
    IN /\ \A i \in 1..N : \A j \in 1..N : (j > i => W[i][j] = Zero) /\ (j <= i => RLt(Zero, W[i][j]))
       /\ \A i \in 1..(N - 1) : \A j \in 1..(N - 1) : W[i][j] = W[i + 1][j + 1]          \* depends on i - j only
       /\ \A i \in 1..N : W[i][i] = RMul(R(2), h)                                          \* diagonal: h^2/(h/2)

\* ---- WangCubic ------------------------------------------------------------------------------
WangF(x1, x2) == 10 * x2 - 10 * x1 * x1 * x1 + 5 * x1 * x1 + 6 * x1
WangJ(x1, x2) == <<-30 * x1 * x1 + 10 * x1 + 6, 10>>
WangPts == {<<a, b>> : a \in -2..2, b \in -2..2}
\* exact for polynomials of degree <= 4:  12 p'(t) = -p(t+2) + 8 p(t+1) - 8 p(t-1) + p(t-2)
WangJacobianIsDerivative ==
    \A p \in WangPts :
        /\ 12 * WangJ(p[1], p[2])[1] = -WangF(p[1] + 2, p[2]) + 8 * WangF(p[1] + 1, p[2]) - 8 * WangF(p[1] - 1, p[2]) + WangF(p[1] - 2, p[2])
        /\ 12 * WangJ(p[1], p[2])[2] = -WangF(p[1], p[2] + 2) + 8 * WangF(p[1], p[2] + 1) - 8 * WangF(p[1], p[2] - 1) + WangF(p[1], p[2] - 2)
\* it is a cubic in x1 (fourth difference vanishes, third does not) and affine in x2
WangIsCubic ==
    \A p \in WangPts :
        LET g(t) == WangF(t, p[2])
        IN /\ g(p[1] + 2) - 4 * g(p[1] + 1) + 6 * g(p[1]) - 4 * g(p[1] - 1) + g(p[1] - 2) = 0
           /\ g(p[1] + 2) - 2 * g(p[1] + 1) + 2 * g(p[1] - 1) - g(p[1] - 2) = -120          \* 2 * 3! * (-10)
           /\ WangF(p[1], p[2] + 1) - WangF(p[1], p[2]) = 10

\* ---- Poisson1D ------------------------------------------------------------------------------
\* D ((N+1) x N), rows r = 1..N+1:  (u_r - u_{r-1}) / dx  with u_0 = u_{N+1} = 0
PoisD(N, dx) == F([r \in 1..(N + 1) |-> [j \in 1..N |->
                    IF j = r THEN RInv(dx) ELSE IF j = r - 1 THEN RNeg(RInv(dx)) ELSE Zero]])
PoisA(kappa, dx) ==
    LET N == Len(kappa) - 1  D == PoisD(N, dx)
    IN MM(MT(D), MM(MDiag(VR(kappa)), D))
PoisSolve(kappa, f, dx) == MSolve(PoisA(kappa, dx), VR(f))
\* the assembled operator is the conservative 3-point stencil
PoisStencil(kappa, dx) ==
    LET N == Len(kappa) - 1  A == PoisA(kappa, dx)  w == RSq(RInv(dx))
    IN \A i \in 1..N : \A j \in 1..N :
          A[i][j] = IF j = i THEN RMul(R(kappa[i] + kappa[i + 1]), w)
                    ELSE IF j = i - 1 THEN RMul(R(-kappa[i]), w)
                    ELSE IF j = i + 1 THEN RMul(R(-kappa[i + 1]), w)
                    ELSE Zero
PoisResidual(kappa, f, dx) == MV(PoisA(kappa, dx), PoisSolve(kappa, f, dx)) = VR(f)

Kappas(d) == { [i \in 1..d |-> 1], [i \in 1..d |-> i], [i \in 1..d |-> ((i * i) % 3) + 1] }
Sources(N) == { [i \in 1..N |-> 1], [i \in 1..N |-> IF i = 1 THEN 3 ELSE 1 - i] }

\* ---- Heat1D ---------------------------------------------------------------------------------
\* r = dt / dx^2
HeatStep(N, r) == F([i \in 1..N |-> [j \in 1..N |->
                      IF j = i THEN RSub(One, RMul(R(2), r)) ELSE IF j = i - 1 \/ j = i + 1 THEN r ELSE Zero]])
RECURSIVE HeatRun(_, _, _)
HeatRun(M, u, K) == IF K = 0 THEN u ELSE HeatRun(M, MV(M, u), K - 1)
HeatFinal(u0, r, K) == HeatRun(HeatStep(Len(u0), r), VR(u0), K)
HeatICs(N) == { [i \in 1..N |-> i], [i \in 1..N |-> IF i = 1 THEN 4 ELSE IF i = N THEN -2 ELSE 1] }
\* one explicit Euler step applied to a unit vector is the stencil column; total heat never grows for r <= 1/2
HeatStepIsStencil(N, r) ==
    LET M == HeatStep(N, r)
    IN \A j \in 1..N : LET col == MV(M, VUnit(N, j))
                       IN \A i \in 1..N : col[i] = IF i = j THEN RSub(One, RMul(R(2), r))
                                                   ELSE IF i = j - 1 \/ i = j + 1 THEN r ELSE Zero

\* ---- the model cases ------------------------------------------------------------------------
MaxAbelN == IF Size = 0 THEN 2 ELSE IF Size = 1 THEN 5 ELSE 7
\* <<r, K>>: r = dt/dx^2 and the number of steps; kept small enough for 32-bit rationals
HeatRK   == {<<Q(1, 2), K>> : K \in 1..9} \cup {<<Q(5, 8), K>> : K \in 1..2} \cup {<<Q(3, 4), 1>>}
                \cup {<<Q(1, 4), K>> : K \in 1..4} \cup {<<Q(1, 3), K>> : K \in 1..3}
ModelCases ==
       { [kind |-> "abel", N |-> N, h |-> h] : N \in 2..MaxAbelN, h \in {Q(1, 2), Q(1, 4), Q(1, 1), Q(2, 3)} }
  \cup { [kind |-> "wang"] }
  \cup UNION { { [kind |-> "poisson", dim |-> d, dx |-> dx, kappa |-> k, f |-> f] :
                   k \in Kappas(d), f \in Sources(d - 1), dx \in {Q(1, 1), Q(1, 2)} } : d \in 3..(IF Size = 1 THEN 4 ELSE 5) }
  \cup UNION { { [kind |-> "heat", N |-> N, r |-> rk[1], K |-> rk[2], u0 |-> u0] :
                   u0 \in HeatICs(N), rk \in HeatRK } : N \in 2..(IF Size = 0 THEN 2 ELSE 4) }

HeatR(o) == o.r

ModelOK ==
    pc = "model" =>
      CASE opt.kind = "abel"    -> AbelDefining(opt.N, opt.h) /\ AbelStructure(opt.N, opt.h)
        [] opt.kind = "wang"    -> WangJacobianIsDerivative /\ WangIsCubic
        [] opt.kind = "poisson" -> PoisStencil(opt.kappa, opt.dx) /\ PoisResidual(opt.kappa, opt.f, opt.dx)
        [] opt.kind = "heat"    -> HeatStepIsStencil(opt.N, HeatR(opt))

EmitModel ==
    (Emit /\ pc = "model") =>
      PrintT("@@CASE " \o ToJson(
        CASE opt.kind = "abel"    -> [kind |-> "abel", N |-> opt.N, h |-> opt.h, W2 |-> AbelW2(opt.N, opt.h)]
          [] opt.kind = "wang"    -> [kind |-> "wang",
                                      pts |-> [i \in 1..25 |-> LET a == ((i - 1) \div 5) - 2  b == ((i - 1) % 5) - 2
                                                               IN [x |-> <<a, b>>, F |-> WangF(a, b), J |-> WangJ(a, b)]]]
          [] opt.kind = "poisson" -> [kind |-> "poisson", dim |-> opt.dim, dx |-> opt.dx, kappa |-> opt.kappa, f |-> opt.f,
                                      u |-> PoisSolve(opt.kappa, opt.f, opt.dx)]
          [] opt.kind = "heat"    -> [kind |-> "heat", N |-> opt.N, K |-> opt.K, u0 |-> opt.u0,
                                      r |-> HeatR(opt), u |-> HeatFinal(opt.u0, HeatR(opt), opt.K)]) \o " @@END")

\* =========================================================================================
\* Part B: object consistency
\* =========================================================================================
Levels == IF Size = 0 THEN {Q(2, 1)} ELSE IF Size = 1 THEN {Q(1, 2), Q(2, 1)} ELSE {Q(1, 2), Q(2, 1), Q(1, 10)}
ZPats  == IF Size = 0 THEN {"alt"} ELSE IF Size = 1 THEN {"zero", "ed", "alt"} ELSE {"zero", "e1", "ed", "ones", "alt"}
BCs1   == {"zero", "periodic", "mirror", "reflect", "nearest"}
BCs2   == {"zero", "periodic", "mirror", "neumann", "nearest"}

\* <<n, m, psf>>
Shapes1 == IF Size = 0 THEN {<<4, 4, "ramp">>} ELSE IF Size = 1 THEN {<<5, 3, "sym">>, <<4, 4, "ramp">>}
           ELSE {<<5, 3, "sym">>, <<4, 4, "ramp">>, <<5, 3, "ramp">>, <<5, 2, "sym">>, <<3, 5, "ramp">>}
ShapesL == IF Size = 0 THEN {<<4, 4, "ramp">>} ELSE IF Size = 1 THEN {<<4, 4, "ramp">>, <<4, 4, "sym">>} ELSE {<<4, 4, "ramp">>, <<4, 4, "sym">>, <<6, 6, "ramp">>}
Shapes2 == IF Size = 0 THEN {<<2, 2, "ramp">>} ELSE IF Size = 1 THEN {<<3, 2, "ramp">>} ELSE {<<3, 2, "ramp">>, <<2, 3, "quad">>, <<3, 3, "ramp">>}

Base == [problem |-> "na", n |-> 0, m |-> 0, psf |-> "na", bc |-> "na", orient |-> "na", phantom |-> "na",
         noise |-> "na", level |-> Zero, prior |-> "default", zpat |-> "zero", exsol |-> "default", wdata |-> "default"]

Opts ==
       { [Base EXCEPT !.problem = "Deconvolution1D", !.n = s[1], !.m = s[2], !.psf = s[3], !.bc = bc, !.phantom = ph,
                      !.noise = nz, !.level = lv, !.prior = pr, !.zpat = z] :
           s \in Shapes1, bc \in BCs1, ph \in {"ramp", "sq"}, nz \in {"gaussian", "scaledgaussian"}, lv \in Levels,
           pr \in {"default", "given"}, z \in ZPats }
  \cup { [Base EXCEPT !.problem = "Deconvolution1D_legacy", !.n = s[1], !.m = s[2], !.psf = s[3], !.bc = "periodic",
                      !.orient = o, !.phantom = ph, !.noise = nz, !.level = lv, !.prior = pr, !.zpat = z] :
           s \in ShapesL, o \in {"conv", "corr"}, ph \in {"ramp", "sq"}, nz \in {"gaussian", "scaledgaussian"}, lv \in Levels,
           pr \in {"default", "given"}, z \in ZPats }
  \cup { [Base EXCEPT !.problem = "Deconvolution2D", !.n = s[1], !.m = s[2], !.psf = s[3], !.bc = bc, !.phantom = ph,
                      !.noise = nz, !.level = lv, !.prior = pr, !.zpat = z] :
           s \in Shapes2, bc \in BCs2, ph \in {"ramp", "sq"}, nz \in {"gaussian", "scaledgaussian"}, lv \in Levels,
           pr \in {"default", "given"}, z \in ZPats }
  \cup { [Base EXCEPT !.problem = p, !.n = 4, !.noise = "snr", !.level = lv, !.zpat = z, !.exsol = e] :
           p \in {"Heat1D", "Poisson1D", "Abel1D"}, lv \in {R(2), R(10)}, z \in ZPats, e \in {"default", "given"} }
  \cup { [Base EXCEPT !.problem = "WangCubic", !.n = 2, !.noise = "gaussian", !.level = lv, !.prior = pr, !.wdata = w] :
           lv \in Levels, pr \in {"default", "given"}, w \in {"default", "given"} }

ValidOpt(o) == (o.problem = "Abel1D" => o.exsol = "default")     \* Abel1D has no exactSolution option

IsDeconv(o)  == o.problem \in {"Deconvolution1D", "Deconvolution1D_legacy", "Deconvolution2D"}
IsSnr(o)     == o.noise = "snr"
IsWang(o)    == o.problem = "WangCubic"
Numeric(o)   == IsDeconv(o)                                        \* exact numbers for exactData / data
DomDim(o)    == CASE o.problem = "Deconvolution2D" -> o.n * o.n
                  [] o.problem = "WangCubic"       -> 2
                  [] o.problem = "Poisson1D"       -> o.n
                  [] OTHER                          -> o.n
RngDim(o)    == CASE o.problem = "Deconvolution2D" -> o.n * o.n
                  [] o.problem = "WangCubic"       -> 1
                  [] o.problem = "Poisson1D"       -> o.n - 1
                  [] OTHER                          -> o.n

Phantom(name, d) == IF name = "ramp" THEN [i \in 1..d |-> i] ELSE [i \in 1..d |-> ((i * i) % 5) + 1]
ZVec(name, d) ==
    CASE name = "zero" -> [i \in 1..d |-> 0]
      [] name = "e1"   -> [i \in 1..d |-> IF i = 1 THEN 1 ELSE 0]
      [] name = "ed"   -> [i \in 1..d |-> IF i = d THEN 1 ELSE 0]
      [] name = "ones" -> [i \in 1..d |-> 1]
      [] name = "alt"  -> [i \in 1..d |-> IF i % 2 = 1 THEN 2 ELSE -1]

\* the operator of a deconvolution option (integer matrix); bcx overrides the boundary condition
DeconvMat(o, bcx) ==
    CASE o.problem = "Deconvolution1D"        -> CV!ConvMat1(CV!Psf1(o.psf, o.m), o.n, bcx)
      [] o.problem = "Deconvolution1D_legacy" -> LET C == CV!ConvMat1(CV!Psf1(o.psf, o.m), o.n, "periodic")
                                                 IN IF o.orient = "conv" THEN C ELSE CV!IT(C)
      [] o.problem = "Deconvolution2D"        -> CV!ConvMat2(CV!Psf2(o.psf, o.m), o.n, bcx)
OtherBC(bc) == IF bc = "zero" THEN "nearest" ELSE "zero"

\* stated noise: scale record and (numeric case) the vector of standard deviations
Stated(o) == [kind |-> IF o.noise = "gaussian" THEN "const" ELSE IF o.noise = "scaledgaussian" THEN "absdata" ELSE "snr", v |-> o.level]
ScaleVec(sc, y) == F([i \in 1..Len(y) |-> IF sc.kind = "const" THEN sc.v ELSE RMul(sc.v, R(IAbs(y[i])))])

PriorOf(o) == IF o.prior = "default"
              THEN [mean |-> IF IsWang(o) THEN <<1, 0>> ELSE [i \in 1..DomDim(o) |-> 0], var |-> One, geom |-> "default"]
              ELSE [mean |-> [i \in 1..DomDim(o) |-> 1], var |-> R(4), geom |-> "default"]

\* ---- actions ----------------------------------------------------------------------------------
Null == [none |-> TRUE]

Init == /\ opt \in (ModelCases \cup {o \in Opts : ValidOpt(o)})
        /\ pc = IF "kind" \in DOMAIN opt THEN "model" ELSE "start"
        /\ heap = Null /\ prob = Null /\ comps = Null

BuildModel ==
    /\ pc = "start"
    /\ heap' = [model  |-> [A |-> IF IsDeconv(opt) THEN DeconvMat(opt, opt.bc) ELSE <<>>, tag |-> "documented",
                            dgeom |-> "gdom", rgeom |-> "grng"],
                model2 |-> [A |-> IF IsDeconv(opt) THEN DeconvMat(opt, OtherBC(opt.bc)) ELSE <<>>, tag |-> "other",
                            dgeom |-> "gdom", rgeom |-> "grng"]]
    /\ pc' = "model_built" /\ UNCHANGED <<opt, prob, comps>>

\* exact solution and exact data = model(exact solution); WangCubic has neither
MakeExact ==
    /\ pc = "model_built"
    /\ LET x  == Phantom(opt.phantom, DomDim(opt))
           xy == IF Deviation = "OtherPhantom" THEN Phantom(IF opt.phantom = "ramp" THEN "sq" ELSE "ramp", DomDim(opt)) ELSE x
       IN heap' = IF IsWang(opt) THEN heap
                  ELSE [k \in DOMAIN heap \cup {"xex", "yex"} |->
                          IF k = "xex" THEN [vals |-> IF Numeric(opt) THEN x ELSE <<>>, src |-> opt.exsol, geom |-> "gdom"]
                          ELSE IF k = "yex" THEN [vals |-> IF Numeric(opt) THEN IMV(heap.model.A, xy) ELSE <<>>,
                                                  model |-> "model", x |-> IF Deviation = "OtherPhantom" THEN "other" ELSE "xex",
                                                  geom |-> "grng"]
                          ELSE heap[k]]
    /\ pc' = "exact_made" /\ UNCHANGED <<opt, prob, comps>>

\* prior and data distribution (mean = model(x), standard deviations from the stated noise)
MakeDataDist ==
    /\ pc = "exact_made"
    /\ LET st == Stated(opt)
           sc == IF Deviation = "VarianceAsStd" THEN [st EXCEPT !.v = RSq(st.v)] ELSE st
           mdl == IF Deviation = "OtherModelInstance" THEN "model2" ELSE "model"
       IN heap' = [k \in DOMAIN heap \cup {"prior", "ddist"} |->
                     IF k = "prior" THEN PriorOf(opt)
                     ELSE IF k = "ddist" THEN [model |-> mdl, scale |-> sc,
                                               svec |-> IF Numeric(opt) THEN ScaleVec(sc, heap.yex.vals)
                                                        ELSE IF IsWang(opt) THEN <<sc.v>> ELSE <<>>,
                                               geom |-> "grng"]
                     ELSE heap[k]]
    /\ pc' = "ddist_made" /\ UNCHANGED <<opt, prob, comps>>

\* data = mean(exact solution) + svec .* Z, Z = the standard-normal draws consumed from the global stream
\* (WangCubic: the data are given, nothing is drawn)
SampleData ==
    /\ pc = "ddist_made"
    /\ LET Z == IF IsWang(opt) THEN <<>> ELSE ZVec(opt.zpat, RngDim(opt))
           mu == IF Numeric(opt) THEN IMV(heap[heap.ddist.model].A, heap.xex.vals) ELSE <<>>
       IN heap' = [k \in DOMAIN heap \cup {"data"} |->
                     IF k = "data"
                     THEN [vals |-> IF Numeric(opt) THEN F([i \in 1..Len(mu) |-> RAdd(R(mu[i]), RMul(heap.ddist.svec[i], R(Z[i])))])
                                    ELSE IF IsWang(opt) THEN <<IF opt.wdata = "default" THEN R(1) ELSE R(3)>> ELSE <<>>,
                           base |-> IF IsWang(opt) THEN "given" ELSE "yex", scale |-> heap.ddist.scale, Z |-> Z,
                           ndraws |-> Len(Z), geom |-> "grng"]
                     ELSE heap[k]]
    /\ pc' = "data_made" /\ UNCHANGED <<opt, prob, comps>>

MakeLikelihood ==
    /\ pc = "data_made"
    /\ heap' = [k \in DOMAIN heap \cup {"lik", "datacopy"} |->
                  IF k = "lik" THEN [model |-> heap.ddist.model, data |-> "data", scale |-> heap.ddist.scale, svec |-> heap.ddist.svec]
                  ELSE IF k = "datacopy" THEN heap.data
                  ELSE heap[k]]
    /\ pc' = "lik_made" /\ UNCHANGED <<opt, prob, comps>>

\* BayesianProblem(likelihood, prior): the posterior refers to both; exact values and info string are stored
Assemble ==
    /\ pc = "lik_made"
    /\ heap' = [k \in DOMAIN heap \cup {"post"} |-> IF k = "post" THEN [lik |-> "lik", prior |-> "prior", geom |-> "gdom"] ELSE heap[k]]
    /\ prob' = [target |-> "post",
                exactSolution |-> IF IsWang(opt) THEN "none" ELSE "xex",
                exactData |-> IF IsWang(opt) THEN "none" ELSE "yex",
                infoString |-> opt.problem \notin {"Poisson1D", "Abel1D"}]
    /\ pc' = "assembled" /\ UNCHANGED <<opt, comps>>

\* accessors of the problem object, as in the code: everything goes through the target (posterior)
PPost  == prob.target
PLik   == heap[PPost].lik
PPrior == heap[PPost].prior
PModel == heap[PLik].model
PData  == heap[PLik].data

GetComponents ==
    /\ pc = "assembled"
    /\ comps' = [model |-> PModel, data |-> IF Deviation = "GetComponentsCopiesData" THEN "datacopy" ELSE PData,
                 exactSolution |-> prob.exactSolution, exactData |-> prob.exactData]
    /\ pc' = "handed" /\ UNCHANGED <<opt, heap, prob>>

Next == BuildModel \/ MakeExact \/ MakeDataDist \/ SampleData \/ MakeLikelihood \/ Assemble \/ GetComponents
        \/ (pc \in {"model", "handed"} /\ UNCHANGED vars)
Spec == Init /\ [][Next]_vars

\* ---- invariants (on the finished problem) ---------------------------------------------------------
Done == pc = "handed"

\* one model: handed out = in the likelihood = the one that produced the exact data
SameModel == Done => /\ comps.model = PModel
                     /\ (~IsWang(opt) => heap.yex.model = PModel)
                     /\ heap.ddist.model = PModel
\* one data object: handed out = in the likelihood = the sample that was drawn
SameData  == Done => comps.data = PData /\ PData = "data"
\* geometries: a default geometry is compatible with anything (library convention)
Compat(g1, g2) == g1 = g2 \/ g1 = "default" \/ g2 = "default"
SameGeometries ==
    Done => /\ Compat(heap[PPrior].geom, heap[PModel].dgeom) /\ heap[PPost].geom = heap[PModel].dgeom
            /\ (~IsWang(opt) => heap.xex.geom = heap[PModel].dgeom /\ heap.yex.geom = heap[PModel].rgeom)
            /\ Compat(heap[PData].geom, heap[PModel].rgeom)
\* exact data = (the problem's model)(exact solution)
ExactDataIsModelOfExactSolution ==
    Done /\ ~IsWang(opt) =>
        /\ heap.yex.x = "xex" /\ comps.exactSolution = "xex" /\ comps.exactData = "yex"
        /\ (Numeric(opt) => heap.yex.vals = IMV(heap[PModel].A, heap.xex.vals))
\* data - exactData = NoiseScale(type, level, exactData) .* Z
NoiseRelation ==
    Done /\ ~IsWang(opt) =>
        /\ heap[PData].base = "yex" /\ heap[PData].scale = Stated(opt) /\ heap[PData].ndraws = RngDim(opt)
        /\ (Numeric(opt) =>
              LET y == heap.yex.vals  s == ScaleVec(Stated(opt), y)  Z == heap[PData].Z
              IN \A i \in 1..Len(y) : RSub(heap[PData].vals[i], R(y[i])) = RMul(s[i], R(Z[i])))
LikelihoodNoiseIsStated == Done => heap[PLik].scale = Stated(opt)

\* -2 log-density up to the normalising constants = sum of squares of the standardised residuals (kept as a vector:
\* their sum of squares has a denominator too large for 32-bit rationals) + prior quadratic form,
\* following the references of the posterior ...
FwdRef(mref, x) == IF IsWang(opt) THEN <<WangF(x[1], x[2])>> ELSE IMV(heap[mref].A, x)
QuadLik(lref, x) ==
    LET L == heap[lref]  d == heap[L.data].vals  mu == FwdRef(L.model, x)
    IN F([i \in 1..Len(d) |-> RDiv(RSub(d[i], R(mu[i])), L.svec[i])])
QuadPrior(pref, x) ==
    LET P == heap[pref] IN RDiv(RSumSeq([i \in 1..Len(x) |-> RSq(R(x[i] - P.mean[i]))]), P.var)
\* ... and from the options alone (intended design)
QuadLikStated(x) ==
    IF IsWang(opt)
    THEN <<RDiv(RSub(IF opt.wdata = "default" THEN R(1) ELSE R(3), R(WangF(x[1], x[2]))), opt.level)>>
    ELSE LET A == DeconvMat(opt, opt.bc)  y == IMV(A, Phantom(opt.phantom, DomDim(opt)))
             s == ScaleVec(Stated(opt), y)  Z == ZVec(opt.zpat, RngDim(opt))  mu == IMV(A, x)
         IN F([i \in 1..Len(y) |-> RDiv(RSub(RAdd(R(y[i]), RMul(s[i], R(Z[i]))), R(mu[i])), s[i])])
QuadPriorStated(x) == QuadPrior("prior", x)
TestPts == IF IsWang(opt) THEN {<<0, 0>>, <<1, 0>>, <<1, 2>>, <<-1, 1>>}
           ELSE {[i \in 1..DomDim(opt) |-> 0], [i \in 1..DomDim(opt) |-> 1], Phantom("sq", DomDim(opt)),
                 [i \in 1..DomDim(opt) |-> IF i % 2 = 1 THEN 2 ELSE -1]}
PosteriorIsLikPlusPrior ==
    (Done /\ (Numeric(opt) \/ IsWang(opt))) =>
        \A x \in TestPts : QuadLik(PLik, x) = QuadLikStated(x) /\ QuadPrior(PPrior, x) = QuadPriorStated(x)

\* ---- emission ---------------------------------------------------------------------------------------
SeqOfSet(S) == LET RECURSIVE go(_) go(T) == IF T = {} THEN <<>> ELSE LET x == CHOOSE x \in T : TRUE IN <<x>> \o go(T \ {x}) IN go(S)
EmitProblem ==
    (Emit /\ Done) =>
      PrintT("@@CASE " \o ToJson(
        [kind |-> "problem", problem |-> opt.problem, n |-> opt.n, m |-> opt.m, psfname |-> opt.psf, bc |-> opt.bc,
         orient |-> opt.orient, phantom |-> opt.phantom, noise |-> opt.noise, level |-> opt.level, prior |-> opt.prior,
         zpat |-> opt.zpat, exsol |-> opt.exsol, wdata |-> opt.wdata, numeric |-> Numeric(opt),
         psf |-> IF ~IsDeconv(opt) THEN <<>> ELSE IF opt.problem = "Deconvolution2D" THEN CV!Psf2(opt.psf, opt.m) ELSE CV!Psf1(opt.psf, opt.m),
         A |-> heap[PModel].A,
         x |-> IF IsWang(opt) THEN <<>> ELSE Phantom(opt.phantom, DomDim(opt)),
         y |-> IF IsWang(opt) THEN <<>> ELSE heap.yex.vals,
         Z |-> heap[PData].Z, scale |-> heap[PLik].scale, svec |-> heap[PLik].svec, data |-> heap[PData].vals,
         prior_mean |-> heap[PPrior].mean, prior_var |-> heap[PPrior].var,
         info |-> [exactSolution |-> comps.exactSolution # "none", exactData |-> comps.exactData # "none", infoString |-> prob.infoString],
         same |-> <<<<"components.model", "problem.model">>, <<"problem.model", "likelihood.model">>,
                    <<"posterior.likelihood", "problem.likelihood">>, <<"posterior.prior", "problem.prior">>,
                    <<"components.data", "problem.data">>, <<"problem.data", "likelihood.data">>, <<"posterior.data", "problem.data">>,
                    <<"posterior.model", "problem.model">>>>,
         logd |-> IF Numeric(opt) \/ IsWang(opt)
                  THEN LET pts == SeqOfSet(TestPts)
                       IN [i \in 1..Len(pts) |-> [x |-> pts[i], res |-> QuadLikStated(pts[i]), priorq |-> QuadPriorStated(pts[i])]]
                  ELSE <<>>]) \o " @@END")
=============================================================================
