--------------------------- MODULE TestProblems ---------------------------
(***************************************************************************)
(* Shipped test problems (property C17): the documented forward operators  *)
(* that are not convolutions (Abel quadrature, Wang's cubic, discretised   *)
(* Poisson and heat equations) and the OBJECT-CONSISTENCY record of every  *)
(* test problem as a small state machine.                                  *)
(*                                                                         *)
(* Part A - documented operators on exact (integer / rational) instances:  *)
(*   Abel1D   : midpoint quadrature of g(s) = INT_0^s f(t)/sqrt(s-t) dt,   *)
(*              nodes t_j = (j-1/2)h, s_i = i h:  A_ij = h/sqrt(s_i-t_j)   *)
(*              for t_j < s_i, else 0.  Kept rational through the squares: *)
(*              A_ij^2 (s_i - t_j) = h^2.                                   *)
(*   WangCubic: F(x) = 10 x2 - 10 x1^3 + 5 x1^2 + 6 x1, Jacobian = its     *)
(*              derivative (checked by exact central differences).         *)
(*   Poisson1D: -(kappa u')' = f on dim nodes with spacing dx, u = 0 at     *)
(*              both ends, conservative 3-point scheme:                    *)
(*              (D^T diag(kappa) D) u = f, D = first differences / dx with *)
(*              zero ghost values ((N+1) x N, N = dim-1).                   *)
(*   Heat1D   : u_t = u_xx, zero Dirichlet, N interior nodes, K explicit   *)
(*              Euler steps of size dt: u_K = (I + dt Dxx)^K u_0.           *)
(*                                                                         *)
(* Part B - the life of a test problem object, one action per code step:   *)
(*   ResolveOptions -> SelectGeometry -> BuildModel -> MakeExact ->        *)
(*   MakeDataDist -> SampleData -> MakeLikelihood -> Assemble ->           *)
(*   GetComponents                                                         *)
(* over the option lattice (problem, sizes, PSF, BC, phantom, noise type,  *)
(* level, prior, scripted standard-normal draw Z).  Every constructor      *)
(* argument that has a default is a pair <<given, value>>; the documented  *)
(* interface uses Used(arg) = IF given THEN value ELSE documented default, *)
(* and the lattice contains the admissible values that Python treats as    *)
(* false (0, all-zero arrays) for every option that has one (Part C:       *)
(* OptionTable lists every option with a default of every test problem).   *)
(* Objects live in a heap                                                  *)
(* and refer to each other by name, so that "the same model / data /       *)
(* geometry" is a statement about references.  Invariants: GivenIsUsed,    *)
(* ExactSolutionIsGiven, GivenDataIsData, TableCovered, SameModel,         *)
(* SameData, SameGeometries, ExactDataIsModelOfExactSolution,              *)
(* NoiseRelation (data - exactData = NoiseScale(type, level, exactData)    *)
(* .* Z), LikelihoodNoiseIsStated, PosteriorIsLikPlusPrior.                *)
(* Part D - the FIELD options of Poisson1D / Heat1D / Abel1D (field_type,  *)
(* field_params, map / imap, for Abel1D KL_map / KL_imap) as <<given,      *)
(* value>> pairs resolved by the action SelectGeometry into geometry       *)
(* OBJECTS of the heap: the base geometry (created from the documented     *)
(* class of the string, or the caller's Geometry object AS IS) and, when a *)
(* map is given - whatever the form of field_type -, a Mapped wrapper that *)
(* refers to the base, the map and the imap.  The model's forward is the   *)
(* solution operator applied to map(par2fun_base(p)) (exact: integer       *)
(* parameters, Continuous1D = identity, StepExpansion = piecewise constant,*)
(* a caller-defined ramp geometry, maps 2x+1 and x^2+1; the sine / cosine  *)
(* expansions are not rational: structure only).  Invariants               *)
(* MapGivenIsApplied, GeometryObjectUsedAsIs, FieldGeometryEverywhere,     *)
(* FieldExactData; named deviation GeometryObjectSkipsMap.                 *)
(* Legacy form: use_legacy is an option field <<given, "True">> (DL); the   *)
(* legacy operator is the periodic convolution of Conv.tla with the stated *)
(* PSF (centre tap dim div 2) - the SAME forward model as the non-legacy    *)
(* form: LegacyIsSameForwardModel, SymmetricKernelCannotTell; named        *)
(* deviation LegacyCorrelation (kernel in the first row: transposed).      *)
(* Named deviations (off in the deciding configurations): VarianceAsStd,   *)
(* OtherModelInstance, GetComponentsCopiesData, OtherPhantom,              *)
(* TruthinessDefault (`x = x or default`: a given falsy value is replaced  *)
(* by the default), GeometryObjectSkipsMap (the geometry selection returns *)
(* a caller's Geometry object before the Mapped wrapping: a map given      *)
(* together with a geometry object is silently ignored).                   *)
(*                                                                         *)
(* Noise with an SNR option (Heat1D, Poisson1D, Abel1D): the docstrings do *)
(* not define the ratio; the spec states only that ONE scalar sigma scales *)
(* the draws and is the sigma of the likelihood ("snr" scale record).      *)
(***************************************************************************)
EXTENDS Mat, FiniteSets, TLC, Json

CONSTANTS Emit,        \* TRUE: print @@CASE lines
          Deviation,   \* "none" or the name of a deviation
          Size         \* 0 = tiny lattice (deviation runs), 1 = quick lattice, 2 = thorough lattice

VARIABLES opt,         \* option record (a model case or a problem case)
          pc,          \* control state
          heap,        \* named objects
          prob,        \* what the problem object stores
          comps        \* result of get_components()
vars == <<opt, pc, heap, prob, comps>>

CV == INSTANCE Conv WITH c <- 0, MaxN1 <- 0, MaxM1 <- 0, MaxN2 <- 0, MaxM2 <- 0, Emit <- FALSE, Deviation <- "none"

ISum(s)   == CV!ISum(s)
IAbs(a)   == IF a < 0 THEN -a ELSE a
IMV(A, x) == CV!IMV(A, x)
SeqOfSet(S) == LET RECURSIVE go(_) go(T) == IF T = {} THEN <<>> ELSE LET x == CHOOSE x \in T : TRUE IN <<x>> \o go(T \ {x}) IN go(S)

\* =========================================================================================
\* Part A: documented operators
\* =========================================================================================

\* ---- Abel1D: squares of the quadrature weights, h = hn/hd ---------------------------------
\* s_i - t_j = (i - j + 1/2) h = (2(i-j)+1) h / 2
AbelW2(N, h) == F([i \in 1..N |-> [j \in 1..N |-> IF j <= i THEN RDiv(RMul(R(2), h), R(2 * (i - j) + 1)) ELSE Zero]])
AbelGap(i, j, h) == RMul(Q(2 * (i - j) + 1, 2), h)          \* s_i - t_j
AbelDefining(N, h) ==
    LET W == AbelW2(N, h)
    IN \A i \in 1..N : \A j \in 1..N :
          IF RLt(Zero, AbelGap(i, j, h)) THEN RMul(W[i][j], AbelGap(i, j, h)) = RSq(h) ELSE W[i][j] = Zero
AbelStructure(N, h) ==
    LET W == AbelW2(N, h)
    IN /\ \A i \in 1..N : \A j \in 1..N : (j > i => W[i][j] = Zero) /\ (j <= i => RLt(Zero, W[i][j]))
       /\ \A i \in 1..(N - 1) : \A j \in 1..(N - 1) : W[i][j] = W[i + 1][j + 1]          \* depends on i - j only
       /\ \A i \in 1..N : W[i][i] = RMul(R(2), h)                                          \* diagonal: h^2/(h/2)

\* ---- WangCubic ------------------------------------------------------------------------------
WangF(x1, x2) == 10 * x2 - 10 * x1 * x1 * x1 + 5 * x1 * x1 + 6 * x1
WangJ(x1, x2) == <<-30 * x1 * x1 + 10 * x1 + 6, 10>>
WangPts == {<<a, b>> : a \in -2..2, b \in -2..2}
\* exact for polynomials of degree <= 4:  12 p'(t) = -p(t+2) + 8 p(t+1) - 8 p(t-1) + p(t-2)
WangJacobianIsDerivative ==
    \A p \in WangPts :
        /\ 12 * WangJ(p[1], p[2])[1] = -WangF(p[1] + 2, p[2]) + 8 * WangF(p[1] + 1, p[2]) - 8 * WangF(p[1] - 1, p[2]) + WangF(p[1] - 2, p[2])
        /\ 12 * WangJ(p[1], p[2])[2] = -WangF(p[1], p[2] + 2) + 8 * WangF(p[1], p[2] + 1) - 8 * WangF(p[1], p[2] - 1) + WangF(p[1], p[2] - 2)
\* it is a cubic in x1 (fourth difference vanishes, third does not) and affine in x2
WangIsCubic ==
    \A p \in WangPts :
        LET g(t) == WangF(t, p[2])
        IN /\ g(p[1] + 2) - 4 * g(p[1] + 1) + 6 * g(p[1]) - 4 * g(p[1] - 1) + g(p[1] - 2) = 0
           /\ g(p[1] + 2) - 2 * g(p[1] + 1) + 2 * g(p[1] - 1) - g(p[1] - 2) = -120          \* 2 * 3! * (-10)
           /\ WangF(p[1], p[2] + 1) - WangF(p[1], p[2]) = 10

\* ---- Poisson1D ------------------------------------------------------------------------------
\* D ((N+1) x N), rows r = 1..N+1:  (u_r - u_{r-1}) / dx  with u_0 = u_{N+1} = 0
PoisD(N, dx) == F([r \in 1..(N + 1) |-> [j \in 1..N |->
                    IF j = r THEN RInv(dx) ELSE IF j = r - 1 THEN RNeg(RInv(dx)) ELSE Zero]])
PoisA(kappa, dx) ==
    LET N == Len(kappa) - 1  D == PoisD(N, dx)
    IN MM(MT(D), MM(MDiag(VR(kappa)), D))
PoisSolve(kappa, f, dx) == MSolve(PoisA(kappa, dx), VR(f))
\* the assembled operator is the conservative 3-point stencil
PoisStencil(kappa, dx) ==
    LET N == Len(kappa) - 1  A == PoisA(kappa, dx)  w == RSq(RInv(dx))
    IN \A i \in 1..N : \A j \in 1..N :
          A[i][j] = IF j = i THEN RMul(R(kappa[i] + kappa[i + 1]), w)
                    ELSE IF j = i - 1 THEN RMul(R(-kappa[i]), w)
                    ELSE IF j = i + 1 THEN RMul(R(-kappa[i + 1]), w)
                    ELSE Zero
PoisResidual(kappa, f, dx) == MV(PoisA(kappa, dx), PoisSolve(kappa, f, dx)) = VR(f)

Kappas(d) == { [i \in 1..d |-> 1], [i \in 1..d |-> i], [i \in 1..d |-> ((i * i) % 3) + 1] }
Sources(N) == { [i \in 1..N |-> 1], [i \in 1..N |-> IF i = 1 THEN 3 ELSE 1 - i] }

\* ---- Heat1D ---------------------------------------------------------------------------------
\* r = dt / dx^2
HeatStep(N, r) == F([i \in 1..N |-> [j \in 1..N |->
                      IF j = i THEN RSub(One, RMul(R(2), r)) ELSE IF j = i - 1 \/ j = i + 1 THEN r ELSE Zero]])
RECURSIVE HeatRun(_, _, _)
HeatRun(M, u, K) == IF K = 0 THEN u ELSE HeatRun(M, MV(M, u), K - 1)
HeatFinal(u0, r, K) == HeatRun(HeatStep(Len(u0), r), VR(u0), K)
HeatICs(N) == { [i \in 1..N |-> i], [i \in 1..N |-> IF i = 1 THEN 4 ELSE IF i = N THEN -2 ELSE 1] }
\* one explicit Euler step applied to a unit vector is the stencil column; total heat never grows for r <= 1/2
HeatStepIsStencil(N, r) ==
    LET M == HeatStep(N, r)
    IN \A j \in 1..N : LET col == MV(M, VUnit(N, j))
                       IN \A i \in 1..N : col[i] = IF i = j THEN RSub(One, RMul(R(2), r))
                                                   ELSE IF i = j - 1 \/ i = j + 1 THEN r ELSE Zero

\* ---- the model cases ------------------------------------------------------------------------
MaxAbelN == IF Size = 0 THEN 2 ELSE IF Size = 1 THEN 5 ELSE 7
\* <<r, K>>: r = dt/dx^2 and the number of steps; kept small enough for 32-bit rationals
\* K = 0: max_time = 0 (an admissible value that Python treats as false): no step is taken, u_0 is observed
HeatRK   == {<<Q(1, 2), K>> : K \in 0..9} \cup {<<Q(5, 8), K>> : K \in 1..2} \cup {<<Q(3, 4), 1>>}
                \cup {<<Q(1, 4), K>> : K \in 1..4} \cup {<<Q(1, 3), K>> : K \in 1..3}
ModelCases ==
       { [kind |-> "abel", N |-> N, h |-> h] : N \in 2..MaxAbelN, h \in {Q(1, 2), Q(1, 4), Q(1, 1), Q(2, 3)} }
  \cup { [kind |-> "wang"] }
  \cup UNION { { [kind |-> "poisson", dim |-> d, dx |-> dx, kappa |-> k, f |-> f] :
                   k \in Kappas(d), f \in Sources(d - 1), dx \in {Q(1, 1), Q(1, 2)} } : d \in 3..(IF Size = 1 THEN 4 ELSE 5) }
  \cup UNION { { [kind |-> "heat", N |-> N, r |-> rk[1], K |-> rk[2], u0 |-> u0] :
                   u0 \in HeatICs(N), rk \in HeatRK } : N \in 2..(IF Size = 0 THEN 2 ELSE 4) }

HeatR(o) == o.r

ModelOK ==
    pc = "model" =>
      CASE opt.kind = "abel"    -> AbelDefining(opt.N, opt.h) /\ AbelStructure(opt.N, opt.h)
        [] opt.kind = "wang"    -> WangJacobianIsDerivative /\ WangIsCubic
        [] opt.kind = "poisson" -> PoisStencil(opt.kappa, opt.dx) /\ PoisResidual(opt.kappa, opt.f, opt.dx)
        [] opt.kind = "heat"    -> /\ HeatStepIsStencil(opt.N, HeatR(opt))
                                   /\ (opt.K = 0 => HeatFinal(opt.u0, HeatR(opt), opt.K) = VR(opt.u0))

EmitModel ==
    (Emit /\ pc = "model") =>
      PrintT("@@CASE " \o ToJson(
        CASE opt.kind = "abel"    -> [kind |-> "abel", N |-> opt.N, h |-> opt.h, W2 |-> AbelW2(opt.N, opt.h)]
          [] opt.kind = "wang"    -> [kind |-> "wang",
                                      pts |-> [i \in 1..25 |-> LET a == ((i - 1) \div 5) - 2  b == ((i - 1) % 5) - 2
                                                               IN [x |-> <<a, b>>, F |-> WangF(a, b), J |-> WangJ(a, b)]]]
          [] opt.kind = "poisson" -> [kind |-> "poisson", dim |-> opt.dim, dx |-> opt.dx, kappa |-> opt.kappa, f |-> opt.f,
                                      u |-> PoisSolve(opt.kappa, opt.f, opt.dx)]
          [] opt.kind = "heat"    -> [kind |-> "heat", N |-> opt.N, K |-> opt.K, u0 |-> opt.u0,
                                      r |-> HeatR(opt), u |-> HeatFinal(opt.u0, HeatR(opt), opt.K)]) \o " @@END")

\* =========================================================================================
\* Part B: object consistency
\* =========================================================================================
Levels == IF Size = 0 THEN {Q(2, 1)} ELSE IF Size = 1 THEN {Q(1, 2), Q(2, 1)} ELSE {Q(1, 2), Q(2, 1), Q(1, 10)}
ZPats  == IF Size = 0 THEN {"alt"} ELSE IF Size = 1 THEN {"zero", "ed", "alt"} ELSE {"zero", "e1", "ed", "ones", "alt"}
BCs1   == {"zero", "periodic", "mirror", "reflect", "nearest"}
BCs2   == {"zero", "periodic", "mirror", "neumann", "nearest"}

\* <<n, m, psf>>
Shapes1 == IF Size = 0 THEN {<<4, 4, "ramp">>} ELSE IF Size = 1 THEN {<<5, 3, "sym">>, <<4, 4, "ramp">>}
           ELSE {<<5, 3, "sym">>, <<4, 4, "ramp">>, <<5, 3, "ramp">>, <<5, 2, "sym">>, <<3, 5, "ramp">>}
\* legacy form (use_legacy = True): custom PSF arrays of length dim, even dim (odd dims are refused by the constructor):
\* ramp (all taps distinct), sym (symmetric about the centre tap dim/2), oneside (3, 2, 1 from the centre tap on, zeros
\* elsewhere), quad (irregular, with zeros)
ShapesL == IF Size = 0 THEN {<<4, 4, "ramp">>, <<4, 4, "sym">>}
           ELSE IF Size = 1 THEN {<<4, 4, "ramp">>, <<4, 4, "sym">>, <<6, 6, "oneside">>}
           ELSE {<<4, 4, "ramp">>, <<4, 4, "sym">>, <<6, 6, "oneside">>, <<6, 6, "ramp">>, <<4, 4, "quad">>, <<6, 6, "quad">>, <<4, 4, "oneside">>}
Shapes2 == IF Size = 0 THEN {<<2, 2, "ramp">>} ELSE IF Size = 1 THEN {<<3, 2, "ramp">>} ELSE {<<3, 2, "ramp">>, <<2, 3, "quad">>, <<3, 3, "ramp">>}

\* ---- constructor arguments with documented defaults ---------------------------------------------
\* Every constructor argument that has a default is a pair <<given, value>>.  "Not given" carries a sentinel of the
\* option's type: "Default" for named / array / object values, <<0, 0>> (no rational has denominator 0) for numbers.
NotGivenS == <<FALSE, "Default">>
DefaultQ  == <<0, 0>>
NotGivenQ == <<FALSE, DefaultQ>>
Giv(v)    == <<TRUE, v>>
\* the documented interface: the given value, otherwise the documented default - whatever the value is
Used(a, dflt) == IF a[1] THEN a[2] ELSE dflt
\* admissible values that Python treats as false: the number 0 (0, 0.0, a one-element zero array) and all-zero arrays
FalsyQ(v) == v = Zero
FalsyS(v) == v = "zeros"
\* what the modelled implementation picks.  Named deviation TruthinessDefault: defaulting through the truth value
\* (`x = x or default`, `if not x: x = default`) replaces a given falsy value by the default.
PickQ(a, dflt) == IF a[1] /\ ~(Deviation = "TruthinessDefault" /\ FalsyQ(a[2])) THEN a[2] ELSE dflt
PickS(a, dflt) == IF a[1] /\ ~(Deviation = "TruthinessDefault" /\ FalsyS(a[2])) THEN a[2] ELSE dflt

OptQ == {"psfparam", "pparam", "level", "wdata"}          \* numbers: PSF_param (legacy), phantom_param, noise_std / SNR, data
\* field options (Part D): field_type, field_params, map / KL_map, imap / KL_imap; documented default None
OptF == {"ftype", "fparams", "fmap", "fimap"}
OptS == {"psf", "phantom", "prior", "exsol", "src", "legacy"} \cup OptF   \* arrays / names / objects: PSF, phantom, prior, exactSolution, source, field options
OptNames == OptQ \cup OptS

ArrayPsfs     == {"ramp", "quad", "sym", "oneside", "zeros"}           \* custom PSF arrays
LegacyPsfs    == {"lgauss", "lsinc", "lvonmises"}           \* legacy PSF functions g(PSF_param * distance), g(0) = 1
ArrayPhantoms == {"ramp", "sq", "zeros"}                    \* custom phantom / exact-solution arrays
NamedPhantoms == {"gauss", "sinc", "vonmises"}              \* phantom functions f(phantom_param * t), f(0) = 1 = max f

Base == [problem |-> "na", n |-> 0, m |-> 0, psf |-> NotGivenS, psfparam |-> NotGivenQ, bc |-> "na", orient |-> "na",
         phantom |-> NotGivenS, pparam |-> NotGivenQ, noise |-> "na", level |-> NotGivenQ, prior |-> NotGivenS, zpat |-> "zero",
         exsol |-> NotGivenS, wdata |-> NotGivenQ, wform |-> "na",
         ftype |-> NotGivenS, fparams |-> NotGivenS, fmap |-> NotGivenS, fimap |-> NotGivenS, src |-> NotGivenS, fcase |-> FALSE,
         legacy |-> NotGivenS]                                   \* use_legacy: <<given, "True">> or not given (documented default False)

D1(s, bc, ph, nz, lv, pr, z) ==
    [Base EXCEPT !.problem = "Deconvolution1D", !.n = s[1], !.m = s[2], !.psf = Giv(s[3]), !.bc = bc, !.phantom = ph,
                 !.noise = nz, !.level = lv, !.prior = pr, !.zpat = z]
\* Deconvolution1D(use_legacy = True, ...): the problem label "Deconvolution1D_legacy" names this call form
DL(s, ph, nz, lv, pr, z) ==
    [Base EXCEPT !.problem = "Deconvolution1D_legacy", !.n = s[1], !.m = s[2], !.psf = Giv(s[3]), !.bc = "periodic", !.legacy = Giv("True"),
                 !.phantom = ph, !.noise = nz, !.level = lv, !.prior = pr, !.zpat = z]
D2(s, bc, ph, nz, lv, pr, z) ==
    [Base EXCEPT !.problem = "Deconvolution2D", !.n = s[1], !.m = s[2], !.psf = Giv(s[3]), !.bc = bc, !.phantom = ph,
                 !.noise = nz, !.level = lv, !.prior = pr, !.zpat = z]
Priors == {NotGivenS, Giv("ones4")}
Noises == {"gaussian", "scaledgaussian"}
\* <<PSF, phantom>> with an all-zero array in one or both places (shape s)
ZeroPairs(s) == {<<s[3], "zeros">>, <<"zeros", "ramp">>, <<"zeros", "zeros">>}
First(S) == CHOOSE s \in S : \A t \in S : s[1] >= t[1]


\* ---- Part D: the field options of Poisson1D / Heat1D / Abel1D ---------------------------------------
\* field_type : None | a documented string | a Geometry OBJECT of the caller (one of each kind)
StringTypes == {"KL", "KL_Full", "Step", "CustomKL"}
ObjTypes    == {"objC1D", "objKL", "objStep", "objUser"}     \* Continuous1D, KLExpansion(num_modes = 3), StepExpansion(n_steps = 2), a caller-defined class
\* field_params : None | {"num_modes": 2} | {"n_steps": 2} | {"trunc_term": 2}
\* map : None | "affine" x -> 2x+1 | "square" x -> x^2+1;  imap : None | the inverse function ("iaffine", "isquare")
FunDim(o)       == o.n
StepsOf(fp)     == IF fp = "n_steps2" THEN 2 ELSE 3                       \* StepExpansion: documented default n_steps = 3
ModesOf(o, fp)  == IF fp = "num_modes2" THEN 2 ELSE FunDim(o)             \* KLExpansion: num_modes None = all modes
GRec(kind, own, pardim, steps) == [kind |-> kind, own |-> own, pardim |-> pardim, steps |-> steps]
\* the base geometry the documentation states for the effective options e: the documented class for a string (created
\* by the constructor with field_params as keyword arguments), the caller's object AS IS for a Geometry object
BaseGeom(o, e) ==
    CASE ~o.fcase             -> GRec("Default", "created", 0, 0)           \* (other problems: nothing is stated here)
      [] e.ftype = "None"     -> GRec("Continuous1D", "created", FunDim(o), 0)
      [] e.ftype = "KL"       -> GRec("KLExpansion", "created", ModesOf(o, e.fparams), 0)
      [] e.ftype = "KL_Full"  -> GRec("KLExpansion_Full", "created", FunDim(o), 0)
      [] e.ftype = "Step"     -> GRec("StepExpansion", "created", StepsOf(e.fparams), StepsOf(e.fparams))
      [] e.ftype = "CustomKL" -> GRec("CustomKL", "created", 2, 0)          \* trunc_term = 2
      [] e.ftype = "objC1D"   -> GRec("Continuous1D", "user", FunDim(o), 0)
      [] e.ftype = "objKL"    -> GRec("KLExpansion", "user", 3, 0)
      [] e.ftype = "objStep"  -> GRec("StepExpansion", "user", 2, 2)
      [] e.ftype = "objUser"  -> GRec("UserAlt", "user", 2, 0)
\* the classes whose par2fun is exact over the integers
FieldKnown(g) == g.kind \in {"Continuous1D", "StepExpansion", "UserAlt"}
\* StepExpansion (docstring): S equidistant steps on [x_1, x_n]; node k lies in step 1 if x <= L/S, in step i if
\* (i-1) L/S < x <= i L/S  (x measured from x_1, regular grid: x = (k-1) L/(n-1))
StepIdx(k, n, S) == CHOOSE i \in 1..S : (i = 1 \/ (k - 1) * S > (i - 1) * (n - 1)) /\ (k - 1) * S <= i * (n - 1)
Par2Fun(g, p, n) ==
    CASE g.kind = "StepExpansion" -> [k \in 1..n |-> p[StepIdx(k, n, g.steps)]]
      [] g.kind = "UserAlt"       -> [k \in 1..n |-> p[2 - (k % 2)]]               \* the caller's class: p1, p2, p1, p2 ...
      [] OTHER                    -> p                                             \* Continuous1D: function values = parameters
MapF(m, f) == CASE m = "affine" -> [k \in 1..Len(f) |-> 2 * f[k] + 1]
                [] m = "square" -> [k \in 1..Len(f) |-> f[k] * f[k] + 1]
                [] OTHER        -> f                                               \* no map
ImapOf(m) == IF m = "affine" THEN "iaffine" ELSE "isquare"
\* integer test parameters of length d (all positive: the Poisson conductivity must not vanish; small: 32-bit rationals)
FPars(d) == << [i \in 1..d |-> ((i - 1) % 3) + 1], [i \in 1..d |-> ((i * i) % 3) + 1], [i \in 1..d |-> 3 - ((i - 1) % 3)] >>
\* the solution operators on FUNCTION VALUES, as the replayer instantiates the problems: Poisson1D(dim = n, endpoint = n-1,
\* source = FSrc): dx = 1; Heat1D(dim = n, endpoint = n+1, max_time = 1): dx = 1, two explicit steps with r = 1/2
\* (read back from the public time grid by the replayer); Abel1D(dim = n, endpoint = 2): h = 2/n, irrational weights
\* (the replayer applies the positive square roots of AbelW2 to the field)
FSrc(n)   == [i \in 1..n |-> IF i = 1 THEN 3 ELSE 1 - i]
FHeatR    == Q(1, 2)
FHeatK    == 2
OpKnown(o) == o.fcase /\ o.problem \in {"Poisson1D", "Heat1D"}
OpQ(o, f) == IF o.problem = "Poisson1D" THEN PoisSolve(f, FSrc(FunDim(o) - 1), One) ELSE HeatFinal(f, FHeatR, FHeatK)
\* following the references of the heap h: the function values the geometry called name produces for the parameters p
GeomField(h, name, p, n) == LET g == h[name]
                            IN IF g.kind = "Mapped" THEN MapF(g.map, Par2Fun(h[g.base], p, n)) ELSE Par2Fun(g, p, n)
GeomBaseName(h, name)    == IF h[name].kind = "Mapped" THEN h[name].base ELSE name
\* the parameter dimension (prior, test points)
ParDim(o, e) == IF o.fcase THEN BaseGeom(o, e).pardim ELSE
                CASE o.problem = "Deconvolution2D" -> o.n * o.n [] o.problem = "WangCubic" -> 2 [] OTHER -> o.n

FOpt(p, n, ft, mp, ex) ==
    [Base EXCEPT !.problem = p, !.n = n, !.noise = "snr", !.level = Giv(R(10)), !.zpat = "alt", !.exsol = ex, !.fcase = TRUE,
                 !.ftype = ft[1], !.fparams = ft[2], !.fmap = mp[1], !.fimap = mp[2],
                 !.src = IF p = "Poisson1D" THEN Giv("ints") ELSE NotGivenS]
\* <<field_type, field_params>> as documented per class: Poisson1D / Heat1D list the strings and field_params; Abel1D
\* documents "str or Geometry" only (strings "KL" / "Step" as in the sibling classes, no field_params, no KL_Full)
FTypes(p) ==
       {<<NotGivenS, NotGivenS>>, <<Giv("KL"), NotGivenS>>, <<Giv("Step"), NotGivenS>>}
  \cup {<<Giv(t), NotGivenS>> : t \in ObjTypes}
  \cup (IF p = "Abel1D" THEN {}
        ELSE {<<Giv("KL"), Giv("num_modes2")>>, <<Giv("Step"), Giv("n_steps2")>>, <<Giv("KL_Full"), NotGivenS>>,
              <<Giv("CustomKL"), Giv("trunc2")>>})
\* <<map, imap>>: not given, given with its inverse, given without inverse (imap = None is the documented default)
FMaps == {<<NotGivenS, NotGivenS>>, <<Giv("affine"), Giv("iaffine")>>, <<Giv("square"), Giv("isquare")>>, <<Giv("square"), NotGivenS>>}
FieldOptsAll ==
    UNION { { FOpt(p, n, ft, mp, ex) : ft \in FTypes(p), mp \in FMaps,
                                       ex \in (IF p = "Abel1D" THEN {NotGivenS} ELSE {NotGivenS, Giv("sq")}) } :
            p \in {"Poisson1D", "Heat1D", "Abel1D"}, n \in (IF Size = 2 THEN {4, 5} ELSE {4}) }
\* (the tiny lattice of the deviation runs keeps a geometry object and a string, with and without map)
FieldOpts == IF Size # 0 THEN FieldOptsAll
             ELSE {o \in FieldOptsAll : o.ftype \in {Giv("objStep"), Giv("Step")} /\ ~o.fparams[1] /\ ~o.exsol[1]
                                        /\ o.fmap \in {NotGivenS, Giv("square")} /\ (o.fmap[1] => o.fimap[1])}

\* the option lattice: non-falsy values of every option ...
MainOpts ==
       { D1(s, bc, Giv(ph), nz, Giv(lv), pr, z) :
           s \in Shapes1, bc \in BCs1, ph \in {"ramp", "sq"}, nz \in Noises, lv \in Levels, pr \in Priors, z \in ZPats }
  \cup { DL(s, Giv(ph), nz, Giv(lv), pr, z) :
           s \in ShapesL, ph \in {"ramp", "sq"}, nz \in Noises, lv \in Levels, pr \in Priors, z \in ZPats }
  \cup { D2(s, bc, Giv(ph), nz, Giv(lv), pr, z) :
           s \in Shapes2, bc \in BCs2, ph \in {"ramp", "sq"}, nz \in Noises, lv \in Levels, pr \in Priors, z \in ZPats }
  \cup { [Base EXCEPT !.problem = p, !.n = 4, !.noise = "snr", !.level = Giv(lv), !.zpat = z, !.exsol = e] :
           p \in {"Heat1D", "Poisson1D", "Abel1D"}, lv \in {R(2), R(10)}, z \in ZPats, e \in {NotGivenS, Giv("sq")} }
\* ... the FALSY but admissible values of every option that has one (see OptionTable), and the documented defaults ...
FalsyOptsAll ==
       \* all-zero custom PSF / phantom arrays (additive Gaussian noise: the scaled noise is degenerate for zero data)
       { D1([s EXCEPT ![3] = zp[1]], bc, Giv(zp[2]), "gaussian", Giv(Q(1, 2)), pr, "alt") :
           s \in Shapes1, bc \in {"zero", "reflect"}, zp \in UNION {ZeroPairs(t) : t \in Shapes1}, pr \in Priors }
  \cup { DL([s EXCEPT ![3] = zp[1]], Giv(zp[2]), "gaussian", Giv(Q(1, 2)), NotGivenS, "alt") :
           s \in ShapesL, zp \in UNION {ZeroPairs(t) : t \in ShapesL} }
  \cup { D2([s EXCEPT ![3] = zp[1]], bc, Giv(zp[2]), "gaussian", Giv(Q(1, 2)), pr, "alt") :
           s \in Shapes2, bc \in {"zero", "neumann"}, zp \in UNION {ZeroPairs(t) : t \in Shapes2}, pr \in Priors }
       \* phantom functions with phantom_param = 0 (constant 1) / not given / built-in phantom; noise_std not given
  \cup { [D1(First(Shapes1), "periodic", ph, "gaussian", lv, NotGivenS, "alt") EXCEPT !.pparam = pp] :
           ph \in {Giv(f) : f \in NamedPhantoms} \cup {NotGivenS}, pp \in {Giv(Zero), NotGivenQ}, lv \in {Giv(Q(1, 2)), NotGivenQ} }
       \* legacy PSF functions with PSF_param = 0 (constant 1: the all-ones circulant matrix)
  \cup { [DL(<<4, 4, "lgauss">>, Giv("ramp"), nz, Giv(Q(1, 2)), NotGivenS, "alt") EXCEPT !.psf = g, !.psfparam = Giv(Zero)] :
           g \in {Giv(f) : f \in LegacyPsfs} \cup {NotGivenS}, nz \in Noises }
       \* noise_std not given (documented defaults 0.01 / 0.0036)
  \cup { D1(First(Shapes1), "periodic", Giv("ramp"), nz, NotGivenQ, NotGivenS, "alt") : nz \in Noises }
  \cup { DL(First(ShapesL), Giv("ramp"), nz, NotGivenQ, NotGivenS, "alt") : nz \in Noises }
  \cup { D2(First(Shapes2), "periodic", Giv("ramp"), nz, NotGivenQ, NotGivenS, "alt") : nz \in Noises }
       \* all-zero exact solution (Heat1D: zero initial condition; Poisson1D: not admissible, see ValidOpt); SNR not given
  \cup { [Base EXCEPT !.problem = "Heat1D", !.n = 4, !.noise = "snr", !.level = Giv(lv), !.zpat = z, !.exsol = Giv("zeros")] :
           lv \in {R(2), R(10)}, z \in ZPats }
  \cup { [Base EXCEPT !.problem = p, !.n = 4, !.noise = "snr", !.level = NotGivenQ, !.zpat = "alt"] :
           p \in {"Heat1D", "Poisson1D", "Abel1D"} }
       \* WangCubic: data given as 0 (int, float, one-element array), as other values, not given; noise_std, prior (not) given
  \cup { [Base EXCEPT !.problem = "WangCubic", !.n = 2, !.noise = "gaussian", !.level = lv, !.prior = pr, !.wdata = w[1], !.wform = w[2]] :
           lv \in {Giv(l) : l \in Levels} \cup (IF Size = 0 THEN {} ELSE {NotGivenQ}), pr \in Priors,
           w \in {<<NotGivenQ, "na">>} \cup ({Giv(R(3)), Giv(Zero)} \cup (IF Size = 0 THEN {} ELSE {Giv(R(-2))})) \X (IF Size = 0 THEN {"int"} ELSE {"int", "float", "vec"}) }
\* (the tiny lattice of the deviation runs keeps a few of them)
FalsyOpts == IF Size # 0 THEN FalsyOptsAll
             ELSE {o \in FalsyOptsAll : \/ o.problem = "WangCubic"
                                        \/ (o.problem = "Deconvolution1D" /\ o.bc = "zero" /\ ~o.prior[1] /\ ~o.pparam[1] /\ o.level[1])}
Opts == MainOpts \cup FalsyOpts \cup FieldOpts

IsDeconv(o)  == o.problem \in {"Deconvolution1D", "Deconvolution1D_legacy", "Deconvolution2D"}
IsSnr(o)     == o.noise = "snr"
IsWang(o)    == o.problem = "WangCubic"
DomDim(o)    == CASE o.problem = "Deconvolution2D" -> o.n * o.n
                  [] o.problem = "WangCubic"       -> 2
                  [] OTHER                          -> o.n
RngDim(o)    == CASE o.problem = "Deconvolution2D" -> o.n * o.n
                  [] o.problem = "WangCubic"       -> 1
                  [] o.problem = "Poisson1D"       -> o.n - 1
                  [] OTHER                          -> o.n

\* the documented defaults
DefaultOf(o, k) ==
    CASE k = "level"    -> CASE o.problem \in {"Deconvolution1D", "Deconvolution1D_legacy"} -> Q(1, 100)       \* noise_std = 0.01
                             [] o.problem = "Deconvolution2D" -> Q(9, 2500)                                     \* noise_std = 0.0036
                             [] o.problem = "WangCubic"       -> One                                            \* noise_std = 1
                             [] o.problem = "Abel1D"          -> R(100)                                         \* SNR = 100
                             [] OTHER                          -> R(200)                                         \* SNR = 200
      [] k = "wdata"    -> One                                                                                  \* data = 1
      [] k = "pparam"   -> R(5)                                                                                 \* Gauss, sinc, vonMises
      [] k = "psfparam" -> IF o.psf = Giv("lsinc") THEN R(15) ELSE IF o.psf = Giv("lvonmises") THEN R(5) ELSE R(10)
      [] k = "phantom"  -> IF o.problem \in {"Deconvolution1D", "Deconvolution1D_legacy"} THEN "sinc" ELSE "builtin"
      [] k = "psf"      -> IF o.problem = "Deconvolution1D_legacy" THEN "lgauss" ELSE "builtin"
      [] k = "legacy"   -> "False"                    \* use_legacy = False
      [] k \in OptF     -> "None"                     \* field_type = None, field_params = None, map = None, imap = None
      [] OTHER          -> "builtin"                  \* the problem's built-in PSF / phantom / prior / exact solution
Resolve(o, PQ(_, _), PS(_, _)) ==
    [k \in OptNames |-> IF k \in OptQ THEN PQ(o[k], DefaultOf(o, k)) ELSE PS(o[k], DefaultOf(o, k))]
Design(o) == Resolve(o, Used, Used)           \* effective options of the documented interface
Impl(o)   == Resolve(o, PickQ, PickS)         \* effective options of the modelled implementation

\* ---- what the effective options mean --------------------------------------------------------------
\* "builtin" objects (Gauss PSF, sinc phantom, built-in exact solutions, named functions with a non-zero parameter) are not
\* rational: nothing numeric is stated about them (AKnown / XKnown / YKnown are FALSE).  Where a deviation makes the modelled
\* implementation pick one, a stand-in that differs from every given value is used.
PsfName(o, e) == IF e.psf \in LegacyPsfs THEN (IF e.psfparam = Zero THEN "ones" ELSE "builtin") ELSE e.psf
XName(o, e)   == LET src == IF IsDeconv(o) THEN e.phantom ELSE e.exsol
                 IN IF src \in NamedPhantoms THEN (IF e.pparam = Zero THEN "ones" ELSE "builtin") ELSE src
AKnown(o, e)  == IsDeconv(o) /\ PsfName(o, e) # "builtin"
XKnown(o, e)  == ~IsWang(o) /\ XName(o, e) # "builtin"
\* exact data known: exact operator and solution, or a linear model (Heat1D: u_K = M^K u_0) applied to the zero vector
YKnown(o, e)  == (AKnown(o, e) /\ XKnown(o, e)) \/ (o.problem = "Heat1D" /\ XName(o, e) = "zeros")
DKnown(o, e)  == IsDeconv(o) /\ YKnown(o, e)

Phantom(name, d) ==
    CASE name = "ramp"    -> [i \in 1..d |-> i]
      [] name = "zeros"   -> [i \in 1..d |-> 0]
      [] name = "ones"    -> [i \in 1..d |-> 1]
      [] name = "builtin" -> [i \in 1..d |-> 2 * i + 1]                   \* stand-in
      [] OTHER            -> [i \in 1..d |-> ((i * i) % 5) + 1]           \* "sq"
XVec(o, e) == Phantom(XName(o, e), DomDim(o))
ZVec(name, d) ==
    CASE name = "zero" -> [i \in 1..d |-> 0]
      [] name = "e1"   -> [i \in 1..d |-> IF i = 1 THEN 1 ELSE 0]
      [] name = "ed"   -> [i \in 1..d |-> IF i = d THEN 1 ELSE 0]
      [] name = "ones" -> [i \in 1..d |-> 1]
      [] name = "alt"  -> [i \in 1..d |-> IF i % 2 = 1 THEN 2 ELSE -1]

PsfArr(o, e) == LET nm == IF PsfName(o, e) = "builtin" THEN "sym" ELSE PsfName(o, e)     \* "sym": stand-in
                IN IF o.problem = "Deconvolution2D" THEN CV!Psf2(nm, o.m) ELSE CV!Psf1(nm, o.m)
\* the operator of a deconvolution option (integer matrix); bcx overrides the boundary condition
DeconvMat(o, e, bcx) ==
    CASE o.problem = "Deconvolution1D"        -> CV!ConvMat1(PsfArr(o, e), o.n, bcx)
      \* the legacy matrix representation OF THE SAME forward model: the periodic convolution with the stated PSF, centre
      \* tap dim div 2 (the code rolls the kernel by -dim/2 and builds a circulant matrix from it)
      [] o.problem = "Deconvolution1D_legacy" -> CV!ConvMat1(PsfArr(o, e), o.n, "periodic")
      [] o.problem = "Deconvolution2D"        -> CV!ConvMat2(PsfArr(o, e), o.n, bcx)
IsLegacy(o) == o.problem = "Deconvolution1D_legacy"
\* what the modelled implementation assembles.  Named deviation LegacyCorrelation: the legacy builder puts the rolled kernel
\* into the first ROW instead of the first column, A[i][j] = P[(j - i + c) mod n]: the correlation = the transposed operator
ImplMat(o, e, bcx) == IF IsLegacy(o) /\ Deviation = "LegacyCorrelation" THEN CV!IT(DeconvMat(o, e, bcx)) ELSE DeconvMat(o, e, bcx)
\* a kernel that is symmetric about the centre tap in the circulant sense: P[c + d] = P[c - d] (indices mod n)
CircSym(P) == LET n == Len(P)  c == n \div 2
              IN \A k \in 0..(n - 1) : P[k + 1] = P[((2 * c - k + 2 * n) % n) + 1]
OtherBC(bc) == IF bc = "zero" THEN "nearest" ELSE "zero"
\* exact data: the operator applied to the solution; for the other linear models only "zero in, zero out" is used
YVec(o, A, x) == IF IsDeconv(o) THEN IMV(A, x)
                 ELSE [i \in 1..RngDim(o) |-> IF \A j \in 1..Len(x) : x[j] = 0 THEN 0 ELSE 1]       \* 1: stand-in

\* stated noise: scale record and (numeric case) the vector of standard deviations
Stated(o, e) == [kind |-> IF o.noise = "gaussian" THEN "const" ELSE IF o.noise = "scaledgaussian" THEN "absdata" ELSE "snr", v |-> e.level]
ScaleVec(sc, y) == F([i \in 1..Len(y) |-> IF sc.kind = "const" THEN sc.v ELSE RMul(sc.v, R(IAbs(y[i])))])

\* (the built-in prior lives on the PARAMETERS: its dimension is the parameter dimension of the domain geometry)
PriorOf(o, e) == IF e.prior = "builtin"
                 THEN [mean |-> IF IsWang(o) THEN <<1, 0>> ELSE [i \in 1..ParDim(o, e) |-> 0], var |-> One, geom |-> "default"]
                 ELSE [mean |-> [i \in 1..ParDim(o, e) |-> 1], var |-> R(4), geom |-> "default"]              \* "ones4"

\* admissible option combinations (everything else raises or is meaningless on the documented interface)
ValidOpt(o) ==
    LET e == Design(o)
    IN /\ (o.problem = "Abel1D" => ~o.exsol[1])                                    \* Abel1D has no exactSolution option
       /\ (o.problem = "Poisson1D" => e.exsol # "zeros")                           \* zero conductivity: singular system
       /\ (o.noise = "scaledgaussian" => PsfName(o, e) # "zeros" /\ XName(o, e) # "zeros")      \* zero data: zero std
       /\ (o.problem = "Deconvolution2D" => o.phantom[1])                          \* (built-in image phantoms are not swept)
       /\ (o.pparam[1] => e.phantom \in NamedPhantoms)                             \* phantom_param only for phantom functions
ValidOpts == {o \in Opts : ValidOpt(o)}

\* ---- Part C: every constructor option that has a default, and its admissible falsy values -----------
\* field = the option's field in the option record ("heat.K" = the K = 0 instances of Part A, "" = nothing to sweep);
\* falsy = admissible values that Python treats as false; why = why there is none.
Row(p, o, d, f, fz, w) == [problem |-> p, option |-> o, default |-> d, field |-> f, falsy |-> fz, why |-> w]
OptionTable == {
    Row("Deconvolution1D", "dim", "128", "", <<>>, "0: no grid"),
    Row("Deconvolution1D", "PSF", "gauss", "psf", <<"all-zero array">>, ""),
    Row("Deconvolution1D", "PSF_param", "10", "", <<>>, "0: the PSF functions are 0/0, the constructor raises"),
    Row("Deconvolution1D", "PSF_size", "dim", "", <<>>, "0: empty PSF, the constructor raises"),
    Row("Deconvolution1D", "BC", "periodic", "", <<>>, "the empty string is not a boundary condition"),
    Row("Deconvolution1D", "phantom", "sinc", "phantom", <<"all-zero array">>, ""),
    Row("Deconvolution1D", "phantom_param", "5 (Gauss, sinc, vonMises)", "pparam", <<"0">>, ""),
    Row("Deconvolution1D", "noise_type", "gaussian", "", <<>>, "the empty string is not a noise type"),
    Row("Deconvolution1D", "noise_std", "0.01", "", <<>>, "0: degenerate data distribution, the constructor raises"),
    Row("Deconvolution1D", "prior", "Gaussian(0, 1)", "", <<>>, "distribution objects are never false (given / not given is swept)"),
    Row("Deconvolution1D", "use_legacy", "False", "", <<>>, "boolean"),
    Row("Deconvolution1D_legacy", "PSF", "gauss", "psf", <<"all-zero array">>, ""),
    Row("Deconvolution1D_legacy", "PSF_param", "10 / 15 / 5", "psfparam", <<"0">>, ""),
    Row("Deconvolution1D_legacy", "phantom", "sinc", "phantom", <<"all-zero array">>, ""),
    Row("Deconvolution1D_legacy", "noise_std", "0.01", "", <<>>, "0: degenerate data distribution, the constructor raises"),
    Row("Deconvolution1D_legacy", "prior", "Gaussian(0, 1)", "", <<>>, "distribution objects are never false"),
    Row("Deconvolution2D", "dim", "128", "", <<>>, "0: no grid"),
    Row("Deconvolution2D", "PSF", "gauss", "psf", <<"all-zero array">>, ""),
    Row("Deconvolution2D", "PSF_param", "2.56", "", <<>>, "0: the PSF functions are 0/0, the constructor raises"),
    Row("Deconvolution2D", "PSF_size", "21", "", <<>>, "0: empty PSF"),
    Row("Deconvolution2D", "BC", "periodic", "", <<>>, "the empty string is not a boundary condition"),
    Row("Deconvolution2D", "phantom", "satellite", "phantom", <<"all-zero array">>, ""),
    Row("Deconvolution2D", "noise_type", "gaussian", "", <<>>, "the empty string is not a noise type"),
    Row("Deconvolution2D", "noise_std", "0.0036", "", <<>>, "0: degenerate data distribution, the constructor raises"),
    Row("Deconvolution2D", "prior", "Gaussian(0, 1)", "", <<>>, "distribution objects are never false"),
    Row("Heat1D", "dim", "128", "", <<>>, "0: no grid"),
    Row("Heat1D", "endpoint", "1", "", <<>>, "0: zero step size"),
    Row("Heat1D", "max_time", "0.2", "heat.K", <<"0">>, ""),
    Row("Heat1D", "field_type / map / imap / observation_grid_map", "None", "", <<>>, "geometry objects and callables are never false"),
    Row("Heat1D", "field_params", "None", "", <<>>, "the empty dict is the default itself"),
    Row("Heat1D", "SNR", "200", "", <<>>, "0: infinite noise"),
    Row("Heat1D", "exactSolution", "built-in function", "exsol", <<"all-zero array">>, ""),
    Row("Poisson1D", "dim", "128", "", <<>>, "0: no grid"),
    Row("Poisson1D", "endpoint", "1", "", <<>>, "0: zero step size"),
    Row("Poisson1D", "source", "Gaussian bump", "", <<>>, "callables are never false"),
    Row("Poisson1D", "field_type / map / imap / observation_grid_map", "None", "", <<>>, "geometry objects and callables are never false"),
    Row("Poisson1D", "field_params", "None", "", <<>>, "the empty dict is the default itself"),
    Row("Poisson1D", "SNR", "200", "", <<>>, "0: infinite noise"),
    Row("Poisson1D", "exactSolution", "built-in function", "", <<>>, "all-zero conductivity: singular system, the constructor raises"),
    Row("Abel1D", "dim", "128", "", <<>>, "0: no grid"),
    Row("Abel1D", "endpoint", "1", "", <<>>, "0: zero step size"),
    Row("Abel1D", "field_type / KL_map / KL_imap", "None", "", <<>>, "geometry objects and callables are never false"),
    Row("Abel1D", "field_params", "None", "", <<>>, "the empty dict is the default itself"),
    Row("Abel1D", "SNR", "100", "", <<>>, "0: infinite noise"),
    Row("WangCubic", "noise_std", "1", "", <<>>, "0: the likelihood is undefined"),
    Row("WangCubic", "prior", "Gaussian((1, 0), 1)", "", <<>>, "distribution objects are never false"),
    Row("WangCubic", "data", "1", "wdata", <<"0">>, "") }

\* ---- actions ----------------------------------------------------------------------------------
Null == [none |-> TRUE]

Init == /\ opt \in (ModelCases \cup ValidOpts)
        /\ pc = IF "kind" \in DOMAIN opt THEN "model" ELSE "start"
        /\ heap = Null /\ prob = Null /\ comps = Null

\* the design-level effective options and what is known exactly about them
D  == Design(opt)
AK == AKnown(opt, D)
XK == XKnown(opt, D)
YK == YKnown(opt, D)
DK == DKnown(opt, D)
FYK == OpKnown(opt) /\ XK          \* exact data of a field problem known exactly (given integer exact solution)
\* the effective options of the constructed problem
U  == heap.used

\* argument defaulting at the top of the constructor
ResolveOptions ==
    /\ pc = "start"
    /\ heap' = [used |-> Impl(opt)]
    /\ pc' = "resolved" /\ UNCHANGED <<opt, prob, comps>>

\* "Set up geometries for model": the base geometry is the caller's object ("ugeom", as is) or is created from the
\* field type ("gbase"); if a map is given the domain geometry is a NEW Mapped geometry ("gmapped") that refers to the base,
\* the map and the imap - whatever the form of field_type.  heap.sel = the name of the geometry the model gets.
\* Named deviation GeometryObjectSkipsMap: a Geometry object is returned before the wrapping.
SelectGeometry ==
    /\ pc = "resolved"
    /\ LET B      == BaseGeom(opt, U)
           bn     == IF B.own = "user" THEN "ugeom" ELSE "gbase"
           mapped == U.fmap # "None" /\ ~(Deviation = "GeometryObjectSkipsMap" /\ U.ftype \in ObjTypes)
       IN heap' = [k \in {"used", "sel", bn} \cup (IF mapped THEN {"gmapped"} ELSE {}) |->
                     IF k = "used" THEN U
                     ELSE IF k = "sel" THEN (IF mapped THEN "gmapped" ELSE bn)
                     ELSE IF k = bn THEN B
                     ELSE [kind |-> "Mapped", own |-> "created", pardim |-> B.pardim, base |-> bn, map |-> U.fmap, imap |-> U.fimap]]
    /\ pc' = "geom_selected" /\ UNCHANGED <<opt, prob, comps>>

\* field problems: the model's action on the parameters FPars follows the references of ITS domain geometry:
\* fld = the function values, fwd = the solution operator applied to them (Abel1D: irrational weights, see OpQ)
ModelRec(A, tag) ==
    LET dn == heap.sel  B == heap[GeomBaseName(heap, dn)]  known == opt.fcase /\ FieldKnown(B)
        ps == FPars(B.pardim)
        fl == IF known THEN F([i \in 1..Len(ps) |-> GeomField(heap, dn, ps[i], FunDim(opt))]) ELSE <<>>
    IN [A |-> A, tag |-> tag, dgeom |-> dn, rgeom |-> "grng", fld |-> fl,
        fwd |-> IF known /\ OpKnown(opt) THEN F([i \in 1..Len(ps) |-> OpQ(opt, fl[i])]) ELSE <<>>]
BuildModel ==
    /\ pc = "geom_selected"
    /\ heap' = [k \in DOMAIN heap \cup {"model", "model2"} |->
                  IF k = "model" THEN ModelRec(IF AK THEN ImplMat(opt, U, opt.bc) ELSE <<>>, "documented")
                  ELSE IF k = "model2" THEN ModelRec(IF AK THEN ImplMat(opt, U, OtherBC(opt.bc)) ELSE <<>>, "other")
                  ELSE heap[k]]
    /\ pc' = "model_built" /\ UNCHANGED <<opt, prob, comps>>

\* exact solution and exact data = model(exact solution); WangCubic has neither
MakeExact ==
    /\ pc = "model_built"
    /\ LET x  == XVec(opt, U)
           xy == IF Deviation = "OtherPhantom" THEN Phantom(IF XName(opt, U) = "ramp" THEN "sq" ELSE "ramp", DomDim(opt)) ELSE x
       IN heap' = IF IsWang(opt) THEN heap
                  ELSE [k \in DOMAIN heap \cup {"xex", "yex"} |->
                          IF k = "xex" THEN [vals |-> IF XK THEN x ELSE <<>>, geom |-> heap.model.dgeom]
                          ELSE IF k = "yex" THEN [vals |-> IF YK THEN YVec(opt, heap.model.A, xy) ELSE <<>>,
                                                  \* field problems: the exact solution is FUNCTION VALUES (no map, no par2fun)
                                                  fvals |-> IF FYK THEN OpQ(opt, xy) ELSE <<>>,
                                                  model |-> "model", x |-> IF Deviation = "OtherPhantom" THEN "other" ELSE "xex",
                                                  geom |-> "grng"]
                          ELSE heap[k]]
    /\ pc' = "exact_made" /\ UNCHANGED <<opt, prob, comps>>

\* prior and data distribution (mean = model(x), standard deviations from the stated noise)
MakeDataDist ==
    /\ pc = "exact_made"
    /\ LET st == Stated(opt, U)
           sc == IF Deviation = "VarianceAsStd" THEN [st EXCEPT !.v = RSq(st.v)] ELSE st
           mdl == IF Deviation = "OtherModelInstance" THEN "model2" ELSE "model"
       IN heap' = [k \in DOMAIN heap \cup {"prior", "ddist"} |->
                     IF k = "prior" THEN PriorOf(opt, U)
                     ELSE IF k = "ddist" THEN [model |-> mdl, scale |-> sc,
                                               svec |-> IF DK THEN ScaleVec(sc, heap.yex.vals)
                                                        ELSE IF IsWang(opt) THEN <<sc.v>> ELSE <<>>,
                                               geom |-> "grng"]
                     ELSE heap[k]]
    /\ pc' = "ddist_made" /\ UNCHANGED <<opt, prob, comps>>

\* data = mean(exact solution) + svec .* Z, Z = the standard-normal draws consumed from the global stream
\* (WangCubic: the data are given, nothing is drawn)
SampleData ==
    /\ pc = "ddist_made"
    /\ LET Z == IF IsWang(opt) THEN <<>> ELSE ZVec(opt.zpat, RngDim(opt))
           mu == IF DK THEN IMV(heap[heap.ddist.model].A, heap.xex.vals) ELSE <<>>
       IN heap' = [k \in DOMAIN heap \cup {"data"} |->
                     IF k = "data"
                     THEN [vals |-> IF DK THEN F([i \in 1..Len(mu) |-> RAdd(R(mu[i]), RMul(heap.ddist.svec[i], R(Z[i])))])
                                    ELSE IF IsWang(opt) THEN <<U.wdata>> ELSE <<>>,
                           base |-> IF IsWang(opt) THEN "given" ELSE "yex", scale |-> heap.ddist.scale, Z |-> Z,
                           ndraws |-> Len(Z), geom |-> "grng"]
                     ELSE heap[k]]
    /\ pc' = "data_made" /\ UNCHANGED <<opt, prob, comps>>

MakeLikelihood ==
    /\ pc = "data_made"
    /\ heap' = [k \in DOMAIN heap \cup {"lik", "datacopy"} |->
                  IF k = "lik" THEN [model |-> heap.ddist.model, data |-> "data", scale |-> heap.ddist.scale, svec |-> heap.ddist.svec]
                  ELSE IF k = "datacopy" THEN heap.data
                  ELSE heap[k]]
    /\ pc' = "lik_made" /\ UNCHANGED <<opt, prob, comps>>

\* BayesianProblem(likelihood, prior): the posterior refers to both; exact values and info string are stored
Assemble ==
    /\ pc = "lik_made"
    /\ heap' = [k \in DOMAIN heap \cup {"post"} |->
                  IF k = "post" THEN [lik |-> "lik", prior |-> "prior", geom |-> heap[heap.lik.model].dgeom] ELSE heap[k]]
    /\ prob' = [target |-> "post",
                exactSolution |-> IF IsWang(opt) THEN "none" ELSE "xex",
                exactData |-> IF IsWang(opt) THEN "none" ELSE "yex",
                infoString |-> opt.problem \notin {"Poisson1D", "Abel1D"}]
    /\ pc' = "assembled" /\ UNCHANGED <<opt, comps>>

\* accessors of the problem object, as in the code: everything goes through the target (posterior)
PPost  == prob.target
PLik   == heap[PPost].lik
PPrior == heap[PPost].prior
PModel == heap[PLik].model
PData  == heap[PLik].data

GetComponents ==
    /\ pc = "assembled"
    /\ comps' = [model |-> PModel, data |-> IF Deviation = "GetComponentsCopiesData" THEN "datacopy" ELSE PData,
                 exactSolution |-> prob.exactSolution, exactData |-> prob.exactData]
    /\ pc' = "handed" /\ UNCHANGED <<opt, heap, prob>>

Next == ResolveOptions \/ SelectGeometry \/ BuildModel \/ MakeExact \/ MakeDataDist \/ SampleData \/ MakeLikelihood \/ Assemble \/ GetComponents
        \/ (pc \in {"model", "handed"} /\ UNCHANGED vars)
Spec == Init /\ [][Next]_vars

\* ---- invariants -----------------------------------------------------------------------------------
Done == pc = "handed"

\* an explicitly given value is never replaced by the default - whatever the value is (0, all-zero arrays ...) - and an
\* argument that is not given gets the documented default
GivenIsUsed ==
    (pc \notin {"model", "start"}) =>
        \A k \in OptNames : /\ (opt[k][1] => U[k] = opt[k][2])
                            /\ (~opt[k][1] => U[k] = DefaultOf(opt, k))
\* ... and this is what the finished problem shows: the given exact solution / phantom, the given observation
ExactSolutionIsGiven == (Done /\ XK) => heap.xex.vals = XVec(opt, D)
GivenDataIsData      == (Done /\ IsWang(opt)) => heap[PData].vals = <<Used(opt.wdata, One)>>
\* every option of OptionTable with an admissible falsy value is realised by an instance of the lattice (evaluated once)
IsFalsy(o, k) == o[k][1] /\ (IF k \in OptQ THEN FalsyQ(o[k][2]) ELSE FalsyS(o[k][2]))
TableCovered ==
    (pc = "model" /\ opt.kind = "wang") =>
        \A row \in OptionTable :
            /\ (row.falsy = <<>>) = (row.field = "")
            /\ (row.field = "heat.K" => \E c \in ModelCases : c.kind = "heat" /\ c.K = 0)
            /\ (row.field \in OptNames => \E o \in ValidOpts : o.problem = row.problem /\ IsFalsy(o, row.field))

\* one model: handed out = in the likelihood = the one that produced the exact data
SameModel == Done => /\ comps.model = PModel
                     /\ (~IsWang(opt) => heap.yex.model = PModel)
                     /\ heap.ddist.model = PModel
\* one data object: handed out = in the likelihood = the sample that was drawn
SameData  == Done => comps.data = PData /\ PData = "data"
\* geometries: a default geometry is compatible with anything (library convention)
Compat(g1, g2) == g1 = g2 \/ g1 = "default" \/ g2 = "default"
SameGeometries ==
    Done => /\ Compat(heap[PPrior].geom, heap[PModel].dgeom) /\ heap[PPost].geom = heap[PModel].dgeom
            /\ (~IsWang(opt) => heap.xex.geom = heap[PModel].dgeom /\ heap.yex.geom = heap[PModel].rgeom)
            /\ Compat(heap[PData].geom, heap[PModel].rgeom)
\* ---- the legacy form of Deconvolution1D ----
\* use_legacy = True is "the legacy matrix representation of the forward model": for every custom PSF array that is admissible
\* in BOTH forms (length dim, periodic boundary, even dim) the legacy operator is the operator of the non-legacy form
LegacyIsSameForwardModel ==
    (Done /\ IsLegacy(opt) /\ AK /\ D.psf \in ArrayPsfs) =>
        heap[PModel].A = DeconvMat([opt EXCEPT !.problem = "Deconvolution1D", !.legacy = NotGivenS], D, "periodic")
\* a kernel that is circulant-symmetric about its centre tap cannot tell the convolution from the correlation (the
\* transposed operator) - and only such a kernel: the built-in legacy kernels (Gauss, sinc, vonMises) are of this kind,
\* the custom arrays ramp / oneside / quad are not
SymmetricKernelCannotTell ==
    (Done /\ IsLegacy(opt) /\ AK) =>
        LET C == DeconvMat(opt, D, "periodic") IN CircSym(PsfArr(opt, D)) <=> (CV!IT(C) = C)
\* (deviation runs) on the symmetric kernels the assembled operator is the stated one whatever the orientation
LegacySymmetricUnaffected ==
    (Done /\ IsLegacy(opt) /\ AK /\ CircSym(PsfArr(opt, D))) => heap[PModel].A = DeconvMat(opt, D, "periodic")

\* ---- Part D: the field options ----
\* a map that is given is applied - for EVERY form of field_type: the model's domain geometry is the Mapped wrapper of the
\* stated base geometry with the given map and imap (and is the base itself when no map is given), and the model's
\* forward is the solution operator applied to map(par2fun_base(p))
MapGivenIsApplied ==
    (Done /\ opt.fcase) =>
        LET dn == heap[PModel].dgeom  g == heap[dn]  B == BaseGeom(opt, D)  ps == FPars(B.pardim)
        IN /\ (D.fmap # "None" => g.kind = "Mapped" /\ g.map = D.fmap /\ g.imap = D.fimap /\ heap[g.base] = B /\ g.pardim = B.pardim)
           /\ (D.fmap = "None" => g = B)
           /\ (FieldKnown(B) =>
                 \A i \in 1..Len(ps) :
                    LET f == MapF(D.fmap, Par2Fun(B, ps[i], FunDim(opt)))
                    IN /\ heap[PModel].fld[i] = f
                       /\ (OpKnown(opt) => heap[PModel].fwd[i] = OpQ(opt, f)))
\* a Geometry object given as field_type is the base AS IS (the caller's object, not a re-created one); a string / None
\* makes the constructor create the documented class with field_params
GeometryObjectUsedAsIs ==
    (Done /\ opt.fcase) =>
        LET bn == GeomBaseName(heap, heap[PModel].dgeom)
        IN /\ (D.ftype \in ObjTypes => bn = "ugeom" /\ heap[bn].own = "user")
           /\ (D.ftype \notin ObjTypes => bn = "gbase" /\ heap[bn].own = "created")
           /\ heap[bn] = BaseGeom(opt, D)
\* the one (mapped) domain geometry everywhere: posterior, exact solution, and the prior has its parameter dimension
FieldGeometryEverywhere ==
    (Done /\ opt.fcase) =>
        LET dn == heap[PModel].dgeom
        IN /\ heap[PPost].geom = dn /\ heap.xex.geom = dn
           /\ heap[heap.ddist.model].dgeom = dn /\ heap[heap.yex.model].dgeom = dn
           /\ Len(heap[PPrior].mean) = heap[dn].pardim
\* exact data = solution operator applied to the exact solution taken as function values
FieldExactData ==
    (Done /\ FYK) => /\ heap.yex.fvals = OpQ(opt, XVec(opt, D))
                     /\ heap.yex.x = "xex" /\ heap.yex.model = PModel

\* exact data = (the problem's model)(exact solution)
ExactDataIsModelOfExactSolution ==
    Done /\ ~IsWang(opt) =>
        /\ heap.yex.x = "xex" /\ comps.exactSolution = "xex" /\ comps.exactData = "yex"
        /\ (DK => heap.yex.vals = IMV(heap[PModel].A, heap.xex.vals))
        /\ (YK /\ ~DK => heap.yex.vals = [i \in 1..RngDim(opt) |-> 0])
\* data - exactData = NoiseScale(type, level, exactData) .* Z
NoiseRelation ==
    Done /\ ~IsWang(opt) =>
        /\ heap[PData].base = "yex" /\ heap[PData].scale = Stated(opt, D) /\ heap[PData].ndraws = RngDim(opt)
        /\ (DK =>
              LET y == heap.yex.vals  s == ScaleVec(Stated(opt, D), y)  Z == heap[PData].Z
              IN \A i \in 1..Len(y) : RSub(heap[PData].vals[i], R(y[i])) = RMul(s[i], R(Z[i])))
LikelihoodNoiseIsStated == Done => heap[PLik].scale = Stated(opt, D)

\* -2 log-density up to the normalising constants = sum of squares of the standardised residuals (kept as a vector:
\* their sum of squares has a denominator too large for 32-bit rationals) + prior quadratic form,
\* following the references of the posterior ...
FwdRef(mref, x) == IF IsWang(opt) THEN <<WangF(x[1], x[2])>> ELSE IMV(heap[mref].A, x)
QuadLik(lref, x) ==
    LET L == heap[lref]  d == heap[L.data].vals  mu == FwdRef(L.model, x)
    IN F([i \in 1..Len(d) |-> RDiv(RSub(d[i], R(mu[i])), L.svec[i])])
QuadOf(P, x) == RDiv(RSumSeq([i \in 1..Len(x) |-> RSq(R(x[i] - P.mean[i]))]), P.var)
QuadPrior(pref, x) == QuadOf(heap[pref], x)
\* ... and from the arguments of the call alone (intended design: documented defaults, given values as given)
QuadLikStated(x) ==
    IF IsWang(opt)
    THEN <<RDiv(RSub(D.wdata, R(WangF(x[1], x[2]))), D.level)>>
    ELSE LET A == DeconvMat(opt, D, opt.bc)  y == IMV(A, XVec(opt, D))
             s == ScaleVec(Stated(opt, D), y)  Z == ZVec(opt.zpat, RngDim(opt))  mu == IMV(A, x)
         IN F([i \in 1..Len(y) |-> RDiv(RSub(RAdd(R(y[i]), RMul(s[i], R(Z[i]))), R(mu[i])), s[i])])
QuadPriorStated(x) == QuadOf(PriorOf(opt, D), x)
TestPts == IF IsWang(opt) THEN {<<0, 0>>, <<1, 0>>, <<1, 2>>, <<-1, 1>>}
           ELSE LET pd == ParDim(opt, D)
                IN {[i \in 1..pd |-> 0], [i \in 1..pd |-> 1], Phantom("sq", pd), [i \in 1..pd |-> IF i % 2 = 1 THEN 2 ELSE -1]}
PosteriorIsLikPlusPrior ==
    (Done /\ (DK \/ IsWang(opt))) =>
        \A x \in TestPts : QuadLik(PLik, x) = QuadLikStated(x) /\ QuadPrior(PPrior, x) = QuadPriorStated(x)

\* ---- emission ---------------------------------------------------------------------------------------
EmitOptions ==
    (Emit /\ pc = "model" /\ opt.kind = "wang") =>
      PrintT("@@CASE " \o ToJson([kind |-> "options", rows |-> SeqOfSet(OptionTable)]) \o " @@END")
EmitProblem ==
    (Emit /\ Done) =>
      PrintT("@@CASE " \o ToJson(
        [kind |-> "problem", problem |-> opt.problem, n |-> opt.n, m |-> opt.m, bc |-> opt.bc, orient |-> opt.orient,
         noise |-> opt.noise, zpat |-> opt.zpat, wform |-> opt.wform,
         args |-> [k \in OptNames |-> opt[k]], used |-> D, falsy |-> SeqOfSet({k \in OptNames : IsFalsy(opt, k)}),
         domdim |-> DomDim(opt), rngdim |-> RngDim(opt),
         numeric |-> AK, xknown |-> XK, yknown |-> YK, dknown |-> DK,
         psf |-> IF AK THEN PsfArr(opt, D) ELSE <<>>,
         legacy |-> IsLegacy(opt), psfsym |-> IF IsLegacy(opt) /\ AK THEN CircSym(PsfArr(opt, D)) ELSE FALSE,
         A |-> heap[PModel].A,
         x |-> IF XK THEN heap.xex.vals ELSE <<>>,
         y |-> IF YK THEN heap.yex.vals ELSE <<>>,
         Z |-> heap[PData].Z, scale |-> heap[PLik].scale, svec |-> heap[PLik].svec, data |-> heap[PData].vals,
         prior_mean |-> heap[PPrior].mean, prior_var |-> heap[PPrior].var,
         info |-> [exactSolution |-> comps.exactSolution # "none", exactData |-> comps.exactData # "none", infoString |-> prob.infoString],
         field |-> IF ~opt.fcase THEN [fcase |-> FALSE]
                   ELSE LET B == BaseGeom(opt, D)  dn == heap[PModel].dgeom
                        IN [fcase |-> TRUE, fundim |-> FunDim(opt), pardim |-> B.pardim, base |-> B,
                            \* Abel1D documents the type "str or Geometry" only: the class a string creates is not asserted
                            basedoc |-> ~(opt.problem = "Abel1D" /\ D.ftype \in StringTypes),
                            mapped |-> heap[dn].kind = "Mapped", map |-> D.fmap, imap |-> D.fimap,
                            fknown |-> FieldKnown(B), opknown |-> OpKnown(opt), pars |-> FPars(B.pardim),
                            fld |-> heap[PModel].fld, fwd |-> heap[PModel].fwd,
                            fyknown |-> FYK, fy |-> IF comps.exactData # "none" THEN heap.yex.fvals ELSE <<>>,
                            heat |-> [r |-> FHeatR, K |-> FHeatK],
                            W2 |-> IF opt.problem = "Abel1D" THEN AbelW2(opt.n, Q(2, opt.n)) ELSE <<>>],
         same |-> <<<<"components.model", "problem.model">>, <<"problem.model", "likelihood.model">>,
                    <<"posterior.likelihood", "problem.likelihood">>, <<"posterior.prior", "problem.prior">>,
                    <<"components.data", "problem.data">>, <<"problem.data", "likelihood.data">>, <<"posterior.data", "problem.data">>,
                    <<"posterior.model", "problem.model">>>>,
         logd |-> LET pts == SeqOfSet(TestPts)
                  IN [i \in 1..Len(pts) |-> [x |-> pts[i], res |-> IF DK \/ IsWang(opt) THEN QuadLikStated(pts[i]) ELSE <<>>,
                                             priorq |-> QuadPriorStated(pts[i])]]]) \o " @@END")
=============================================================================
