------------------------------ MODULE GibbsInd ------------------------------
(***************************************************************************)
(* Unbounded (inductive) check of the core safety properties of Gibbs.tla  *)
(* with Apalache: two blocks, ANY number of sweeps, ANY version ids, any    *)
(* per-block step count in 1..2.  IndInv is inductive:                     *)
(*     Init => IndInv            (apalache-mc check --init=Init --inv=IndInv --length=0) *)
(*     IndInv /\ Next => IndInv' (apalache-mc check --init=IndInv --inv=IndInv --length=1) *)
(* and IndInv => Fresh /\ CacheFresh /\ StartsFromCurrent /\ StepsAsConfigured. *)
(* The model is Gibbs.tla restricted to the variables these properties     *)
(* talk about (stored tuples and call splitting are checked by TLC).       *)
(***************************************************************************)
EXTENDS Integers

VARIABLES
    \* @type: Str -> Int;
    val,
    \* @type: Str -> Int;
    ctx,        \* for two blocks the conditioning context of a block is the version of the OTHER block
    \* @type: Str -> Int;
    cachectx,
    \* @type: Str -> Int;
    spoint,
    \* @type: Int;
    savedPoint,
    \* @type: Int;
    savedCtx,
    \* @type: Str;
    phase,
    \* @type: Str;
    cur,
    \* @type: Int;
    inner,
    \* @type: Int;
    first,
    \* @type: Str -> Int;
    steps,
    \* @type: Int;
    nextid

Blocks == {"a", "b"}
Other(b) == IF b = "a" THEN "b" ELSE "a"
Phases == {"settarget", "savereinit", "restore", "step"}

Init ==
    /\ val = [b \in Blocks |-> 0]
    /\ ctx = [b \in Blocks |-> 0]
    /\ cachectx = [b \in Blocks |-> 0]
    /\ spoint = [b \in Blocks |-> 0]
    /\ savedPoint = 0 /\ savedCtx = 0
    /\ phase = "settarget" /\ cur = "a" /\ inner = 0 /\ first = 0
    /\ steps \in [Blocks -> {1, 2}]
    /\ nextid = 1

SetTarget ==
    /\ phase = "settarget"
    /\ ctx' = [ctx EXCEPT ![cur] = val[Other(cur)]]
    /\ phase' = "savereinit"
    /\ UNCHANGED <<val, cachectx, spoint, savedPoint, savedCtx, cur, inner, first, steps, nextid>>

SaveReinit ==
    /\ phase = "savereinit"
    /\ savedPoint' = spoint[cur] /\ savedCtx' = cachectx[cur]
    /\ cachectx' = [cachectx EXCEPT ![cur] = ctx[cur]]
    /\ phase' = "restore"
    /\ UNCHANGED <<val, ctx, spoint, cur, inner, first, steps, nextid>>

Restore ==
    /\ phase = "restore"
    /\ spoint' = [spoint EXCEPT ![cur] = savedPoint]
    /\ cachectx' = [cachectx EXCEPT ![cur] = ctx[cur]]
    /\ phase' = "step" /\ inner' = 0 /\ first' = savedPoint
    /\ UNCHANGED <<val, ctx, savedPoint, savedCtx, cur, steps, nextid>>

BlockStep ==
    /\ phase = "step" /\ inner < steps[cur]
    /\ \E acc \in BOOLEAN :
         /\ spoint' = [spoint EXCEPT ![cur] = IF acc THEN nextid ELSE spoint[cur]]
         /\ cachectx' = [cachectx EXCEPT ![cur] = IF acc THEN ctx[cur] ELSE cachectx[cur]]
         /\ nextid' = IF acc THEN nextid + 1 ELSE nextid
    /\ inner' = inner + 1
    /\ UNCHANGED <<val, ctx, savedPoint, savedCtx, phase, cur, first, steps>>

Extract ==
    /\ phase = "step" /\ inner = steps[cur]
    /\ val' = [val EXCEPT ![cur] = spoint[cur]]
    /\ cur' = Other(cur) /\ phase' = "settarget"
    /\ UNCHANGED <<ctx, cachectx, spoint, savedPoint, savedCtx, inner, first, steps, nextid>>

Next == SetTarget \/ SaveReinit \/ Restore \/ BlockStep \/ Extract

\* named deviation RestoreKeepsOldCache (what HybridGibbs does for samplers with cached evaluations): the
\* inductive step must FAIL with it (non-vacuity of the proof obligation)
RestoreDev ==
    /\ phase = "restore"
    /\ spoint' = [spoint EXCEPT ![cur] = savedPoint]
    /\ cachectx' = [cachectx EXCEPT ![cur] = savedCtx]
    /\ phase' = "step" /\ inner' = 0 /\ first' = savedPoint
    /\ UNCHANGED <<val, ctx, savedPoint, savedCtx, cur, steps, nextid>>
NextDev == SetTarget \/ SaveReinit \/ RestoreDev \/ BlockStep \/ Extract

\* ---- the properties of Gibbs.tla -------------------------------------------------
Fresh             == phase = "step" => ctx[cur] = val[Other(cur)]
CacheFresh        == phase = "step" => cachectx[cur] = ctx[cur]
StartsFromCurrent == phase = "step" => first = val[cur]
StepsAsConfigured == phase = "step" => inner <= steps[cur]
Safety == Fresh /\ CacheFresh /\ StartsFromCurrent /\ StepsAsConfigured

\* ---- inductive invariant -----------------------------------------------------------
TypeOK ==
    /\ val \in [Blocks -> Int] /\ ctx \in [Blocks -> Int] /\ cachectx \in [Blocks -> Int] /\ spoint \in [Blocks -> Int]
    /\ savedPoint \in Int /\ savedCtx \in Int /\ first \in Int /\ nextid \in Int
    /\ phase \in Phases /\ cur \in Blocks /\ inner \in 0..2
    /\ steps \in [Blocks -> {1, 2}]

IndInv ==
    /\ TypeOK
    /\ Safety
    \* between sweeps of a block its sampler's point is the block's current value
    /\ \A b \in Blocks : (b # cur \/ phase \in {"settarget", "savereinit"}) => spoint[b] = val[b]
    /\ (phase \in {"savereinit", "restore"} => ctx[cur] = val[Other(cur)])
    /\ (phase = "restore" => savedPoint = val[cur])
=============================================================================
