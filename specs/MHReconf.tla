----------------------------- MODULE MHReconf -----------------------------
(***************************************************************************)
(* C02, round 7: a CONSTRUCTED Metropolis-type sampler that is re-configured*)
(* through its public attributes and then re-initialised; the proposal      *)
(* OBJECT a random-walk kernel is given (symmetry flag x actual law); the   *)
(* data LAYOUT in which points and scales are handed over.                  *)
(* EXTENDS MHKernel: kernels, lattice, tables, proposal mechanisms, Propose /*)
(* Decide / Tune and the invariants are those of MHKernel; this module adds *)
(*                                                                         *)
(*   pub    the public attributes as they are CONFIGURED                    *)
(*          [x0, sc, tgt] = initial_point / initial_scale / target          *)
(*          (cuqi.experimental.mcmc) or x0 / scale / target (cuqi.sampler); *)
(*          `cfg` (MHKernel) is the configuration IN EFFECT for the chain   *)
(*   ReX0(v) ReSc(v) ReTgt(v)   assignment of one public attribute          *)
(*          (Reconfigure): changes pub only; no transition is modelled      *)
(*          between an assignment and the next Reinit (what a step does     *)
(*          after `sampler.target = ...` without re-initialisation is not   *)
(*          documented)                                                     *)
(*   Reinit reinitialize() (stateful interface) / the start of a new        *)
(*          sample() call (stateless interface): the configuration takes    *)
(*          effect: point = the configured initial point, every cached      *)
(*          evaluation (log-density / drift / likelihood part) = the        *)
(*          evaluation AT THAT POINT under the CURRENT target, scale = the  *)
(*          configured scale.  The transitions that follow are MHKernel's   *)
(*          Propose / Decide from there: RatioIsMH, DetailedBalance,        *)
(*          CacheCoherent, NoNonFiniteAccept, RejectKeepsState range over   *)
(*          them unchanged.                                                 *)
(*   prop   the proposal object of the random-walk kernel                   *)
(*          [kind, flag, mu]: kind "gauss" a library Gaussian (its centre   *)
(*          is readable: attribute mean) | "user" a user-defined            *)
(*          distribution (only its sample function is known);               *)
(*          flag = value of is_symmetric: "true" | "false" | "none" |       *)
(*          "missing" (no such attribute); mu = centre of the increment law *)
(*          xi ~ N(mu, I): the proposal y = x + s xi is symmetric,          *)
(*          q(y|x) = q(x|y), iff mu = 0.  A flag DECLARED by the caller     *)
(*          (kind "user") is truthful; the flag of a library Gaussian is    *)
(*          True whatever its mean.                                         *)
(*   mode   how the kernel treats the object:                               *)
(*          "sym"      admitted, decides with the symmetric ratio           *)
(*          "refused"  construction / assignment refuses it                 *)
(*          "hastings" admitted, decides with the full Hastings ratio       *)
(*                     lp(y) - lp(x) + log q(x|y) - log q(y|x)              *)
(*          Intended design (AdmitRule = "spec"): an object KNOWN to be     *)
(*          symmetric about zero (flag true and centre 0) is admitted with  *)
(*          the symmetric ratio; every other object is refused or corrected *)
(*          for - both are valid kernels.                                   *)
(*   lay    the data layout in which initial points and scales are handed   *)
(*          to the sampler (constructor and assignments).  NO action reads  *)
(*          it: the decision rule is layout-independent by construction; it *)
(*          is one more dimension of the configuration that the realisation *)
(*          has to cover (integer arrays, lists, float32, 0-d, (n,1), the   *)
(*          in-place edit of the array object that was handed over).        *)
(*                                                                         *)
(* Named deviations (FALSE / "spec" in the deciding cfgs):                  *)
(*   ReinitKeepsCacheForSameTarget   Reinit re-uses the evaluations made at *)
(*          the FIRST initialisation when the target object is the same     *)
(*          (cache keyed on the identity of the target only) -> CacheCoherent*)
(*   ReinitKeepsCurrentCache         Reinit keeps the cached evaluations of *)
(*          the point the chain was at -> CacheCoherent                     *)
(*   AdmitRule = "UnknownSymmetryAccepted"   only flag = false is refused;  *)
(*          everything else runs with the symmetric ratio -> RatioIsMHP     *)
(*   AdmitRule = "FlagTrustedWhateverTheCentre"   flag = true is admitted   *)
(*          with the symmetric ratio whatever the centre -> RatioIsMHP      *)
(***************************************************************************)
EXTENDS MHKernel

CONSTANTS MaxReconf,     \* Reinit actions per behaviour (0: the re-configuration part is off)
          MaxAssign,     \* attribute assignments before a Reinit
          ReAttrs,       \* subset of {"x0", "sc", "tgt"}
          PreMax,        \* transitions before the re-configuration (0..PreMax)
          PostT,         \* transitions after the (last) Reinit
          ReStartsAll,   \* TRUE: every finite lattice point may be assigned as initial point; FALSE: ReStarts(d)
          LayoutIds,     \* subset of DOMAIN LayoutTable
          PropFacet,     \* TRUE: the proposal object ranges over PropsAll (random-walk kernel); FALSE: the default object
          Kernels2,      \* kernels enumerated in dimension 2 (the others in dimension 1 only)
          TgtNextOnly,   \* TRUE: a target / scale is replaced by its successor (TgtSucc, NextScale) only; FALSE: by every other one
          AnyOrder,      \* FALSE: attributes are assigned in the order x0, sc, tgt; TRUE: in any order
          PreOneMove,    \* TRUE: the transition BEFORE the re-configuration proposes one fixed move (accepted or rejected)
          ReinitKeepsCacheForSameTarget, ReinitKeepsCurrentCache, AdmitRule

VARIABLES pub,      \* [x0, sc, tgt] as configured
          cfg0,     \* configuration at construction (emission)
          assigned, \* attributes assigned since the last Reinit (sequence)
          nRe,
          lay,      \* layout id
          prop,     \* proposal object [kind, flag, mu]
          mode,     \* "sym" | "refused" | "hastings"
          how       \* "ctor" | "assign": the proposal object is given to the constructor / assigned to the public attribute
                    \* `proposal` of a constructed sampler (then re-initialised).  No action reads it: admission and ratio
                    \* do not depend on the way the object is handed over.

rvars == <<pub, cfg0, assigned, nRe, lay, prop, mode, how>>
allvars == <<vars, rvars>>

\* ------------------------------ layouts ------------------------------
\* x: layout of a point, s: layout of a scale.  The meaning is the realisation's (harness/cuqiverif/mhreconf_real.py)
LayoutTable == [ base    |-> [x |-> "f64",     s |-> "float"],
                 ints    |-> [x |-> "int",     s |-> "int"],
                 lists   |-> [x |-> "list",    s |-> "npfloat"],
                 f32     |-> [x |-> "f32",     s |-> "f32"],
                 col     |-> [x |-> "col",     s |-> "zerod"],
                 zerod   |-> [x |-> "zerod",   s |-> "list"],
                 inplace |-> [x |-> "inplace", s |-> "float"] ]
ASSUME LayoutIds \subseteq DOMAIN LayoutTable

\* ------------------------------ proposal objects ------------------------------
PropsAll == {p \in [kind : {"gauss", "user"}, flag : {"true", "false", "none", "missing"}, mu : {0, 1}] :
                /\ (p.kind = "user" /\ p.flag = "true" => p.mu = 0)       \* a flag declared by the caller is truthful
                /\ (p.kind = "gauss" => p.flag # "missing")}
DefaultProp == [kind |-> "gauss", flag |-> "true", mu |-> 0]
KnownSym0(p) == p.flag = "true" /\ p.mu = 0
Modes(p) == IF KnownSym0(p) THEN {"sym"}
            ELSE IF AdmitRule = "UnknownSymmetryAccepted" /\ p.flag = "none" THEN {"sym"}
            ELSE IF AdmitRule = "FlagTrustedWhateverTheCentre" /\ p.flag = "true" THEN {"sym"}
            ELSE {"refused", "hastings"}
ASSUME AdmitRule \in {"spec", "UnknownSymmetryAccepted", "FlagTrustedWhateverTheCentre"}

\* log q(to | from) of the random-walk mechanism with increment law N(mu, I), up to a constant
LogQP(c, id, from, to, mu) ==
    LET n == Noise(c, id, from, to)
    IN RMul(Q(-1, 2), RSum([i \in 1..c.d |-> RSq(RSub(n[i], R(mu)))], c.d))
HastingsCorr(c, id, from, to, mu) == RSub(LogQP(c, id, to, from, mu), LogQP(c, id, from, to, mu))
\* the Metropolis-Hastings log-ratio of the mechanism the kernel really uses
RTrueP(c, id, from, to, mu) ==
    IF c.k \in {"RW"} THEN RAdd(RSub(LP(c, to), LP(c, from)), HastingsCorr(c, id, from, to, mu))
    ELSE RTrue(c, id, from, to)

\* ------------------------------ initial states ------------------------------
InitR == /\ Init
         /\ (cfg.d = 2 => cfg.k \in Kernels2)
         /\ pub = [x0 |-> cfg.x0, sc |-> cfg.sc, tgt |-> cfg.tgt]
         /\ cfg0 = cfg /\ assigned = <<>> /\ nRe = 0
         /\ lay \in LayoutIds
         /\ prop \in (IF PropFacet /\ cfg.k = "RW" THEN PropsAll ELSE {DefaultProp})
         /\ mode \in Modes(prop)
         /\ how \in (IF PropFacet /\ cfg.k = "RW" THEN {"ctor", "assign"} ELSE {"ctor"})

\* ------------------------------ transitions ------------------------------
Budget == IF nRe < MaxReconf THEN nT < PreMax ELSE nT < PostT

\* the one move proposed before the re-configuration when PreOneMove: coordinate `comp` + 1
PreMove == [i \in 1..cfg.d |-> IF i = comp THEN x[i] + 1 ELSE x[i]]

\* MHKernel!Propose with the proposal object: the noise xi that carries x to y is that of the mechanism (the increment,
\* INCLUDING its centre mu); a kernel in mode "hastings" adds the proposal ratio
ProposeP(y) ==
    /\ mode # "refused" /\ assigned = <<>> /\ Budget
    /\ ((PreOneMove /\ nRe < MaxReconf) => y = PreMove)
    /\ phase = "idle" /\ nT < MaxT(cfg) /\ y \in Moves
    /\ LET tv == Table(cfg.d, cfg.tgt, y)
           xi == Noise(cfg, scale, x, y)
           gy == CGrad(cfg, y)
           r0 == IF Finite(tv) THEN RCodeAt(cfg, scale, x, y, c_lp, c_grad, c_lik) ELSE NaN
           r  == IF Finite(tv) /\ mode = "hastings" THEN RAdd(r0, HastingsCorr(cfg, scale, x, y, prop.mu)) ELSE r0
       IN /\ pending' = [y |-> y, xi |-> xi, tv |-> tv, gy |-> gy, r |-> r]
          /\ prog' = Log([a |-> "p", j |-> IF cfg.k = "CW" THEN comp ELSE 0, y |-> y, xi |-> xi, tv |-> tv, gy |-> gy, r |-> r,
                          rsym |-> r0, yraw |-> <<>>])
    /\ phase' = "proposed" /\ last' = "propose"
    /\ UNCHANGED <<cfg, x, c_lp, c_grad, c_lik, scale, comp, nT, nTune, nLoad, nAbort, sw, lastAcc>>
    /\ UNCHANGED rvars

DecideR(cls) == Decide(cls) /\ UNCHANGED rvars

\* warm-up tuning before the re-configuration; the stateless interface has ONE attribute `scale` (tuning writes it)
TuneR == /\ nRe < MaxReconf /\ assigned = <<>> /\ mode # "refused"
         /\ Tune
         /\ pub' = IF cfg.iface = "leg" THEN [pub EXCEPT !.sc = scale'] ELSE pub
         /\ UNCHANGED <<cfg0, assigned, nRe, lay, prop, mode, how>>

\* ------------------------------ re-configuration ------------------------------
TargetsOf(c) == {t \in (IF c.d = 1 THEN Targets1 ELSE Targets2) : t = "holesg" => c.k = "MALA"}
ReStarts(d) == IF d = 1 THEN {<<-2>>, <<1>>} ELSE {<<1, 1>>, <<-1, 0>>}
StartsFor(d) == IF ReStartsAll THEN X(d) ELSE ReStarts(d)

AttrRank(a) == CASE a = "x0" -> 1 [] a = "sc" -> 2 [] a = "tgt" -> 3
CanAssign(a) == /\ mode # "refused" /\ phase = "idle" /\ comp = 1
                /\ nRe < MaxReconf /\ Len(assigned) < MaxAssign
                /\ a \in ReAttrs /\ \A i \in 1..Len(assigned) : assigned[i] # a
                /\ (AnyOrder \/ \A i \in 1..Len(assigned) : AttrRank(assigned[i]) < AttrRank(a))
AssignLog(a, v, extra) == Log([a |-> "c", attr |-> a, v |-> v, sv |-> extra])
Frame == UNCHANGED <<cfg, x, c_lp, c_grad, c_lik, scale, pending, phase, comp, nT, nTune, nLoad, nAbort, sw, lastAcc,
                     cfg0, nRe, lay, prop, mode, how>>

ReX0(v) == /\ CanAssign("x0") /\ v \in StartsFor(cfg.d) /\ v # pub.x0
           /\ Finite(Table(cfg.d, pub.tgt, v))
           /\ pub' = [pub EXCEPT !.x0 = v] /\ assigned' = Append(assigned, "x0")
           /\ prog' = AssignLog("x0", v, <<>>) /\ last' = "assign" /\ Frame
ReSc(v) == /\ CanAssign("sc") /\ v \in ScalesOf(cfg.k) /\ v # pub.sc /\ (v = "percomp" => cfg.d = 2)
           /\ (TgtNextOnly => v = NextScale(cfg.k, pub.sc))
           /\ pub' = [pub EXCEPT !.sc = v] /\ assigned' = Append(assigned, "sc")
           /\ prog' = AssignLog("sc", v, SV(v, cfg.d)) /\ last' = "assign" /\ Frame
TgtNext(t) == CASE t = "quad" -> "asym" [] t = "asym" -> "holes" [] t = "holes" -> "quad" [] OTHER -> "quad"
TgtSucc(c, t) == IF TgtNext(t) \in TargetsOf(c) THEN TgtNext(t) ELSE TgtNext(TgtNext(t))
ReTgt(v) == /\ CanAssign("tgt") /\ v \in TargetsOf(cfg) /\ v # pub.tgt
            /\ (TgtNextOnly => v = TgtSucc(cfg, pub.tgt))
            /\ Finite(Table(cfg.d, v, pub.x0))
            /\ pub' = [pub EXCEPT !.tgt = v] /\ assigned' = Append(assigned, "tgt")
            /\ prog' = AssignLog("tgt", v, <<>>) /\ last' = "assign" /\ Frame

\* reinitialize() / a new sample() call.  Without an assignment it is only of interest after a transition.
Reinit ==
    /\ mode # "refused" /\ phase = "idle" /\ comp = 1 /\ nRe < MaxReconf
    /\ (assigned # <<>> \/ nT > 0)
    /\ LET nc   == [cfg EXCEPT !.x0 = pub.x0, !.sc = pub.sc, !.tgt = pub.tgt]
           same == pub.tgt = cfg.tgt                 \* the target OBJECT is the one of the previous initialisation
           keep0 == ReinitKeepsCacheForSameTarget /\ same
           nlp  == IF keep0 THEN CLp(cfg, cfg.x0)   ELSE IF ReinitKeepsCurrentCache THEN c_lp   ELSE CLp(nc, pub.x0)
           ngr  == IF keep0 THEN CGrad(cfg, cfg.x0) ELSE IF ReinitKeepsCurrentCache THEN c_grad ELSE CGrad(nc, pub.x0)
           nlk  == IF keep0 THEN CLik(cfg, cfg.x0)  ELSE IF ReinitKeepsCurrentCache THEN c_lik  ELSE CLik(nc, pub.x0)
       IN /\ cfg' = nc /\ x' = pub.x0 /\ c_lp' = nlp /\ c_grad' = ngr /\ c_lik' = nlk /\ scale' = pub.sc
          /\ sw' = <<pub.x0, nlp>>
          /\ prog' = Log([a |-> "r", x |-> pub.x0, clp |-> nlp, cgrad |-> ngr, clik |-> nlk, sc |-> pub.sc,
                          sv |-> SV(pub.sc, cfg.d), tgt |-> pub.tgt, pre |-> nT, attrs |-> assigned])
    /\ nT' = 0 /\ nRe' = nRe + 1 /\ assigned' = <<>> /\ last' = "reinit" /\ lastAcc' = -1
    /\ UNCHANGED <<pending, phase, comp, nTune, nLoad, nAbort, pub, cfg0, lay, prop, mode, how>>

NextR == \/ \E y \in X(cfg.d) : ProposeP(y)
         \/ \E cls \in {"Below", "Above", "Any"} : DecideR(cls)
         \/ TuneR
         \/ \E v \in X(cfg.d) : ReX0(v)
         \/ \E v \in ScaleIds : ReSc(v)
         \/ \E v \in Targets1 \cup Targets2 : ReTgt(v)
         \/ Reinit

SpecR == InitR /\ [][NextR]_allvars

\* ------------------------------ properties ------------------------------
\* the log-ratio the kernel decides with is the Metropolis-Hastings log-ratio of the mechanism it really uses
\* (= MHKernel!RatioIsMH when the increment law is centred)
RatioIsMHP == (phase = "proposed" /\ Finite(pending.tv)) => pending.r = RTrueP(cfg, scale, x, pending.y, prop.mu)

\* detailed balance with the ratio the kernel computes in either direction (mode "hastings": with its proposal ratio)
DetailedBalanceP ==
    (phase = "proposed" /\ Finite(pending.tv)) =>
        LET y   == pending.y
            rb0 == RCodeAt(cfg, scale, y, x, CLp(cfg, y), CGrad(cfg, y), CLik(cfg, y))
            rb  == IF mode = "hastings" THEN RAdd(rb0, HastingsCorr(cfg, scale, y, x, prop.mu)) ELSE rb0
            rt  == RTrueP(cfg, scale, x, y, prop.mu)
        IN /\ RTrueP(cfg, scale, y, x, prop.mu) = RNeg(rt)
           /\ RSub(Min0(pending.r), Min0(rb)) = rt

\* after Reinit: the configured point, caches of that point under the current target, the configured scale
ReinitIsFresh == last = "reinit" => /\ x = pub.x0 /\ cfg.x0 = pub.x0 /\ cfg.tgt = pub.tgt /\ scale = pub.sc
                                    /\ c_lp = CLp(cfg, x) /\ c_grad = CGrad(cfg, x) /\ c_lik = CLik(cfg, x)

\* an assignment changes no part of the chain state
AssignKeepsChain == [][(last' = "assign") => UNCHANGED <<x, c_lp, c_grad, c_lik, scale, cfg>>]_allvars

\* non-vacuity of the proposal facet: the catalogue contains an object that is not known to be symmetric and is not
ASSUME \E p \in PropsAll : ~KnownSym0(p) /\ p.mu # 0 /\ p.flag = "none"
ASSUME \E p \in PropsAll : ~KnownSym0(p) /\ p.mu # 0 /\ p.flag = "true"

\* ------------------------------ emission ------------------------------
TerminalR == phase = "idle" /\ comp = 1 /\ nRe = MaxReconf /\ nT = PostT /\ assigned = <<>>
TabsOf(c) == [t \in TargetsOf(c) |-> Rows([c EXCEPT !.tgt = t])]
EmittedR ==
    /\ (Emit /\ last = "init") =>
          PrintT("@@CASE " \o ToJson([kind |-> "rroot", cfg |-> cfg, lay |-> lay, layout |-> LayoutTable[lay], prop |-> prop,
                                      mode |-> mode, modes |-> Modes(prop), how |-> how,
                                      sv |-> SV(cfg.sc, cfg.d), clp |-> c_lp, cgrad |-> c_grad, clik |-> c_lik,
                                      rows |-> Rows(cfg), tabs |-> TabsOf(cfg)]) \o " @@END")
    /\ (Emit /\ Hist /\ TerminalR /\ mode # "refused") =>
          PrintT("@@CASE " \o ToJson([kind |-> "rbeh", cfg |-> cfg0, lay |-> lay, prop |-> prop, mode |-> mode, how |-> how,
                                      prog |-> prog]) \o " @@END")
=============================================================================
