----------------------------- MODULE LinGaussVec -----------------------------
(***************************************************************************)
(* Property C15, round 10: function-backed linear models whose forward /    *)
(* adjoint functions are defined for VECTORS ONLY (part "map" of LinGauss   *)
(* with one more facet).                                                    *)
(*                                                                         *)
(* Every function pair of LinGauss is  x |-> A @ x,  y |-> A^T @ y: applied  *)
(* to a MATRIX it acts column by column.  Users write linear operators with  *)
(* numpy calls that have no such meaning on a matrix:                        *)
(*     np.roll(x, 1)      np.flip(x)      np.cumsum(x)                       *)
(* (no axis: the array is FLATTENED, shifted / reversed / summed as one long  *)
(* vector and - roll, flip - given its shape back; cumsum returns the long    *)
(* vector).  LinearModel documents forward functions of a parameter VECTOR;   *)
(* the closed-form MAP and the direct sampler take the matrix of the model     *)
(* (get_matrix(): "column by column from forward(e_i)").                      *)
(*                                                                         *)
(* The operator of a configuration is UNCHANGED (the matrix A of LinGauss,    *)
(* so the oracle - exact posterior mean / covariance / ML point of MapDerived *)
(* - is unchanged); only its realisation differs: A = B V with V the matrix   *)
(* of the vector operator (roll: cyclic shift, flipall: reversal, cumsum:      *)
(* lower triangle of ones), B = A V^-1 in exact integers; the functions are    *)
(*     forward  x |-> B @ vecop(x)          adjoint  y |-> vecop*(B^T @ y).    *)
(* VecApply defines vecop on a sequence of ANY length (that is what numpy      *)
(* does to a flattened matrix).                                               *)
(*                                                                         *)
(* Invariants (besides MapReference / MapDirectIsPosteriorMean / MapOutcome   *)
(* of LinGauss, which hold for the configuration unchanged)                   *)
(*   VecOperatorIsA     B vecop(e_j) = column j of A, V V^-1 = I, the supplied *)
(*                      adjoint is the transpose on all basis pairs            *)
(*   VecAssembledIsG    the matrix the model hands out is G = A E              *)
(*   VecDirectIsMean    the direct route evaluated with that matrix gives the   *)
(*                      posterior mean                                         *)
(* Named deviation (TLC must refute)                                          *)
(*   MatrixFromForwardOfIdentity   the matrix is read off ONE call             *)
(*        forward(identity matrix) whenever the result has the shape m x n     *)
(*        (the seeded change): np.roll / np.flip of the flattened identity     *)
(*        -> VecAssembledIsG, VecDirectIsMean                                  *)
(***************************************************************************)
EXTENDS LinGauss

CONSTANTS VDev        \* "none" | "MatrixFromForwardOfIdentity"

VecKinds == {"roll", "flipall", "cumsum"}
FvNo(fv) == CASE fv = "roll" -> 0 [] fv = "flipall" -> 1 [] OTHER -> 2

\* the vector operator on an integer sequence of any length
VecApply(fv, v) ==
    LET L == Len(v)
    IN CASE fv = "roll"    -> F([i \in 1..L |-> IF i = 1 THEN v[L] ELSE v[i - 1]])              \* np.roll(v, 1)
         [] fv = "flipall" -> F([i \in 1..L |-> v[(L + 1) - i]])                                \* np.flip(v)
         [] fv = "cumsum"  -> F([i \in 1..L |-> ISum([t \in 1..i |-> v[t]])])                   \* np.cumsum(v)
VecInvApply(fv, v) ==
    LET L == Len(v)
    IN CASE fv = "roll"    -> F([i \in 1..L |-> IF i = L THEN v[1] ELSE v[i + 1]])
         [] fv = "flipall" -> F([i \in 1..L |-> v[(L + 1) - i]])
         [] fv = "cumsum"  -> F([i \in 1..L |-> IF i = 1 THEN v[1] ELSE v[i] - v[i - 1]])
\* the adjoint the user supplies with it
VecAdjApply(fv, w) ==
    LET L == Len(w)
    IN CASE fv = "roll"    -> F([i \in 1..L |-> IF i = L THEN w[1] ELSE w[i + 1]])              \* np.roll(w, -1)
         [] fv = "flipall" -> F([i \in 1..L |-> w[(L + 1) - i]])                                \* np.flip(w)
         [] fv = "cumsum"  -> F([i \in 1..L |-> ISum([t \in 1..((L + 1) - i) |-> w[(i + t) - 1]])])   \* np.cumsum(w[::-1])[::-1]
KeepsShape(fv) == fv # "cumsum"                          \* numpy hands the matrix shape back (roll, flip) or returns the long vector (cumsum)
ColsOf(n, f(_)) == IT(F([j \in 1..n |-> f(IUnit(n, j))]))     \* matrix with the columns f(e_j)
VM(fv, n)    == LET f(e) == VecApply(fv, e) IN ColsOf(n, f)
VInvM(fv, n) == LET f(e) == VecInvApply(fv, e) IN ColsOf(n, f)
\* vecop applied to the n x n identity as numpy does it: flatten (C order), apply, reshape
OnIdentity(fv, n) == LET flat == F([q \in 1..(n * n) |-> IF ((q - 1) \div n) = ((q - 1) % n) THEN 1 ELSE 0])
                         w    == VecApply(fv, flat)
                     IN F([i \in 1..n |-> [j \in 1..n |-> w[((i - 1) * n) + j]]])

SelMapBase(r) == /\ (GForm(r.i1).kind = "full" => r.m >= 2)
                 /\ (r.geo = "step" => r.na = 3)
                 /\ (PForm(r.j).kind = "gmrf" => r.geo \in {"default", "cont"})
SelVec(r) == /\ SelMapBase(r)
             /\ r.mdl = "func"
VecThin(r, fv) == IF Thorough THEN \/ (GForm(r.i1).form = "cov" /\ PForm(r.j).form \in {"cov", "gmrf"} /\ r.av = 1
                                         /\ (r.geo \in {"cont", "disc", "scale"} => (r.i1 + r.j + FvNo(fv) + r.m) % 4 = 0))
                                   \/ ((r.i1 + r.j + FvNo(fv)) % 8 = 0 /\ (r.av = 2 => r.geo = "default"))
                  ELSE /\ r.av = 1
                       /\ (r.geo \in {"cont", "disc", "scale"} => (r.i1 + r.j + FvNo(fv) + r.m) % 8 = 0)
                       /\ \/ (GForm(r.i1).form = "cov" /\ PForm(r.j).form = "cov" /\ (r.i1 + r.j + FvNo(fv) + r.m) % 2 = 0)   \* closed-form route
                          \/ (r.i1 \in {1, 6} /\ r.j \in {2, 17} /\ r.geo \in {"default", "step"} /\ (r.m + FvNo(fv)) % 3 = 0)   \* optimisation route
VecConfigs == { [kind |-> "map", m |-> r.m, na |-> r.na, geo |-> r.geo, av |-> r.av, i1 |-> r.i1, j |-> r.j, mk |-> r.mk, mdl |-> r.mdl, fv |-> fv] :
                  r \in {q \in MapConfigs : SelVec(q)}, fv \in VecKinds }

VecExtra(r, dd) ==
    LET n   == r.na
        V   == VM(r.fv, n)
        Vi  == VInvM(r.fv, n)
        B   == IMM(dd.A, Vi)
        \* what ONE call forward(identity of the parameter dimension) returns: par2fun of an identity-like geometry hands the matrix on,
        \* vecop treats it as one long vector, B @ (.) multiplies from the left.  (Other geometries: what par2fun does to a matrix is
        \* not defined by anything - the deviation is modelled for identity-like geometries only.)
        once == IMM(B, OnIdentity(r.fv, n))
        asm == IF VDev = "MatrixFromForwardOfIdentity" /\ GeoIdentityLike(r.geo) /\ KeepsShape(r.fv) THEN once ELSE dd.G
        S4  == IMAdd(IMM(asm, IMM(dd.C04, IT(asm))), dd.Ce4)
        res == IVSub(dd.y, IMV(asm, dd.mu0))
        tar == IF dd.cov /\ IDet(S4) # 0
               THEN VAdd(VR(dd.mu0), QV(IMV(dd.C04, IMV(IT(asm), IMV(IAdj(S4), res))), IDet(S4)))
               ELSE VR(dd.mu0)
    IN [V |-> V, Vi |-> Vi, B |-> B, asm |-> asm, tarV |-> tar]

VecInit == /\ c \in {r \in VecConfigs : VecThin(r, r.fv)}
           /\ \E dd \in {MapDerived(c)} : d = (VecExtra(c, dd) @@ dd)
           /\ k = -1
           /\ x = <<>>
VecNext == UNCHANGED <<c, d, x, k>>

VecOperatorIsA ==
    /\ IMM(d.V, d.Vi) = IId(c.na) /\ IMM(d.Vi, d.V) = IId(c.na)
    /\ IMM(d.B, d.V) = d.A
    /\ \A j \in 1..c.na : IMV(d.B, VecApply(c.fv, IUnit(c.na, j))) = [i \in 1..c.m |-> d.A[i][j]]
    \* the supplied adjoint  y |-> vecop*(B^T y)  is the transpose:  <A e_j, e_i> = <e_j, A* e_i>
    /\ \A i \in 1..c.m : VecAdjApply(c.fv, IMV(IT(d.B), IUnit(c.m, i))) = d.A[i]
VecAssembledIsG == d.asm = d.G
VecDirectIsMean == d.cov => d.tarV = d.mu
VecCovered == \* vacuity of the thinning: every vector operator reaches the closed-form route with an identity-like geometry
    \A fv \in VecKinds : \E r \in VecConfigs : VecThin(r, fv) /\ r.fv = fv /\ GeoIdentityLike(r.geo) /\ GForm(r.i1).form = "cov" /\ PForm(r.j).form = "cov"
                                                  /\ PForm(r.j).kind # "gmrf"
VecEmitted == Emit => PrintT("@@CASE " \o ToJson([kind |-> "mapvec", fv |-> c.fv, B |-> d.B, V |-> d.V] @@ MapCase) \o " @@END")
=============================================================================
