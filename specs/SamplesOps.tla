----------------------------- MODULE SamplesOps -----------------------------
(***************************************************************************)
(* Sample sets of cuqi.samples (property C19): burn-in / thinning index    *)
(* arithmetic, representation flags, source immutability, per-coordinate   *)
(* statistics, and the variable <-> chain mapping handed to arviz.         *)
(*                                                                         *)
(* A sample set is an OBJECT  [cols, par, vec, geom]:                      *)
(*   cols : sequence of column ids (0-based positions in the stored chain  *)
(*          the object was created from),                                  *)
(*   par  : samples are parameters,     vec : samples are in vector form,  *)
(*   geom : geometry kind carried by the object.                           *)
(* One action per public call of the implementation:                       *)
(*   Burnthin(b, t)      Samples.burnthin  (shallow copy + slice [b::t])   *)
(*   Funvals / Vector / Parameters   the conversion properties             *)
(*   JointBurnthin(b, t) JointSamples.burnthin (every member, same b, t)   *)
(* Statistics and the arviz hand-over are functions of the object and are  *)
(* emitted (exact rationals) for every reachable object.                   *)
(*                                                                         *)
(* The value stored at coordinate i of column id is the integer PV(i, id); *)
(* it is injective in id, so a returned array identifies its columns.      *)
(*                                                                         *)
(* Dev names a deviation of the intended design (DESIGN 2.7); "none" in    *)
(* the deciding configurations.                                            *)
(*                                                                         *)
(* FRAME MACHINE (second INIT / NEXT pair FInit / FNext; frame_quick.cfg). *)
(* Every operation of a sample set is a function of its receiver and its   *)
(* arguments and alters neither.  State: a heap  fo  of sample-set objects *)
(* (the position in the sequence is the object's identity), the caller's   *)
(* ONE list of chains  fl  (a sequence of identities) that is passed to    *)
(* every R-hat call.  Library actions on a receiver r:                     *)
(*   FStat(r)  mean / median / variance / std / ci / ci_width              *)
(*   FEss(r)   compute_ess        FToArviz(r, sel)  to_arviz_inferencedata *)
(*   FRhat(r, mode)   compute_rhat(fl)  or  compute_rhat(fl[1]) (single)   *)
(*   FBurnthin(r, b, t)  FConv(r, kind)   results are NEW heap objects     *)
(* and two actions of the caller: FThinList(b, t), every element of the    *)
(* list is replaced by its burnthin (lst[k] = lst[k].burnthin(b, t)), and  *)
(* FSwapList, lst[0] = a chain that was not in the list.                   *)
(* Frame: a library action never alters an existing object nor the list;   *)
(* RhatFunctional: the chains entering R-hat are <<receiver>> \o list as   *)
(* the CALLER last set it (ghost fl0).  The state has no history, so the   *)
(* reachable graph contains every sequence of calls of any length.         *)
(*                                                                         *)
(* DATA LAYOUT (dimension  lay  of both configurations).  The stored chain *)
(* is an array; a LAYOUT fixes HOW the values are held - number type       *)
(* (float64 / int64 / int32 / float32), memory order (C / Fortran),        *)
(* contiguity (a view of every second column of a wider array), write      *)
(* protection - never WHICH values.  Every value of this specification is  *)
(* a small integer (function values of the geometry "half": an integer     *)
(* over Den = 2), exactly representable in every layout, so the expected   *)
(* columns, flags, refusals and EXACT rational statistics are functions of *)
(* the values alone: LayoutIndependent / FLayoutIndependent.  Deviations   *)
(* CastBack (a statistic is cast back to the number type of the stored     *)
(* chain: truncated for the integer layouts) and ConvKeepsType (converted  *)
(* samples are stored in the number type of the receiver) violate them.    *)
(***************************************************************************)
EXTENDS Mat, FiniteSets, Json

CONSTANTS Ns,        \* chain lengths of the source
          WideNs,    \* chain lengths used with the 12-variable geometry "wide" (arviz needs >= 4 draws)
          MaxB,      \* burn-in values 0..MaxB
          MaxT,      \* thinning values 1..MaxT
          Geoms,     \* geometry kinds of single sample sets
          JointNs,   \* chain lengths N of joint sample sets (members have N and N + 1 samples)
          PerMilles, \* credibility levels in TENTHS of a percent (integers 0..1000): 5 is the 0.5 % interval, 950 the 95 % one
          NChains,   \* number of additional chains handed to R-hat
          Dev,       \* "none" | "offbyone" | "boundary" | "dropflag" | "inplace" | "lexorder" | "jointnothin" | "fraction"
                     \*  frame machine: "rhatinsertsself" | "convinplace";  layouts: "castback" | "convkeepstype"
          Layouts,   \* data layouts of the SOURCE array, used (besides the reference layout) with the chain lengths LayNs
          LayNs,     \* chain lengths of the configurations in the layouts of Layouts (every geometry of Geoms; "wide" for
                     \*  LayNs \cap WideNs; joint sets for LayNs \cap JointNs)
          LayMaxB,   \* burn-in values 0..LayMaxB and thinning values 1..LayMaxT of those configurations
          LayMaxT,
          Emit,
          FrameNs,     \* frame machine: chain lengths
          FrameGeoms,  \* frame machine: geometry kinds
          FrameLists,  \* frame machine: which of the caller's lists FList(k)
          MaxDerived,  \* frame machine: number of results of library calls kept on the heap
          FrameLayouts,   \* frame machine: layouts (besides the reference layout) of the configurations
          FrameLayGeoms,  \*   [N \in FrameNs, g \in FrameLayGeoms, lst \in FrameLayLists]
          FrameLayLists

VARIABLES c,      \* configuration [N, g, joint, lay]
          obj,    \* the current sample set
          obj2,   \* second member of a joint sample set (NoObj otherwise)
          src,    \* what the SOURCE object holds now (ghost; the source is never the result of an action)
          sel     \* ghost: [off, stride] closed form of the composed selection
vars == <<c, obj, obj2, src, sel>>

\* frame machine (constant in the behaviours of Init / Next)
VARIABLES fc,     \* configuration [N, g, lst, lay]
          fo,     \* heap: sequence of objects [ch, cols, par, vec, geom]; ch = which stored chain the columns index
          fl,     \* the caller's list of chains (identities = positions in fo), as it is NOW
          fl0,    \* ghost: the list as the CALLER last set it
          fthin,  \* the caller has replaced the elements of the list by their burnthin
          fswap   \* the caller has replaced the first element of the list by a chain that was not in it
fvars == <<fc, fo, fl, fl0, fthin, fswap>>
allvars == <<c, obj, obj2, src, sel, fc, fo, fl, fl0, fthin, fswap>>

NoObj == [cols |-> <<>>, par |-> TRUE, vec |-> TRUE, geom |-> "none"]

\* ---- geometry table (concrete realisations are fixed in the replayer) -------
\*  c1d1  Continuous1D(1)        c1d3  Continuous1D(3)       wide  Continuous1D(12) (names v0..v11)
\*  imgC / imgF  Image2D((2,3)) in C / F order              c2d   Continuous2D((2,3)) (no vector form)
\*  mapsq MappedGeometry(Continuous1D(2), x -> x^2, sqrt)    step  StepExpansion(linspace(0,1,4), n_steps=2)
\*  half  MappedGeometry(Continuous1D(2), x -> x / 2, y -> 2 y)   (function values are NOT integers)
ParDim(g) == CASE g = "c1d1" -> 1 [] g = "c1d3" -> 3 [] g = "wide" -> 12
               [] g \in {"imgC", "imgF", "c2d"} -> 6 [] g \in {"mapsq", "half"} -> 2 [] g = "step" -> 2
FunShape(g) == CASE g = "c1d1" -> <<1>> [] g = "c1d3" -> <<3>> [] g = "wide" -> <<12>>
                 [] g \in {"imgC", "imgF", "c2d"} -> <<2, 3>> [] g \in {"mapsq", "half"} -> <<2>> [] g = "step" -> <<4>>
FunIs1D(g)  == Len(FunShape(g)) = 1
HasVec(g)   == g # "c2d"
FunvecDim(g) == IF FunIs1D(g) THEN FunShape(g)[1] ELSE ParDim(g)

\* ---- data layouts ------------------------------------------------------------
\*  f64      C-ordered float64, writable (the reference: what Samples(np.array(values)) holds)
\*  i64 i32  integer arrays        f32  single precision        fortran  F-ordered float64
\*  strided  a non-contiguous view: every second column of an array twice as wide (the other columns hold other numbers)
\*  readonly flags.writeable = False
\*  i32sr    int32 + strided + read-only        f32f  float32 + F-ordered
RefLayout  == "f64"
AllLayouts == {"f64", "i64", "i32", "f32", "fortran", "strided", "readonly", "i32sr", "f32f"}
IntLayouts == {"i64", "i32", "i32sr"}

\* ---- stored values ----------------------------------------------------------
PV(i, id) == 20 * i + (((3 + i) * id) % 17) + 1            \* parameter i (0-based) of column id; id < 17, i < 14

\* The value of an object at a position is the rational  Value / Den:  Den = 2 for the function values of "half", else 1.
Den(o) == IF ~o.par /\ o.geom = "half" THEN 2 ELSE 1

\* function value (numerator) at 1-D position k
FVal1(g, k, id) == CASE g = "mapsq" -> PV(k, id) * PV(k, id)
                     [] g = "step"  -> PV(k \div 2, id)        \* nodes 0,1 -> step 0; nodes 2,3 -> step 1
                     [] OTHER       -> PV(k, id)
\* function value at pixel (i, j) of the 2 x 3 geometries
FVal2(g, i, j, id) == IF g = "imgF" THEN PV(j * 2 + i, id) ELSE PV(i * 3 + j, id)

Value(o, pos, id) ==
    IF o.par THEN PV(pos[1], id)
    ELSE IF o.vec THEN (IF FunIs1D(o.geom) THEN FVal1(o.geom, pos[1], id) ELSE PV(pos[1], id))  \* image: fun2vec = fun2par
    ELSE FVal2(o.geom, pos[1], pos[2], id)

Coords(o) ==
    IF o.par THEN [i \in 1..ParDim(o.geom) |-> <<i - 1>>]
    ELSE IF o.vec THEN [k \in 1..FunvecDim(o.geom) |-> <<k - 1>>]
    ELSE LET r == FunShape(o.geom)[1]  cc == FunShape(o.geom)[2]
         IN [q \in 1..(r * cc) |-> <<(q - 1) \div cc, (q - 1) % cc>>]

\* what an object holds when its SOURCE array has layout lay.  Intended design: the values, whatever the layout.
\* Deviation ConvKeepsType: a conversion stores its result in the number type of the receiver's array - function values
\* that are not integers are truncated for the integer layouts.
ValueL(lay, o, pos, id) ==
    LET v == Value(o, pos, id)
    IN IF Dev = "convkeepstype" /\ lay \in IntLayouts /\ Den(o) > 1 THEN (v \div Den(o)) * Den(o) ELSE v
RowL(lay, o, pos) == F([k \in 1..Len(o.cols) |-> ValueL(lay, o, pos, o.cols[k])])
Row(o, pos) == RowL(RefLayout, o, pos)

\* ---- exact statistics of an integer sequence (distinct entries) -------------
RECURSIVE ISum(_)
ISum(s) == IF s = <<>> THEN 0 ELSE Head(s) + ISum(Tail(s))
Range(s) == {s[k] : k \in DOMAIN s}
Kth(S, k) == CHOOSE x \in S : Cardinality({y \in S : y < x}) = k - 1
SortSet(S) == F([k \in 1..Cardinality(S) |-> Kth(S, k)])
Mean(xs) == Q(ISum(xs), Len(xs))
\* population variance  (n sum x^2 - (sum x)^2) / n^2, integer numerator (keeps TLC's 32-bit integers safe)
Var(xs)  == LET n == Len(xs) sx == ISum(xs)
            IN Q(n * ISum([k \in DOMAIN xs |-> xs[k] * xs[k]]) - sx * sx, n * n)
\* percentile q (rational, 0..100), linear interpolation at position q (n-1)/100 of the sorted values
Pct(sorted, q) ==
    LET n    == Len(sorted)
        pos  == RDiv(RMul(q, R(n - 1)), R(100))
        lo   == pos[1] \div pos[2]
        frac == RSub(pos, R(lo))
    IN IF lo + 1 >= n THEN R(sorted[n])
       ELSE RAdd(R(sorted[lo + 1]), RMul(frac, R(sorted[lo + 2] - sorted[lo + 1])))
\* CREDIBILITY LEVEL.  The level p of compute_ci / ci_width / plot_ci_width / plot_ci is a number of PERCENT anywhere in
\* [0, 100] (0.5 is the half-percent interval, 1 the one-percent interval, 100 the whole range): the bounds are the
\* percentiles (100 - p) / 2 and 100 - (100 - p) / 2, the SAME rule for every level and for every number type the level is
\* handed over in.  Levels are exact rationals; the cfg gives them in tenths of a percent (a cfg cannot hold tuples).
\* Deviation Fraction: a level 0 < p <= 1 is read as a fraction of one (multiplied by 100).
Level(m)     == Q(m, 10)
LevelRead(p) == IF Dev = "fraction" /\ RLt(Zero, p) /\ RLe(p, R(1)) THEN RMul(p, R(100)) ELSE p
Percents     == {Level(m) : m \in PerMilles}
\* number types in which the level can be handed over with exactly its value: python float / numpy float64 always (tenths
\* of a percent: to 1 ulp), single precision when the level is a multiple of a half, the integer types when it is an integer
LevelForms(m) == {"float", "npfloat64"} \cup (IF m % 5 = 0 THEN {"npfloat32"} ELSE {})
                 \cup (IF m % 10 = 0 THEN {"int", "npint64", "npint32"} ELSE {})
PmSeq  == SortSet(PerMilles)
\* the same bounds in integer arithmetic over the common denominator CID (used to ORDER the intervals of different levels
\* without cross-multiplying rationals: TLC's integers are 32 bit): level m per mille, n values: the lower percentile sits
\* at position (1000 - m)(n - 1) / 2000 of the sorted values, the upper one at (1000 + m)(n - 1) / 2000
CID == 2000
PctNum(sorted, k) == LET n == Len(sorted)  lo == k \div CID  rem == k % CID
                     IN IF lo + 1 >= n THEN CID * sorted[n]
                        ELSE CID * sorted[lo + 1] + rem * (sorted[lo + 2] - sorted[lo + 1])
CINum(sorted, m) == [lo |-> PctNum(sorted, (1000 - m) * (Len(sorted) - 1)), hi |-> PctNum(sorted, (1000 + m) * (Len(sorted) - 1))]
\* a - b for rationals whose denominators divide D (no cross-multiplication)
RSubCD(a, b, D) == Q(a[1] * (D \div a[2]) - b[1] * (D \div b[2]), D)
\* the bounds by the percentile rule; the positions of both percentiles are multiples of 1 / CID, so are the bounds
CI(sorted, p) == LET lbq == RDiv(RSub(R(100), LevelRead(p)), R(2))
                     lo  == Pct(sorted, lbq)
                     hi  == Pct(sorted, RSub(R(100), lbq))
                 IN [pct |-> p, lo |-> lo, hi |-> hi, width |-> RSubCD(hi, lo, CID)]

\* additional chains for R-hat: chain j (1..NChains) holds at coordinate pos, column id
ChainVal(j, v, id) == v + j * (1 + ((id * id + j) % 5))

\* the value a statistic (exact rational q >= 0) is returned as.  Intended design: q, whatever the layout.
\* Deviation CastBack: cast back to the number type of the stored chain - truncated for the integer layouts.
Out(lay, q) == IF Dev = "castback" /\ lay \in IntLayouts THEN R(q[1] \div q[2]) ELSE q

\* vals / chains are numerators over den; the statistics are those of the values vals / den
StatsL(lay, o, pos) ==
    LET xs == RowL(lay, o, pos)
        s  == SortSet(Range(xs))
        d  == Den(o)
        U(q) == Out(lay, RDiv(q, R(d)))
    IN [pos |-> pos, vals |-> xs, den |-> d, mean |-> U(Mean(xs)), var |-> Out(lay, RDiv(Var(xs), R(d * d))), med |-> U(Pct(s, R(50))),
        ci |-> F([q \in 1..Len(PmSeq) |-> LET I == CI(s, Level(PmSeq[q]))
                                           IN [pm |-> PmSeq[q], pct |-> I.pct, forms |-> LevelForms(PmSeq[q]),
                                               lo |-> U(I.lo), hi |-> U(I.hi), width |-> U(I.width)]]),
        chains |-> F([j \in 1..NChains |-> [k \in 1..Len(o.cols) |-> ChainVal(j, xs[k], o.cols[k])]])]

AllStatsL(lay, o) == LET C == Coords(o) IN F([q \in 1..Len(C) |-> StatsL(lay, o, C[q])])
\* the statistics of an object of the running configuration (one of the two machines is off: its configuration is NoC / NoFC)
CurLay == IF fc.g = "none" THEN c.lay ELSE fc.lay
AllStats(o) == AllStatsL(CurLay, o)

\* ---- arviz hand-over ----------------------------------------------------------
Dim(o) == Len(Coords(o))
\* variable names are "v" followed by the digits below ("v" alone when there is one variable)
NameDigits(i, d) == IF d = 1 THEN <<>> ELSE IF i < 10 THEN <<i>> ELSE <<i \div 10, i % 10>>
MinI(a, b) == IF a < b THEN a ELSE b
LexLt(a, b) == \E k \in 1..(MinI(Len(a), Len(b)) + 1) :
                  /\ \A m \in 1..(k - 1) : a[m] = b[m]
                  /\ \/ (k > Len(a) /\ k <= Len(b))
                     \/ (k <= Len(a) /\ k <= Len(b) /\ a[k] < b[k])
\* names are defined by the geometry for the parameter dimension only
ArvizDefined(o) == o.vec /\ Dim(o) = ParDim(o.geom) /\ o.geom # "none"
\* variable i (0-based) is handed over under name i with row i of the sample array ...
HandOver(o) == [i \in 1..Dim(o) |-> [name |-> NameDigits(i - 1, Dim(o)), row |-> i - 1]]
\* ... and position k of the returned array is the result for the variable Returned[k]
Returned(o) ==
    LET d == Dim(o)
    IN IF Dev = "lexorder"
       THEN [k \in 1..d |-> CHOOSE i \in 0..(d - 1) :
                 Cardinality({m \in 0..(d - 1) : LexLt(NameDigits(m, d), NameDigits(i, d))}) = k - 1]
       ELSE [k \in 1..d |-> k - 1]
ArvizRec(o) == IF ArvizDefined(o)
               THEN [defined |-> TRUE, handover |-> HandOver(o), returned |-> Returned(o)]
               ELSE [defined |-> FALSE, handover |-> <<>>, returned |-> <<>>]

\* ---- the actions ----------------------------------------------------------------
\* numpy slice s[b::t], element by element as the iteration does it
RECURSIVE Slice(_, _, _)
Slice(s, b, t) == IF b >= Len(s) THEN <<>> ELSE <<s[b + 1]>> \o Slice(s, b + t, t)

\* documented call forms: burnthin(Nb, Nt=1) - positional, by keyword, Nt omitted (then Nt = DefaultNt);
\* compute_ci(percent=95) / ci_width(percent=95) - percent positional, by keyword, omitted (then DefaultPercent).
\* Every form of a call is the same transition / the same value.
DefaultNt      == 1
DefaultPercent == 95
CallForms(name, t) == IF name \in {"burnthin", "jointburnthin"}
                      THEN {"pos", "kw"} \cup (IF t = DefaultNt THEN {"default"} ELSE {}) ELSE {}
EmitEdge(name, b, t, err, post, post2) ==
    Emit => PrintT("@@CASE " \o ToJson([kind |-> "edge", c |-> c, pre |-> obj, pre2 |-> obj2,
                       op |-> [name |-> name, b |-> b, t |-> t, forms |-> CallForms(name, t)],
                       err |-> err, post |-> post, post2 |-> post2]) \o " @@END")

Refuses(o, b) == IF Dev = "boundary" THEN b > Len(o.cols) ELSE b >= Len(o.cols)

\* the object burnthin returns: a shallow copy of o whose samples are the slice
Thinned(o, b, t) ==
    LET start == IF Dev = "offbyone" THEN b + 1 ELSE b
        cs    == Slice(o.cols, start, t)
    IN IF Dev = "dropflag"
       THEN [cols |-> cs, par |-> TRUE, vec |-> TRUE, geom |-> o.geom]     \* a fresh Samples(array, geometry)
       ELSE [o EXCEPT !.cols = cs]

\* ghost selection after a further burnthin(b, t); stride N stands for "one element"
SelAfter(s, n, b, t) == [off |-> s.off + b * s.stride, stride |-> MinI(s.stride * t, n)]

BurnthinCore(b, t) ==
    /\ ~c.joint
    /\ IF Refuses(obj, b)
       THEN UNCHANGED vars
       ELSE /\ obj' = Thinned(obj, b, t)
            /\ sel' = SelAfter(sel, c.N, b, t)
            /\ src' = IF Dev = "inplace" THEN obj' ELSE src
            /\ UNCHANGED <<c, obj2>>
Burnthin(b, t) == BurnthinCore(b, t) /\ EmitEdge("burnthin", b, t, Refuses(obj, b), obj', obj2')

\* the conversion properties (flag automaton of C13 on the fixed geometries of this spec), shared by both machines:
\* ConvSame - the object itself is the result;  ConvRes - the result;  ConvDefined - the library implements the conversion
ConvSame(o, kind) == CASE kind = "funvals"    -> ~o.par /\ ~o.vec
                       [] kind = "vector"     -> o.vec \/ o.par
                       [] kind = "parameters" -> o.par
ConvRes(o, kind) == IF ConvSame(o, kind) THEN o
                    ELSE CASE kind = "funvals"    -> [o EXCEPT !.par = FALSE, !.vec = FunIs1D(o.geom)]
                           [] kind = "vector"     -> [o EXCEPT !.vec = TRUE]
                           [] kind = "parameters" -> [o EXCEPT !.par = TRUE, !.vec = TRUE]
ConvDefined(o, kind) == kind = "vector" => (o.vec \/ o.par \/ HasVec(o.geom))

FunvalsCore ==
    /\ ~c.joint
    /\ obj' = ConvRes(obj, "funvals")
    /\ UNCHANGED <<c, obj2, src, sel>>
Funvals == FunvalsCore /\ EmitEdge("funvals", 0, 1, FALSE, obj', obj2')

VectorCore ==
    /\ ~c.joint
    /\ ConvDefined(obj, "vector")
    /\ obj' = ConvRes(obj, "vector")
    /\ UNCHANGED <<c, obj2, src, sel>>
Vector == VectorCore /\ EmitEdge("vector", 0, 1, FALSE, obj', obj2')

ParametersCore ==
    /\ ~c.joint
    /\ obj' = ConvRes(obj, "parameters")
    /\ UNCHANGED <<c, obj2, src, sel>>
Parameters == ParametersCore /\ EmitEdge("parameters", 0, 1, FALSE, obj', obj2')

JointBurnthinCore(b, t) ==
    /\ c.joint
    /\ IF Refuses(obj, b) \/ Refuses(obj2, b)
       THEN UNCHANGED vars
       ELSE /\ obj'  = Thinned(obj, b, t)
            /\ obj2' = Thinned(obj2, b, IF Dev = "jointnothin" THEN 1 ELSE t)
            /\ sel'  = SelAfter(sel, c.N + 1, b, t)
            /\ UNCHANGED <<c, src>>
JointBurnthin(b, t) == JointBurnthinCore(b, t)
                       /\ EmitEdge("jointburnthin", b, t, Refuses(obj, b) \/ Refuses(obj2, b), obj', obj2')

\* burn-in / thinning box of the running configuration (state functions: c is constant along a behaviour)
Bs == 0..(IF c.lay = RefLayout THEN MaxB ELSE LayMaxB)
Ts == 1..(IF c.lay = RefLayout THEN MaxT ELSE LayMaxT)

Source(k) == [cols |-> [i \in 1..k.N |-> i - 1], par |-> TRUE, vec |-> TRUE, geom |-> k.g]
\* second member of a joint set: one sample more, function values of an F-order image
Source2(k) == IF k.joint THEN [cols |-> [i \in 1..(k.N + 1) |-> i - 1], par |-> FALSE, vec |-> FALSE, geom |-> "imgF"]
              ELSE NoObj

ConfigsOf(ns, wns, jns, lays) ==
    {[N |-> n, g |-> g, joint |-> FALSE, lay |-> l] : n \in ns, g \in Geoms \ {"wide"}, l \in lays}
    \cup {[N |-> n, g |-> "wide", joint |-> FALSE, lay |-> l] : n \in (IF "wide" \in Geoms THEN wns ELSE {}), l \in lays}
    \cup {[N |-> n, g |-> "c1d3", joint |-> TRUE, lay |-> l] : n \in jns, l \in lays}
\* every configuration in the reference layout; those with N \in LayNs also in every other layout of Layouts
Configs == ConfigsOf(Ns, WideNs, JointNs, {RefLayout})
           \cup ConfigsOf(LayNs, LayNs \cap WideNs, LayNs \cap JointNs, Layouts \ {RefLayout})

NoFC == [N |-> 0, g |-> "none", lst |-> 0, lay |-> RefLayout]
FrameOff == fc = NoFC /\ fo = <<>> /\ fl = <<>> /\ fl0 = <<>> /\ fthin = FALSE /\ fswap = FALSE

Init == /\ c \in Configs
        /\ obj = Source(c) /\ obj2 = Source2(c) /\ src = Source(c)
        /\ sel = [off |-> 0, stride |-> 1]
        /\ FrameOff

Next == /\ \/ \E b \in Bs, t \in Ts : Burnthin(b, t)
           \/ Funvals \/ Vector \/ Parameters
           \/ \E b \in Bs, t \in Ts : JointBurnthin(b, t)
        /\ UNCHANGED fvars

Spec == Init /\ [][Next]_allvars

\* ---- properties ----------------------------------------------------------------------
\* exactly the stored samples off, off + stride, ... (all of them below n), in order
ClosedForm(cols, n) ==
    /\ \A k \in 1..Len(cols) : cols[k] = sel.off + (k - 1) * sel.stride
    /\ Len(cols) = Cardinality({k \in 0..(n - 1) : sel.off + k * sel.stride <= n - 1})
Indices == ClosedForm(obj.cols, c.N) /\ (c.joint => ClosedForm(obj2.cols, c.N + 1))

NonEmpty == obj.cols # <<>> /\ (c.joint => obj2.cols # <<>>)

FlagsLegal == (obj.par => obj.vec) /\ obj.geom = c.g
              /\ (FunIs1D(obj.geom) => obj.vec) /\ (~HasVec(obj.geom) /\ ~obj.par => ~obj.vec)

SourceUntouched == src = Source(c)

\* action properties (TLC checks them on every transition)
FlagsPreserved ==
    [][ (\E b \in Bs, t \in Ts : BurnthinCore(b, t) \/ JointBurnthinCore(b, t))
          => /\ obj'.par = obj.par /\ obj'.vec = obj.vec /\ obj'.geom = obj.geom
             /\ obj2'.par = obj2.par /\ obj2'.vec = obj2.vec /\ obj2'.geom = obj2.geom ]_vars
ConversionsKeepColumns ==
    [][ (FunvalsCore \/ VectorCore \/ ParametersCore) => obj'.cols = obj.cols /\ obj'.geom = obj.geom ]_vars
\* one burnthin step, closed form relative to the object it was called on
StepIndices ==
    [][ \A b \in Bs, t \in Ts : (BurnthinCore(b, t) /\ ~Refuses(obj, b)) =>
          /\ Len(obj'.cols) = ((Len(obj.cols) - b) + (t - 1)) \div t
          /\ \A k \in 1..Len(obj'.cols) : obj'.cols[k] = obj.cols[b + (k - 1) * t + 1] ]_vars

\* statistics: lower bound <= median <= upper bound, width their difference and >= 0, variance >= 0
LoMedHiAt(st) ==
    /\ RLe(Zero, st.var)
    /\ \A q \in 1..Len(st.ci) : /\ RLe(st.ci[q].lo, st.med) /\ RLe(st.med, st.ci[q].hi)
                                /\ st.ci[q].width = RSubCD(st.ci[q].hi, st.ci[q].lo, CID * st.den) /\ RLe(Zero, st.ci[q].width)
\* THE LEVEL LAW (every level of the cfg, whatever its size): the interval of level 0 is the median, the interval of level
\* 100 is the range of the stored values, a larger level never gives a narrower interval - both bounds move strictly
\* outwards as soon as the chain holds two values (the entries of a coordinate are distinct) - and the bounds are the
\* percentiles at the positions (1000 -+ m)(n - 1) / 2000 for the level of m tenths of a percent.  Bounds are compared as
\* integers over the common denominator CID * den.
Scaled(q, d) == q[1] * ((CID * d) \div q[2])
LevelLawAt(st) ==
    LET s == SortSet(Range(st.vals))
        n == Len(s)
        d == st.den
    IN /\ \A q \in 1..Len(st.ci) : (CID * d) % st.ci[q].lo[2] = 0 /\ (CID * d) % st.ci[q].hi[2] = 0
       /\ \A q \in 1..(Len(st.ci) - 1) :
             LET A == st.ci[q]  B == st.ci[q + 1]
             IN /\ A.pm < B.pm
                /\ IF n >= 2 THEN Scaled(B.lo, d) < Scaled(A.lo, d) /\ Scaled(A.hi, d) < Scaled(B.hi, d)
                              ELSE B.lo = A.lo /\ B.hi = A.hi
       /\ \A q \in 1..Len(st.ci) :
             LET I == st.ci[q]  K == CINum(s, I.pm)
             IN /\ I.pct = Level(I.pm) /\ RLe(Zero, I.pct) /\ RLe(I.pct, R(100))
                /\ Scaled(I.lo, d) = K.lo /\ Scaled(I.hi, d) = K.hi
                /\ (I.pm = 0    => I.lo = st.med /\ I.hi = st.med /\ I.width = Zero)
                /\ (I.pm = 1000 => I.lo = Q(s[1], d) /\ I.hi = Q(s[n], d))
                /\ I.forms \subseteq {"int", "float", "npint64", "npint32", "npfloat64", "npfloat32"} /\ "float" \in I.forms
                /\ ("int" \in I.forms <=> I.pct[2] = 1)

\* statistics of function values are statistics of the converted samples, not converted statistics:
\* for the squaring map  mean(f) = mean(p^2)  (and # mean(p)^2 as soon as two samples differ);
\* for the step expansion node k carries the statistics of step k div 2
FunStatsAt(o, st) ==
    (~o.par /\ o.vec) =>
        LET k  == st.pos[1]
            po == [o EXCEPT !.par = TRUE]
            p  == Row(po, <<k>>)
        IN /\ (o.geom = "mapsq" => /\ st.mean = Q(ISum([m \in DOMAIN p |-> p[m] * p[m]]), Len(p))
                                    /\ (Len(p) > 1 => st.mean # RSq(Mean(p))))
           /\ (o.geom = "step"  => st.mean = Mean(Row(po, <<k \div 2>>)) /\ st.var = Var(Row(po, <<k \div 2>>)))

Unpermuted(o) == ArvizDefined(o) => \A k \in 1..Dim(o) : Returned(o)[k] = HandOver(o)[k].row

UnpermutedInv == Unpermuted(obj)

\* views of the stored array: one sample has the shape of its form, the array that shape followed by the number of
\* samples (Samples.shape, Samples.Ns = the last axis); iterating the object yields the stored samples in order.
SampleShape(o) == IF o.par THEN <<ParDim(o.geom)>> ELSE IF o.vec THEN <<FunvecDim(o.geom)>> ELSE FunShape(o.geom)
\* the statistic plots (plot_mean / median / variance / std / ci_width) hand to geometry.plot the statistic of the samples,
\* converted to function values when these are function values in vector form, together with is_par of the object.
\* For the images this is the statistic of the converted samples: pixel (i, j) carries the statistic of its vector entry.
PlotObj(o) == IF ~o.par /\ o.vec /\ ~FunIs1D(o.geom) THEN ConvRes(o, "funvals") ELSE o
VecIdx(g, pos) == IF g = "imgF" THEN pos[2] * 2 + pos[1] ELSE pos[1] * 3 + pos[2]
PlotStatsOK(o) == PlotObj(o) # o =>
    \A q \in 1..Len(Coords(PlotObj(o))) : LET pos == Coords(PlotObj(o))[q]
                                           IN Row(PlotObj(o), pos) = Row(o, <<VecIdx(o.geom, pos)>>)

\* DATA LAYOUT: the expected columns (vals) and the exact statistics of every reachable object - hence everything the
\* replay compares - are the same in every layout of the source array
LayoutIndependent ==
    (obj.cols # <<>> /\ c.lay # RefLayout) =>
        /\ c.lay \in AllLayouts
        /\ AllStatsL(c.lay, obj) = AllStatsL(RefLayout, obj)
        /\ (c.joint /\ obj2.cols # <<>> => AllStatsL(c.lay, obj2) = AllStatsL(RefLayout, obj2))
        /\ (PlotObj(obj) # obj => AllStatsL(c.lay, PlotObj(obj)) = AllStatsL(RefLayout, PlotObj(obj)))

\* the level law as an invariant of its own (deviation Fraction must violate it; Node contains it in every deciding cfg)
LevelLaw == obj.cols # <<>> => \A q \in 1..Len(Coords(obj)) : LevelLawAt(StatsL(c.lay, obj, Coords(obj)[q]))

\* evaluated once per distinct state: LoMedHi and FunStats on the exact statistics of the current object;
\* also emits these statistics (and those of the second joint member) for the conformance replay
Node ==
    obj.cols # <<>> =>
    LET S == AllStats(obj)
    IN /\ \A q \in 1..Len(S) : LoMedHiAt(S[q]) /\ FunStatsAt(obj, S[q]) /\ LevelLawAt(S[q])
       /\ PlotStatsOK(obj)
       /\ (Emit => PrintT("@@CASE " \o ToJson([kind |-> "node", c |-> c, obj |-> obj, obj2 |-> obj2, stats |-> S,
                                               ns |-> Len(obj.cols), shape |-> SampleShape(obj) \o <<Len(obj.cols)>>,
                                               default_pm |-> IF R(DefaultPercent) \in Percents THEN DefaultPercent * 10 ELSE -1,
                                               plot |-> [is_par |-> obj.par,
                                                         stats |-> IF PlotObj(obj) = obj THEN <<>> ELSE AllStats(PlotObj(obj))],
                                               stats2 |-> IF c.joint /\ obj2.cols # <<>> THEN AllStats(obj2) ELSE <<>>,
                                               arviz |-> ArvizRec(obj)]) \o " @@END"))

\* ==================================================================================================
\* FRAME MACHINE: operations are functions of <<receiver, arguments>> and alter neither
\* ==================================================================================================
NBase == 4                               \* stored chains 0..3: object k holds chain k - 1; chain 0 is "self"
\* the caller's lists (cfg files cannot hold sequences)
FList(k) == CASE k = 1 -> <<2>>       [] k = 2 -> <<2, 3>>    [] k = 3 -> <<3, 2, 4>>
              [] k = 4 -> <<2, 3, 4>> [] k = 5 -> <<4, 2>>    [] OTHER -> <<3>>
\* burn-in / thinning pairs used on receivers (the last one is refused) and by the caller on the list
FBT(n)  == {<<0, 2>>, <<2, 1>>, <<n, 1>>}
FBTList == {<<0, 2>>, <<2, 1>>}
\* index argument of to_arviz_inferencedata (0-based variable indices, not sorted)
FIdx == <<2, 0>>

\* values stored by an object of the frame machine: chain 0 holds the values of the main machine, chain j > 0 is
\* shifted column by column (only chain 0 objects are ever converted, so the shift commutes with nothing it should not)
FRow(o, pos) == LET xs == Row(o, pos)
                IN IF o.ch = 0 THEN xs ELSE F([k \in 1..Len(xs) |-> ChainVal(o.ch, xs[k], o.cols[k])])
FRows(o) == LET C == Coords(o) IN F([q \in 1..Len(C) |-> [pos |-> C[q], vals |-> FRow(o, C[q]), den |-> Den(o)]])

Recvs == {i \in DOMAIN fo : fo[i].ch = 0}                      \* receivers: "self" and everything derived from it
Room  == Cardinality(Recvs) - 1 < MaxDerived
Store(o) == IF Room THEN Append(fo, o) ELSE fo                 \* beyond the bound the result is compared and dropped
LastRecv == CHOOSE i \in Recvs : \A j \in Recvs : j <= i

EssDefined(o) == ArvizDefined(o) /\ Len(o.cols) >= 4           \* arviz needs four draws
SameRep(a, b) == a.par = b.par /\ a.vec = b.vec /\ a.geom = b.geom /\ Len(a.cols) = Len(b.cols)
\* the argument of compute_rhat: the caller's list, or its first element passed as a single Samples object
RhatArg(mode, l) == IF mode = "single" THEN <<l[1]>> ELSE l
RhatDefined(r, l) == EssDefined(fo[r]) /\ \A k \in DOMAIN l : SameRep(fo[r], fo[l[k]])
\* deviation RhatInsertsSelf: the implementation builds "all chains" by inserting the receiver into the caller's list
ListAfterRhat(r, mode) == IF Dev = "rhatinsertsself" /\ mode = "list" THEN <<r>> \o fl ELSE fl
\* the chains that enter the computation, in order
RhatChains(r, mode) == IF Dev = "rhatinsertsself" /\ mode = "list" THEN ListAfterRhat(r, mode)
                       ELSE <<r>> \o RhatArg(mode, fl)

FEmit(name, r, b, t, arg, res, app, l2) ==
    Emit => PrintT("@@CASE " \o ToJson([kind |-> "fedge", c |-> fc, pre |-> [fo |-> fo, fl |-> fl],
                       op |-> [name |-> name, r |-> r, b |-> b, t |-> t, arg |-> arg], res |-> res,
                       post |-> [app |-> app, fl |-> l2]]) \o " @@END")

FPure(name, r, arg, res) == /\ r \in Recvs
                            /\ UNCHANGED fvars
                            /\ FEmit(name, r, 0, 1, arg, res, <<>>, fl)

FStat(r) == FPure("stat", r, "", [defined |-> TRUE, obj |-> fo[r]])
FEss(r)  == FPure("ess", r, "", [defined |-> EssDefined(fo[r]), obj |-> fo[r]])
\* name -> row mapping returned by to_arviz_inferencedata(None) / (FIdx)
FItems(o, which) == LET H == HandOver(o)
                     IN IF which = "all" THEN H ELSE [k \in 1..Len(FIdx) |-> H[FIdx[k] + 1]]
FToArviz(r, which) == FPure("toarviz", r, which,
                          [defined |-> ArvizDefined(fo[r]) /\ Dim(fo[r]) >= 3, obj |-> fo[r],
                           items |-> IF ArvizDefined(fo[r]) /\ Dim(fo[r]) >= 3 THEN FItems(fo[r], which) ELSE <<>>])

FRhat(r, mode) ==
    /\ r \in Recvs
    /\ fl' = ListAfterRhat(r, mode)
    /\ UNCHANGED <<fc, fo, fl0, fthin, fswap>>
    /\ FEmit("rhat", r, 0, 1, mode, [defined |-> RhatDefined(r, RhatArg(mode, fl)), chains |-> RhatChains(r, mode)], <<>>, fl')

FBurnthin(r, b, t) ==
    /\ r \in Recvs
    /\ LET err == Refuses(fo[r], b)
           new == IF err THEN fo[r] ELSE Thinned(fo[r], b, t)
       IN /\ fo' = IF err THEN fo ELSE Store(new)
          /\ UNCHANGED <<fc, fl, fl0, fthin, fswap>>
          /\ FEmit("burnthin", r, b, t, "", [err |-> err, new |-> new, rows |-> FRows(new)],
                   IF err \/ ~Room THEN <<>> ELSE <<new>>, fl)

FConv(r, kind) ==
    /\ r \in Recvs
    /\ ConvDefined(fo[r], kind)
    /\ LET o    == fo[r]
           same == ConvSame(o, kind)
           new  == ConvRes(o, kind)
       IN /\ fo' = IF Dev = "convinplace" THEN [fo EXCEPT ![r] = new]       \* deviation: converts the receiver itself
                   ELSE IF same THEN fo ELSE Store(new)
          /\ UNCHANGED <<fc, fl, fl0, fthin, fswap>>
          /\ FEmit("conv", r, 0, 1, kind, [same |-> same, new |-> new, rows |-> FRows(new)],
                   IF same \/ ~Room \/ Dev = "convinplace" THEN <<>> ELSE <<new>>, fl)

\* the CALLER replaces every element of its list:  for k: lst[k] = lst[k].burnthin(b, t)   (at most once)
FThinList(b, t) ==
    /\ ~fthin
    /\ \A k \in DOMAIN fl : ~Refuses(fo[fl[k]], b)
    /\ LET news == F([k \in 1..Len(fl) |-> Thinned(fo[fl[k]], b, t)])
       IN /\ fo' = fo \o news
          /\ fl' = [k \in 1..Len(fl) |-> Len(fo) + k]
          /\ fl0' = fl'
          /\ fthin' = TRUE
          /\ UNCHANGED <<fc, fswap>>
          /\ FEmit("thinlist", 0, b, t, "", [new |-> news, rows |-> F([k \in 1..Len(news) |-> FRows(news[k])])], news, fl')

\* the CALLER replaces the first element of its list by a chain that is not in it:  lst[0] = other   (at most once,
\* before thinning): same length, same shapes, other contents
Spare == {i \in 2..NBase : \A k \in DOMAIN fl : fl[k] # i}
FSwapList ==
    /\ ~fthin /\ ~fswap /\ Spare # {}
    /\ LET sp == CHOOSE i \in Spare : \A j \in Spare : i <= j
       IN /\ fl' = [fl EXCEPT ![1] = sp]
          /\ fl0' = fl'
          /\ fswap' = TRUE
          /\ UNCHANGED <<fc, fo, fthin>>
          /\ FEmit("swaplist", 0, 0, 1, "", [spare |-> sp], <<>>, fl')

FConfigs == {[N |-> n, g |-> g, lst |-> k, lay |-> RefLayout] : n \in FrameNs, g \in FrameGeoms, k \in FrameLists}
            \cup {[N |-> n, g |-> g, lst |-> k, lay |-> l] : n \in FrameNs, g \in FrameLayGeoms, k \in FrameLayLists,
                                                           l \in FrameLayouts \ {RefLayout}}
FBase(k) == [i \in 1..NBase |-> [ch |-> i - 1, cols |-> [m \in 1..k.N |-> m - 1], par |-> TRUE, vec |-> TRUE, geom |-> k.g]]
NoC == [N |-> 0, g |-> "none", joint |-> FALSE, lay |-> RefLayout]

FInit == /\ fc \in FConfigs
         /\ fo = FBase(fc) /\ fl = FList(fc.lst) /\ fl0 = FList(fc.lst) /\ fthin = FALSE /\ fswap = FALSE
         /\ c = NoC /\ obj = NoObj /\ obj2 = NoObj /\ src = NoObj /\ sel = [off |-> 0, stride |-> 1]

FNext == /\ \/ \E r \in DOMAIN fo : \/ FStat(r) \/ FEss(r)
                                    \/ \E s \in {"all", "idx"} : FToArviz(r, s)
                                    \/ \E m \in {"list", "single"} : FRhat(r, m)
                                    \/ \E bt \in FBT(fc.N) : FBurnthin(r, bt[1], bt[2])
                                    \/ \E k \in {"funvals", "vector", "parameters"} : FConv(r, k)
            \/ \E bt \in FBTList : FThinList(bt[1], bt[2])
            \/ FSwapList
         /\ UNCHANGED vars

\* bound for the deviation runs (the list grows with every call)
FBound == Len(fl) <= 6

\* ---- frame properties --------------------------------------------------------------------------
\* no step alters an object that exists (receiver, list elements, any other); only the caller's own step alters the list
FrameStep == /\ Len(fo') >= Len(fo)
             /\ \A i \in DOMAIN fo : fo'[i] = fo[i]
             /\ (fl' # fl \/ fl0' # fl0) => ((~fthin /\ fthin') \/ (~fswap /\ fswap'))
Frame == [][FrameStep]_fvars
\* whatever was called before: the chains entering R-hat are the receiver followed by the caller's list (its first
\* element for a single Samples argument), in the caller's order
RhatFunctional == \A r \in Recvs : \A m \in {"list", "single"} : RhatChains(r, m) = <<r>> \o RhatArg(m, fl0)
\* burnthin / conversions on the heap obey the same laws as in the main machine
FHeapLegal == \A i \in DOMAIN fo : /\ fo[i].cols # <<>> /\ (fo[i].par => fo[i].vec) /\ fo[i].geom = fc.g
                                   /\ (fo[i].ch # 0 => fo[i].par)
              /\ \A k \in DOMAIN fl : fl[k] \in DOMAIN fo /\ fo[fl[k]].ch # 0

FLayoutIndependent ==
    (fo # <<>> /\ fc.lay # RefLayout) =>
        /\ fc.lay \in AllLayouts
        /\ \A r \in Recvs : AllStatsL(fc.lay, fo[r]) = AllStatsL(RefLayout, fo[r])

\* the level law in the frame machine (deviation cfgs): the statistics of every receiver of the heap
FLevelLaw == \A r \in Recvs : \A q \in 1..Len(Coords(fo[r])) : LevelLawAt(StatsL(fc.lay, fo[r], Coords(fo[r])[q]))

\* evaluated once per distinct state: emits the exact rows of every object and the exact statistics of the newest receiver
\* (on which the level law is checked)
FNode ==
    fo # <<>> =>
    LET S == AllStats(fo[LastRecv])
    IN /\ \A q \in 1..Len(S) : LevelLawAt(S[q])
       /\ (Emit => PrintT("@@CASE " \o ToJson([kind |-> "fnode", c |-> fc, fo |-> fo, fl |-> fl, init |-> (~fthin /\ ~fswap /\ Len(fo) = NBase),
                                               rows |-> F([i \in 1..Len(fo) |-> FRows(fo[i])]),
                                               statsof |-> LastRecv, stats |-> S]) \o " @@END"))
=============================================================================
