---------------------------- MODULE FamiliesPoint ----------------------------
(***************************************************************************)
(* Property C03, part `Containers` (round 8): the gradient is a function   *)
(* of the VALUE of the evaluation point, not of the object that carries it.*)
(*                                                                         *)
(* "Whenever a distribution ... returns a gradient at a point, that vector *)
(* equals the derivative of the same object's log-density ... Outside the  *)
(* support the gradient is reported as non-finite (NaN) rather than as a   *)
(* finite vector."  The evaluation point reaches the object in a CONTAINER *)
(* (CtTable): a float64 array (the reference of all other parts), a        *)
(* float32 / int64 / int32 array, a list of floats / of python ints, a     *)
(* CUQIarray of floats / of integers, a non-contiguous view and - in       *)
(* dimension one - a python float / int or a numpy float / integer scalar. *)
(* A container is ADMISSIBLE for a point when it holds the point exactly    *)
(* (integer types: integer-valued points; single precision: dyadic points; *)
(* scalars: dimension one).  For every admissible container the            *)
(* expectation of a case is that of the reference container:               *)
(*   ContainerIndependent   NaN-flag = complement of the support, value =  *)
(*                          the hand-derived gradient of module Families,  *)
(*                          for EVERY admissible container kind.           *)
(* Named deviation DevKeepsNumberType (FamiliesPoint.keepstype.deviation): *)
(* the out-of-support answer is built in the number type of the point - an *)
(* integer type cannot hold NaN, the answer is a finite vector - TLC must   *)
(* refute ContainerIndependent.                                            *)
(*                                                                         *)
(* The main lattice of module Families has few integer-valued points       *)
(* outside a support (none for Beta, for Uniform only in dimension one) and *)
(* no boundary points.  This part adds PROBE configurations for the        *)
(* bounded families (Gamma, InverseGamma, Beta, Uniform, Lognormal,        *)
(* ModifiedHalfNormal) in every dimension 1..MaxDim: integer-valued and     *)
(* half-integer points inside the support, points with ONE coordinate      *)
(* below / above it, points with all coordinates outside, points with one  *)
(* coordinate exactly ON the boundary and all-boundary points.  The        *)
(* boundary of a support is a set of measure zero: whether it belongs to   *)
(* the support (Gamma with shape 1 has a finite density at 0, the Uniform  *)
(* box is closed in the implementation) is a convention that is NOT        *)
(* asserted (`asserted` = FALSE).  What IS stated there is the third       *)
(* conjunct of ContainerIndependent alone: whatever the object answers for *)
(* the reference container - a finite vector or a non-finite one - it      *)
(* answers for every admissible container.                                 *)
(*   ProbeNaNOutside   the probe case's NaN flag / -inf flag = complement  *)
(*                     of the (strict) support; tags are what they say     *)
(*   ProbeCover        per bounded family and dimension: an integer-valued *)
(*                     point outside (below, and above where the support   *)
(*                     is bounded above), a boundary point, an inside      *)
(*                     point that is integer-valued where the support      *)
(*                     contains one, a dyadic non-integer inside point     *)
(*   LatticeIntegers   the unbounded families of the main lattice          *)
(*                     (Gaussian, Cauchy, the MRFs, likelihoods ...) have  *)
(*                     integer-valued points in every dimension, so that   *)
(*                     the integer containers are exercised there          *)
(*   CtTableLegal      the container table is well formed                  *)
(* The replay (harness/cuqiverif/c03_point.py) evaluates every probe case  *)
(* in every admissible container, analytic and with enable_FD(), and adds  *)
(* one rotating admissible container to EVERY gradient call of the main    *)
(* lattice (families, Gaussian input forms, MRFs, likelihoods, posteriors, *)
(* multiple-likelihood posteriors).                                        *)
(***************************************************************************)
EXTENDS Families

CONSTANTS DevKeepsNumberType     \* named deviation; FALSE in the deciding configurations

\* ---------------------------------------------------------------------------
\* containers
\* ---------------------------------------------------------------------------
\* name; scalar: only a one-dimensional point; integral: holds integers only; single: single precision
Ct(name, scalar, integral, single) == [name |-> name, scalar |-> scalar, integral |-> integral, single |-> single]
CtTable == << Ct("f64", FALSE, FALSE, FALSE),        \* np.array(x) - the reference container of every other part
              Ct("f32", FALSE, FALSE, TRUE),  Ct("i64", FALSE, TRUE, FALSE),   Ct("i32", FALSE, TRUE, FALSE),
              Ct("list", FALSE, FALSE, FALSE), Ct("intlist", FALSE, TRUE, FALSE),
              Ct("cuqiarray", FALSE, FALSE, FALSE), Ct("cuqiint", FALSE, TRUE, FALSE),
              Ct("fview", FALSE, FALSE, FALSE),      \* every second entry of a float64 array twice as long
              Ct("pyfloat", TRUE, FALSE, FALSE), Ct("pyint", TRUE, TRUE, FALSE),
              Ct("npfloat", TRUE, FALSE, FALSE), Ct("npint", TRUE, TRUE, FALSE) >>
RefKind == "f64"
CtNames == {CtTable[i].name : i \in 1..Len(CtTable)}
CtOf(name) == CHOOSE t \in {CtTable[i] : i \in 1..Len(CtTable)} : t.name = name

IsIntQ(q)    == q[2] = 1
IsDyadicQ(q) == q[2] \in {1, 2, 4, 8}
IsIntV(x)    == \A i \in 1..Len(x) : IsIntQ(x[i])
Admissible(t, x) == /\ (t.scalar => Len(x) = 1)
                    /\ (t.integral => IsIntV(x))
                    /\ (t.single => \A i \in 1..Len(x) : IsDyadicQ(x[i]))
AdmissibleKinds(x) == [i \in 1..Len(CtTable) |-> [name |-> CtTable[i].name, ok |-> Admissible(CtTable[i], x)]]

\* what a case answers when its point arrives in container t.  Intended design: the answer of the reference container.
\* Deviation: outside the support the answer is built in the number type of the point (integers cannot hold NaN).
AnswerIn(t, cs) ==
    IF DevKeepsNumberType /\ t.integral /\ cs.grad.nan THEN [nan |-> FALSE, v |-> cs.grad.v] ELSE cs.grad

\* ---------------------------------------------------------------------------
\* probe points of the bounded families
\* ---------------------------------------------------------------------------
PbFams == {"Gamma", "InverseGamma", "Beta", "Uniform", "Lognormal", "ModifiedHalfNormal"}
UpperBounded == {"Beta", "Uniform"}

Ramp(d)     == F([i \in 1..d |-> R(i)])                                 \* 1, 2, 3
HalfRamp(d) == F([i \in 1..d |-> IF i % 2 = 1 THEN Half ELSE Q(3, 2)])  \* 1/2, 3/2, 1/2
NegRamp(d)  == F([i \in 1..d |-> R(-i)])                                \* -1, -2, -3
Pt(x, tag)  == [x |-> x, tag |-> tag]

\* families bounded below only; t = x - lower bound
LowerProbes(d) ==
    << Pt(Ramp(d), "in"), Pt(HalfRamp(d), "in"),
       Pt(VSet(Ramp(d), 1, R(-1)), "below"), Pt(VSet(HalfRamp(d), d, R(-2)), "below"), Pt(NegRamp(d), "below"),
       Pt(VSet(Ramp(d), 1, Zero), "boundary"), Pt(VSet(HalfRamp(d), d, Zero), "boundary"), Pt(VZero(d), "boundary") >>
\* the unit box (Beta); u = (x - low) / width for Uniform
UnitA(d) == F([i \in 1..d |-> Q(i, 4)])                                  \* 1/4, 1/2, 3/4
UnitB(d) == F([i \in 1..d |-> IF i % 2 = 1 THEN Half ELSE Q(1, 4)])      \* 1/2, 1/4, 1/2
BoxProbes(d) ==
    << Pt(UnitA(d), "in"), Pt(UnitB(d), "in"),
       Pt(VSet(UnitA(d), 1, R(-1)), "below"), Pt(VSet(UnitB(d), d, R(2)), "above"),
       Pt(F([i \in 1..d |-> R(i + 1)]), "above"), Pt(NegRamp(d), "below"),
       Pt(VSet(UnitA(d), 1, Zero), "boundary"), Pt(VSet(UnitB(d), d, One), "boundary"),
       Pt(F([i \in 1..d |-> IF i % 2 = 1 THEN Zero ELSE One]), "boundary") >>
NProbes(fam) == IF fam \in UpperBounded THEN 9 ELSE 8

\* parameter patterns of the probe configurations (indices into the lattices of module Families): two per family (thorough:
\* their product)
PbPairs(A, B) == IF Thorough THEN A \X B ELSE {<<A_B[1], A_B[2]>> : A_B \in {<<CHOOSE x \in A : \A y \in A : x <= y, CHOOSE x \in B : \A y \in B : x <= y>>,
                                                                              <<CHOOSE x \in A : \A y \in A : y <= x, CHOOSE x \in B : \A y \in B : y <= x>>}}
PbConfigs(fam) ==
    CASE fam = "Gamma" -> UNION {{ Cfg(fam, d, ab[1], ab[2], 1, x, 0) : ab \in PbPairs({1, 2}, {1, 3}), x \in 1..NProbes(fam) } : d \in Dims}
      [] fam = "InverseGamma" -> UNION {{ Cfg(fam, d, 2, bg[1], bg[2], x, 0) : bg \in PbPairs({1, 2}, {1, 3}), x \in 1..NProbes(fam) } : d \in Dims}
      [] fam = "Beta" -> UNION {{ Cfg(fam, d, ab[1], ab[2], 1, x, 0) : ab \in PbPairs({2, 3}, {1, 2}), x \in 1..NProbes(fam) } : d \in Dims}
      \* Uniform: low in {0, 1} (constant), width in {4, 1} (constant): width 4 has integer-valued inside points
      [] fam = "Uniform" -> UNION {{ Cfg(fam, d, ab[1], ab[2], 1, x, 0) : ab \in (IF Thorough THEN {1, 2} \X {1, 3} ELSE {<<1, 3>>, <<2, 1>>}),
                                                                         x \in 1..NProbes(fam) } : d \in Dims}
      [] fam = "Lognormal" -> UNION {{ Cfg(fam, d, ab[1], ab[2], 1, x, 0) : ab \in PbPairs({1, 2}, 1..NUT(d)), x \in 1..NProbes(fam) } : d \in Dims}
      \* ModifiedHalfNormal: alpha = beta = gamma (1, 1, 1) and (2, 2, 2) - the instances on which finding C03-F3 is invisible -
      \* and one with distinct parameters (outside / boundary answers do not depend on the parameters)
      [] fam = "ModifiedHalfNormal" -> { Cfg(fam, 1, abg[1], abg[2], abg[3], x, 0) : abg \in {<<1, 1, 2>>, <<2, 3, 4>>, <<3, 2, 1>>},
                                                                                     x \in 1..NProbes(fam) }
      [] OTHER -> {}
ProbeConfigs == UNION {PbConfigs(f) : f \in Fams \cap PbFams}

\* the case of a probe configuration: parameters as in module Families, the point from the probe table,
\* log-density and gradient by the operators of module Families
PbBase(k, par, scal, p, inside, lp, grad, hasgrad) ==
    Base([k EXCEPT !.o = CASE p.tag = "in" -> 0 [] p.tag = "below" -> 1 [] p.tag = "above" -> 2 [] OTHER -> 3],
         par, scal, p.x, inside, lp, grad, hasgrad, NoCdf)
      @@ [probe |-> k.x, tag |-> p.tag, asserted |-> (p.tag # "boundary"),
          kinds |-> AdmissibleKinds(p.x)]

ProbeGamma(k) ==
    LET d == k.dim  a == Pat(LShape, d, k.a)  b == Pat(LRate, d, k.b)
        p == LowerProbes(d)[k.x]  x == p.x
        inside == AllV(x, RPos)
    IN PbBase(k, [shape |-> a, rate |-> b], [shape |-> TRUE, rate |-> TRUE], p, inside,
              IF inside THEN Fin(GammaLogpdf(a, b, x)) ELSE NegInf,
              IF inside THEN FinGrad(GammaGrad(a, b, x)) ELSE NaNGrad(d), FALSE)

ProbeInvGamma(k) ==
    LET d == k.dim  a == Pat(LShape, d, k.a)  l == Pat(LLoc, d, k.b)  g == Pat(LRate, d, k.g)
        p0 == LowerProbes(d)[k.x]  x == VAdd(l, p0.x)  p == Pt(x, p0.tag)
        inside == AllV(VSub(x, l), RPos)
    IN PbBase(k, [shape |-> a, location |-> l, scale |-> g], [shape |-> TRUE, location |-> TRUE, scale |-> TRUE], p, inside,
              IF inside THEN Fin(InvGammaLogpdf(a, l, g, x)) ELSE NegInf,
              IF inside THEN FinGrad(InvGammaGrad(a, l, g, x)) ELSE NaNGrad(d), TRUE)

ProbeBeta(k) ==
    LET d == k.dim  a == Pat(LShape, d, k.a)  b == Pat(LShape, d, k.b)
        p == BoxProbes(d)[k.x]  x == p.x
        inside == AllV(x, InUnit)
    IN PbBase(k, [alpha |-> a, beta |-> b], [alpha |-> TRUE, beta |-> TRUE], p, inside,
              IF inside THEN Fin(BetaLogpdf(a, b, x)) ELSE NegInf,
              IF inside THEN FinGrad(BetaGrad(a, b, x)) ELSE NaNGrad(d), TRUE)

ProbeUniform(k) ==
    LET d == k.dim  lo == Pat(LLoc, d, k.a)  w == Pat(LStd, d, k.b)  hi == VAdd(lo, w)
        p0 == BoxProbes(d)[k.x]
        \* inside / boundary coordinates are placed relative to the box; the out-of-box coordinates one (two ..) beyond it
        x == F([i \in 1..d |-> IF RLt(p0.x[i], Zero) THEN RAdd(lo[i], p0.x[i])
                               ELSE IF RLt(One, p0.x[i]) THEN RAdd(hi[i], RSub(p0.x[i], One))
                               ELSE RAdd(lo[i], RMul(w[i], p0.x[i]))])
        p == Pt(x, p0.tag)
        inside == \A i \in 1..d : RLt(lo[i], x[i]) /\ RLt(x[i], hi[i])
    IN PbBase(k, [low |-> lo, high |-> hi], [low |-> TRUE, high |-> TRUE], p, inside,
              IF inside THEN Fin(UniformLogpdf(lo, hi, x)) ELSE NegInf,
              IF inside THEN FinGrad(VZero(d)) ELSE NaNGrad(d), TRUE)

ProbeMHN(k) ==
    LET a == <<LShape[k.a]>>  b == <<(<<One, Half, R(2)>>)[k.b]>>  g == <<LMhnG[k.g]>>
        p == LowerProbes(1)[k.x]  x == p.x
        inside == RPos(x[1])
    IN PbBase(k, [alpha |-> a, beta |-> b, gamma |-> g], [alpha |-> TRUE, beta |-> TRUE, gamma |-> TRUE], p, inside,
              IF inside THEN Fin(MHNLogpdf(a, b, g, x)) ELSE NegInf,
              IF inside THEN FinGrad(MHNGrad(a, b, g, x)) ELSE NaNGrad(1), TRUE)
       @@ [abg_equal |-> (a = b /\ b = g), unnormalised |-> TRUE]

\* Lognormal: inside points are powers of two (x = 2^k, the log-density stays rational in units of log 2)
LnK(d, n) == IF n = 1 THEN F([i \in 1..d |-> R(i - 1)])                               \* x = 1, 2, 4
             ELSE F([i \in 1..d |-> IF i % 2 = 1 THEN R(-1) ELSE R(1)])               \* x = 1/2, 2, 1/2
ProbeLognormal(k) ==
    LET d == k.dim  mu == Pat(LMu, d, k.a)  W == SqrtPrecOf(d, k.b, Pat(LLam, d, k.g))
        C == FormMatrix("cov", W)  cn == Canon("cov", C)
        p0 == LowerProbes(d)[k.x]
        kk == LnK(d, IF IsIntV(p0.x) THEN 1 ELSE 2)
        xin == F([i \in 1..d |-> Pow2(kk[i][1])])
        \* coordinates of the probe that are not positive replace the inside coordinate
        x == F([i \in 1..d |-> IF RPos(p0.x[i]) THEN xin[i] ELSE p0.x[i]])
        p == Pt(x, p0.tag)
        inside == AllV(x, RPos)
        w == MV(cn[1], VSub(kk, mu))
    IN PbBase(k, [mean_u |-> mu, cov_u2 |-> C], [mean_u |-> FALSE, cov_u2 |-> FALSE], p, inside,
              IF inside THEN Fin(SLAdd(SLAdd(GaussLogpdf(mu, cn, kk), SLAtom("loglog2", R(-d))), SLAtom("log2", RNeg(RSumSeq(kk)))))
              ELSE NegInf,
              IF inside THEN FinGrad(F([i \in 1..d |-> RNeg(RDiv(One, x[i]))])) ELSE NaNGrad(d), TRUE)
       @@ [grad_invlog2 |-> IF inside THEN F([i \in 1..d |-> RNeg(RDiv(w[i], x[i]))]) ELSE VZero(d), k |-> kk]

ProbeCase(k) ==
    CASE k.fam = "Gamma" -> ProbeGamma(k) [] k.fam = "InverseGamma" -> ProbeInvGamma(k)
      [] k.fam = "Beta" -> ProbeBeta(k) [] k.fam = "Uniform" -> ProbeUniform(k)
      [] k.fam = "Lognormal" -> ProbeLognormal(k) [] OTHER -> ProbeMHN(k)

\* ---------------------------------------------------------------------------
\* invariants
\* ---------------------------------------------------------------------------
CtTableLegal ==
    /\ Cardinality(CtNames) = Len(CtTable)
    /\ RefKind \in CtNames /\ LET r == CtOf(RefKind) IN ~r.scalar /\ ~r.integral /\ ~r.single
    /\ \E t \in {CtTable[i] : i \in 1..Len(CtTable)} : t.integral /\ ~t.scalar
    /\ \E t \in {CtTable[i] : i \in 1..Len(CtTable)} : t.integral /\ t.scalar
    /\ \E t \in {CtTable[i] : i \in 1..Len(CtTable)} : t.single

\* the answer does not depend on the container: for every admissible kind it is the answer of the case
ContainerIndependent ==
    LET cs == ProbeCase(c)
    IN \A i \in 1..Len(CtTable) :
         Admissible(CtTable[i], cs.x) =>
            LET ans == AnswerIn(CtTable[i], cs)
            IN /\ ans.nan = ~cs.inside
               /\ ans.v = cs.grad.v
               /\ ans = AnswerIn(CtOf(RefKind), cs)

ProbeNaNOutside ==
    LET cs == ProbeCase(c)
    IN /\ cs.grad.nan = ~cs.inside /\ cs.logpdf.neginf = ~cs.inside
       /\ (cs.tag = "in" <=> cs.inside)
       /\ (cs.tag = "boundary" => ~cs.inside)                                \* strict support: the boundary is not inside
       /\ (cs.asserted <=> cs.tag # "boundary")
       /\ Admissible(CtOf(RefKind), cs.x)

\* per bounded family and dimension the probes reach every class of (support, number type) that exists
\* (evaluated at the first probe configuration of each family and dimension)
ProbeCover ==
    (c.x = 1 /\ c = CHOOSE k \in {q \in PbConfigs(c.fam) : q.dim = c.dim /\ q.x = 1} : TRUE) =>
      LET cases == {ProbeCase(k) : k \in {q \in PbConfigs(c.fam) : q.dim = c.dim}}
          has(P(_)) == \E cs \in cases : P(cs)
      IN /\ has(LAMBDA cs : cs.tag = "below" /\ IsIntV(cs.x))
         /\ (c.fam \in UpperBounded => has(LAMBDA cs : cs.tag = "above" /\ IsIntV(cs.x)))
         /\ has(LAMBDA cs : cs.tag = "boundary" /\ IsIntV(cs.x))
         /\ has(LAMBDA cs : cs.tag = "boundary" /\ ~IsIntV(cs.x) /\ c.dim > 1) \/ c.dim = 1
         /\ (c.fam # "Beta" => has(LAMBDA cs : cs.inside /\ IsIntV(cs.x)))
         /\ has(LAMBDA cs : cs.inside /\ ~IsIntV(cs.x) /\ \A i \in 1..Len(cs.x) : IsDyadicQ(cs.x[i]))
         /\ has(LAMBDA cs : ~cs.inside /\ cs.tag # "boundary" /\ \E i \in 1..Len(cs.x) : ~IsIntQ(cs.x[i])) \/ c.dim = 1

\* the evaluation point of a configuration of the MAIN lattice, for the families without bounded support
LatticePoint(k) ==
    CASE k.fam \in {"Normal", "Laplace", "Gaussian"} -> VAdd(Pat(LLoc, k.dim, k.a), Pat(LOff, k.dim, k.x))
      [] k.fam = "Cauchy" -> VAdd(Pat(LLoc, k.dim, k.a), VMulE(Pat(LStd, k.dim, k.b), Pat(LCauU, k.dim, k.x)))
      [] k.fam \in {"GMRF", "LMRF", "CMRF"} -> VAdd(Pat(LLoc, MrfN(k), k.a), Pat(LInt, MrfN(k), k.x))
      [] OTHER -> Pat(LInt, k.dim, k.x)                                       \* Lik, LikLognormal
LatFams == {"Normal", "Laplace", "Gaussian", "Cauchy", "GMRF", "LMRF", "CMRF", "Lik", "LikLognormal"}
LatticeIntegers ==
    (c = CHOOSE k \in ProbeConfigs : TRUE) =>
      \A f \in LatFams :
        LET FC == {k \in FamConfigs(f) : ValidIdx(k)}
        IN \A d \in {k.dim : k \in FC} :
             /\ \E k \in FC : k.dim = d /\ IsIntV(LatticePoint(k))
             /\ \E k \in FC : k.dim = d /\ (f \in {"Lik", "LikLognormal", "GMRF", "LMRF", "CMRF"} \/ ~IsIntV(LatticePoint(k)))

PbEmit ==
    Emit => /\ PrintT("@@CASE " \o ToJson(ProbeCase(c)) \o " @@END")
            /\ (c = (CHOOSE k \in ProbeConfigs : TRUE) =>
                  PrintT("@@CASE " \o ToJson([kind |-> "cttable", ref |-> RefKind, rows |-> CtTable,
                                              upper |-> UpperBounded]) \o " @@END"))

PbInit == c \in ProbeConfigs
PbNext == UNCHANGED c
=============================================================================
