------------------------------ MODULE DiffOps ------------------------------
(***************************************************************************)
(* Finite-difference operators of cuqi.operator and the structure of the   *)
(* Markov-random-field priors built on them (property C20; used by C03,    *)
(* C04, C05, C06, C10).                                                    *)
(*                                                                         *)
(* Every operator is defined ROW BY ROW from its stencil - nothing is      *)
(* copied from the implementation's sparse-diagonal construction:          *)
(*   first order  (later node minus earlier node)                          *)
(*     zero     : rows r = 0..n    : x_r - x_{r-1},  ghost nodes x_{-1} = x_n = 0 *)
(*     periodic : rows of cyclic differences x_r - x_{r-1 mod n}; every    *)
(*                cyclic neighbour pair occurs; the wrap-around pair occurs *)
(*                WrapMult times (the documentation is silent on 1 vs 2)   *)
(*     neumann  : rows r = 0..n-2  : x_{r+1} - x_r   (interior differences only) *)
(*     backward : row 0 = x_0, rows r = 1..n-1 : +-(x_r - x_{r-1})         *)
(*     none     : identity                                                 *)
(*   second order, stencil [-1, 2, -1] (GMRF docstring, order 2)           *)
(*     zero     : rows c = -1..n   : -x_{c-1} + 2 x_c - x_{c+1} with zero ghosts *)
(*     periodic : cyclic stencil centred at every node; the centres n-1    *)
(*                and 0 occur WrapMult times                               *)
(*     neumann  : centres c = 1..n-2 (interior only)                       *)
(*   two dimensions: Dxy = vstack(I (x) D, D (x) I);  precision P = D^T D. *)
(*                                                                         *)
(* A state is one configuration; TLC enumerates all configurations of the  *)
(* bounded instance, checks the structural invariants on each and emits    *)
(* the exact integer matrices for the conformance replay.                  *)
(***************************************************************************)
EXTENDS Mat, FiniteSets, TLC, Json

CONSTANTS MaxN1,      \* largest 1-D node count
          MaxN2,      \* largest 2-D side length
          Emit        \* TRUE: print one @@CASE line per configuration

VARIABLE c            \* configuration record [pd, n, bc, order, wm]

BCs1 == {"zero", "periodic", "neumann", "backward", "none"}
BCs2 == {"zero", "periodic", "neumann"}

MinN(bc, order) ==
    IF order = 1
    THEN (IF bc \in {"periodic", "neumann"} THEN 2 ELSE 1)
    ELSE (IF bc = "zero" THEN 1 ELSE 3)

Configs ==
    { [pd |-> pd, n |-> n, bc |-> bc, order |-> o, wm |-> wm] :
        pd \in {1, 2}, n \in 1..MaxN1, bc \in BCs1, o \in {1, 2}, wm \in {1, 2} }

Valid(k) ==
    /\ k.n >= MinN(k.bc, k.order)
    /\ (k.order = 2 => k.bc \in BCs2)
    /\ (k.pd = 2 => k.n <= MaxN2)
    /\ (k.bc # "periodic" => k.wm = 1)

\* ---- integer vectors -----------------------------------------------------
E(n, i) == [j \in 0..(n - 1) |-> IF j = i THEN 1 ELSE 0]     \* unit vector, 0-based index; all-zero if i outside
ZeroV(n) == [j \in 0..(n - 1) |-> 0]
IAdd(u, v) == F([j \in DOMAIN u |-> u[j] + v[j]])
ISc(a, u)  == F([j \in DOMAIN u |-> a * u[j]])
Mod(i, n)  == ((i % n) + n) % n
Seq1(f, n) == F([j \in 1..n |-> f[j - 1]])                       \* 0-based function -> sequence

\* ---- 1-D first order -------------------------------------------------------
D1Row(n, bc, r) ==
    CASE bc = "zero"     -> IAdd(E(n, r), ISc(-1, E(n, r - 1)))
      [] bc = "periodic" -> IAdd(E(n, Mod(r, n)), ISc(-1, E(n, Mod(r - 1, n))))
      [] bc = "neumann"  -> IAdd(E(n, r + 1), ISc(-1, E(n, r)))
      [] bc = "backward" -> IF r = 0 THEN E(n, 0) ELSE IAdd(E(n, r - 1), ISc(-1, E(n, r)))
      [] bc = "none"     -> E(n, r)

D1NRows(n, bc, wm) ==
    CASE bc = "zero"     -> n + 1
      [] bc = "periodic" -> IF wm = 2 THEN n + 1 ELSE n
      [] bc = "neumann"  -> n - 1
      [] bc = "backward" -> n
      [] bc = "none"     -> n

D1(n, bc, wm) == F([r \in 1..D1NRows(n, bc, wm) |-> Seq1(D1Row(n, bc, r - 1), n)])

\* ---- 1-D second order: -x_{c-1} + 2 x_c - x_{c+1} ---------------------------
Sten2(n, cyc, ctr) ==
    LET ix(i) == IF cyc THEN Mod(i, n) ELSE i
    IN IAdd(IAdd(ISc(-1, E(n, ix(ctr - 1))), ISc(2, E(n, ix(ctr)))), ISc(-1, E(n, ix(ctr + 1))))

D2NRows(n, bc, wm) ==
    CASE bc = "zero"     -> n + 2
      [] bc = "periodic" -> IF wm = 2 THEN n + 2 ELSE n
      [] bc = "neumann"  -> n - 2

\* centre of row r (0-based)
D2Ctr(n, bc, wm, r) ==
    CASE bc = "zero"     -> r - 1
      [] bc = "periodic" -> IF wm = 2 THEN r - 1 ELSE r
      [] bc = "neumann"  -> r + 1

D2(n, bc, wm) == F([r \in 1..D2NRows(n, bc, wm) |-> Seq1(Sten2(n, bc = "periodic", D2Ctr(n, bc, wm, r - 1)), n)])

DOp1(n, bc, order, wm) == IF order = 1 THEN D1(n, bc, wm) ELSE D2(n, bc, wm)

\* ---- integer matrix helpers ---------------------------------------------------
IT(M)     == IF Len(M) = 0 THEN <<>> ELSE F([j \in 1..Len(M[1]) |-> [i \in 1..Len(M) |-> M[i][j]]])
RECURSIVE ISum(_)
ISum(s)   == IF s = <<>> THEN 0 ELSE Head(s) + ISum(Tail(s))
IDot(u,v) == ISum([i \in 1..Len(u) |-> u[i] * v[i]])
IMM(A, B) == LET BT == IT(B) IN F([i \in 1..Len(A) |-> [j \in 1..Len(BT) |-> IDot(A[i], BT[j])]])
IMV(A, x) == F([i \in 1..Len(A) |-> IDot(A[i], x)])
IId(n)    == [i \in 1..n |-> [j \in 1..n |-> IF i = j THEN 1 ELSE 0]]
IKron(A, B) ==
    LET ra == Len(A) ca == Len(A[1]) rb == Len(B) cb == Len(B[1])
    IN F([i \in 1..(ra * rb) |-> [j \in 1..(ca * cb) |->
          A[((i - 1) \div rb) + 1][((j - 1) \div cb) + 1] * B[((i - 1) % rb) + 1][((j - 1) % cb) + 1]]])

\* ---- the operator of a configuration ------------------------------------------
DOp(k) ==
    LET D == DOp1(k.n, k.bc, k.order, k.wm)
    IN IF k.pd = 1 THEN D
       ELSE IF Len(D) = 0 THEN <<>> ELSE IKron(IId(k.n), D) \o IKron(D, IId(k.n))

Dim(k)  == IF k.pd = 1 THEN k.n ELSE k.n * k.n
Prec(k) == IF Len(DOp(k)) = 0 THEN [i \in 1..Dim(k) |-> [j \in 1..Dim(k) |-> 0]] ELSE IMM(IT(DOp(k)), DOp(k))

\* ---- claimed null spaces --------------------------------------------------------
Ones(n)  == [i \in 1..n |-> 1]
Ramp(n)  == [i \in 1..n |-> i]
Null1(n, bc, order) ==
    CASE bc \in {"zero", "backward", "none"} -> <<>>
      [] bc = "periodic"                     -> <<Ones(n)>>
      [] bc = "neumann" /\ order = 1         -> <<Ones(n)>>
      [] bc = "neumann" /\ order = 2         -> <<Ones(n), Ramp(n)>>

\* tensor product of two vectors in the flattening used by I (x) D / D (x) I
Tens(u, v) == [i \in 1..(Len(u) * Len(v)) |-> u[((i - 1) \div Len(v)) + 1] * v[((i - 1) % Len(v)) + 1]]
NullBasis(k) ==
    LET B == Null1(k.n, k.bc, k.order)
    IN IF k.pd = 1 THEN B
       ELSE [q \in 1..(Len(B) * Len(B)) |-> Tens(B[((q - 1) \div Len(B)) + 1], B[((q - 1) % Len(B)) + 1])]

\* ---- invariants (the properties of C20, on the specification) -----------------
\* (D and P are passed in so that TLC evaluates them once per configuration)
Symmetric(P)  == P = IT(P)

TestVecs(d) == {Ones(d), Ramp(d)} \cup {[i \in 1..d |-> IF i = j THEN 1 ELSE 0] : j \in 1..d}
                \cup {[i \in 1..d |-> IF i % 2 = 0 THEN -1 ELSE 2]}
PSD(k, D, P) == \A x \in TestVecs(Dim(k)) :
            LET Dx == IMV(D, x) IN IDot(x, IMV(P, x)) = IDot(Dx, Dx) /\ IDot(Dx, Dx) >= 0

NullExact(k, D) ==
    LET B == NullBasis(k)
    IN /\ \A q \in 1..Len(B) : \A r \in 1..Len(D) : IDot(D[r], B[q]) = 0
       /\ (Len(B) > 0 => Rank(MR(B)) = Len(B))
       /\ (IF Len(D) = 0 THEN 0 ELSE Rank(MR(D))) = Dim(k) - Len(B)

\* interior rows of the 1-D precision are the documented bands
Interior(k, P) ==
    k.pd = 1 /\ k.bc \in BCs2 =>
      LET n == k.n
          band(i, j) == IF j < 1 \/ j > n THEN 0 ELSE P[i][j]
      IN IF k.order = 1
         THEN \A i \in 2..(n - 1) : /\ <<band(i, i - 1), band(i, i), band(i, i + 1)>> = <<-1, 2, -1>>
                                     /\ \A j \in 1..n : ((j < i - 1 \/ j > i + 1) /\ k.bc # "periodic") => P[i][j] = 0
         ELSE \A i \in 3..(n - 2) : <<band(i, i - 2), band(i, i - 1), band(i, i), band(i, i + 1), band(i, i + 2)>>
                                       = <<1, -4, 6, -4, 1>>

\* zero boundary condition: the complete matrices printed in the GMRF docstring
DocZero(k, P) ==
    k.pd = 1 /\ k.bc = "zero" =>
      LET n == k.n
      IN \A i \in 1..n : \A j \in 1..n :
            P[i][j] = IF k.order = 1
                      THEN (IF i = j THEN 2 ELSE IF i - j \in {-1, 1} THEN -1 ELSE 0)
                      ELSE (IF i = j THEN 6 ELSE IF i - j \in {-1, 1} THEN -4 ELSE IF i - j \in {-2, 2} THEN 1 ELSE 0)

\* periodic: the precision is circulant iff the wrap rows occur once (n >= 3)
Circulant(M) == \A i \in 1..Len(M) : \A j \in 1..Len(M) : M[i][j] = M[1][Mod(j - i, Len(M)) + 1]
PeriodicCirculantIffSingleWrap(k, P) ==
    k.pd = 1 /\ k.bc = "periodic" /\ k.n >= 3 => (Circulant(P) <=> k.wm = 1)

\* 2-D: Kronecker stacking, stated entry-wise on the action of the operator:
\* (Dxy x) = [ D applied along the fast index ; D applied along the slow index ]
Kron2D(k, D) ==
    k.pd = 2 /\ Len(D) > 0 =>
      LET n  == k.n
          D1d == DOp1(n, k.bc, k.order, k.wm)
          m  == Len(D1d)
          x  == [i \in 1..(n * n) |-> ((i * i) % 7) - 3]                      \* a fixed non-symmetric image
          X(s, f) == x[(s - 1) * n + f]                                      \* slow index s, fast index f
          Dx == IMV(D, x)
      IN /\ Len(D) = 2 * m * n
         /\ \A s \in 1..n : \A r \in 1..m : Dx[(s - 1) * m + r] = ISum([f \in 1..n |-> D1d[r][f] * X(s, f)])
         /\ \A r \in 1..m : \A f \in 1..n : Dx[m * n + (r - 1) * n + f] = ISum([s \in 1..n |-> D1d[r][s] * X(s, f)])

Structure ==
    Valid(c) => LET D == DOp(c)
                    P == IF Len(D) = 0 THEN [i \in 1..Dim(c) |-> [j \in 1..Dim(c) |-> 0]] ELSE IMM(IT(D), D)
                IN /\ Symmetric(P) /\ PSD(c, D, P) /\ NullExact(c, D) /\ Interior(c, P) /\ DocZero(c, P)
                   /\ PeriodicCirculantIffSingleWrap(c, P) /\ Kron2D(c, D)
                   /\ (Emit => PrintT("@@CASE " \o ToJson(
                         [kind |-> "diffop", pd |-> c.pd, n |-> c.n, bc |-> c.bc, order |-> c.order, wm |-> c.wm,
                          D |-> D, P |-> P, nullity |-> Len(NullBasis(c)), nullbasis |-> NullBasis(c),
                          rank |-> Dim(c) - Len(NullBasis(c))]) \o " @@END"))

\* Named deviation (the defect repaired by commit 3904ef1, kept as the non-vacuity test of NullExact): the rank of
\* the precision claimed from the boundary condition alone, whatever the order.  NOT part of the deciding
\* configurations; cfg/DiffOps.dev_rankfrombc.cfg checks it as an invariant and expects TLC to refute it
\* (neumann order 2 has nullity 2 in 1-D and 4 in 2-D).
RankFromBCOnly ==
    Valid(c) => LET D == DOp(c)
                IN (IF Len(D) = 0 THEN 0 ELSE Rank(MR(D))) = Dim(c) - (IF c.bc \in {"periodic", "neumann"} THEN 1 ELSE 0)

\* ---- Reassign part: ONE prior object, its parameters replaced through the public attributes -----------------------
\* (configurations DiffOps.reassign.*.cfg: INIT RePriorInit, NEXT RePriorNext.)  The priors evaluate the SHIFTED variable
\* x - location through D and normalise with the CURRENT precision / scale: the quantities below are functions of the current
\* parameters of the object, whatever was evaluated before an assignment.
\*   state  c = a configuration k  @@  [re |-> [fam, li, pi, tli, tpi, done, cached]]
\*            li, pi    indices of the location pattern / of the precision (GMRF) or scale (LMRF, CMRF) the object is built with
\*            tli, tpi  the second parameter set;  done: units assigned so far, in order (1 = location / mean, 2 = precision / scale)
\*            cached    <<>> or <<<<li, pi>>>>: the parameters from which the object last derived anything it keeps
\*   RePriorEvaluate / RePriorAssign(u) as in Families.tla (an assignment drops what was derived from the old parameters).
\* RePriorFresh: in every reachable state the facts the object answers with are those of its current parameters.
\* Named deviation (NEXT RePriorNextStale, cfg/DiffOps.dev_reassign_stale.cfg): an assignment keeps what was derived - refuted.
RePriorFams == {"GMRF", "LMRF", "CMRF"}
RePriorCfgOk(fam, k) ==
    /\ Valid(k) /\ Dim(k) >= 2
    /\ IF fam = "GMRF" THEN (k.bc \in BCs2 \/ (k.bc = "none" /\ k.order = 1))        \* `none`, order 1 = the GMRF of order 0
       ELSE (k.bc \in BCs2 /\ k.order = 1)
RePriorLoc(k, i) ==
    CASE i = 1 -> [j \in 1..Dim(k) |-> ((j * j) % 5) - 2]
      [] i = 2 -> [j \in 1..Dim(k) |-> ((3 * j) % 7) - 3]
      [] OTHER -> [j \in 1..Dim(k) |-> 2]                         \* constant: also passed as a scalar
RePriorPar(i) == CASE i = 1 -> <<1, 1>> [] i = 2 -> <<4, 1>> [] OTHER -> <<1, 4>>      \* precision / scale as <<numerator, denominator>>
RePriorX(k)   == [j \in 1..Dim(k) |-> ((j * j * j) % 7) - 3]
RePriorNext3(i) == (i % 3) + 1
\* the facts: shifted variable through D, its square norm = (x - loc)' P (x - loc), and the precision / scale
RePriorFacts(k, D, li, pi) ==
    LET r  == F([j \in 1..Dim(k) |-> RePriorX(k)[j] - RePriorLoc(k, li)[j]])
        Dr == IF Len(D) = 0 THEN <<>> ELSE IMV(D, r)
    IN [loc |-> RePriorLoc(k, li), locconst |-> (li = 3), par |-> RePriorPar(pi), Dr |-> Dr, quad |-> IDot(Dr, Dr)]

RePriorBase(s) == [pd |-> s.pd, n |-> s.n, bc |-> s.bc, order |-> s.order, wm |-> s.wm]
RePriorDoneSet(s) == {s.re.done[j] : j \in 1..Len(s.re.done)}
RePriorIdxAfter(s, n) ==
    LET ds == {s.re.done[j] : j \in 1..n}
    IN <<IF 1 \in ds THEN s.re.tli ELSE s.re.li, IF 2 \in ds THEN s.re.tpi ELSE s.re.pi>>
RePriorCur(s) == RePriorIdxAfter(s, Len(s.re.done))

RePriorInit ==
    c \in { k @@ [re |-> [fam |-> f, li |-> i, pi |-> i, tli |-> RePriorNext3(i), tpi |-> RePriorNext3(i), done |-> <<>>, cached |-> <<>>]] :
              k \in Configs, f \in RePriorFams, i \in 1..3 } 
RePriorInitOk == RePriorCfgOk(c.re.fam, RePriorBase(c))            \* state constraint: the other initial states are not explored
RePriorEvaluate ==
    /\ c.re.cached = <<>>
    /\ c' = [c EXCEPT !.re.cached = <<RePriorCur(c)>>]
RePriorAssign(u) ==
    /\ u \notin RePriorDoneSet(c)
    /\ c' = [c EXCEPT !.re.done = Append(@, u), !.re.cached = <<>>]
RePriorAssignStale(u) ==
    /\ u \notin RePriorDoneSet(c)
    /\ c' = [c EXCEPT !.re.done = Append(@, u)]
RePriorNext      == RePriorEvaluate \/ \E u \in 1..2 : RePriorAssign(u)
RePriorNextStale == RePriorEvaluate \/ \E u \in 1..2 : RePriorAssignStale(u)

RePriorFresh ==
    RePriorInitOk =>
      LET cur == RePriorCur(c)
      IN (c.re.cached # <<>> /\ c.re.cached[1] # cur) =>
           LET D == DOp(RePriorBase(c))
           IN RePriorFacts(RePriorBase(c), D, c.re.cached[1][1], c.re.cached[1][2]) = RePriorFacts(RePriorBase(c), D, cur[1], cur[2])
\* non-vacuity of the pairs: the second parameter set changes the facts
RePriorDiffers ==
    (RePriorInitOk /\ Len(c.re.done) = 2) =>
      LET D == DOp(RePriorBase(c)) k == RePriorBase(c)
      IN RePriorFacts(k, D, c.re.li, c.re.pi).par # RePriorFacts(k, D, c.re.tli, c.re.tpi).par
         /\ RePriorFacts(k, D, c.re.li, c.re.pi).loc # RePriorFacts(k, D, c.re.tli, c.re.tpi).loc

RePriorEmit ==
    (Emit /\ RePriorInitOk /\ Len(c.re.done) = 2 /\ c.re.cached = <<>>) =>
      LET k == RePriorBase(c)
          D == DOp(k)
          P == IF Len(D) = 0 THEN [i \in 1..Dim(k) |-> [j \in 1..Dim(k) |-> 0]] ELSE IMM(IT(D), D)
      IN PrintT("@@CASE " \o ToJson(
           [kind |-> "reassign", fam |-> c.re.fam, pd |-> k.pd, n |-> k.n, bc |-> k.bc, order |-> k.order, wm |-> k.wm,
            D |-> D, P |-> P, rank |-> Dim(k) - Len(NullBasis(k)), x |-> RePriorX(k), units |-> c.re.done,
            from |-> RePriorFacts(k, D, c.re.li, c.re.pi),
            trail |-> [n \in 1..2 |-> [unit |-> c.re.done[n],
                                        expect |-> RePriorFacts(k, D, RePriorIdxAfter(c, n)[1], RePriorIdxAfter(c, n)[2])]]]) \o " @@END")

Init == c \in {k \in Configs : Valid(k)}
Next == UNCHANGED c
Spec == Init /\ [][Next]_c
=============================================================================
