----------------------------- MODULE MHMagnitude -----------------------------
(***************************************************************************)
(* C02, round 9: the Metropolis-Hastings DECISION at extreme magnitudes.   *)
(*                                                                         *)
(* One transition of a Metropolis-type kernel (RW, CW, PCN, MALA x both    *)
(* interfaces) between two points x -> y.  The configuration fixes the     *)
(* exact logarithmic quantities of the transition:                         *)
(*   lev   the cached log-density (likelihood log-density for PCN) at x    *)
(*   a     the log target ratio  lp(y) - lp(x)                             *)
(*   b     the log proposal ratio log q(x|y) - log q(y|x)  (Hastings term; *)
(*         0 for the kernels whose proposal is symmetric / prior-reversible)*)
(* with magnitudes 0, 1 .. 10^4 and "huge" (~10^300) in all sign           *)
(* combinations.  The acceptance probability is min(1, exp(a + b)); exp(a) *)
(* and exp(b) are NOT representable numbers for most of the catalogue      *)
(* (exp overflows above ~709.78 and underflows to 0 below ~-745.13), only   *)
(* the SUM r = a + b decides.                                              *)
(*                                                                         *)
(* Values: <<h, n>> stands for h * U + n, U = 2^997 (~1.3e300) a unit that  *)
(* dominates every integer of the catalogue (lexicographic order; exact    *)
(* arithmetic component by component).  Fl(v) models what double precision  *)
(* keeps of such a value: the integer part is absorbed when h # 0.         *)
(* Catalogue: a in +-{1, 50, 700, 800, 10^4, 4U} and 0; b = +-m^2/2 with    *)
(* m in {2, 10, 38, 40, 142} (2, 50, 722, 800, 10082: half squares are      *)
(* realised EXACTLY by a Langevin proposal with integer misfit m) and       *)
(* +-U (m = 2^499), and 0.  |a| = 4U and |b| = U never cancel.             *)
(*                                                                         *)
(* Uniforms (the decision is  log u <= min(0, r)):                          *)
(*   "zero"   u = 0 exactly            log u = -inf                        *)
(*   "tiny"   u = 1e-300               log u in (-691, -690)               *)
(*   "below"  u = exp(r) (1 - 1e-6)    log u just below r   (only when     *)
(*   "above"  u = exp(r) (1 + 1e-6)    log u just above r    -708 < r < 0:  *)
(*                                     exp(r) is a normal double)          *)
(*   "mid"    u = 1/2                                                      *)
(*   "near1"  u = 1 - 1e-6                                                 *)
(* Intended design: the decision variable is t = min(0, Fl(Fl(a) + b))     *)
(* computed in the LOG domain; it is never NaN; accept iff log u <= t.      *)
(* DecisionIsMH: that decision equals the decision of the EXACT r for      *)
(* every enumerated uniform (rounding of the huge values never changes a   *)
(* decision).  Not asserted (emitted with acc = -1): u = 0 when exp(r) is   *)
(* not a normal double (r <= -708): u <= exp(r) holds for the real number   *)
(* exp(r) > 0 but an implementation that compares u with the double exp(r)  *)
(* = 0 strictly is not wrong on a set of measure zero.                      *)
(*                                                                         *)
(* Named deviations (Dev = "none" in the deciding cfgs):                    *)
(*   "ProductOfExponentials"  alpha = min(1, exp(a) * exp(b)) in double     *)
(*        precision: inf * 0 = NaN and min(1, NaN) = 1 - a proposal whose   *)
(*        Metropolis-Hastings probability is exp(-9282) is accepted for     *)
(*        every uniform; exp(700) * exp(-800) = 0 rejects below exp(-100)   *)
(*   "RatioOfDensities"       alpha = min(1, exp(lp(y)) / exp(lp(x)) *      *)
(*        exp(b)): 0 / 0 = NaN at a low level of the log-density            *)
(* Both are refuted on DecisionIsMH and on NaNDecisionNeverAccepts.         *)
(***************************************************************************)
EXTENDS Integers, Sequences, FiniteSets, TLC, Json

CONSTANTS Kernels,       \* subset of {"RW", "CW", "PCN", "MALA"}
          Ifaces,        \* subset of {"exp", "leg"}
          Levels,        \* cached log-density at x: subset of {0, 1} (1 = the low level -10^4)
          AMags, BMags,  \* indexes into the magnitude tables below (0 = the value zero)
          Emit,
          Dev

VARIABLES cfg,      \* [k, iface, lev, ai, as, bi, bs]
          phase,    \* "idle" | "proposed" | "done"
          r,        \* exact log-ratio a + b of the pending proposal
          dv,       \* the decision variable the implementation computes: [t |-> "fin" | "inf" | "zero" | "nan", v |-> value]
          u,        \* uniform class of the decision
          acc,      \* 1 | 0
          at,       \* "x" | "y": where the chain is
          c_lp      \* cached log-density (value)

vars == <<cfg, phase, r, dv, u, acc, at, c_lp>>

\* ------------------------------ values h * U + n ------------------------------
VZero == <<0, 0>>
VAdd(p, q) == <<p[1] + q[1], p[2] + q[2]>>
VNeg(p) == <<0 - p[1], 0 - p[2]>>
VSub(p, q) == VAdd(p, VNeg(q))
VLt(p, q) == p[1] < q[1] \/ (p[1] = q[1] /\ p[2] < q[2])
VLeq(p, q) == p = q \/ VLt(p, q)
VInt(n) == <<0, n>>
Min0(p) == IF VLt(p, VZero) THEN p ELSE VZero
\* what double precision keeps: next to a huge part the integer part is absorbed
Fl(p) == IF p[1] # 0 THEN <<p[1], 0>> ELSE p

\* ------------------------------ catalogue ------------------------------
AMagTable == <<VInt(1), VInt(50), VInt(700), VInt(800), VInt(10000), <<4, 0>>>>
BRoot     == <<2, 10, 38, 40, 142, 0>>                 \* integer misfit m of the Langevin proposal (index 6: m = 2^499)
BMagTable == <<VInt(2), VInt(50), VInt(722), VInt(800), VInt(10082), <<1, 0>>>>
ASSUME \A i \in 1..5 : 2 * BMagTable[i][2] = BRoot[i] * BRoot[i]
LevelValue(l) == IF l = 0 THEN VZero ELSE VInt(-10000)

Signed(tab, i, s) == IF i = 0 THEN VZero ELSE IF s = 1 THEN tab[i] ELSE VNeg(tab[i])
AVal(c) == Signed(AMagTable, c.ai, c.as)
BVal(c) == Signed(BMagTable, c.bi, c.bs)
HasHastings(k) == k = "MALA"

Valid(c) == /\ (c.ai = 0 => c.as = 1) /\ (c.bi = 0 => c.bs = 1)
            /\ (~HasHastings(c.k) => c.bi = 0)
Configs == {c \in [k : Kernels, iface : Ifaces, lev : Levels, ai : AMags \cup {0}, as : {1, -1},
                   bi : BMags \cup {0}, bs : {1, -1}] : Valid(c)}

RExact(c) == VAdd(AVal(c), BVal(c))
\* exp(v) is a NORMAL double strictly inside (0, 1): the thresholds exp(v)(1 -/+ 1e-6) are representable
Representable(v) == VLt(v, VZero) /\ VLt(VInt(-708), v)

\* ------------------------------ uniforms ------------------------------
UClasses(v) == IF ~VLt(v, VZero) THEN {"zero", "mid", "near1"}
               ELSE IF Representable(v) THEN {"zero", "below", "above", "mid", "near1"}
               ELSE {"zero", "tiny", "mid", "near1"}
\* log u <= t for a threshold t <= 0 of the lattice (integers and multiples of U); rr = the exact ratio the classes
\* "below" / "above" were scripted for
LogULeq(uc, t, rr) ==
    CASE uc = "zero"  -> TRUE
      [] uc = "tiny"  -> ~VLt(t, VInt(-690))
      [] uc = "below" -> VLeq(rr, t)
      [] uc = "above" -> VLt(rr, t)
      [] uc = "mid"   -> ~VLt(t, VZero)
      [] uc = "near1" -> ~VLt(t, VZero)

\* ------------------------------ double-precision exponentials (deviations) ------------------------------
Fin(v) == [t |-> "fin", v |-> v]
Spec0(t) == [t |-> t, v |-> VZero]
FExp(v) == IF VLt(VInt(709), v) THEN Spec0("inf") ELSE IF VLt(v, VInt(-745)) THEN Spec0("zero") ELSE Fin(v)
FMul(p, q) == CASE p.t = "nan" \/ q.t = "nan" -> Spec0("nan")
                [] p.t = "fin" /\ q.t = "fin" -> FExp(VAdd(p.v, q.v))
                [] (p.t = "inf" /\ q.t = "zero") \/ (p.t = "zero" /\ q.t = "inf") -> Spec0("nan")
                [] p.t = "inf" \/ q.t = "inf" -> Spec0("inf")
                [] OTHER -> Spec0("zero")
FDiv(p, q) == CASE p.t = "nan" \/ q.t = "nan" -> Spec0("nan")
                [] p.t = "fin" /\ q.t = "fin" -> FExp(VSub(p.v, q.v))
                [] (p.t = "inf" /\ q.t = "inf") \/ (p.t = "zero" /\ q.t = "zero") -> Spec0("nan")
                [] p.t = "inf" \/ q.t = "zero" -> Spec0("inf")
                [] OTHER -> Spec0("zero")

\* the decision variable of the implementation
Decision(c) ==
    LET lx == LevelValue(c.lev)
        ly == Fl(VAdd(lx, AVal(c)))               \* the table value at y as a double
        da == Fl(VSub(ly, lx))                    \* log target ratio computed from the cached value
    IN CASE Dev = "ProductOfExponentials" -> FMul(FExp(da), FExp(BVal(c)))
         [] Dev = "RatioOfDensities"      -> FMul(FDiv(FExp(ly), FExp(lx)), FExp(BVal(c)))
         [] OTHER                         -> Fin(Min0(Fl(VAdd(da, BVal(c)))))
\* u <= min(1, alpha) resp. log u <= t ; min(1, NaN) = 1 (python min: the comparison with NaN is False)
Accepts(d, uc, rr) == CASE d.t = "nan"  -> TRUE
                        [] d.t = "inf"  -> TRUE
                        [] d.t = "zero" -> uc = "zero"
                        [] OTHER        -> LogULeq(uc, Min0(d.v), rr)

\* ------------------------------ actions ------------------------------
Init == /\ cfg \in Configs
        /\ phase = "idle" /\ r = VZero /\ dv = Fin(VZero) /\ u = "none" /\ acc = -1 /\ at = "x" /\ c_lp = LevelValue(cfg.lev)

Propose == /\ phase = "idle"
           /\ r' = RExact(cfg) /\ dv' = Decision(cfg)
           /\ phase' = "proposed"
           /\ UNCHANGED <<cfg, u, acc, at, c_lp>>

Decide(uc) == /\ phase = "proposed" /\ uc \in UClasses(r)
              /\ LET ok == Accepts(dv, uc, r)
                 IN /\ acc' = IF ok THEN 1 ELSE 0
                    /\ at' = IF ok THEN "y" ELSE "x"
                    /\ c_lp' = IF ok THEN Fl(VAdd(LevelValue(cfg.lev), AVal(cfg))) ELSE c_lp
              /\ u' = uc /\ phase' = "done"
              /\ UNCHANGED <<cfg, r, dv>>

Next == Propose \/ \E uc \in {"zero", "tiny", "below", "above", "mid", "near1"} : Decide(uc)
Spec == Init /\ [][Next]_vars

\* ------------------------------ properties ------------------------------
\* the decision is asserted unless the uniform is exactly 0 and exp(r) is not a normal double
Asserted(uc, rr) == ~(uc = "zero" /\ VLt(rr, VZero) /\ ~Representable(rr))
\* the decision is the one of the exact log-ratio r = a + b: accept iff log u <= min(0, r)
DecisionIsMH == (phase = "done" /\ Asserted(u, r)) => (acc = 1) = LogULeq(u, Min0(r), r)
\* a decision variable that is NaN is never an acceptance
NaNDecisionNeverAccepts == (phase = "done" /\ dv.t = "nan") => acc = 0
\* the decision variable of the intended design is a finite number <= 0 (never NaN / inf)
DecisionVariableFinite == (Dev = "none" /\ phase # "idle") => (dv.t = "fin" /\ ~VLt(VZero, dv.v))
\* the cached log-density belongs to the point the chain is at
CacheCoherent == c_lp = (IF at = "x" THEN LevelValue(cfg.lev) ELSE Fl(VAdd(LevelValue(cfg.lev), AVal(cfg))))
RejectKeepsState == [][(phase = "proposed" /\ acc' = 0) => (at' = at /\ c_lp' = c_lp)]_vars

\* non-vacuity over the constants: the catalogue contains the situation of the missed change (|a| beyond the overflow of exp,
\* b of the opposite sign beyond its underflow, decided by a representable / a non-representable sum), a representable
\* negative sum of two non-representable terms, and huge values of both signs
ASSUME (Dev = "none" /\ "MALA" \in Kernels) =>
          /\ \E c \in Configs : VLt(VInt(709), AVal(c)) /\ VLt(BVal(c), VInt(-745)) /\ VLt(RExact(c), VZero)
          /\ \E c \in Configs : VLt(VInt(709), AVal(c)) /\ VLt(BVal(c), VInt(-745)) /\ ~VLt(RExact(c), VZero)
          /\ \E c \in Configs : VLt(VInt(709), BVal(c)) /\ VLt(AVal(c), VInt(-745)) /\ Representable(RExact(c))
          /\ \E c \in Configs : AVal(c)[1] > 0 /\ BVal(c)[1] < 0
          /\ \E c \in Configs : AVal(c)[1] < 0 /\ BVal(c)[1] > 0

\* ------------------------------ emission ------------------------------
Emitted ==
    (Emit /\ phase = "done") =>
        PrintT("@@CASE " \o ToJson([kind |-> "mag", cfg |-> cfg, a |-> AVal(cfg), b |-> BVal(cfg),
                                    m |-> IF cfg.bi = 0 THEN 0 ELSE BRoot[cfg.bi], lev |-> LevelValue(cfg.lev), r |-> r,
                                    rep |-> Representable(r), u |-> u,
                                    acc |-> IF Asserted(u, r) THEN acc ELSE -1]) \o " @@END")
=============================================================================
