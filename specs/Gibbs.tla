------------------------------- MODULE Gibbs -------------------------------
(***************************************************************************)
(* Gibbs sweeps of cuqi.experimental.mcmc.HybridGibbs and cuqi.sampler.Gibbs *)
(* (property C09).                                                         *)
(*                                                                         *)
(* Values are VERSION IDS: every accepted block update produces a fresh id, *)
(* a rejected inner step keeps the id.  The state says which versions of   *)
(* the other blocks the target handed to a block's sampler was conditioned *)
(* on (ctx), under which conditioning the sampler's cached evaluations     *)
(* were computed (cachectx), from which value it starts, and what is       *)
(* stored.  One action per step of HybridGibbs.step, in the order of the   *)
(* code:                                                                   *)
(*   SetTarget(b) . SaveReinit(b) . Restore(b) . BlockStep(b) x steps[b] .  *)
(*   Extract(b)   for every block b in order,  then (Tune) . Store         *)
(* cuqi.sampler.Gibbs constructs a new block sampler on the conditioned    *)
(* target in every update: SaveReinit/Restore degenerate to "fresh cache". *)
(*                                                                         *)
(* Named deviations (all FALSE in the deciding configuration):             *)
(*   RestoreKeepsOldCache - Restore re-installs the saved cached           *)
(*        evaluation, computed under the PREVIOUS conditional              *)
(*   StaleOthers   - SetTarget conditions on the values at sweep start     *)
(*   StorePreSweep - Store records the values the sweep started from       *)
(*   RestartFromInitial - a new sample call restarts from the initial ids  *)
(***************************************************************************)
EXTENDS Integers, Sequences, FiniteSets, TLC, Json

CONSTANTS Order,          \* sequence of block names = visiting order
          Kinds,          \* set of sampler kinds explored per block: "Exact", "Cached", "Reinit"
          StepChoices,    \* set of per-block step counts
          MaxSweeps,      \* total sweeps explored
          Calls,          \* number of sample/warmup calls the sweeps are split into (1 or 2)
          RestoreKeepsOldCache, StaleOthers, StorePreSweep, RestartFromInitial

Order2 == <<"a", "b">>                 \* cfg: Order <- Order2 / Order3 (sequences cannot be written in a cfg)
Order3 == <<"a", "b", "c">>

Blocks == {Order[i] : i \in 1..Len(Order)}
Others(b) == Blocks \ {b}

VARIABLES kind,      \* [Blocks -> Kinds]            chosen in Init
          steps,     \* [Blocks -> StepChoices]      chosen in Init
          val,       \* [Blocks -> Nat]  current version of every block (HybridGibbs.current_samples)
          ctx,       \* [Blocks -> [others -> Nat]]  versions the sampler's target is conditioned on
          cachectx,  \* [Blocks -> [others -> Nat]]  versions under which the cached evaluations were computed
          spoint,    \* [Blocks -> Nat]  the block sampler's own current point (version id)
          saved,     \* saved sampler state of the block being updated: <<point, cachectx>>
          pc,        \* <<phase, position in Order>>; phase: "settarget" "savereinit" "restore" "step" "extract" "store" "idle"
          inner,     \* inner steps made on the current block in this sweep
          first,     \* version the current block's sampler started from in this sweep
          sweep,     \* completed sweeps
          sweepstart,\* val at the beginning of the current sweep
          visited,   \* blocks updated in this sweep
          stored,    \* sequence of stored tuples [Blocks -> Nat]
          nextid,    \* fresh version ids
          call       \* index of the current sample call (sweeps are split over Calls calls)

vars == <<kind, steps, val, ctx, cachectx, spoint, saved, pc, inner, first, sweep, sweepstart, visited, stored, nextid, call>>

Cur == Order[pc[2]]
CondOn(b, v) == [o \in Others(b) |-> v[o]]

Init == /\ kind \in [Blocks -> Kinds]
        /\ steps \in [Blocks -> StepChoices]
        /\ val = [b \in Blocks |-> 0]                       \* version 0 = initial point of every block
        /\ ctx = [b \in Blocks |-> CondOn(b, val)]          \* _set_targets() at construction
        /\ cachectx = ctx                                   \* initialize() evaluates the caches under that target
        /\ spoint = [b \in Blocks |-> 0]
        /\ saved = <<0, <<>>>>
        /\ pc = <<"settarget", 1>> /\ inner = 0 /\ first = 0
        /\ sweep = 0 /\ sweepstart = val /\ visited = {} /\ stored = <<>> /\ nextid = 1 /\ call = 1

\* -- one block update ------------------------------------------------------------
SetTarget ==
    /\ pc[1] = "settarget" /\ sweep < MaxSweeps
    /\ ctx' = [ctx EXCEPT ![Cur] = CondOn(Cur, IF StaleOthers THEN sweepstart ELSE val)]
    /\ pc' = <<"savereinit", pc[2]>>
    /\ UNCHANGED <<kind, steps, val, cachectx, spoint, saved, inner, first, sweep, sweepstart, visited, stored, nextid, call>>

\* get_state/get_history, then reinitialize(): caches are evaluated afresh under the new target
SaveReinit ==
    /\ pc[1] = "savereinit"
    /\ saved' = <<spoint[Cur], cachectx[Cur]>>
    /\ cachectx' = [cachectx EXCEPT ![Cur] = ctx[Cur]]
    /\ pc' = <<"restore", pc[2]>>
    /\ UNCHANGED <<kind, steps, val, ctx, spoint, inner, first, sweep, sweepstart, visited, stored, nextid, call>>

\* set_state/set_history: the chain state comes back; cached evaluations must belong to the new target
Restore ==
    /\ pc[1] = "restore"
    /\ spoint' = [spoint EXCEPT ![Cur] = saved[1]]
    /\ cachectx' = [cachectx EXCEPT ![Cur] =
                      IF RestoreKeepsOldCache /\ kind[Cur] = "Cached" THEN saved[2] ELSE ctx[Cur]]
    /\ pc' = <<"step", pc[2]>> /\ inner' = 0 /\ first' = saved[1]
    /\ UNCHANGED <<kind, steps, val, ctx, saved, sweep, sweepstart, visited, stored, nextid, call>>

\* one transition of the block's sampler: accepted -> new version v (its cache is computed under the current
\* target); rejected -> version and cache unchanged
BlockStep(v, accepted) ==
    /\ pc[1] = "step" /\ inner < steps[Cur]
    /\ spoint' = [spoint EXCEPT ![Cur] = IF accepted THEN v ELSE @]
    /\ cachectx' = [cachectx EXCEPT ![Cur] = IF accepted THEN ctx[Cur] ELSE @]
    /\ nextid' = IF accepted THEN nextid + 1 ELSE nextid
    /\ inner' = inner + 1
    /\ UNCHANGED <<kind, steps, val, ctx, saved, pc, first, sweep, sweepstart, visited, stored, call>>

Extract ==
    /\ pc[1] = "step" /\ inner = steps[Cur]
    /\ val' = [val EXCEPT ![Cur] = spoint[Cur]]
    /\ visited' = visited \cup {Cur}
    /\ pc' = IF pc[2] < Len(Order) THEN <<"settarget", pc[2] + 1>> ELSE <<"store", pc[2]>>
    /\ UNCHANGED <<kind, steps, ctx, cachectx, spoint, saved, inner, first, sweep, sweepstart, stored, nextid, call>>

Store ==
    /\ pc[1] = "store"
    /\ stored' = Append(stored, IF StorePreSweep THEN sweepstart ELSE val)
    /\ sweep' = sweep + 1
    /\ sweepstart' = val /\ visited' = {}
    /\ pc' = <<"settarget", 1>>
    /\ UNCHANGED <<kind, steps, val, ctx, cachectx, spoint, saved, inner, first, nextid, call>>

\* the user calls sample()/warmup() again: the run continues from the current values
NewCall ==
    /\ pc = <<"settarget", 1>> /\ sweep > 0 /\ sweep < MaxSweeps /\ call < Calls
    /\ call' = call + 1
    /\ val' = IF RestartFromInitial THEN [b \in Blocks |-> 0] ELSE val
    /\ sweepstart' = val'
    /\ UNCHANGED <<kind, steps, ctx, cachectx, spoint, saved, pc, inner, first, sweep, visited, stored, nextid>>

Next == \/ SetTarget \/ SaveReinit \/ Restore
        \/ \E acc \in BOOLEAN : BlockStep(nextid, acc)
        \/ Extract \/ Store \/ NewCall

Spec == Init /\ [][Next]_vars

\* -- properties ---------------------------------------------------------------------
\* the block being updated is drawn from the joint conditioned on the MOST RECENT values of all other blocks
Fresh == pc[1] = "step" => ctx[Cur] = CondOn(Cur, val)
\* cached evaluations used by the block's kernel belong to the current conditional
CacheFresh == (pc[1] = "step" /\ kind[Cur] = "Cached") => cachectx[Cur] = ctx[Cur]
\* each block's sampler starts from that block's current value
StartsFromCurrent == pc[1] = "step" => first = val[Cur]
\* ... and is advanced by the configured number of transitions
StepsAsConfigured == pc[1] = "step" => inner <= steps[Cur]
\* every block is visited before a sweep is stored
AllVisited == pc[1] = "store" => visited = Blocks
\* the stored sample of a sweep is the tuple of values after that sweep
StoredIsPostSweep == [][stored' # stored => stored'[Len(stored')] = val]_vars
\* continuing a run resumes from the last stored values
ResumeFromLast == [][call' # call => (stored # <<>> => val' = stored[Len(stored)])]_vars
TypeOK == /\ \A b \in Blocks : DOMAIN ctx[b] = Others(b)
          /\ Len(stored) = sweep

\* -- emission of configurations for the replay -----------------------------------------
Emitted == (pc = <<"settarget", 1>> /\ sweep = MaxSweeps) =>
             PrintT("@@CASE " \o ToJson([kind |-> "gibbs", order |-> Order, kinds |-> kind, steps |-> steps,
                                         sweeps |-> sweep, calls |-> call, nstored |-> Len(stored)]) \o " @@END")
=============================================================================
