--------------------------- MODULE FamiliesStruct ---------------------------
(***************************************************************************)
(* Property C04, part `Structures` (round 8).                              *)
(*                                                                         *)
(* "A Gaussian specified through covariance, precision, square-root        *)
(* covariance or square-root precision, as scalar, vector, diagonal, dense *)
(* or sparse data, below or above the sparse-storage threshold, denotes    *)
(* one and the same distribution."  The lattice of module Families builds  *)
(* every Gaussian from W = Lambda U (dyadic diagonal x ONE of two unit     *)
(* upper-triangular integer factors): the matrix STRUCTURES it reaches are *)
(* `diagonal` and `generic full` only.  An implementation that converts    *)
(* its input through a factorisation (Cholesky below, eigen-decomposition  *)
(* above the threshold) can be right on those two and wrong on every       *)
(* matrix whose zero pattern makes the factorisation special: eigenvectors *)
(* supported on one block (zeros on the diagonal of the eigenvector        *)
(* matrix), repeated eigenvalues (eigenvectors not unique), permuted       *)
(* blocks, bands.  This module makes the STRUCTURE a dimension of every    *)
(* Gaussian input form:                                                    *)
(*                                                                         *)
(* 1. GALLERY.  Gal = small non-singular rational factors G (dim 2-4):     *)
(*    diagonal, generic, bidiagonal (tridiagonal G'G), two blocks (2+1,    *)
(*    1+2, 2+2), permutation-similar to two blocks (coupling 1-3; 1-3 and  *)
(*    2-4 interleaved), the symmetric cross patterns [[a,0,b],[0,c,0],     *)
(*    [b,0,a]] with simple and with repeated eigenvalues, identity plus    *)
(*    rank one (I + J/3, J + I/4 in dim 2), a symmetric block.  Each G is  *)
(*    used as it is and transposed (lower-triangular factors), as the      *)
(*    square-root PRECISION (W = G) and as the square-root COVARIANCE      *)
(*    (W = G^-1): the structured symmetric matrix is the precision in one  *)
(*    role and the covariance in the other.  All four input forms are      *)
(*    generated from W exactly as in module Families (FormMatrix), the     *)
(*    oracle is the documented normalised density with Canon's exact       *)
(*    rational inverse / cofactor determinant (unchanged).                 *)
(*      StructSameDistribution   every form of every structure has the     *)
(*                               canonical triple of W                     *)
(*      StructScalingLaw         ScalingLaw of Families for these inputs   *)
(*      GalleryCoversClasses     every class of StructClasses (decided by  *)
(*                               PREDICATES on the symmetric matrix, not   *)
(*                               by labels) is realised by the covariance  *)
(*                               AND by the precision of some member       *)
(* 2. SPECTRAL ROUTE.  For the members with rational eigenvectors the      *)
(*    gallery lists the eigenpairs; TLC checks them (S v = mu v,           *)
(*    orthogonal, complete) and the route "symmetric matrix -> ascending   *)
(*    eigenpairs -> sum mu_k s_k^2 v_k v_k' / (v_k' v_k)" with a sign      *)
(*    normalisation s_k of the k-th eigenvector:                           *)
(*      SpectralRouteSame        the reconstruction is the matrix itself   *)
(*                               (s_k = sign of the first non-zero entry:  *)
(*                               the sign of an eigenvector is immaterial) *)
(*    Named deviation DevSignFromDiagonalEntry (s_k = sign of the k-th     *)
(*    entry of the k-th eigenvector, which is ZERO whenever the ascending  *)
(*    order pairs an eigenvector with a coordinate outside its block) must *)
(*    be refuted by TLC - and is not refuted on the generic members.       *)
(* 3. DIRECT SUMS on both sides of the REAL threshold.  A structured block *)
(*    on the coordinates idx of a dim-n Gaussian whose other coordinates   *)
(*    are independent (diagonal pad):                                      *)
(*      DirectSumLaw             (n = k + 1, pad coordinate at every       *)
(*                               position, exact Canon of the n x n        *)
(*                               inputs) every form of the embedded input  *)
(*                               denotes Canon(block) (+) Canon(pad) and   *)
(*                               logpdf = logpdf_block + logpdf_pad        *)
(*    The `big` cases (n = 75, 76; block at the head, at the tail, spread  *)
(*    over the coordinates) carry the expected value of that law; the      *)
(*    harness assembles the n x n inputs.                                  *)
(*                                                                         *)
(* Emission: `struct` cases in the layout of Families!GaussCase (so the    *)
(* replay of the main lattice - every container, both sides of the lowered *)
(* threshold, scaling law, computed covariance, attributes - applies       *)
(* unchanged) + `structbig` cases.  Replay: props/c04.py (check_struct).   *)
(***************************************************************************)
EXTENDS Families

CONSTANTS DevSignFromDiagonalEntry     \* named deviation (see 2.); FALSE in the deciding configurations

\* ---------------------------------------------------------------------------
\* 1. gallery of factors:  G = M / den;  eig = eigenpairs <<n, d, v>> of G (eigenvalue n/d, integer eigenvector v) where rational
\* ---------------------------------------------------------------------------
Gal == <<
  [name |-> "diag3",    den |-> 2, M |-> <<<<2, 0, 0>>, <<0, 4, 0>>, <<0, 0, 1>>>>,   eig |-> <<>>],
  [name |-> "full3",    den |-> 1, M |-> <<<<1, 2, -1>>, <<0, 1, 3>>, <<0, 0, 2>>>>,  eig |-> <<>>],
  [name |-> "band3",    den |-> 1, M |-> <<<<1, 1, 0>>, <<0, 1, 1>>, <<0, 0, 1>>>>,   eig |-> <<>>],
  [name |-> "block21",  den |-> 1, M |-> <<<<1, 2, 0>>, <<0, 1, 0>>, <<0, 0, 2>>>>,   eig |-> <<>>],
  [name |-> "block12",  den |-> 1, M |-> <<<<2, 0, 0>>, <<0, 1, -1>>, <<0, 0, 1>>>>,  eig |-> <<>>],
  [name |-> "perm13",   den |-> 1, M |-> <<<<1, 0, 2>>, <<0, 2, 0>>, <<0, 0, 1>>>>,   eig |-> <<>>],
  [name |-> "cross3",   den |-> 1, M |-> <<<<3, 0, 1>>, <<0, 1, 0>>, <<1, 0, 3>>>>,
        eig |-> << <<4, 1, <<1, 0, 1>>>>, <<2, 1, <<1, 0, -1>>>>, <<1, 1, <<0, 1, 0>>>> >>],
  [name |-> "cross3rep", den |-> 1, M |-> <<<<2, 0, 1>>, <<0, 3, 0>>, <<1, 0, 2>>>>,
        eig |-> << <<3, 1, <<1, 0, 1>>>>, <<1, 1, <<1, 0, -1>>>>, <<3, 1, <<0, 1, 0>>>> >>],
  [name |-> "rank1p3",  den |-> 3, M |-> <<<<4, 1, 1>>, <<1, 4, 1>>, <<1, 1, 4>>>>,
        eig |-> << <<2, 1, <<1, 1, 1>>>>, <<1, 1, <<1, -1, 0>>>>, <<1, 1, <<1, 1, -2>>>> >>],
  [name |-> "ones2eps", den |-> 2, M |-> <<<<2, 1>>, <<1, 2>>>>,
        eig |-> << <<3, 2, <<1, 1>>>>, <<1, 2, <<1, -1>>>> >>],
  [name |-> "symblock21", den |-> 2, M |-> <<<<2, 1, 0>>, <<1, 2, 0>>, <<0, 0, 4>>>>,
        eig |-> << <<3, 2, <<1, 1, 0>>>>, <<1, 2, <<1, -1, 0>>>>, <<2, 1, <<0, 0, 1>>>> >>],
  [name |-> "block22",  den |-> 1, M |-> <<<<1, 2, 0, 0>>, <<0, 1, 0, 0>>, <<0, 0, 1, -1>>, <<0, 0, 0, 2>>>>, eig |-> <<>>],
  [name |-> "inter22",  den |-> 1, M |-> <<<<1, 0, 2, 0>>, <<0, 1, 0, -1>>, <<0, 0, 1, 0>>, <<0, 0, 0, 2>>>>, eig |-> <<>>],
  [name |-> "band4",    den |-> 1, M |-> <<<<1, 1, 0, 0>>, <<0, 1, 1, 0>>, <<0, 0, 2, 1>>, <<0, 0, 0, 1>>>>,  eig |-> <<>>]
>>
NS       == Len(Gal)
SDim(s)  == Len(Gal[s].M)
SSym(s)  == \A i, j \in 1..SDim(s) : Gal[s].M[i][j] = Gal[s].M[j][i]
SRoles   == <<"sqrtprec", "sqrtcov">>
GOf(s, t) == LET G0 == MScale(Q(1, Gal[s].den), MR(Gal[s].M)) IN IF t = 1 THEN MT(G0) ELSE G0
\* the square-root precision of the distribution: G in the role sqrtprec, G^-1 when G is the square-root covariance
WOf(s, role, t) == IF role = "sqrtprec" THEN GOf(s, t) ELSE MInv(GOf(s, t))
\* (a symmetric G is its own transpose: t = 1 is not a configuration)
STs(s) == IF SSym(s) THEN {0} ELSE {0, 1}

\* ---------------------------------------------------------------------------
\* structure classes = predicates on a symmetric matrix
\* ---------------------------------------------------------------------------
NoCross(S, T)   == \A i \in T, j \in (1..Len(S)) \ T : S[i][j] = Zero
Reducible(S)    == \E T \in SUBSET (1..Len(S)) : T # {} /\ T # 1..Len(S) /\ NoCross(S, T)
ContigBlocks(S) == \E p \in 1..(Len(S) - 1) : NoCross(S, 1..p)
ShiftId(S, q)   == MSub(S, MScale(q, MId(Len(S))))
CandShifts(S)   == {RAdd(S[i][i], RMul(R(e), S[i][j])) : i \in 1..Len(S), j \in 1..Len(S), e \in {-1, 0, 1}}
StructClasses == <<"diagonal", "generic_full", "block_diagonal", "permuted_blocks", "banded", "rank_one_plus_identity",
                   "repeated_eigenvalue", "zero_pattern_coupled">>
InClass(S, cl) ==
    LET d == Len(S) IN
    CASE cl = "diagonal"               -> IsDiagM(S)
      [] cl = "generic_full"           -> \A i, j \in 1..d : S[i][j] # Zero
      [] cl = "block_diagonal"         -> ~IsDiagM(S) /\ ContigBlocks(S)
      [] cl = "permuted_blocks"        -> ~IsDiagM(S) /\ Reducible(S) /\ ~ContigBlocks(S)
      [] cl = "banded"                 -> d >= 3 /\ ~Reducible(S) /\ \A i, j \in 1..d : (i - j > 1 \/ j - i > 1) => S[i][j] = Zero
      [] cl = "rank_one_plus_identity" -> ~IsDiagM(S) /\ \E q \in CandShifts(S) : Rank(ShiftId(S, q)) = 1
      [] cl = "repeated_eigenvalue"    -> ~IsDiagM(S) /\ \E q \in CandShifts(S) : Rank(ShiftId(S, q)) <= d - 2
      [] cl = "zero_pattern_coupled"   -> ~IsDiagM(S) /\ ~ContigBlocks(S) /\ \E i, j \in 1..d : i # j /\ S[i][j] = Zero
ClassesOf(S) == LET T == F(S) IN SelectSeq(StructClasses, LAMBDA cl : InClass(T, cl))

GalleryCovers ==
    \A n \in 1..Len(StructClasses) :
      \A form \in {"cov", "prec"} :
        \E s \in 1..NS : \E r \in 1..2 : \E t \in STs(s) :
            InClass(F(FormMatrix(form, WOf(s, SRoles[r], t))), StructClasses[n])

\* ---------------------------------------------------------------------------
\* configurations
\* ---------------------------------------------------------------------------
WalkA  == Len(LLoc) + 1            \* mean pattern: cyclic walk 0, 1, -3/2, ...
XPats  == IF Thorough THEN 1..7 ELSE {1, 5, 6}      \* 1/2 constant; walks 1/2, -1, 2, 0 and -1, 2, 0, 1/2
APats  == IF Thorough THEN {1, 2, 3, WalkA} ELSE {1, WalkA}
BigNs  == {75, 76}
Poses  == <<"head", "tail", "spread">>
NoBig  == [n |-> 0, pos |-> "-", g |-> 1]
SCfg(kind, s, r, t, a, x, big) == [fam |-> "Struct", kind |-> kind, st |-> s, role |-> SRoles[r], t |-> t, a |-> a, x |-> x] @@ big

ConfigsOf(s) ==
         {SCfg("struct", s, r, t, a, x, NoBig) : r \in 1..2, t \in STs(s), a \in APats, x \in XPats}
    \cup (IF SDim(s) > 3 THEN {}
          ELSE {SCfg("sum", s, r, t, WalkA, 5, [n |-> SDim(s) + 1, pos |-> p, g |-> g]) :
                    r \in 1..2, t \in STs(s), p \in 1..(SDim(s) + 1), g \in {2, 4}})
    \cup {SCfg("big", s, r, t, WalkA, x, [n |-> n, pos |-> Poses[p], g |-> 4]) :
                    r \in 1..2, t \in (IF Thorough THEN STs(s) ELSE {0}), n \in BigNs, p \in 1..3, x \in {5, 6}}

\* ---------------------------------------------------------------------------
\* struct cases (layout of Families!GaussCase)
\* ---------------------------------------------------------------------------
StructName(k) == Gal[k.st].name \o ":" \o k.role \o (IF k.t = 1 THEN ":T" ELSE "")
StructCase(k) ==
    LET d == SDim(k.st)  m == Pat(LLoc, d, k.a)  W == WOf(k.st, k.role, k.t)
        cn == Canon("sqrtprec", W)
        x == VAdd(m, Pat(LOff, d, k.x))
        ins == GaussInputs(d, W)
        inseq == SetToSeq(ins)
        rno == IF k.role = "sqrtprec" THEN 0 ELSE 1
        kk == Cfg("Gaussian", d, k.a, 100 + k.st, (2 * rno) + k.t + 1, k.x, 0)
    IN [kind |-> "struct", struct |-> StructName(k), prec |-> cn[1], logdet |-> cn[2], rank |-> cn[3],
        classes |-> [cov |-> ClassesOf(FormMatrix("cov", W)), prec |-> ClassesOf(cn[1])],
        scaled |-> [i \in 1..Len(ScaleExpsEmitted) |->
                      LET e == ScaleExpsEmitted[i]
                      IN [e |-> e, dev_pow2 |-> e, grad_pow2 |-> -e,
                          form_pow2 |-> [f \in {Forms[j] : j \in 1..4} |-> FormScalePow2(f, e)],
                          logpdf |-> Fin(ScaledLogpdf(GaussLogpdf(m, cn, x), d, e))]],
        inputs |-> [i \in 1..Cardinality(ins) |->
                      [form |-> inseq[i][1], shape |-> inseq[i][2],
                       data |-> InputData(inseq[i][2], FormMatrix(inseq[i][1], W))]]]
       \* (f @@ g: f wins on common fields - kind)
       @@ Base(kk, [mean |-> m], [mean |-> IsConstV(m)], x, TRUE,
               Fin(GaussLogpdf(m, cn, x)), FinGrad(GaussGrad(m, cn, x)), TRUE,
               IF IsDiagM(W) THEN [form |-> "phi", z |-> F([i \in 1..d |-> RMul(W[i][i], RSub(x[i], m[i]))])] ELSE NoCdf)

StructSameDistribution ==
    c.kind = "struct" =>
      LET d == SDim(c.st)
          W == WOf(c.st, c.role, c.t)
          ref == Canon("sqrtprec", W)
      IN /\ ref[3] = d /\ MSym(ref[1])
         /\ \A fs \in GaussInputs(d, W) :
              Canon(fs[1], Expand(fs[2], InputData(fs[2], FormMatrix(fs[1], W)), d)) = ref
         \* the structured matrix is the one the role says: G'G is the precision / G G' the covariance
         /\ LET G == GOf(c.st, c.t)
            IN IF c.role = "sqrtprec" THEN ref[1] = MM(MT(G), G) ELSE MInv(ref[1]) = MM(G, MT(G))

\* (checked on the members whose scaled inputs keep the cofactor determinants inside TLC's 32-bit integers: dim <= 3 and
\* det G a unit or +-2; the law itself is a statement about the documented density and does not depend on the member)
ScaleSafe(s) == SDim(s) <= 3 /\ Det(GOf(s, 0)) \in {One, R(2), R(-1), R(-2)}
StructScalingLaw ==
    c.kind = "struct" /\ ScaleSafe(c.st) =>
      LET d == SDim(c.st)
          m == Pat(LLoc, d, c.a)
          W == WOf(c.st, c.role, c.t)
          cn == Canon("sqrtprec", W)
          x == VAdd(m, Pat(LOff, d, c.x))
          lp == GaussLogpdf(m, cn, x)
          gr == GaussGrad(m, cn, x)
      IN \A e \in ScaleExpsChecked :
           LET xs == ScaledPoint(m, x, e)
           IN \A fs \in GaussInputs(d, W) :
                LET Ms == MScale(FormScale(fs[1], e), Expand(fs[2], InputData(fs[2], FormMatrix(fs[1], W)), d))
                    cs == Canon(fs[1], Ms)
                IN /\ cs[1] = MScale(Pow2(-(2 * e)), cn[1]) /\ cs[3] = cn[3]
                   /\ GaussLogpdf(m, cs, xs) = ScaledLogpdf(lp, d, e)
                   /\ GaussGrad(m, cs, xs) = ScaledGrad(gr, e)

GalleryCoversClasses == c.kind = "cover" => GalleryCovers
\* the offsets of the emitted points are not orthogonal to any listed eigenvector for at least one point (a wiped direction shows)
PointsSeeEveryDirection ==
    c.kind = "cover" =>
      \A s \in 1..NS : \A n \in 1..Len(Gal[s].eig) :
        \E x \in XPats : Dot(VR(Gal[s].eig[n][3]), Pat(LOff, SDim(s), x)) # Zero

\* ---------------------------------------------------------------------------
\* 2. spectral route
\* ---------------------------------------------------------------------------
RECURSIVE InsIdx(_, _, _)
InsIdx(seq, i, key) == IF seq = <<>> THEN <<i>>
                       ELSE IF RLt(key[i], key[Head(seq)]) THEN <<i>> \o seq ELSE <<Head(seq)>> \o InsIdx(Tail(seq), i, key)
RECURSIVE SortIdx(_, _)
SortIdx(n, key) == IF n = 0 THEN <<>> ELSE InsIdx(SortIdx(n - 1, key), n, key)      \* ascending, stable
FirstNonZero(v) == LET i == CHOOSE j \in 1..Len(v) : v[j] # 0 /\ \A l \in 1..(j - 1) : v[l] = 0 IN v[i]
ISign(n) == IF n > 0 THEN 1 ELSE IF n < 0 THEN -1 ELSE 0
\* sign normalisation of the k-th eigenvector (k = its place in the ascending order)
SignOf(v, k, dev) == IF dev THEN ISign(v[k]) ELSE ISign(FirstNonZero(v))
Outer(v) == F([i \in 1..Len(v) |-> [j \in 1..Len(v) |-> RMul(v[i], v[j])]])
\* eigenvalue of the symmetric matrix `which` in {"prec", "cov"} that belongs to the eigenvalue lam of G
MuOf(lam, role, which) == IF (role = "sqrtprec") = (which = "prec") THEN RSq(lam) ELSE RInv(RSq(lam))
SpectralOf(s, role, which) ==
    LET eg == Gal[s].eig
        n == Len(eg)
        mu == F([i \in 1..n |-> MuOf(Q(eg[i][1], eg[i][2]), role, which)])
        ord == SortIdx(n, mu)
    IN [mu |-> F([k \in 1..n |-> mu[ord[k]]]), v |-> F([k \in 1..n |-> eg[ord[k]][3]])]
RECURSIVE MSumSeq(_, _)
MSumSeq(Ms, d) == IF Ms = <<>> THEN MZero(d, d) ELSE MAdd(Head(Ms), MSumSeq(Tail(Ms), d))
ReconWith(sp, d, dev) ==
    MSumSeq([k \in 1..Len(sp.mu) |->
               LET v == VR(sp.v[k])  sg == SignOf(sp.v[k], k, dev)
               IN MScale(RDiv(RMul(R(sg * sg), sp.mu[k]), Dot(v, v)), Outer(v))], d)
Recon(sp, d) == ReconWith(sp, d, DevSignFromDiagonalEntry)
EigenpairsValid(S, sp) ==
    /\ Len(sp.mu) = Len(S)
    /\ \A k \in 1..Len(S) : MV(S, VR(sp.v[k])) = VScale(sp.mu[k], VR(sp.v[k])) /\ \E i \in 1..Len(S) : sp.v[k][i] # 0
    /\ \A k, l \in 1..Len(S) : k # l => Dot(VR(sp.v[k]), VR(sp.v[l])) = Zero
    /\ \A k \in 1..(Len(S) - 1) : RLe(sp.mu[k], sp.mu[k + 1])
HasEig(k) == k.kind = "struct" /\ k.t = 0 /\ Len(Gal[k.st].eig) > 0
SpectralRouteSame ==
    HasEig(c) =>
      LET d == SDim(c.st)  W == WOf(c.st, c.role, 0) IN
      \A which \in {"prec", "cov"} :
        LET S == FormMatrix(which, W)  sp == SpectralOf(c.st, c.role, which)
        IN EigenpairsValid(S, sp) /\ Recon(sp, d) = S
\* which listed members pair an eigenvector with a coordinate it does not touch (the deviation shows exactly there)
ZeroOnEigDiag(s, role, which) == LET sp == SpectralOf(s, role, which) IN \E k \in 1..Len(sp.mu) : sp.v[k][k] = 0
\* the deviating rule is wrong EXACTLY on the members with such a pairing (generic members cannot tell the two rules apart)
DeviationShowsOnlyThere ==
    HasEig(c) =>
      LET d == SDim(c.st)  W == WOf(c.st, c.role, 0) IN
      \A which \in {"prec", "cov"} :
        LET S == FormMatrix(which, W)  sp == SpectralOf(c.st, c.role, which)
        IN (ReconWith(sp, d, TRUE) = S) <=> ~ZeroOnEigDiag(c.st, c.role, which)
SpectralCovers ==
    c.kind = "cover" =>
      /\ \E s \in 1..NS : Len(Gal[s].eig) > 0 /\ \A r \in 1..2 : \A w \in {"prec", "cov"} : ~ZeroOnEigDiag(s, SRoles[r], w)
      /\ \E s \in 1..NS : Len(Gal[s].eig) > 0 /\ \A r \in 1..2 : \A w \in {"prec", "cov"} : ZeroOnEigDiag(s, SRoles[r], w)

\* ---------------------------------------------------------------------------
\* 3. direct sums: block on the coordinates idx, independent coordinates elsewhere
\* ---------------------------------------------------------------------------
IdxOf(k, n, pos) ==
    CASE pos = "head"   -> [i \in 1..k |-> i]
      [] pos = "tail"   -> [i \in 1..k |-> n - k + i]
      [] pos = "spread" -> LET st == n \div k IN [i \in 1..k |-> (i * st) - (st \div 2)]
\* (n = k + 1: the pad coordinate at position p)
IdxSkip(k, p) == [i \in 1..k |-> IF i < p THEN i ELSE i + 1]
RestOf(idx, n) == AscSeq((1..n) \ {idx[i] : i \in 1..Len(idx)})
Sub(v, idx) == F([i \in 1..Len(idx) |-> v[idx[i]]])
PosIn(idx, i) == IF \E p \in 1..Len(idx) : idx[p] = i THEN CHOOSE p \in 1..Len(idx) : idx[p] = i ELSE 0
\* n x n matrix with block B on idx and the diagonal dv (indexed by coordinate) elsewhere
Embed(B, idx, dv, n) ==
    F([i \in 1..n |-> [j \in 1..n |->
        LET p == PosIn(idx, i)  q == PosIn(idx, j)
        IN IF p > 0 /\ q > 0 THEN B[p][q] ELSE IF i = j THEN dv[i] ELSE Zero]])
\* log-density of the independent coordinates `rest` with square-root precisions lam (as Families!BigCase)
DiagLogpdf(m, lam, x, rest) ==
    LET p == Len(rest)
        logdet == SLScale(R(-2), SLSum([i \in 1..p |-> SLLog(lam[rest[i]])]))
        quad == RSumB([i \in 1..p |-> RMul(RSq(lam[rest[i]]), RSq(RSub(x[rest[i]], m[rest[i]])))])
    IN SLAdd(SLScale(Q(-1, 2), SLAdd(SLScale(R(p), SLLog2Pi), logdet)), SLConst(RMul(Q(-1, 2), quad)))
SumLogpdf(W, idx, n, m, lam, x) ==
    SLAdd(GaussLogpdf(Sub(m, idx), Canon("sqrtprec", W), Sub(x, idx)), DiagLogpdf(m, lam, x, RestOf(idx, n)))

DirectSumLaw ==
    c.kind = "sum" =>
      LET k == SDim(c.st)  n == c.n  idx == IdxSkip(k, c.pos)
          W == WOf(c.st, c.role, c.t)
          lam == Pat(LLam, n, c.g)
          m == Pat(LLoc, n, c.a)  x == VAdd(m, Pat(LOff, n, c.x))
          Wn == Embed(W, idx, lam, n)
          ref == Canon("sqrtprec", Wn)
          cb == Canon("sqrtprec", W)
      IN /\ ref[1] = Embed(cb[1], idx, BigVec("prec", lam), n)
         /\ ref[3] = k + 1
         /\ ref[2] = SLAdd(cb[2], SLScale(R(-2), SLLog(lam[c.pos])))
         /\ \A i \in 1..4 : Canon(Forms[i], Embed(FormMatrix(Forms[i], W), idx, BigVec(Forms[i], lam), n)) = ref
         /\ GaussLogpdf(m, ref, x) = SumLogpdf(W, idx, n, m, lam, x)

BigStructCase(k) ==
    LET d == SDim(k.st)  n == k.n  idx == IdxOf(d, n, k.pos)
        W == WOf(k.st, k.role, k.t)
        lam == Pat(LLam, n, k.g)
        m == Pat(LLoc, n, k.a)  x == VAdd(m, Pat(LOff, n, k.x))
    IN [kind |-> "structbig", fam |-> "GaussianBig", struct |-> StructName(k), dim |-> n, pos |-> k.pos, idx |-> idx,
        mean |-> m, x |-> x, logpdf |-> Fin(SumLogpdf(W, idx, n, m, lam, x)),
        inputs |-> [i \in 1..4 |-> [form |-> Forms[i], block |-> FormMatrix(Forms[i], W), pad |-> BigVec(Forms[i], lam)]],
        cfg |-> Cfg("GaussianBig", n, k.a, 100 + k.st, k.g, k.x, 0) @@ [role |-> k.role, t |-> k.t, pos |-> k.pos]]
BigWellFormed ==
    c.kind = "big" =>
      LET d == SDim(c.st)  idx == IdxOf(d, c.n, c.pos)
      IN /\ \A i \in 1..d : idx[i] \in 1..c.n
         /\ \A i \in 1..(d - 1) : idx[i] < idx[i + 1]
         /\ Len(RestOf(idx, c.n)) = c.n - d
         \* the pad is not one repeated value and the point deviates from the mean on the block and on the pad
         /\ \E i, j \in 1..c.n : Pat(LLam, c.n, c.g)[i] # Pat(LLam, c.n, c.g)[j]
         /\ \E i \in 1..d : Pat(LOff, c.n, c.x)[idx[i]] # Zero

\* ======================================================================================================================
\* start -> one group per gallery member (and the coverage state) -> the configurations of the member: TLC's workers share the groups
StructInit == c = [fam |-> "Struct", kind |-> "start"]
StructNext ==
    \/ c.kind = "start" /\ c' \in {[fam |-> "Struct", kind |-> "group", st |-> s] : s \in 1..NS} \cup {[fam |-> "Struct", kind |-> "cover"]}
    \/ c.kind = "group" /\ c' \in ConfigsOf(c.st)
    \/ c.kind \notin {"start", "group"} /\ UNCHANGED c

StructEmit ==
    Emit => CASE c.kind = "struct" -> PrintT("@@CASE " \o ToJson(StructCase(c)) \o " @@END")
              [] c.kind = "big"    -> PrintT("@@CASE " \o ToJson(BigStructCase(c)) \o " @@END")
              [] c.kind = "cover"  -> PrintT("@@CASE " \o ToJson([kind |-> "structgallery", names |-> [s \in 1..NS |-> Gal[s].name],
                                                                   classes |-> StructClasses]) \o " @@END")
              [] OTHER -> TRUE
=============================================================================
