---------------------------- MODULE SamplerHist ----------------------------
(***************************************************************************)
(* C14, growth beyond the listed checkpoint: the RECORD of a sampler       *)
(* (get_history / set_history of cuqi.experimental.mcmc.Sampler, the       *)
(* `_HISTORY_KEYS / _samples / _acc` state of the property's anchors)      *)
(* carried over to a freshly constructed sampler together with the         *)
(* checkpoint.  EXTENDS SamplerLife (SamplerLife.tla is not edited): the   *)
(* actions of the life cycle are reused, two are added:                    *)
(*                                                                         *)
(*   SaveAll      - get_state() and a snapshot of get_history() taken at   *)
(*                  the same idle moment                                   *)
(*   FreshLoadAll - construct a fresh sampler of the same configuration,   *)
(*                  set_state(checkpoint), set_history(snapshot), restore  *)
(*                  the stream position                                    *)
(*                                                                         *)
(* After FreshLoadAll the live instance holds the chain recorded up to the *)
(* checkpoint and goes on appending to it: the recorded chain is again     *)
(* S(start+1) .. S(k) of the uninterrupted run - as if the run had never   *)
(* been interrupted - and the callback (invoked only for the states the    *)
(* new instance produces) receives the index of the state in THAT chain.   *)
(*                                                                         *)
(* Named deviations, FALSE in the deciding configuration:                  *)
(*   DevHistNotLoaded  - set_history leaves the record empty               *)
(*   DevHistAliased    - the snapshot is the live list (a later transition *)
(*                       of the OLD instance is seen in the loaded record) *)
(***************************************************************************)
EXTENDS SamplerLife

CONSTANTS DevHistNotLoaded, DevHistAliased

VARIABLES hs,     \* <<>> or the saved record [h |-> hist, s |-> start, k |-> k] of the last SaveAll
          base    \* number of entries of the live record that were loaded, not produced, by the live instance

varsH == <<vars, hs, base>>

InitH == Init /\ iface = "stateful" /\ hs = <<>> /\ base = 0

SaveAll ==
    /\ iface = "stateful" /\ Idle /\ Ops < MaxOps
    /\ ckpt' = k
    /\ hs' = [h |-> hist, s |-> start, k |-> k]
    /\ prog' = Append(prog, [op |-> "saveall", n |-> 0, k |-> k, start |-> start, hist |-> hist, ncb |-> Len(cb),
                             inst |-> inst, ckpt |-> k])
    /\ UNCHANGED <<iface, k, start, hist, cb, inst, warm, todo, cur, ret, base>>

FreshLoadAll ==
    /\ iface = "stateful" /\ Idle /\ Ops < MaxOps /\ ckpt >= 0
    /\ hs # <<>> /\ hs.k = ckpt               \* record and checkpoint of the same moment
    /\ k' = ckpt
    /\ start' = hs.s
    /\ hist' = IF DevHistNotLoaded THEN <<>>
               ELSE IF DevHistAliased /\ hs.s = start /\ IsPrefix(hs.h, hist) THEN hist   \* the old instance went on appending to it
               ELSE hs.h
    /\ base' = Len(hist')
    /\ cb' = <<>> /\ inst' = inst + 1
    /\ prog' = Append(prog, [op |-> "freshloadall", n |-> 0, k |-> k', start |-> start', hist |-> hist', ncb |-> 0,
                             inst |-> inst + 1, ckpt |-> ckpt])
    /\ UNCHANGED <<iface, warm, ckpt, todo, cur, ret, hs>>

\* the life-cycle actions of SamplerLife; a plain FreshLoad / Reinit starts an empty record
NextH == \/ (\E n \in Warm : BeginWarmup(n)) /\ UNCHANGED <<hs, base>>
         \/ (\E n \in Sizes : BeginSample(n)) /\ UNCHANGED <<hs, base>>
         \/ Step /\ UNCHANGED <<hs, base>>
         \/ Save /\ UNCHANGED <<hs, base>>
         \/ FreshLoad /\ base' = 0 /\ UNCHANGED hs
         \/ Reinit /\ inst = 1 /\ base' = 0 /\ UNCHANGED hs     \* (replay semantics: only the first instance is re-initialised)
         \/ SaveAll
         \/ FreshLoadAll

SpecH == InitH /\ [][NextH]_varsH

\* ------------------------------ properties ------------------------------
\* Consecutive and Tracks of SamplerLife are checked unchanged: with the record carried over, the live chain is
\* S(start+1) .. S(k) whatever the number of interruptions.
\* the callback is invoked once per state PRODUCED by the live instance, with that state and its index in the chain
CallbackOnceH == iface = "stateful" =>
                   /\ base + Len(cb) = Len(hist)
                   /\ cb = [i \in 1..Len(cb) |-> <<hist[base + i], base + i - 1>>]
\* recorded length = loaded entries + everything requested from this instance since
LengthH == iface = "stateful" /\ Idle =>
             Len(hist) = base +
                LET Cut == {i \in 1..Len(prog) : prog[i].op \in {"reinit", "freshload", "freshloadall"}}
                    last == IF Cut = {} THEN 0 ELSE CHOOSE i \in Cut : \A j \in Cut : j <= i
                    after == SelectSeq(SubSeq(prog, last + 1, Len(prog)), LAMBDA e : e.op \in {"sample", "warmup"})
                IN SumN(after)
\* a loaded record is the record as it was when saved: entries are never altered - not by the transitions made
\* between SaveAll and FreshLoadAll either
LoadedIsSaved == [][FreshLoadAll => hist' = hs.h]_varsH
AppendOnlyH == [][(inst' = inst /\ ~(k' = 0 /\ k > 0)) => IsPrefix(hist, hist')]_varsH

\* behaviours handed to the replay: those that use the added actions
UsesAll == \E i \in 1..Len(prog) : prog[i].op = "freshloadall"
EmittedH == (Emit /\ Terminal /\ iface = "stateful" /\ UsesAll) =>
              PrintT("@@CASE " \o ToJson([kind |-> "life", iface |-> iface, warm |-> warm, prog |-> prog]) \o " @@END")
=============================================================================
