------------------------------ MODULE ModelGeom ------------------------------
(***************************************************************************)
(* Forward models of cuqi.model composed with domain / range geometries    *)
(* (properties C07 and C12).                                               *)
(*                                                                         *)
(* A model is a triple of small exact maps:                                *)
(*     domain geometry   par2fun  G   (fun2par  G+)                        *)
(*     core operator     F  (with the supplied adjoint F* for linear ones) *)
(*     range geometry    par2fun  H   (fun2par  H+)                        *)
(* and everything the library exposes is a composition of these, exactly   *)
(* as in Model._apply_func:                                                *)
(*     Fwd x  = H+( F( G x ) )                                             *)
(* The INTENDED design of a linear model is that the exposed adjoint is    *)
(* the transpose of the exposed forward map,  Adj = Fwd^T = G^T F* (H+)^T, *)
(* that the matrix representation has the columns Fwd e_i, and that the    *)
(* transposed model exposes (Adj, Fwd, Matrix^T).  Behaviour of the code   *)
(* that departs from this is modelled as NAMED DEVIATIONS (constant Dev):  *)
(*   AdjointViaFun2par   Adj = G+ F* H      (LinearModel.adjoint)          *)
(*   MatrixIsStored      Matrix = stored F for matrix-backed models        *)
(*   TransposeRewraps    T wraps the already wrapped adjoint / forward     *)
(*   RowsInsteadOfColumns  convolution matrix stacked with A e_i as rows   *)
(*   FlippedPSFAdjoint   2-D adjoint = padded convolution with flipped PSF *)
(*   GradientOmitsGeometryDerivative, SamplesItemsAsFunvals,               *)
(*   ArrayFlagIgnored, RenameMutatesOriginal      (C12, non-vacuity)       *)
(*   RenameAdoptsDistributionGeometry  model(dist) completes a default     *)
(*                        domain geometry from the distribution's geometry *)
(*   SamplesFunItemsAsParameters  columns of a Samples of function values  *)
(*                        are converted with par2fun again (Model._apply_func) *)
(*   CopySharesAssembledMatrix  a model and its shallow copy (model(dist), *)
(*                        copy(model)) keep the assembled matrix in ONE cell *)
(* The deciding configurations have Dev = {}; each *.deviation.cfg switches *)
(* one deviation on and TLC must answer with a counterexample.             *)
(*                                                                         *)
(* Function values are represented by their C-order vector; an Image2D     *)
(* geometry in F order is the permutation between the parameter vector and *)
(* that vector.  A state is one configuration; TLC enumerates all          *)
(* configurations of the bounded instance, checks the identities and emits *)
(* the exact expected numbers (rationals <<n,d>>) for the conformance      *)
(* replay.                                                                 *)
(***************************************************************************)
EXTENDS Mat, FiniteSets, TLC, Json

CONSTANTS Part,     \* "C07" | "TP" | "C12"   which family of configurations is enumerated
          Dev,      \* set of named deviations switched on ({} in the deciding configurations)
          NF,       \* number of core-operator variants
          Swap,     \* TRUE: also the orientation (function dimension 4 -> 6)
          Emit      \* TRUE: print one @@CASE line per configuration

VARIABLE c

Two   == R(2)
IllTyped == <<>>                                   \* result of a composition whose shapes do not fit

\* ---------------------------------------------------------------------------
\* integer data of the bounded instance
\* ---------------------------------------------------------------------------
Mod(i, n) == ((i % n) + n) % n

\* core operators (nr x nd), asymmetric, full of distinct small entries
CoreF(v, nr, nd) == [i \in 1..nr |-> [j \in 1..nd |-> Mod((i * i * (v + 1)) + (3 * j) + (i * j * (v + 2)) + v, 7) - 3]]
\* quadratic part of the polynomial core operator  F(u) = A u + B (u o u)
CoreB(v, nr, nd) == [i \in 1..nr |-> [j \in 1..nd |-> IF Mod(i + (2 * j) + v, 3) = 0 THEN Mod(i + j, 3) - 1 ELSE 0]]
IVecA(n, s) == [i \in 1..n |-> Mod((i * i) + (s * i) + s, 7) - 3]     \* lattice vectors
IVecB(n, s) == [i \in 1..n |-> Mod((2 * i * i) + i + (3 * s), 5) - 2]

\* step expansions: node -> step
StepAsg(n, bal) == IF bal THEN (IF n = 6 THEN <<1, 1, 1, 2, 2, 2>> ELSE <<1, 1, 2, 2>>)
                   ELSE (IF n = 6 THEN <<1, 1, 2, 3, 4, 4>> ELSE <<1, 1, 2, 3>>)
StepK(n, bal)   == IF bal THEN 2 ELSE (IF n = 6 THEN 4 ELSE 3)
\* linear map of the mapped geometry: unit upper triangular (integer inverse), neither symmetric nor orthogonal
MapM(n) == [i \in 1..n |-> [j \in 1..n |-> IF i = j THEN 1 ELSE IF j > i THEN Mod(i + j, 3) - 1 ELSE 0]]
\* abstract KL-like expansion  par2fun = Q diag(D),  Q with orthogonal columns
LinQ(n) == IF n = 6 THEN << <<1, 1, 1>>, <<1, 1, -1>>, <<1, 1, 0>>, <<1, -1, 1>>, <<1, -1, -1>>, <<1, -1, 0>> >>
                    ELSE << <<1, 1>>, <<1, -1>>, <<1, 1>>, <<1, -1>> >>
LinD(n) == IF n = 6 THEN <<One, Half, Q(1, 4)>> ELSE <<One, Half>>
LinK(n) == IF n = 6 THEN 3 ELSE 2
\* user geometry providing `gradient`: par2fun = [I; Rr] p, fun2par = first k function values (a left inverse)
UGM(n) == IF n = 6 THEN << <<1, 0, 0>>, <<0, 1, 0>>, <<0, 0, 1>>, <<1, 2, 0>>, <<0, 1, -1>>, <<2, 0, 1>> >>
                   ELSE << <<1, 0>>, <<0, 1>>, <<1, 2>>, <<-1, 1>> >>

\* ---------------------------------------------------------------------------
\* geometries
\* ---------------------------------------------------------------------------
Geo(kind, n, k, r, q, proj, asg) == [kind |-> kind, n |-> n, k |-> k, r |-> r, q |-> q, proj |-> proj, asg |-> asg]

LinGeoms(n) ==
    LET q == n \div 2 IN
    { Geo("cont1d", n, n, 1, n, "", <<>>), Geo("default1d", n, n, 1, n, "", <<>>), Geo("discrete", n, n, 1, n, "", <<>>),
      Geo("imgC", n, n, 2, q, "", <<>>), Geo("imgF", n, n, 2, q, "", <<>>), Geo("visual", n, n, 2, q, "", <<>>),
      Geo("cont2d", n, n, 2, q, "", <<>>),
      Geo("step", n, StepK(n, TRUE), 1, n, "mean", StepAsg(n, TRUE)),
      Geo("step", n, StepK(n, FALSE), 1, n, "mean", StepAsg(n, FALSE)),
      Geo("mapped", n, n, 1, n, "", <<>>),
      Geo("linexp", n, LinK(n), 1, n, "", <<>>) }
NonLinProj(n) == { Geo("step", n, StepK(n, FALSE), 1, n, "max", StepAsg(n, FALSE)),
                   Geo("step", n, StepK(n, TRUE), 1, n, "min", StepAsg(n, TRUE)) }
NonLinGeoms(n) == { Geo("ugradlin", n, IF n = 6 THEN 3 ELSE 2, 1, n, "", <<>>), Geo("ugradtri", n, n, 1, n, "", <<>>),
                    Geo("mappednl", n, n, 1, n, "", <<>>), Geo("noinv", n, n, 1, n, "", <<>>),
                    Geo("ugradnoinv", n, n, 1, n, "", <<>>) }

TriKinds == {"ugradtri", "mappednl", "noinv", "ugradnoinv"}
IdTypeKinds == {"cont1d", "default1d", "discrete", "visual", "cont2d", "imgC", "imgF"}
Linear(g)    == g.kind \notin TriKinds                                   \* par2fun is a linear map
F2PLinear(g) == Linear(g) /\ ~(g.kind = "step" /\ g.proj # "mean")      \* fun2par is a linear map
HasF2P(g)    == g.kind \notin {"noinv", "ugradnoinv"}                        \* fun2par is implemented
HasGrad(g)   == g.kind \in {"ugradlin", "ugradtri", "ugradnoinv"}                     \* geometry offers `gradient`
IdType(g)    == g.kind \in IdTypeKinds                                   \* listed by _get_identity_geometries()
VecFun(g)    == g.kind \notin {"imgC", "imgF", "cont2d"}                 \* function values are 1-D vectors

\* Image2D order F: C-order function vector entry (i, j) is parameter i + j*rows
PermF(r, q) == F([a \in 1..(r * q) |-> [b \in 1..(r * q) |->
                 IF b = ((a - 1) \div q) + (((a - 1) % q) * r) + 1 THEN One ELSE Zero]])
Expand(asg, k) == F([a \in 1..Len(asg) |-> [b \in 1..k |-> IF asg[a] = b THEN One ELSE Zero]])
Members(asg, b) == {a \in 1..Len(asg) : asg[a] = b}

\* matrix of par2fun (Linear(g))
GM(g) ==
    CASE g.kind \in {"cont1d", "default1d", "discrete", "visual", "cont2d", "imgC"} -> MId(g.n)
      [] g.kind = "imgF"     -> PermF(g.r, g.q)
      [] g.kind = "step"     -> Expand(g.asg, g.k)
      [] g.kind = "mapped"   -> MR(MapM(g.n))
      [] g.kind = "linexp"   -> MM(MR(LinQ(g.n)), MDiag(LinD(g.n)))
      [] g.kind = "ugradlin" -> MR(UGM(g.n))

\* matrix of fun2par (F2PLinear(g))
GpM(g) ==
    CASE g.kind \in {"cont1d", "default1d", "discrete", "visual", "cont2d", "imgC"} -> MId(g.n)
      [] g.kind = "imgF"     -> MT(PermF(g.r, g.q))
      [] g.kind = "step"     -> F([b \in 1..g.k |-> [a \in 1..g.n |->
                                     IF g.asg[a] = b THEN Q(1, Cardinality(Members(g.asg, b))) ELSE Zero]])
      [] g.kind = "mapped"   -> MInv(MR(MapM(g.n)))
      [] g.kind = "linexp"   -> LET G == GM(g) IN MM(MInv(MM(MT(G), G)), MT(G))      \* projection on the modes
      [] g.kind = "ugradlin" -> F([b \in 1..g.k |-> VUnit(g.n, b)])

\* polynomial map with polynomial inverse  f_1 = p_1 + 1,  f_i = p_i + p_1^2  (i > 1);  p_1 = f_1 - 1,  p_i = f_i - (f_1 - 1)^2.
\* The shift makes f_1 # p_1, so the Jacobian (which depends on p_1) evaluated at the FUNCTION value instead of the
\* parameter is a different matrix: a gradient that hands the wrong representation of `wrt` to the geometry is visible.
Tri(v)    == F([i \in 1..Len(v) |-> IF i = 1 THEN RAdd(v[1], One) ELSE RAdd(v[i], RSq(v[1]))])
TriInv(f) == F([i \in 1..Len(f) |-> IF i = 1 THEN RSub(f[1], One) ELSE RSub(f[i], RSq(RSub(f[1], One)))])

RExt(S, le(_, _)) == CHOOSE m \in S : \A o \in S : le(m, o)
StepProj(g, f) ==
    F([b \in 1..g.k |-> LET S == {f[a] : a \in Members(g.asg, b)}
                        IN IF g.proj = "max" THEN RExt(S, LAMBDA x, y : RLe(y, x)) ELSE RExt(S, RLe)])

P2FV(g, v) == IF Linear(g) THEN MV(GM(g), v) ELSE Tri(v)
F2PV(g, f) == IF F2PLinear(g) THEN MV(GpM(g), f)
              ELSE IF g.kind = "step" THEN StepProj(g, f)
              ELSE TriInv(f)                                             \* only used when HasF2P(g)
\* transposed Jacobian of par2fun at v applied to d
JGT(g, v, d) == IF Linear(g) THEN MV(MT(GM(g)), d)
                ELSE F([j \in 1..g.n |-> IF j = 1 THEN RAdd(d[1], RMul(RMul(Two, v[1]), RSumSeq([i \in 1..(g.n - 1) |-> d[i + 1]])))
                                         ELSE d[j]])

\* effect of applying par2fun to a value that already is a function value / fun2par to a parameter vector
\* (reshapes are idempotent in numpy; expansions and maps are not)
RePF(g, f) == IF f = IllTyped THEN IllTyped
              ELSE IF IdType(g) THEN f
              ELSE IF g.kind = "mapped" THEN MV(GM(g), f)
              ELSE IF g.k = g.n /\ Linear(g) THEN MV(GM(g), f) ELSE IllTyped
ReFP(g, p) == IF p = IllTyped THEN IllTyped
              ELSE IF IdType(g) THEN p
              ELSE IF g.kind = "mapped" THEN MV(GpM(g), p)
              ELSE IF g.k = g.n /\ F2PLinear(g) THEN MV(GpM(g), p) ELSE IllTyped

\* ===========================================================================
\* C07: linear models
\* ===========================================================================
LinKinds == {"dense", "sparse", "func"}
MatrixBacked(mk) == mk \in {"dense", "sparse"}

LinConfigs ==
    LET one(nd, nr) == { [part |-> "C07", mk |-> mk, dg |-> dg, rg |-> rg, fi |-> fi] :
                           mk \in LinKinds, dg \in LinGeoms(nd) \cup NonLinProj(nd), rg \in LinGeoms(nr), fi \in 1..NF }
    IN one(6, 4) \cup (IF Swap THEN one(4, 6) ELSE {})
LinValid(k) == MatrixBacked(k.mk) => (VecFun(k.dg) /\ VecFun(k.rg))

BasisV(n) == [i \in 1..n |-> VUnit(n, i)]

LinEval(k, which) ==
    LET dg == k.dg
        rg == k.rg
        pd == dg.k
        pr == rg.k
        Fm == MR(CoreF(k.fi, rg.n, dg.n))          \* core operator (function space)
        Fs == MT(Fm)                               \* the adjoint supplied with it
        G  == GM(dg)
        Hp == GpM(rg)
        FwdV(x)    == MV(Hp, MV(Fm, MV(G, x)))
        AdjIntV(y) == MV(MT(G), MV(Fs, MV(MT(Hp), y)))                \* intended: transpose of Fwd
        AdjCodV(y) == F2PV(dg, MV(Fs, P2FV(rg, y)))                   \* coded: through fun2par / par2fun
        AdjV(y)    == IF "AdjointViaFun2par" \in Dev THEN AdjCodV(y) ELSE AdjIntV(y)
        FwdCols == F([i \in 1..pd |-> FwdV(VUnit(pd, i))])
        AdjCols == F([j \in 1..pr |-> AdjV(VUnit(pr, j))])
        AdjCodCols == F([j \in 1..pr |-> AdjCodV(VUnit(pr, j))])
        MatInt  == MM(Hp, MM(Fm, G))                                  \* par -> par matrix
        Matrix  == IF "MatrixIsStored" \in Dev /\ MatrixBacked(k.mk) THEN Fm ELSE MatInt
        \* transposed model
        TFwdInt(y) == MV(MT(G), MV(Fs, MV(MT(Hp), y)))                \* swapped callables, dual geometry maps
        TAdjInt(x) == MV(Hp, MV(Fm, MV(G, x)))
        TFwdCod(y) == LET a == RePF(rg, P2FV(rg, y))
                      IN IF a = IllTyped THEN IllTyped ELSE ReFP(dg, F2PV(dg, MV(Fs, a)))
        TAdjCod(x) == LET a == RePF(dg, P2FV(dg, x))
                      IN IF a = IllTyped THEN IllTyped ELSE ReFP(rg, F2PV(rg, MV(Fm, a)))
        Rewrap  == "TransposeRewraps" \in Dev
        TFwdV(y) == IF Rewrap THEN TFwdCod(y) ELSE IF "AdjointViaFun2par" \in Dev THEN AdjCodV(y) ELSE TFwdInt(y)
        TAdjV(x) == IF Rewrap THEN TAdjCod(x) ELSE TAdjInt(x)
        TFwdCols == F([j \in 1..pr |-> TFwdV(VUnit(pr, j))])
        TMatrix  == IF Rewrap /\ MatrixBacked(k.mk) THEN Fs ELSE MT(TFwdCols)
        x == VR(IVecA(pd, k.fi))
        y == VR(IVecB(pr, k.fi))
        pAdjoint == /\ \A i \in 1..pd : \A j \in 1..pr : FwdCols[i][j] = AdjCols[j][i]
                    /\ Dot(FwdV(x), y) = Dot(x, AdjV(y))
        pColumns == /\ NRows(Matrix) = pr /\ NCols(Matrix) = pd
                    /\ \A i \in 1..pd : MCol(Matrix, i) = FwdCols[i]
        pTranspose == /\ \A j \in 1..pr : TFwdCols[j] = AdjCols[j]
                      /\ \A i \in 1..pd : TAdjV(VUnit(pd, i)) = FwdCols[i]
                      /\ TMatrix = MT(Matrix)
        \* where the coded composition G+ F* H is the transpose: orthogonal geometry maps (DESIGN, C07)
        codedIsTranspose == \A i \in 1..pd : \A j \in 1..pr : FwdCols[i][j] = AdjCodCols[j][i]
        Ortho(g) == F2PLinear(g) /\ GpM(g) = MT(GM(g))
    IN CASE which = "adjoint"   -> pAdjoint
         [] which = "columns"   -> pColumns
         [] which = "transpose" -> pTranspose
         [] which = "ortho"     -> ((Ortho(dg) /\ Ortho(rg)) => codedIsTranspose)
         \* the transposed model is a linear model too: ITS matrix has the columns of ITS forward map.  A transposed model
         \* that is handed the (transposed) assembled matrix of the original satisfies this exactly when Matrix^T has the
         \* columns T.Fwd e_j - true on the intended design, false once the exposed adjoint is not the transpose.
         [] which = "tinherit"  -> \A j \in 1..pr : Matrix[j] = TFwdCols[j]
         [] which = "emit"      -> PrintT("@@CASE " \o ToJson(
             [kind |-> "lin", mk |-> k.mk, dg |-> dg, rg |-> rg, fi |-> k.fi,
              F |-> CoreF(k.fi, rg.n, dg.n), x |-> IVecA(pd, k.fi), y |-> IVecB(pr, k.fi),
              fwd_x |-> FwdV(x), adj_y |-> AdjIntV(y), adj_y_coded |-> AdjCodV(y),
              adj_cols_coded |-> AdjCodCols,
              matrix |-> MatInt, coded_is_transpose |-> codedIsTranspose,
              Gd |-> G, Gpd |-> (IF F2PLinear(dg) THEN GpM(dg) ELSE <<>>), Hr |-> GM(rg), Hpr |-> Hp,
              t_fwd_coded |-> TFwdCod(y), t_adj_coded |-> TAdjCod(x)]) \o " @@END")

\* ===========================================================================
\* C07: shipped test problems - convolutions with boundary conditions
\* ===========================================================================
BCs == {"periodic", "zero", "reflect", "mirror", "nearest"}
\* extension of the index m (0-based) of a signal of length n; -1 = zero
ExtIdx(m, n, bc) ==
    CASE bc = "periodic" -> Mod(m, n)
      [] bc = "zero"     -> IF m < 0 \/ m >= n THEN -1 ELSE m
      [] bc = "nearest"  -> IF m < 0 THEN 0 ELSE IF m >= n THEN n - 1 ELSE m
      [] bc = "reflect"  -> IF m < 0 THEN (-m) - 1 ELSE IF m >= n THEN ((2 * n) - 1) - m ELSE m     \* d c b a | a b c d | d c b a
      [] bc = "mirror"   -> IF m < 0 THEN -m ELSE IF m >= n THEN ((2 * n) - 2) - m ELSE m          \* d c b | a b c d | c b a

RECURSIVE ISum(_)
ISum(s)   == IF s = <<>> THEN 0 ELSE Head(s) + ISum(Tail(s))
IDot(u, v) == ISum([i \in 1..Len(u) |-> u[i] * v[i]])
IT(M)     == F([j \in 1..Len(M[1]) |-> [i \in 1..Len(M) |-> M[i][j]]])
IMV(A, x) == F([i \in 1..Len(A) |-> IDot(A[i], x)])
IUnit(n, k) == [i \in 1..n |-> IF i = k THEN 1 ELSE 0]

\* (P * x)[i] = sum_k P[k] x[i + c - k],  c = size \div 2   (scipy.ndimage.convolve1d; the padded fftconvolve of the 2-D problem)
Conv1Mat(n, P, bc) ==
    LET s == Len(P)  cc == s \div 2
    IN F([i \in 1..n |-> [j \in 1..n |->
          ISum([k \in 1..s |-> IF ExtIdx(((i - 1) + cc) - (k - 1), n, bc) = j - 1 THEN P[k] ELSE 0])]])
Conv1V(x, P, bc) ==
    LET n == Len(x)  s == Len(P)  cc == s \div 2
    IN F([i \in 1..n |-> ISum([k \in 1..s |->
            LET m == ExtIdx(((i - 1) + cc) - (k - 1), n, bc) IN IF m = -1 THEN 0 ELSE P[k] * x[m + 1]])])
Conv2Mat(n, P, bc) ==
    LET s == Len(P)  cc == s \div 2
    IN F([a \in 1..(n * n) |-> [b \in 1..(n * n) |->
          LET i1 == (a - 1) \div n  i2 == (a - 1) % n  j1 == (b - 1) \div n  j2 == (b - 1) % n
          IN ISum([kl \in 1..(s * s) |->
                LET k == (kl - 1) \div s  l == (kl - 1) % s
                IN IF ExtIdx((i1 + cc) - k, n, bc) = j1 /\ ExtIdx((i2 + cc) - l, n, bc) = j2 THEN P[k + 1][l + 1] ELSE 0])]])
Flip1(P) == [k \in 1..Len(P) |-> P[(Len(P) + 1) - k]]
Flip2(P) == [k \in 1..Len(P) |-> [l \in 1..Len(P) |-> P[(Len(P) + 1) - k][(Len(P) + 1) - l]]]

PSF1(id) == CASE id = 1 -> <<1, 2, 4>> [] id = 2 -> <<1, 2, 4, 8>> [] id = 3 -> <<1, 2, 1>> [] id = 4 -> <<1, 3, 3, 1>>
              [] id = 5 -> <<2, 0, 1, 0, 3>>
PSF2(id) == CASE id = 1 -> << <<1, 2, 3>>, <<4, 5, 6>>, <<7, 8, 10>> >>
              [] id = 2 -> << <<1, 2>>, <<3, 4>> >>
              [] id = 3 -> << <<1, 2, 1>>, <<2, 4, 2>>, <<1, 2, 1>> >>
              [] id = 4 -> << <<1, 2, 2, 1>>, <<2, 4, 4, 2>>, <<2, 4, 4, 2>>, <<1, 2, 2, 1>> >>

TPConfigs == { [part |-> "TP", pd |-> pd, n |-> (IF pd = 1 THEN 6 ELSE 4), psf |-> id, bc |-> bc] :
                 pd \in {1, 2}, id \in 1..(IF NF > 1 THEN 5 ELSE 4), bc \in BCs }
TPValid(k) == k.pd = 2 => k.psf <= 4

TPEval(k, which) ==
    IF k.pd = 1
    THEN LET P == PSF1(k.psf)
             A == Conv1Mat(k.n, P, k.bc)
             cols == F([j \in 1..k.n |-> Conv1V(IUnit(k.n, j), P, k.bc)])      \* A e_j
             \* matrix of the model: columns A e_j;  deviation: the same vectors stacked as rows
             ModelMat == IF "RowsInsteadOfColumns" \in Dev THEN cols ELSE IT(cols)
             x == IVecA(k.n, k.psf)
             y == IVecB(k.n, k.psf)
         IN CASE which = "convcolumns" -> /\ \A j \in 1..k.n : [i \in 1..k.n |-> ModelMat[i][j]] = cols[j]
                                             /\ A = IT(cols)
              [] which = "convadjoint" -> IDot(IMV(ModelMat, x), y) = IDot(x, IMV(IT(ModelMat), y))
              [] which = "emit" -> PrintT("@@CASE " \o ToJson(
                  [kind |-> "conv1", n |-> k.n, psf |-> P, psf_id |-> k.psf, bc |-> k.bc, A |-> A, x |-> x, y |-> y,
                   Ax |-> Conv1V(x, P, k.bc), ATy |-> IMV(IT(A), y), symmetric |-> (A = IT(A))]) \o " @@END")
    ELSE LET P == PSF2(k.psf)
             A == Conv2Mat(k.n, P, k.bc)
             Aflip == Conv2Mat(k.n, Flip2(P), k.bc)
             Adj == IF "FlippedPSFAdjoint" \in Dev THEN Aflip ELSE IT(A)
             x == IVecA(k.n * k.n, k.psf)
             y == IVecB(k.n * k.n, k.psf)
         IN CASE which = "convcolumns" -> TRUE
              [] which = "convadjoint" -> /\ IDot(IMV(A, x), y) = IDot(x, IMV(Adj, y))
                                          /\ \A j \in 1..(k.n * k.n) : IMV(Adj, IUnit(k.n * k.n, j)) = A[j]
              [] which = "emit" -> PrintT("@@CASE " \o ToJson(
                  [kind |-> "conv2", n |-> k.n, psf |-> P, psf_id |-> k.psf, bc |-> k.bc, A |-> A, x |-> x, y |-> y,
                   Ax |-> IMV(A, x), ATy |-> IMV(IT(A), y), flip_exact |-> (Aflip = IT(A)), flip_y |-> IMV(Aflip, y)]) \o " @@END")

\* ===========================================================================
\* C12: every representation of the input, gradient, renaming
\* ===========================================================================
GenKinds == {"gen_jac", "gen_grad", "gen_nograd", "lin_dense", "lin_sparse", "lin_func", "pde_grad", "pde_jac"}
IsLin(mk) == mk \in {"lin_dense", "lin_sparse", "lin_func"}
IsPde(mk) == mk \in {"pde_grad", "pde_jac"}
NeedsVec(mk) == mk \in {"lin_dense", "lin_sparse", "gen_jac", "pde_grad", "pde_jac"}    \* callables working on 1-D function vectors

\* the lean instance (NF = 1, quick tier) leaves out near-duplicates: visual-only ~ cont1d, balanced ~ unbalanced steps, discrete ~ cont1d
Lean == NF = 1
C12Dom(n) == { g \in LinGeoms(n) : /\ g.kind \notin {"default1d", "discrete"}
                                   /\ (Lean => (g.kind # "visual" /\ ~(g.kind = "step" /\ g.k = 2))) }
                \cup NonLinGeoms(n) \cup { Geo("step", n, StepK(n, FALSE), 1, n, "max", StepAsg(n, FALSE)) }
C12Rng(n) == { g \in LinGeoms(n) : /\ g.kind \notin {"default1d", "visual", "cont2d"} /\ ~(g.kind = "step" /\ g.k = 2)
                                   /\ (Lean => g.kind # "discrete") }
                \cup { Geo("step", n, StepK(n, TRUE), 1, n, "min", StepAsg(n, TRUE)), Geo("mappednl", n, n, 1, n, "", <<>>) }

\* models whose geometries are DEFAULT ones (given as an int / inferred from a matrix), with a few partner geometries:
\* these are the models the library could be tempted to "complete" (renaming, below)
DefGeo(n) == Geo("default1d", n, n, 1, n, "", <<>>)
C12DefPairs == LET pick(S, kinds) == {g \in S : g.kind \in kinds}
               IN ({DefGeo(6)} \X ({DefGeo(4)} \cup pick(C12Rng(4), {"cont1d", "mapped"})))
                  \cup (pick(C12Dom(6), {"cont1d", "mapped", "linexp"}) \X {DefGeo(4)})

C12Configs == { [part |-> "C12", mk |-> mk, dg |-> dg, rg |-> rg, fi |-> fi] :
                  mk \in GenKinds, dg \in C12Dom(6), rg \in C12Rng(4), fi \in 1..NF }
              \cup { [part |-> "C12", mk |-> mk, dg |-> p[1], rg |-> p[2], fi |-> fi] :
                  mk \in GenKinds, p \in C12DefPairs, fi \in 1..NF }

\* geometries a DISTRIBUTION may carry when a model with p parameters is applied to it (model(dist) = renaming): default,
\* identity-like, mapped, an expansion in all modes with decaying coefficients (KL-like; realised by cuqi's KLExpansion) and a
\* step expansion on a grid of 2p nodes.  DistGM = matrix of their par2fun.
DistGeoSeq(p) == << Geo("default1d", p, p, 1, p, "", <<>>), Geo("cont1d", p, p, 1, p, "", <<>>),
                    Geo("discrete", p, p, 1, p, "", <<>>), Geo("mapped", p, p, 1, p, "", <<>>),
                    Geo("klfull", p, p, 1, p, "", <<>>),
                    Geo("step", 2 * p, p, 1, 2 * p, "mean", [a \in 1..(2 * p) |-> (a + 1) \div 2]) >>
DistGM(g) == CASE g.kind = "mapped" -> MR(MapM(g.n))
               [] g.kind = "klfull" -> MDiag([i \in 1..g.n |-> Q(1, i)])
               [] g.kind = "step"   -> Expand(g.asg, g.k)
               [] OTHER             -> MId(g.n)
C12Valid(k) == /\ (NeedsVec(k.mk) => (VecFun(k.dg) /\ VecFun(k.rg)))
               /\ (IsPde(k.mk) => Linear(k.dg))          \* keeps the total degree <= 4 (exact difference stencil)

\* unipotent "PDE":  (I + N(u)) s = b,  N(u) strictly upper triangular with the six entries of u; observed s
PdePos == << <<1, 2>>, <<1, 3>>, <<1, 4>>, <<2, 3>>, <<2, 4>>, <<3, 4>> >>
PdeB(v) == VR(<<1, -2, v, 2>>)
PdeA(u) == F([i \in 1..4 |-> [j \in 1..4 |-> IF i = j THEN One
                                           ELSE LET S == {p \in 1..6 : PdePos[p] = <<i, j>>}
                                                IN IF S = {} THEN Zero ELSE u[CHOOSE p \in S : TRUE]]])

C12Eval(k, which) ==
    LET dg == k.dg
        rg == k.rg
        pd == dg.k
        pr == rg.k
        A  == MR(CoreF(k.fi, rg.n, dg.n))
        B  == IF IsLin(k.mk) THEN MZero(rg.n, dg.n) ELSE MR(CoreB(k.fi, rg.n, dg.n))
        Sq(u) == F([i \in 1..Len(u) |-> RSq(u[i])])
        \* core operator on function values and its transposed Jacobian
        FV(u)  == IF IsPde(k.mk) THEN MSolve(PdeA(u), PdeB(k.fi)) ELSE VAdd(MV(A, u), MV(B, Sq(u)))
        JFT(u, d) == IF IsPde(k.mk)
                     THEN LET Ai == MInv(PdeA(u))
                              s  == MV(Ai, PdeB(k.fi))
                              z  == MV(MT(Ai), d)
                          IN F([p \in 1..6 |-> RNeg(RMul(z[PdePos[p][1]], s[PdePos[p][2]]))])
                     ELSE LET Btd == MV(MT(B), d)
                          IN VAdd(MV(MT(A), d), F([j \in 1..Len(u) |-> RMul(RMul(Two, u[j]), Btd[j])]))
        \* --- the five input representations -------------------------------------------------
        Apply(v) == F2PV(rg, FV(P2FV(dg, v)))                        \* H+( F( G v ) )
        ToFun(rep, v) ==                                              \* function value handed to the core operator
            CASE rep = "par_nd"  -> P2FV(dg, v)                       \* flagged is_par = TRUE
              [] rep = "fun_nd"  -> P2FV(dg, v)                       \* the caller passes G v flagged is_par = FALSE: used as is
              [] rep = "arr_par" -> P2FV(dg, v)                       \* CUQIarray(v, is_par=TRUE).funvals
              [] rep = "arr_fun" -> IF "ArrayFlagIgnored" \in Dev THEN RePF(dg, P2FV(dg, v)) ELSE P2FV(dg, v)
              [] rep = "samples" -> IF "SamplesItemsAsFunvals" \in Dev THEN (IF pd = dg.n THEN v ELSE IllTyped) ELSE P2FV(dg, v)
              \* a sample collection of FUNCTION values (is_par = FALSE): its columns G v are used as they are
              [] rep = "samples_fun" -> IF "SamplesFunItemsAsParameters" \in Dev THEN RePF(dg, P2FV(dg, v)) ELSE P2FV(dg, v)
        ApplyRep(rep, v) == LET u == ToFun(rep, v) IN IF u = IllTyped THEN IllTyped ELSE F2PV(rg, FV(u))
        Reps == {"par_nd", "fun_nd", "arr_par", "arr_fun", "samples", "samples_fun"}
        vs == << VR(IVecA(pd, k.fi)), VR(IVecB(pd, k.fi)), VR(IVecA(pd, k.fi + 3)) >>
        pOneOutput == \A i \in 1..3 : \A rep \in Reps : ApplyRep(rep, vs[i]) = Apply(vs[i])
        \* --- gradient ------------------------------------------------------------------------
        w == VR(IVecB(pd, k.fi + 1))
        d == VR(IVecA(pr, k.fi + 2))
        GradDefined == F2PLinear(rg)                                  \* the par -> par map is differentiable
        GradTrue == LET u == P2FV(dg, w)
                        inner == JFT(u, MV(MT(GpM(rg)), d))
                    IN IF "GradientOmitsGeometryDerivative" \in Dev /\ HasGrad(dg) THEN F2PV(dg, inner)
                       ELSE JGT(dg, w, inner)
        Refused == \/ k.mk = "gen_nograd"
                   \/ ~IdType(rg)
                   \/ (~IdType(dg) /\ ~HasGrad(dg))
        RefusedWrtFun == Refused \/ ~HasF2P(dg)                       \* wrt given as function values
        \* exact 5-point stencil (total degree <= 4):  p'(0) = (p(-2) - 8 p(-1) + 8 p(1) - p(2)) / 12
        Shift(j, t) == VAdd(w, VScale(R(t), VUnit(pd, j)))
        Deriv(j) == LET pm2 == Dot(d, Apply(Shift(j, -2)))  pm1 == Dot(d, Apply(Shift(j, -1)))
                        pp1 == Dot(d, Apply(Shift(j, 1)))   pp2 == Dot(d, Apply(Shift(j, 2)))
                    IN RDiv(RAdd(RSub(pm2, RMul(R(8), pm1)), RSub(RMul(R(8), pp1), pp2)), R(12))
        pChainRule == GradDefined => \A j \in 1..pd : GradTrue[j] = Deriv(j)
        \* --- renaming ------------------------------------------------------------------------
        \* model(dist): a pool of model records.  The distribution carries a name and a geometry OF ITS OWN (any kind with the
        \* model's parameter dimension).  Renaming appends a copy that differs in the argument name ONLY - whatever geometry the
        \* distribution carries and whether or not the model's own geometries are default ones: same geometries, same forward map
        \* on every input, original record untouched.
        m0 == [arg |-> "x", dg |-> dg, rg |-> rg, op |-> k.mk]
        Renamed(m, dist) == IF "RenameAdoptsDistributionGeometry" \in Dev /\ m.dg.kind = "default1d" /\ dist.geo.kind # "default1d"
                            THEN [m EXCEPT !.arg = dist.name, !.dg = dist.geo]
                            ELSE [m EXCEPT !.arg = dist.name]
        PoolAfter(dist) == IF "RenameMutatesOriginal" \in Dev THEN << Renamed(m0, dist), Renamed(m0, dist) >>
                           ELSE << m0, Renamed(m0, dist) >>
        \* forward map exposed by a model record of the pool (its own domain geometry in front of the core operator); a record with
        \* the original's geometries and operator has the original's forward map
        ApplyOf(m, v) == LET u == MV(DistGM(m.dg), v) IN IF Len(u) # dg.n THEN IllTyped ELSE F2PV(m.rg, FV(u))
        SameForward(m) == \/ (m.dg = dg /\ m.rg = rg /\ m.op = k.mk)
                          \/ \A i \in 1..3 : ApplyOf(m, vs[i]) = Apply(vs[i])
        DistGeos == DistGeoSeq(pd)
        pRename == \A gi \in 1..Len(DistGeos) :
                     LET pool == PoolAfter([name |-> "z", geo |-> DistGeos[gi]])
                     IN /\ pool[1] = m0                                                  \* original untouched
                        /\ pool[2] = [m0 EXCEPT !.arg = "z"]                             \* only the name differs
                        /\ SameForward(pool[1]) /\ SameForward(pool[2])                  \* hence the same forward values
    IN CASE which = "oneoutput" -> pOneOutput
         [] which = "chainrule" -> pChainRule
         [] which = "rename"    -> pRename
         [] which = "emit"      -> PrintT("@@CASE " \o ToJson(
             [kind |-> "c12", mk |-> k.mk, dg |-> dg, rg |-> rg, fi |-> k.fi,
              A |-> CoreF(k.fi, rg.n, dg.n), B |-> (IF IsLin(k.mk) THEN <<>> ELSE CoreB(k.fi, rg.n, dg.n)),
              pde_b |-> <<1, -2, k.fi, 2>>,
              Gd |-> (IF Linear(dg) THEN GM(dg) ELSE <<>>), Gpd |-> (IF F2PLinear(dg) THEN GpM(dg) ELSE <<>>),
              Hr |-> (IF Linear(rg) THEN GM(rg) ELSE <<>>), Hpr |-> (IF F2PLinear(rg) THEN GpM(rg) ELSE <<>>),
              vs |-> <<IVecA(pd, k.fi), IVecB(pd, k.fi), IVecA(pd, k.fi + 3)>>,
              fs |-> [i \in 1..3 |-> P2FV(dg, vs[i])],
              outs |-> [i \in 1..3 |-> Apply(vs[i])],
              w |-> IVecB(pd, k.fi + 1), wf |-> P2FV(dg, w), d |-> IVecA(pr, k.fi + 2),
              rename |-> [dists |-> [gi \in 1..Len(DistGeos) |-> [geo |-> DistGeos[gi], G |-> DistGM(DistGeos[gi])]],
                          expect |-> [arg |-> "z", dg |-> dg, rg |-> rg, op |-> k.mk]],
              refused |-> Refused, refused_wrt_fun |-> RefusedWrtFun,
              grad_defined |-> GradDefined, grad |-> (IF GradDefined THEN GradTrue ELSE <<>>)]) \o " @@END")

\* ===========================================================================
\* C07, part "SEQ": a sequence of public operations on ONE model object
\* ===========================================================================
\* The configurations above describe a freshly constructed model.  The geometries of a model are public attributes
\* (`:ivar domain_geometry`, `:ivar range_geometry`; the test-suite and the demos assign them), get_matrix() and T may keep
\* what they computed.  This part is a small state machine over one model object:
\*     GetMatrix                     m.get_matrix()
\*     T                             t = m.T        (the transposed model the user now holds; its forward / adjoint are read)
\*     TGetMatrix                    t.get_matrix()
\*     TT                            t.T            (its forward / adjoint / get_matrix() are read)
\*     SetDomainGeometry(g')         m.domain_geometry = g'      (the user drops t)
\*     SetRangeGeometry(g')          m.range_geometry = g'
\* The abstract state records FOR WHICH PAIR of geometries each value that an object may keep was computed:
\*     mc        pair of the assembled matrix m keeps                      (<<>> = none)
\*     t.p       pair the held transposed model was built for
\*     t.mc      pair of the matrix the held transposed model keeps (its own, or handed over by m: t.inh)
\* INTENDED design: whatever a call returns is the value LinEval gives for the CURRENT pair (d, r) - the exposed values
\* are a function of the current geometries alone, in any order of get_matrix / T / assignments.  forward / adjoint are
\* read after every action.  Deviations:
\*   StaleMatrixCache     an assignment of a geometry leaves the assembled matrix in place
\*   TransposeKeptWhileGeometriesCompareEqual   m keeps its transposed model and hands it out again as long as the
\*                        library's `==` calls the geometries equal (a default geometry `==` every Continuous1D subclass
\*                        on the same grid, whatever its par2fun)
\*   AdjointViaFun2par    (above) together with the hand-over of the assembled matrix by a function-backed model:
\*                        the matrix of the transposed model no longer has the columns of its forward map (SeqTColumns)
\* The numbers come from LinEval: a behaviour is emitted as the sequence of its actions with the pair (d, r) after each
\* action and the pair(s) the reported values belong to (equal to (d, r) in the deciding configuration; the `asbuilt`
\* configuration emits what the deviations predict instead, which is how a mismatch is attributed to a recorded finding).
SeqDepth == IF Lean THEN 3 ELSE 4
SeqD == << Geo("default1d", 6, 6, 1, 6, "", <<>>),
           Geo("step", 6, StepK(6, FALSE), 1, 6, "mean", StepAsg(6, FALSE)),
           Geo("mapped", 6, 6, 1, 6, "", <<>>),
           Geo("linexp", 6, LinK(6), 1, 6, "", <<>>) >>
        \o (IF Lean THEN <<>> ELSE << Geo("imgF", 6, 6, 2, 3, "", <<>>) >>)
SeqR == << Geo("default1d", 4, 4, 1, 4, "", <<>>),
           Geo("step", 4, StepK(4, FALSE), 1, 4, "mean", StepAsg(4, FALSE)),
           Geo("mapped", 4, 4, 1, 4, "", <<>>) >>
        \o (IF Lean THEN <<>> ELSE << Geo("linexp", 4, LinK(4), 1, 4, "", <<>>) >>)
\* <<model kind, domain geometry, range geometry, core operator>> of the freshly constructed model
SeqStart == IF Lean
            THEN { <<mk, p[1], p[2], 1>> : mk \in {"dense", "func"}, p \in {<<1, 1>>, <<2, 3>>, <<4, 2>>, <<3, 1>>} }
                 \cup { <<"sparse", 1, 1, 1>>, <<"sparse", 2, 3, 1>> }
            ELSE { <<mk, p[1], p[2], p[3]>> : mk \in LinKinds, p \in {<<1, 1, 1>>, <<2, 3, 2>>, <<4, 2, 3>>, <<3, 4, 1>>} }
                 \cup { <<"func", 5, 2, 2>> }
SeqGeoOK(mk, g) == MatrixBacked(mk) => VecFun(g)

\* the library's `==` between the geometry a kept object was built with (old) and the one now assigned (new), for the
\* realisations of the replay (unit-spaced grids): _DefaultGeometry1D.__eq__ accepts every Continuous1D subclass
GeoLibEq(old, new) == \/ old = new
                      \/ (old.kind = "default1d" /\ new.kind \in {"cont1d", "step"} /\ new.n = old.n)
SeqLibEq(p, q) == GeoLibEq(SeqD[p[1]], SeqD[q[1]]) /\ GeoLibEq(SeqR[p[2]], SeqR[q[2]])

SeqCur(s)    == <<s.d, s.r>>
SeqIdPair(p) == IdType(SeqD[p[1]]) /\ IdType(SeqR[p[2]])
NoT          == [on |-> FALSE, p |-> <<>>, mc |-> <<>>, inh |-> FALSE]
SeqLog(s, s2, a, g, tp, mp, inh) ==
    [s2 EXCEPT !.hist = Append(s.hist, [a |-> a, g |-> g, d |-> s2.d, r |-> s2.r, tp |-> tp, mp |-> mp, inh |-> inh])]

\* get_matrix() of an object with the pair `cur`, matrix kept for the pair `mc`: <<pair of the returned matrix, pair kept afterwards>>.
\* (a matrix-backed model with identity-like geometries returns the matrix it was given: nothing is assembled or kept)
SeqMatrixOf(mk, cur, mc) ==
    LET stored == MatrixBacked(mk) /\ SeqIdPair(cur)
        rp == IF stored \/ mc = <<>> THEN cur ELSE mc
    IN <<rp, IF stored THEN mc ELSE rp>>

SeqGetMatrix(s) ==
    LET m == SeqMatrixOf(s.mk, SeqCur(s), s.mc)
        s2 == [s EXCEPT !.mc = m[2]]
    IN SeqLog(s, s2, "G", 0, <<>>, m[1], FALSE)
SeqSet(s, side, g) ==
    LET s1 == IF side = "D" THEN [s EXCEPT !.d = g] ELSE [s EXCEPT !.r = g]
        s2 == [s1 EXCEPT !.mc = IF "StaleMatrixCache" \in Dev THEN s.mc ELSE <<>>, !.t = NoT]
    IN SeqLog(s, s2, "S" \o side, g, <<>>, <<>>, FALSE)
SeqT(s) ==
    LET cur  == SeqCur(s)
        kept == "TransposeKeptWhileGeometriesCompareEqual" \in Dev
        keep == kept /\ s.tc.on /\ SeqLibEq(s.tc.p, cur)
        \* a function-backed model hands its assembled matrix, transposed, to the transposed model
        hand == IF s.mk = "func" THEN s.mc ELSE <<>>
        t2   == IF keep THEN s.tc ELSE [on |-> TRUE, p |-> cur, mc |-> hand, inh |-> hand # <<>>]
        s2   == [s EXCEPT !.t = t2, !.tc = IF kept THEN t2 ELSE NoT]
    IN SeqLog(s, s2, "T", 0, t2.p, <<>>, FALSE)
SeqTG(s) ==
    LET m == SeqMatrixOf(s.mk, s.t.p, s.t.mc)
        t2 == [s.t EXCEPT !.mc = m[2]]
        s2 == [s EXCEPT !.t = t2, !.tc = IF s.tc.on THEN t2 ELSE NoT]
    IN SeqLog(s, s2, "TG", 0, s.t.p, m[1], s.t.inh)
\* (logged `inh` of TT: t.T is handed a matrix that t assembled ITSELF from its forward map)
SeqTT(s) ==
    LET hand == IF s.mk = "func" THEN s.t.mc ELSE <<>>
    IN SeqLog(s, s, "TT", 0, s.t.p, IF hand # <<>> THEN hand ELSE s.t.p, hand # <<>> /\ ~s.t.inh)

InitSeq == c \in { [part |-> "SEQ", mk |-> k[1], fi |-> k[4], d0 |-> k[2], r0 |-> k[3], d |-> k[2], r |-> k[3], mc |-> <<>>,
                    t |-> NoT, tc |-> NoT, hist |-> <<>>] : k \in SeqStart }
NextSeq == /\ c.part = "SEQ" /\ Len(c.hist) < SeqDepth
           /\ \/ c' = SeqGetMatrix(c)
              \/ c' = SeqT(c)
              \/ c.t.on /\ c' = SeqTG(c)
              \/ c.t.on /\ c' = SeqTT(c)
              \/ \E g \in 1..Len(SeqD) : g # c.d /\ SeqGeoOK(c.mk, SeqD[g]) /\ c' = SeqSet(c, "D", g)
              \/ \E g \in 1..Len(SeqR) : g # c.r /\ SeqGeoOK(c.mk, SeqR[g]) /\ c' = SeqSet(c, "R", g)

\* may the transposed model of a function-backed model be handed the transposed assembled matrix for this pair ?
SeqInheritOK == F([fi \in 1..NF |-> [d \in 1..Len(SeqD) |-> [r \in 1..Len(SeqR) |->
                    LinEval([part |-> "C07", mk |-> "func", dg |-> SeqD[d], rg |-> SeqR[r], fi |-> fi], "tinherit")]]])

SeqEmit(s) ==
    IF s.hist = <<>>
    THEN PrintT("@@CASE " \o ToJson([kind |-> "seqinit", mk |-> s.mk, fi |-> s.fi, d |-> s.d, r |-> s.r, D |-> SeqD, R |-> SeqR,
                                      depth |-> SeqDepth]) \o " @@END")
    ELSE IF Len(s.hist) = SeqDepth
    THEN PrintT("@@CASE " \o ToJson([kind |-> "seq", mk |-> s.mk, fi |-> s.fi, d0 |-> s.d0, r0 |-> s.r0, steps |-> s.hist]) \o " @@END")
    ELSE TRUE

\* ===========================================================================
\* C07, part "SEQ2": the same operations on TWO objects - a model and a shallow copy of it
\* ===========================================================================
\* model(distribution) returns a copy of the model that differs in the name of its argument only (it is what the user
\* stores in Gaussian(model(x), ...)); copy.copy(model) is the same without the renaming.  The copy is an object of its
\* own:
\*     Copy(k)                       m2 = m1(x)  (k = "call", x a named distribution of the model's parameter dimension)
\*                                   m2 = copy(m1)  (k = "copy")                         once per behaviour
\* and from then on every action of part SEQ is applied to EITHER object, in any order (field `o` of the logged step:
\* 1 = the original, 2 = the copy; each object has its own held transposed model).  The abstract state is one SEQ record
\* per object (obj[o]: d, r, mc, t, tc); an action on an object IS the SEQ action on its record and leaves the record of
\* the other object alone.  The copy starts with the pair of the original and with the assembled matrix the original
\* keeps (a value for that very pair); it has no transposed model yet.
\* INTENDED design: each object answers for ITS OWN current pair of geometries, whatever was assigned to or asked from
\* the other one - a geometry assigned to the copy through the public setter is the copy's, the original is unaffected,
\* and vice versa.  (Nothing is said about mutating a geometry object in place: the actions only ASSIGN geometries.)
\* Deviation:
\*   CopySharesAssembledMatrix     the assembled matrix lives in ONE cell shared by the object and its copy (a container
\*                        copied by reference, filled and emptied in place): what one object assembles or drops the
\*                        other one keeps or loses too, so an object may report the matrix of the OTHER object's pair
\* Bounds: before the copy at most Seq2Pre of the calls after which an object may keep something (get_matrix; T in the
\* full instance) - a copy taken after an assignment is the copy of another start configuration; after the copy every
\* behaviour of Seq2Post actions.  Assignable geometries: the cyclic neighbours of the current one in the pool.  The lean
\* instance (quick tier) assigns the next one to the original and the previous one to the copy (the two objects never get
\* the same new geometry), leaves t.get_matrix() / t.T to the full instance, ends every behaviour with an action that
\* returns something (the comparison of forward / adjoint that follows a last assignment follows every other assignment
\* too) and does not fix the realisation of Copy ("any": the replay alternates between the two).
Seq2Pre   == 1
Seq2Post  == 3
Seq2Kinds == IF Lean THEN {"any"} ELSE {"call", "copy"}
Seq2Start == IF Lean
             THEN { <<"dense", 2, 3, 1>>, <<"sparse", 1, 1, 1>>, <<"func", 1, 1, 1>>, <<"func", 4, 2, 1>> }
             ELSE SeqStart
Seq2Alt(pool, cur, g, o) ==
    LET n   == Len(pool)
        nxt == (cur % n) + 1
        prv == (((cur + n) - 2) % n) + 1
    IN g # cur /\ (IF Lean THEN g = (IF o = 1 THEN nxt ELSE prv) ELSE g \in {nxt, prv})

Seq2Pairs(objs) == [i \in 1..Len(objs) |-> <<objs[i].d, objs[i].r>>]
\* the SEQ record of object o (the SEQ actions are applied to it) ...
Seq2View(s, o) == [mk |-> s.mk, d |-> s.obj[o].d, r |-> s.obj[o].r, mc |-> s.obj[o].mc, t |-> s.obj[o].t, tc |-> s.obj[o].tc,
                   hist |-> s.hist]
\* ... and the state after the SEQ action turned it into v: the record of o is replaced, the other record is untouched
\* (deviation: the cell of the assembled matrix is shared - whatever o now keeps is what the other object keeps)
Seq2Put(s, o, v) ==
    LET shared == "CopySharesAssembledMatrix" \in Dev
        objs == [i \in 1..Len(s.obj) |->
                    IF i = o THEN [d |-> v.d, r |-> v.r, mc |-> v.mc, t |-> v.t, tc |-> v.tc]
                    ELSE IF shared THEN [s.obj[i] EXCEPT !.mc = v.mc] ELSE s.obj[i]]
        st == v.hist[Len(v.hist)]
    IN [s EXCEPT !.obj = objs, !.post = IF Len(s.obj) = 2 THEN @ + 1 ELSE @,
                 !.hist = Append(s.hist, [a |-> st.a, g |-> st.g, o |-> o, d |-> st.d, r |-> st.r, tp |-> st.tp, mp |-> st.mp,
                                          inh |-> st.inh, pairs |-> Seq2Pairs(objs)])]
Seq2Copy(s, k) ==
    LET o1 == s.obj[1]
        o2 == [o1 EXCEPT !.t = NoT]
    IN [s EXCEPT !.obj = <<o1, o2>>, !.ck = k, !.post = 0,
                 !.hist = Append(s.hist, [a |-> "C", g |-> 0, o |-> 2, d |-> o2.d, r |-> o2.r, tp |-> <<>>, mp |-> <<>>,
                                          inh |-> FALSE, pairs |-> Seq2Pairs(<<o1, o2>>)])]

InitSeq2 == c \in { [part |-> "SEQ2", mk |-> k[1], fi |-> k[4], d0 |-> k[2], r0 |-> k[3], ck |-> "", post |-> 0,
                     obj |-> << [d |-> k[2], r |-> k[3], mc |-> <<>>, t |-> NoT, tc |-> NoT] >>, hist |-> <<>>] : k \in Seq2Start }
NextSeq2 == /\ c.part = "SEQ2"
            /\ \/ Len(c.obj) = 1 /\ \E k \in Seq2Kinds : c' = Seq2Copy(c, k)
               \/ \E o \in 1..Len(c.obj) :
                    LET v == Seq2View(c, o)
                        two == Len(c.obj) = 2
                        mayset == two /\ (Lean => c.post < Seq2Post - 1)
                    IN /\ IF two THEN c.post < Seq2Post ELSE Len(c.hist) < Seq2Pre
                       /\ \/ c' = Seq2Put(c, o, SeqGetMatrix(v))
                          \/ (two \/ ~Lean) /\ c' = Seq2Put(c, o, SeqT(v))
                          \/ two /\ v.t.on /\ ~Lean /\ c' = Seq2Put(c, o, SeqTG(v))
                          \/ two /\ v.t.on /\ ~Lean /\ c' = Seq2Put(c, o, SeqTT(v))
                          \/ mayset /\ \E g \in 1..Len(SeqD) : Seq2Alt(SeqD, v.d, g, o) /\ SeqGeoOK(c.mk, SeqD[g])
                                                               /\ c' = Seq2Put(c, o, SeqSet(v, "D", g))
                          \/ mayset /\ \E g \in 1..Len(SeqR) : Seq2Alt(SeqR, v.r, g, o) /\ SeqGeoOK(c.mk, SeqR[g])
                                                               /\ c' = Seq2Put(c, o, SeqSet(v, "R", g))

Seq2Emit(s) ==
    IF s.hist = <<>>
    THEN PrintT("@@CASE " \o ToJson([kind |-> "seq2init", mk |-> s.mk, fi |-> s.fi, d |-> s.d0, r |-> s.r0, D |-> SeqD, R |-> SeqR,
                                      pre |-> Seq2Pre, post |-> Seq2Post]) \o " @@END")
    ELSE IF Len(s.obj) = 2 /\ s.post = Seq2Post
    THEN PrintT("@@CASE " \o ToJson([kind |-> "seq2", mk |-> s.mk, fi |-> s.fi, d0 |-> s.d0, r0 |-> s.r0, ck |-> s.ck,
                                      steps |-> s.hist]) \o " @@END")
    ELSE TRUE

\* ===========================================================================
Configs == CASE Part = "C07" -> {k \in LinConfigs : LinValid(k)}
             [] Part = "TP"  -> {k \in TPConfigs : TPValid(k)}
             [] Part = "C12" -> {k \in C12Configs : C12Valid(k)}
             [] Part = "SEQ" -> {}
             [] Part = "SEQ2" -> {}

\* one named invariant per property, so that a deviation run names what it violates
Adjoint     == c.part = "C07" => LinEval(c, "adjoint")        \* <Fwd x, y> = <x, Adj y>
Columns     == c.part = "C07" => LinEval(c, "columns")        \* Matrix e_i = Fwd e_i
Transpose   == c.part = "C07" => LinEval(c, "transpose")      \* T = (Adj, Fwd, Matrix^T)
OrthoFact   == c.part = "C07" => LinEval(c, "ortho")
ConvColumns == c.part = "TP"  => TPEval(c, "convcolumns")     \* matrix of the 1-D problem has the columns A e_j
ConvAdjoint == c.part = "TP"  => TPEval(c, "convadjoint")     \* adjoint of the convolution is its transpose
OneOutput   == c.part = "C12" => C12Eval(c, "oneoutput")      \* five representations, one output
ChainRule   == c.part = "C12" => C12Eval(c, "chainrule")      \* gradient = exact derivative of the par -> par map
Rename      == c.part = "C12" => C12Eval(c, "rename")
\* SEQ: whatever an object keeps was computed for the geometries the model has NOW
SeqMatrixCurrent    == c.part = "SEQ" => (c.mc # <<>> => c.mc = SeqCur(c))
SeqTransposeCurrent == c.part = "SEQ" => (c.t.on => (c.t.p = SeqCur(c) /\ (c.t.mc # <<>> => c.t.mc = c.t.p)))
SeqTColumns         == c.part = "SEQ" => ((c.t.on /\ c.t.inh) => SeqInheritOK[c.fi][c.t.mc[1]][c.t.mc[2]])
\* SEQ2: the same for each of the two objects - what an object keeps was computed for ITS OWN current geometries
Seq2Objs == IF c.part = "SEQ2" THEN 1..Len(c.obj) ELSE {}
Seq2MatrixCurrent    == \A o \in Seq2Objs : (c.obj[o].mc # <<>> => c.obj[o].mc = <<c.obj[o].d, c.obj[o].r>>)
Seq2TransposeCurrent == \A o \in Seq2Objs : LET t == c.obj[o].t
                                             IN t.on => (t.p = <<c.obj[o].d, c.obj[o].r>> /\ (t.mc # <<>> => t.mc = t.p))
Seq2TColumns         == \A o \in Seq2Objs : LET t == c.obj[o].t
                                             IN (t.on /\ t.inh) => SeqInheritOK[c.fi][t.mc[1]][t.mc[2]]
EmitCases   == Emit => CASE c.part = "C07" -> LinEval(c, "emit")
                         [] c.part = "TP"  -> TPEval(c, "emit")
                         [] c.part = "C12" -> C12Eval(c, "emit")
                         [] c.part = "SEQ" -> SeqEmit(c)
                         [] c.part = "SEQ2" -> Seq2Emit(c)
                         [] OTHER          -> TRUE

\* TLC evaluates the invariants of initial states in one thread: the initial states are seeds (one per domain geometry /
\* boundary condition) and the configurations are their successors, so that the workers share the enumeration.
SeedKey(k) == IF k.part = "TP" THEN <<k.bc>> ELSE <<k.dg>>
Init == c \in {[part |-> "seed", key |-> SeedKey(k)] : k \in Configs}
Next == \/ c.part = "seed" /\ c' \in {k \in Configs : SeedKey(k) = c.key}
        \/ c.part # "seed" /\ UNCHANGED c
Spec == Init /\ [][Next]_c
\* flat enumeration (used by the deviation configurations: TLC stops at the first violating initial state)
InitFlat == c \in Configs
NextFlat == UNCHANGED c
=============================================================================
