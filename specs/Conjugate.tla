------------------------------ MODULE Conjugate ------------------------------
(***************************************************************************)
(* Property C10: conjugate and direct samplers draw from the exact         *)
(* conditional.                                                            *)
(*                                                                         *)
(* A posterior in one hyper-parameter d:                                   *)
(*   likelihood  Gaussian(mean, cov|prec|sqrtcov|sqrtprec = f(d))          *)
(*            or GMRF(mean, prec = f(d), order, bc)        of a fixed      *)
(*               data vector b, the mean possibly A x (linear model) or    *)
(*               mu0 + g(d) u  (dependence through the mean),              *)
(*            or LMRF(location, scale = f(d), bc)  (approximate sampler),  *)
(*   prior       Gamma(alpha, beta) on d (gdim components).                *)
(*                                                                         *)
(* Documented densities (docstrings of Gaussian, GMRF, Gamma):             *)
(*   Gaussian/GMRF with precision s P (P = D^T D the unit-parameter        *)
(*   precision, D from module DiffOps; D = I for the i.i.d. Gaussian):     *)
(*     log p(b) = k/2 log s - s/2 |D (mean - b)|^2 + const, k = rank P     *)
(*   Gamma:  log p(d) = (alpha - 1) log d - beta d + const.                *)
(* With s = s(d) the precision scale implied by (attribute, dependence):   *)
(*   log p(d | b) = k/2 log s(d) - s(d)/2 quad(d) + (alpha-1) log d        *)
(*                  - beta d + const.                                      *)
(* For s(d) = c d and a mean free of d this is Gamma(k/2 + alpha,          *)
(* c q/2 + beta) with q = |D (mean - b)|^2  -  the conjugate update.       *)
(*                                                                         *)
(* The sampler is modelled with the granularity of the code:               *)
(*   Build            the posterior is formed (structure of the likelihood:*)
(*                    dimension m, rank k, quadratic-form coefficients)    *)
(*   Validate         structural validation by probing the callable at     *)
(*                    1, 10, 100  ->  accepted / rejected                  *)
(*   ComputeShapeRate shape = k/2 + alpha, rate = |L(1)(Ax - b)|^2/2 + beta*)
(*                    with L the square-root precision at UNIT parameter   *)
(*   Draw             a value is drawn from Gamma(shape, rate), becomes    *)
(*                    the current point and is appended to the chain       *)
(* Direct sampler: Validate probes target.sample once; every Draw is one   *)
(* call of the target's own sampling method.                               *)
(*                                                                         *)
(* A sampler object outlives its target (the experimental Sampler.target   *)
(* setter: "Set the target density. Runs validation of the target";        *)
(* HybridGibbs assigns a new conditional to every block sampler on every   *)
(* sweep).  The posterior c therefore reaches the sampler on one of the    *)
(* paths `via`:                                                            *)
(*   ctor         Validate    the constructor is given c                   *)
(*   set_none     ConstructBase (no target) . SetTarget(c)                 *)
(*   set_valid    ConstructBase (a supported posterior BaseInst(c)) .      *)
(*                SetTarget(c)                                             *)
(*   set_stepped  ConstructBase (BaseInst(c)) . StepBase . SetTarget(c)    *)
(* SetTarget runs the same validation as Validate: the decision must not   *)
(* depend on what the sampler held before (DecisionIgnoresHistory), and    *)
(* everything computed afterwards belongs to c (DrawnIsTarget on every     *)
(* path).                                                                  *)
(*                                                                         *)
(* Logarithms are symbolic: a value is <<q0, q2, q3, q5>> = q0 + q2 log 2  *)
(* + q3 log 3 + q5 log 5 with rational coefficients.                       *)
(*                                                                         *)
(* Named deviations (off in the deciding configurations):                  *)
(*   DevShapeLen        shape uses len(b)/2 instead of rank/2              *)
(*   DevScaleAtCurrent  L evaluated at the current point instead of 1      *)
(*   DevNoProbe         no validation of the functional dependence         *)
(*   DevValidateFirstOnly  only the first target of a sampler is validated *)
(*   DevStalePair       the conjugate pair of the first target is kept     *)
(*   DevShapeLenMean    shape uses len(mean AS GIVEN)/2 instead of rank/2  *)
(*   DevCacheFirstDraw  the Gamma computed for the first draw is kept      *)
(*                                                                         *)
(* Input FORMS.  The same posterior can be written down in several ways:   *)
(*   mform  the mean as a full vector ("vector": the standard content,     *)
(*          "constvec": c 1, "axvec": A x), as a SCALAR c broadcast over   *)
(*          the geometry of dimension n ("scalar"), as a callable of the   *)
(*          other block conditioned on it ("callable") or as a linear      *)
(*          model ("model"; for the i.i.d. Gaussian the older field        *)
(*          `model` = 1 is this form)                                      *)
(*   dform  the data as ndarray / CUQIarray / python list                  *)
(*   sform  the scale attribute as the scalar f(d), the vector f(d) 1 or   *)
(*          the matrix f(d) I                                              *)
(* Canon(k) is the full-vector / ndarray / scalar-callable writing of the  *)
(* same content.  The conditional is a function of the content only:       *)
(* FormIndependent says the Gamma drawn from is the one of Canon(k), in    *)
(* particular shape = rank/2 + alpha whatever the length of the mean as it *)
(* was given.  The docstrings document the decision table for the scalar   *)
(* callable only: for the other forms a refusal when the target is given   *)
(* is allowed (`mayrefuse`), a draw from another distribution is not.      *)
(*                                                                         *)
(* SEQUENCES.  An instance with chg # "none" is a PAIR of configurations   *)
(* (c, Second(c)) met by ONE sampler object: draw, Change, draw.  Change   *)
(* replaces the data / the mean / alpha / beta / all of them by the other  *)
(* variant through public means: how = "set_target" (a posterior           *)
(* re-conditioned on other values is assigned, what Gibbs does) or         *)
(* how = "assign" (the public setter of the Gamma prior's shape / rate on  *)
(* the target the sampler holds).  The second draw belongs to Second(c):   *)
(* DrawnIsTarget speaks about the configuration in force (Eff) and         *)
(* SecondDrawIsNew says the Gamma of the second draw is Second(c)'s and    *)
(* differs from the first one.                                             *)
(***************************************************************************)
EXTENDS DiffOps

CONSTANTS MaxG,               \* largest i.i.d. Gaussian dimension
          Tables,             \* TRUE: include the decision-table rows
          DevShapeLen, DevScaleAtCurrent, DevNoProbe,
          NumSetPaths,        \* paths (besides "ctor") on which the numeric sweep instances reach the sampler
          DevValidateFirstOnly, DevStalePair,
          FormLevel,          \* 0: no input-form instances, 1: the selection of the quick tier, 2: every form
          Seqs,               \* TRUE: include the sequence instances (pairs of configurations on one sampler)
          DevShapeLenMean, DevCacheFirstDraw

VARIABLES pc,      \* "new", "built", "accepted", "rejected", "computed", "done"
          geo,     \* structure of the likelihood computed when the posterior is built
          sr,      \* <<shape, rate>> of the Gamma about to be / last drawn from
          cur,     \* current point of the sampler (integer)
          sweep,   \* number of draws made
          draws,   \* values returned by the base generator / target.sample, in call order
          chain,   \* recorded chain
          via,     \* path on which the posterior c reaches the sampler (fixed per behaviour)
          held,    \* what the sampler object holds: "unborn" (no sampler yet), "none", "base", "own" (= c),
                   \* "own2" (= Second(c), after Change)
          bsteps   \* steps made on the base posterior before c was assigned

vars == <<c, pc, geo, sr, cur, sweep, draws, chain, via, held, bsteps>>

NSweeps  == 2
InitCur  == 3
DrawVals == {2, 4}
BaseDraw == 5                 \* value drawn in the step made on the base posterior
ProbeVal == 1                 \* value returned to a probe of the direct sampler's validation
Vias     == {"ctor", "set_none", "set_valid", "set_stepped"}

\* ---------------------------------------------------------------- symbolic logs
SC(r)       == <<r, Zero, Zero, Zero>>
SAdd(a, b)  == VAdd(a, b)
SMul(q, a)  == VScale(q, a)
SZero       == SC(Zero)

RECURSIVE PExp(_, _)
PExp(n, p)  == IF n % p = 0 THEN 1 + PExp(n \div p, p) ELSE 0          \* n > 0
RECURSIVE PStrip(_, _)
PStrip(n, p) == IF n % p = 0 THEN PStrip(n \div p, p) ELSE n
Smooth(n)   == PStrip(PStrip(PStrip(n, 2), 3), 5) = 1
\* log of a positive rational whose numerator and denominator are 5-smooth
LogQ(r)     == <<Zero, R(PExp(r[1], 2) - PExp(r[2], 2)), R(PExp(r[1], 3) - PExp(r[2], 3)),
                       R(PExp(r[1], 5) - PExp(r[2], 5))>>
LogDefined(r) == r[1] > 0 /\ Smooth(r[1]) /\ Smooth(r[2])

\* ---------------------------------------------------------------- dependence kinds
Kinds     == {"identity", "reciprocal", "affine", "square", "twice", "none"}
SqrtKinds == {"sqrt", "rsqrt"}
Attrs     == {"cov", "prec", "sqrtcov", "sqrtprec", "mean"}

\* value of the dependence f(t), t rational  (rational kinds only)
KindVal(kind, t) ==
    CASE kind = "identity"   -> t
      [] kind = "reciprocal" -> RInv(t)
      [] kind = "affine"     -> RAdd(t, One)
      [] kind = "square"     -> RMul(t, t)
      [] kind = "twice"      -> RMul(R(2), t)
      [] kind = "none"       -> One
\* f(t)^2  (defined for the square-root kinds as well)
KindSq(kind, t) ==
    CASE kind = "sqrt"  -> t
      [] kind = "rsqrt" -> RInv(t)
      [] OTHER          -> RSq(KindVal(kind, t))

\* precision scale s(t) implied by attribute = f(t)   (documented relations cov = prec^-1, sqrtX^T sqrtX = X)
SFun(kind, attr, t) ==
    CASE attr = "prec"     -> KindVal(kind, t)
      [] attr = "cov"      -> RInv(KindVal(kind, t))
      [] attr = "sqrtprec" -> KindSq(kind, t)
      [] attr = "sqrtcov"  -> RInv(KindSq(kind, t))
      [] attr = "scale"    -> RInv(KindVal(kind, t))     \* LMRF: rate 1/scale
      [] attr = "mean"     -> One
\* coefficient g(t) of the direction u in the mean
GFun(k, t) ==
    IF k.attr = "mean" THEN KindVal(k.dep, t)
    ELSE IF k.occ = 2 THEN t ELSE Zero

\* ---------------------------------------------------------------- instances
Inst(fam, pd, n, gbc, gorder, wm, attr, dep, gdim, occ, model, v, tgt) ==
    [fam |-> fam, pd |-> pd, n |-> n, gbc |-> gbc, gorder |-> gorder, wm |-> wm, attr |-> attr, dep |-> dep,
     gdim |-> gdim, occ |-> occ, model |-> model, v |-> v, tgt |-> tgt,
     mform |-> "vector", dform |-> "ndarray", sform |-> "scalar",     \* the default writing of the inputs
     chg |-> "none", how |-> "", ph |-> 1]                            \* no second configuration

\* ---------------------------------------------------------------- input forms and second configurations
Formed(k, f) == [k EXCEPT !.mform = f[1], !.dform = f[2], !.sform = f[3]]
Seqd(k, s)   == [k EXCEPT !.chg = s[1], !.how = s[2]]
IsForm(k)    == k.mform # "vector" \/ k.dform # "ndarray" \/ k.sform # "scalar"
Plain(k)     == Formed(k, <<"vector", "ndarray", "scalar">>)
\* content of the mean: the standard vector, the constant vector c 1, or A x
Cont(k) == IF k.model = 1 \/ k.mform \in {"axvec", "callable", "model"} THEN "ax"
           ELSE IF k.mform \in {"constvec", "scalar"} THEN "const" ELSE "std"
\* the full-vector / ndarray / scalar-callable writing of the same content
Canon(k) == [k EXCEPT !.model = 0, !.dform = "ndarray", !.sform = "scalar",
                      !.mform = IF Cont(k) = "ax" THEN "axvec" ELSE IF Cont(k) = "const" THEN "constvec" ELSE "vector"]
\* the configuration after Change, and the variant (1 or 2) of one input in a configuration
Second(k)    == [k EXCEPT !.ph = 2]
VOf(k, what) == IF k.ph = 2 /\ k.chg \in {what, "all"} THEN 3 - k.v ELSE k.v
\* forms for which the docstrings do not state the decision: refusing when the target is given is allowed
MayRefuse(k) == IsForm(k)

\* the DiffOps configuration of an instance (order 0 and the i.i.d. Gaussian: identity operator)
DC(k) == IF k.gorder = 0 THEN [pd |-> k.pd, n |-> k.n, bc |-> "none", order |-> 1, wm |-> 1]
         ELSE [pd |-> k.pd, n |-> k.n, bc |-> k.gbc, order |-> k.gorder, wm |-> k.wm]

GMRFShapes ==
    { <<pd, n, bc, o, wm>> \in {1, 2} \X (2..MaxN1) \X BCs2 \X {0, 1, 2} \X {1, 2} :
        /\ (pd = 2 => n <= MaxN2)
        /\ (o = 0 \/ bc # "periodic" => wm = 1)
        /\ (o > 0 => n >= MinN(bc, o)) }

NumGMRF  == { Inst("gmrf", s[1], s[2], s[3], s[4], s[5], "prec", "identity", 1, 1, 0, v, "") :
                s \in GMRFShapes, v \in {1, 2} }
NumGauss == { Inst("gaussian", 1, n, "none", 0, 1, ad[1], ad[2], 1, 1, model, v, "") :
                n \in 1..MaxG, ad \in {<<"cov", "reciprocal">>, <<"prec", "identity">>}, model \in {0, 1}, v \in {1, 2} }

RowOK(attr, dep, gdim, occ) ==
    /\ (dep \in SqrtKinds => attr \in {"sqrtprec", "sqrtcov"})
    /\ (occ = 2 => attr # "mean" /\ dep # "none")
    /\ (gdim = 2 => occ = 1 /\ attr # "mean")
TableGauss == { Inst("gaussian", 1, IF r[3] = 2 THEN 2 ELSE 3, "none", 0, 1, r[1], r[2], r[3], r[4], 0, 2, "") :
                  r \in { q \in Attrs \X (Kinds \cup SqrtKinds) \X {1, 2} \X {1, 2} : RowOK(q[1], q[2], q[3], q[4]) } }
TableGMRF  == { Inst("gmrf", 1, 4, "neumann", 1, 1, r[1], r[2], 1, r[3], 0, 2, "") :
                  r \in { q \in {"prec", "mean"} \X Kinds \X {1, 2} : RowOK(q[1], q[2], 1, q[3]) } }
\* approximate sampler: LMRF(location, scale = f(d)); v = 1: zero location, v = 2: location with non-zero sum
LMRFRows   == { Inst("lmrf", 1, 4, bw[1], 1, bw[2], "scale", dep, gdim, 1, 0, v, "") :
                  bw \in { p \in BCs2 \X {1, 2} : p[1] # "periodic" => p[2] = 1 },
                  dep \in {"reciprocal", "identity", "twice", "none"}, gdim \in {1, 2}, v \in {1, 2} }
\* direct sampler: kinds of targets
DirectTargets == {"gamma", "gaussian", "gmrf", "posterior", "lmrf"}
Samplable     == {"gamma", "gaussian", "gmrf"}
DirectRows == { Inst("direct", 1, n, "zero", 1, 1, "", "", 1, 1, 0, 1, t) : n \in {1, 3}, t \in DirectTargets }
                \ { Inst("direct", 1, 1, "zero", 1, 1, "", "", 1, 1, 0, 1, t) : t \in {"gmrf", "lmrf"} }

TableRows == TableGauss \cup TableGMRF \cup LMRFRows \cup DirectRows

\* the documented decision table (docstrings of Conjugate / ConjugateApprox / Direct); it does not mention the forms
Accept(k) ==
    CASE k.fam = "direct" -> k.tgt \in Samplable
      [] k.fam = "lmrf"   -> k.gdim = 1 /\ VOf(k, "mean") = 1 /\ k.occ = 1 /\ k.dep = "reciprocal"
      [] OTHER            -> k.gdim = 1 /\ k.occ = 1 /\
                             ((k.attr = "cov" /\ k.dep = "reciprocal") \/ (k.attr = "prec" /\ k.dep = "identity"))

\* every accepted pair of the table in every other writing; two rejected rows with a scalar mean; numeric instances
AcceptedRows == { k \in TableGauss \cup TableGMRF \cup LMRFRows : Accept(k) }
FormRejected == { k \in TableGauss : /\ k.gdim = 1 /\ k.occ = 1 /\ k.attr \in {"cov", "prec"}
                                      /\ k.dep \in {"identity", "reciprocal"} /\ ~Accept(k) }
FormNumGauss == { k \in NumGauss : k.model = 0 }
FormNumGMRF  == { k \in NumGMRF : k.v = 2 /\ k.n = (IF k.pd = 1 THEN 4 ELSE 3) }
MFormsOf(k)  == IF k.fam = "lmrf" THEN {"scalar"}                  \* zero location: the zero vector is the default form
                ELSE IF k.fam = "gmrf" THEN {"constvec", "scalar", "callable", "model"}
                ELSE {"constvec", "scalar", "callable"}            \* i.i.d. Gaussian: the model form is the field `model`
SFormsOf(k)  == IF k.fam = "gaussian" THEN {"vector", "matrix"} ELSE {}
FormsOf(k, lvl) ==
    LET one   == { <<mf, "ndarray", "scalar">> : mf \in MFormsOf(k) }
                 \cup { <<"vector", df, "scalar">> : df \in {"cuqiarray", "list"} }
                 \cup { <<"vector", "ndarray", sf>> : sf \in SFormsOf(k) }
        combo == { <<"scalar", "cuqiarray", "scalar">> }
                 \cup { <<"scalar", "list", sf>> : sf \in SFormsOf(k) \ {"matrix"} }
    IN IF lvl >= 2 THEN one \cup combo ELSE { <<"scalar", "ndarray", "scalar">>, <<"scalar", "cuqiarray", "scalar">> }
FormInstances ==
    IF FormLevel = 0 THEN {}
    ELSE (IF Tables THEN UNION { { Formed(k, f) : f \in FormsOf(k, 2) } : k \in AcceptedRows } ELSE {})
         \cup (IF Tables THEN { Formed(k, <<"scalar", "ndarray", "scalar">>) : k \in FormRejected } ELSE {})
         \cup UNION { { Formed(k, f) : f \in FormsOf(k, FormLevel) } : k \in FormNumGauss \cup FormNumGMRF }

\* pairs of configurations met by one sampler: (what changes, how)
SeqKinds(k) == { <<"data", "set_target">>, <<"alpha", "set_target">>, <<"beta", "set_target">>,
                 <<"alpha", "assign">>, <<"beta", "assign">> }
               \cup (IF k.fam = "lmrf" THEN {} ELSE { <<"mean", "set_target">>, <<"all", "set_target">> })
SeqInstances == IF Seqs /\ Tables THEN UNION { { Seqd(k, s) : s \in SeqKinds(k) } : k \in AcceptedRows } ELSE {}

Instances == NumGMRF \cup NumGauss \cup (IF Tables THEN TableRows ELSE {}) \cup FormInstances \cup SeqInstances

\* paths on which an instance reaches a sampler: every row of the decision table on every path; the other writings of a
\* table row by the constructor and by assignment to a sampler that has stepped; a pair starts at the constructor
ViaOf(k) == IF k.chg # "none" THEN {"ctor"}
            ELSE IF IsForm(k) THEN (IF Tables /\ Plain(k) \in TableRows THEN {"ctor", "set_stepped"} ELSE {"ctor"} \cup NumSetPaths)
            ELSE IF Tables /\ k \in TableRows THEN Vias ELSE {"ctor"} \cup NumSetPaths

\* the supported posterior a sampler holds before c is assigned to it (same sampler class, same parameter dimension)
BaseInst(k) ==
    CASE k.fam = "direct" -> Inst("direct", 1, k.n, "zero", 1, 1, "", "", 1, 1, 0, 1, "gaussian")
      [] k.fam = "lmrf"   -> Inst("lmrf", 1, 4, "zero", 1, 1, "scale", "reciprocal", 1, 1, 0, 1, "")
      [] OTHER            -> Inst("gaussian", 1, 2, "none", 0, 1, "prec", "identity", 1, 1, 0, 1, "")

\* ---------------------------------------------------------------- data of an instance (small integers)
PDim(k)   == 2                                           \* domain dimension of the linear model
AMat(k)   == F([i \in 1..Dim(k) |-> [j \in 1..PDim(k) |-> (((i * (j + 1)) + (j * j) + k.v) % 5) - 2]])
XIn(k)    == <<2, -1>>
\* the data b; its second version differs in the first component (not by a constant vector, which the intrinsic fields
\* do not see)
BVec(k)   == LET d == IF k.ph = 2 /\ k.chg \in {"data", "all"} THEN 2 ELSE 0
             IN F([i \in 1..Dim(k) |-> (((i * i) + k.v) % 5) - 2 + (IF i = 1 THEN d ELSE 0)])
\* the mean as a full vector (its content) and as it is given (a scalar form has length 1)
Mu0(k)    == LET v == VOf(k, "mean") IN
             IF Cont(k) = "ax" THEN IMV(AMat(k), XIn(k))
             ELSE IF Cont(k) = "const" THEN F([i \in 1..Dim(k) |-> IF v = 1 THEN 0 ELSE 1])
             ELSE IF k.fam = "lmrf" THEN F([i \in 1..Dim(k) |-> IF v = 2 /\ i = 2 THEN 1 ELSE 0])
             ELSE F([i \in 1..Dim(k) |-> IF v = 1 THEN 0 ELSE (i % 3) - 1])
MeanGiven(k) == IF k.mform = "scalar" THEN <<Mu0(k)[1]>> ELSE Mu0(k)
UVec(k)   == F([i \in 1..Dim(k) |-> IF i % 2 = 1 THEN 1 ELSE -1])                   \* direction of the mean dependence
Alpha(k)  == IF VOf(k, "alpha") = 1 THEN One ELSE Q(5, 2)
Beta(k)   == IF VOf(k, "beta") = 1 THEN Q(1, 4) ELSE R(3)

IAbs(x)   == IF x < 0 THEN -x ELSE x

\* ---------------------------------------------------------------- Build
\* quad(g) = |D (mu0 + g u - b)|^2 = a0 + 2 g a1 + g^2 a2
Structure10(k) ==
    LET D   == DOp(DC(k))
        r0  == IAdd(Mu0(k), ISc(-1, BVec(k)))
        Dr  == IMV(D, r0)
        Du  == IMV(D, UVec(k))
    IN [m  |-> Dim(k),
        ml |-> Len(MeanGiven(k)),           \* length of the mean as it was given
        k  |-> Rank(MR(D)),
        nrows |-> Len(D),
        a0 |-> IDot(Dr, Dr), a1 |-> IDot(Dr, Du), a2 |-> IDot(Du, Du),
        l1 |-> ISum([i \in 1..Len(Dr) |-> IAbs(Dr[i])])]
NoGeo == [m |-> 0, ml |-> 0, k |-> 0, nrows |-> 0, a0 |-> 0, a1 |-> 0, a2 |-> 0, l1 |-> 0]

Quad(g, gg) == RAdd(RAdd(R(g.a0), RMul(RMul(R(2), gg), R(g.a1))), RMul(RSq(gg), R(g.a2)))

\* ---------------------------------------------------------------- the target's own log-density along d
\* log p(t) - log p(1) as a symbolic-log value
Numeric(k) == k.fam \in {"gaussian", "gmrf"} /\ k.gdim = 1
TargetDiff(k, g, t) ==
    LET s1 == SFun(k.dep, k.attr, One)
        st == SFun(k.dep, k.attr, R(t))
        q1 == Quad(g, GFun(k, One))
        qt == Quad(g, GFun(k, R(t)))
    IN SAdd(SAdd(SMul(Q(g.k, 2), LogQ(RDiv(st, s1))),
                 SC(RNeg(RMul(Half, RSub(RMul(st, qt), RMul(s1, q1)))))),
            SAdd(SMul(RSub(Alpha(k), One), LogQ(R(t))),
                 SC(RNeg(RMul(Beta(k), R(t - 1))))))
\* log-density of Gamma(shape, rate) relative to d = 1
GammaDiff(p, t) == SAdd(SMul(RSub(p[1], One), LogQ(R(t))), SC(RNeg(RMul(p[2], R(t - 1)))))

\* ---------------------------------------------------------------- the update of the code
UnitUpdate(k, g, at) ==
    <<RAdd(Q(IF DevShapeLen THEN g.m ELSE IF DevShapeLenMean THEN g.ml ELSE g.k, 2), Alpha(k)),
      RAdd(RMul(Half, RMul(SFun(k.dep, k.attr, R(at)), Quad(g, GFun(k, R(at))))), Beta(k))>>

\* ---------------------------------------------------------------- validation
ProbePts == {1, 10, 100}
ProbeIdentity(dep)   == DevNoProbe \/ \A t \in ProbePts : KindVal(dep, R(t)) = R(t)
ProbeReciprocal(dep) == DevNoProbe \/ \A t \in ProbePts : KindVal(dep, R(t)) = Q(1, t)
Occurrences(k)       == IF k.dep = "none" THEN 0 ELSE k.occ

ValidateOutcome(k) ==
    CASE k.fam = "direct" -> k.tgt \in Samplable
      [] k.fam = "lmrf"   -> /\ k.gdim = 1
                             /\ VOf(k, "mean") = 1                      \* zero location
                             /\ Occurrences(k) = 1
                             /\ k.attr = "scale" /\ ProbeReciprocal(k.dep)
      [] OTHER            -> /\ k.gdim = 1
                             /\ Occurrences(k) = 1
                             /\ \/ k.attr = "cov"  /\ k.dep \notin SqrtKinds /\ ProbeReciprocal(k.dep)
                                \/ k.attr = "prec" /\ k.dep \notin SqrtKinds /\ ProbeIdentity(k.dep)

\* the conditional is a Gamma distribution and the unit-parameter update yields it
Conjugable(k) ==
    /\ Numeric(k) /\ k.attr # "mean" /\ k.occ = 1 /\ k.dep # "none"
    /\ \A t \in {2, 4, 10} : SFun(k.dep, k.attr, R(t)) = RMul(R(t), SFun(k.dep, k.attr, One))

\* ---------------------------------------------------------------- actions
Init10 ==
    /\ c \in Instances
    /\ via \in ViaOf(c)
    /\ held = "unborn" /\ bsteps = 0
    /\ pc = "new" /\ geo = NoGeo /\ sr = <<Zero, Zero>> /\ cur = InitCur /\ sweep = 0 /\ draws = <<>> /\ chain = <<>>

Build ==
    /\ pc = "new"
    /\ geo' = IF c.fam = "direct" \/ c.gdim = 2 THEN NoGeo ELSE Structure10(c)
    /\ pc' = "built"
    /\ UNCHANGED <<c, sr, cur, sweep, draws, chain, via, held, bsteps>>

\* a sampler object exists before c reaches it: constructed without a target or with the supported posterior BaseInst(c)
\* (the direct sampler probes the sampling method of that posterior once)
ConstructBase ==
    /\ pc = "built" /\ via # "ctor" /\ held = "unborn"
    /\ held' = IF via = "set_none" THEN "none" ELSE "base"
    /\ draws' = IF c.fam = "direct" /\ via # "set_none" THEN Append(draws, ProbeVal) ELSE draws
    /\ UNCHANGED <<c, pc, geo, sr, cur, sweep, chain, via, bsteps>>

\* one step on the base posterior: its draw becomes the current point and the first element of the chain
StepBase ==
    /\ pc = "built" /\ via = "set_stepped" /\ held = "base" /\ bsteps = 0
    /\ bsteps' = 1
    /\ cur' = BaseDraw
    /\ draws' = Append(draws, BaseDraw)
    /\ chain' = Append(chain, BaseDraw)
    /\ UNCHANGED <<c, pc, geo, sr, sweep, via, held>>

\* validation run whenever a target is given to the sampler; `h` = what the sampler held before
Outcome(k, h) == IF DevValidateFirstOnly /\ h = "base" THEN TRUE ELSE ValidateOutcome(k)

Receive ==
    /\ pc' = IF Outcome(c, held) THEN "accepted" ELSE "rejected"
    /\ held' = "own"
    \* the direct sampler probes the target's sampling method once (a draw that is not part of the chain)
    /\ draws' = IF c.fam = "direct" /\ Outcome(c, held) THEN Append(draws, ProbeVal) ELSE draws
    /\ UNCHANGED <<c, geo, sr, cur, sweep, chain, via, bsteps>>

\* the constructor is given the posterior c
Validate ==
    /\ pc = "built" /\ via = "ctor" /\ held = "unborn"
    /\ Receive

\* the posterior c is assigned to the target of the existing sampler
SetTarget ==
    /\ pc = "built"
    /\ \/ via = "set_none" /\ held = "none"
       \/ via = "set_valid" /\ held = "base"
       \/ via = "set_stepped" /\ held = "base" /\ bsteps = 1
    /\ Receive

\* the configuration in force: c, or Second(c) once Change has happened
Eff == IF held = "own2" THEN Second(c) ELSE c
\* between the first draw of a pair and Change the sampler waits; after Change the Gamma of the first draw is out of date
\* until it is computed again
AwaitChange == c.chg # "none" /\ sweep = 1 /\ held = "own"
Outdated    == held = "own2" /\ sweep = 1 /\ pc = "accepted"

\* the input named by c.chg is replaced by its other variant through public means; an assigned posterior is validated
\* as any target, the setters of the Gamma prior are not a target assignment
Change ==
    /\ pc = "accepted" /\ AwaitChange
    /\ held' = "own2"
    /\ geo' = Structure10(Second(c))
    /\ pc' = IF c.how = "set_target" /\ ~Outcome(Second(c), "own") THEN "rejected" ELSE "accepted"
    /\ UNCHANGED <<c, sr, cur, sweep, draws, chain, via, bsteps>>

\* the posterior whose conjugate pair the sampler works with
PairInst == IF DevStalePair /\ via \in {"set_valid", "set_stepped"} THEN BaseInst(c) ELSE Eff
PairGeo  == IF DevStalePair /\ via \in {"set_valid", "set_stepped"} THEN Structure10(BaseInst(c)) ELSE geo

ComputeShapeRate ==
    /\ pc = "accepted" /\ c.fam \in {"gaussian", "gmrf"} /\ ~AwaitChange
    /\ sr' = IF DevCacheFirstDraw /\ sweep > 0 THEN sr
             ELSE UnitUpdate(PairInst, PairGeo, IF DevScaleAtCurrent THEN cur ELSE 1)
    /\ pc' = "computed"
    /\ UNCHANGED <<c, geo, cur, sweep, draws, chain, via, held, bsteps>>

DrawTo(v) ==
    /\ draws' = Append(draws, v)
    /\ cur' = v
    /\ chain' = Append(chain, v)
    /\ sweep' = sweep + 1
    /\ pc' = IF sweep + 1 = NSweeps THEN "done" ELSE "accepted"

Draw ==
    /\ pc = "computed"
    /\ \E v \in DrawVals : (sweep = 0 \/ v # cur) /\ DrawTo(v)
    /\ UNCHANGED <<c, geo, sr, via, held, bsteps>>

\* direct sampler and approximate sampler: no shape/rate is predicted, the draw is the target's / generator's value
DrawOther ==
    /\ pc = "accepted" /\ c.fam \in {"direct", "lmrf"} /\ ~AwaitChange
    /\ \E v \in DrawVals : (sweep = 0 \/ v # cur) /\ DrawTo(v)
    /\ UNCHANGED <<c, geo, sr, via, held, bsteps>>

Next10 == Build \/ ConstructBase \/ StepBase \/ Validate \/ SetTarget \/ ComputeShapeRate \/ Draw \/ DrawOther \/ Change
Spec10 == Init10 /\ [][Next10]_vars

\* ---------------------------------------------------------------- properties
TypeOK10 ==
    /\ pc \in {"new", "built", "accepted", "rejected", "computed", "done"}
    /\ sweep \in 0..NSweeps /\ Len(chain) = sweep + bsteps
    /\ via \in Vias /\ held \in {"unborn", "none", "base", "own", "own2"} /\ bsteps \in {0, 1}
    /\ (via = "ctor" => held \in {"unborn", "own", "own2"} /\ bsteps = 0)
    /\ (pc \in {"accepted", "rejected", "computed", "done"} <=> held \in {"own", "own2"})
    /\ (held = "own2" => c.chg # "none" /\ sweep >= 1)
    /\ c.ph = 1 /\ (c.chg = "none" <=> c.how = "")

\* the posterior held before c is one the sampler supports (otherwise the set_valid / set_stepped paths do not exist)
BaseSupported ==
    /\ Accept(BaseInst(c)) /\ ValidateOutcome(BaseInst(c))
    /\ BaseInst(c) \in Instances

\* the accept / reject decision on a target is the documented one whatever the sampler held before
DecisionIgnoresHistory ==
    held \in {"own", "own2"} => ((pc # "rejected") = Accept(Eff))

\* the Gamma distribution drawn from has a log-density that differs from the target's own by a constant
DrawnIsTarget ==
    (pc \in {"computed", "done"} \/ (pc = "accepted" /\ sweep > 0 /\ ~Outdated)) /\ Numeric(c) =>
        \A t \in {2, 4} : GammaDiff(sr, t) = TargetDiff(Eff, geo, t)

\* the Gamma drawn from is the one of the canonical writing of the same content: in particular its shape is
\* rank/2 + alpha whatever the representation (and the length) of the mean, the data and the scale as they were given
FormIndependent ==
    pc \in {"computed", "done"} /\ Numeric(c) /\ Canon(Eff) # Eff =>
        /\ sr = UnitUpdate(Canon(Eff), Structure10(Canon(Eff)), 1)
        /\ Mu0(Canon(Eff)) = Mu0(Eff) /\ BVec(Canon(Eff)) = BVec(Eff)
\* the decision table does not mention the forms; every form instance is another writing of an instance of the model
FormsAreWritings ==
    /\ Accept(c) = Accept(Plain(c))
    /\ (IsForm(c) => Plain(c) \in Instances /\ c.chg = "none")
    /\ Len(Mu0(c)) = Dim(c) /\ Len(MeanGiven(c)) \in {1, Dim(c)}

\* a pair: both configurations are supported, the second draw is made from the Gamma of the second configuration and
\* that Gamma is not the one of the first draw (the pair is not degenerate)
SecondDrawIsNew ==
    /\ (c.chg # "none" => Accept(c) /\ Accept(Second(c)) /\ Plain(Seqd(c, <<"none", "">>)) \in Instances)
    /\ (held = "own2" /\ pc \in {"computed", "done"} /\ Numeric(c) =>
            /\ sr = UnitUpdate(Second(c), Structure10(Second(c)), 1)
            /\ sr # UnitUpdate(c, Structure10(c), 1))

\* implementation-shaped validation = documented table; accepted rows are conjugate
TableConsistent ==
    pc \in {"accepted", "rejected", "computed", "done"} =>
        /\ (pc # "rejected") = Accept(Eff)
        /\ (Accept(Eff) /\ Numeric(c) => Conjugable(Eff))

\* rejecting is necessary: for a row whose conditional is not of the conjugate form the update would not yield the
\* target; for a rejected row of conjugate form it would (harmless acceptance, e.g. prec = 2 d)
UnitExact(k, g) == \A t \in {2, 4} : GammaDiff(UnitUpdate(k, g, 1), t) = TargetDiff(k, g, t)
RejectionJustified ==
    pc = "rejected" /\ Numeric(c) /\ ~DevShapeLen /\ ~IsForm(c) =>
        /\ (geo.k > 0 /\ geo.a0 > 0 /\ geo.a1 # 0 /\ geo.a2 > 0)              \* the witness instance is not degenerate
        /\ (UnitExact(c, geo) <=> Conjugable(c))

\* the update never looks at the current point: both sweeps use the same Gamma
SameGammaEverySweep ==
    pc \in {"computed", "done"} /\ Numeric(c) => sr = UnitUpdate(PairInst, PairGeo, 1)

\* the chain is the sequence of values returned by the generator / the target's sampling method
\* (the probes of the direct sampler's validation, value ProbeVal, are not part of the chain)
ChainIsDraws ==
    chain = SelectSeq(draws, LAMBDA v : v # ProbeVal)

LogsDefined ==
    pc = "built" /\ Numeric(c) =>
        \A t \in {2, 4} : LogDefined(RDiv(SFun(c.dep, c.attr, R(t)), SFun(c.dep, c.attr, One)))

\* ---------------------------------------------------------------- emission
\* the base posterior as the harness has to build it (the Gamma of its own conjugate update for the step made on it)
BaseRec(k) ==
    LET num == Numeric(k)
        u1  == IF num THEN UnitUpdate(k, Structure10(k), 1) ELSE <<Zero, Zero>>
    IN [kind |-> "conj", fam |-> k.fam, pd |-> k.pd, n |-> k.n, gbc |-> k.gbc, gorder |-> k.gorder, wm |-> k.wm,
        attr |-> k.attr, dep |-> k.dep, gdim |-> k.gdim, occ |-> k.occ, model |-> k.model, v |-> k.v, tgt |-> k.tgt,
        mform |-> k.mform, dform |-> k.dform, sform |-> k.sform, meangiven |-> MeanGiven(k),
        accept |-> Accept(k),
        b |-> BVec(k), mu0 |-> Mu0(k), u |-> UVec(k), A |-> AMat(k), xin |-> XIn(k),
        alpha |-> Alpha(k), beta |-> Beta(k), shape |-> u1[1], rate |-> u1[2]]
\* the second configuration of a pair: its data, mean and prior, the Gamma of its own conjugate update, its structure
SecondRec(k) ==
    LET g == IF k.fam \in {"gaussian", "gmrf", "lmrf"} /\ k.gdim = 1 THEN Structure10(k) ELSE NoGeo
    IN [rec |-> BaseRec(k), m |-> g.m, k |-> g.k, nrows |-> g.nrows, q |-> g.a0, l1 |-> g.l1]

CaseRec ==
    LET k == c
        num == Numeric(k)
        g1 == IF held = "own2" THEN Structure10(k) ELSE geo           \* structure of the first configuration
        u1 == IF num THEN UnitUpdate(k, g1, 1) ELSE <<Zero, Zero>>
    IN [kind |-> "conj", fam |-> k.fam, pd |-> k.pd, n |-> k.n, gbc |-> k.gbc, gorder |-> k.gorder, wm |-> k.wm,
        attr |-> k.attr, dep |-> k.dep, gdim |-> k.gdim, occ |-> k.occ, model |-> k.model, v |-> k.v, tgt |-> k.tgt,
        mform |-> k.mform, dform |-> k.dform, sform |-> k.sform, meangiven |-> MeanGiven(k), ml |-> g1.ml,
        mayrefuse |-> MayRefuse(k),
        chg |-> k.chg, how |-> k.how, second |-> IF k.chg # "none" THEN <<SecondRec(Second(k))>> ELSE <<>>,
        accept |-> (pc # "rejected"), conjugable |-> Conjugable(k),
        unitexact |-> IF num /\ g1.m > 0 THEN UnitExact(k, g1) ELSE FALSE,
        b |-> BVec(k), mu0 |-> Mu0(k), u |-> UVec(k), A |-> AMat(k), xin |-> XIn(k),
        alpha |-> Alpha(k), beta |-> Beta(k),
        m |-> g1.m, k |-> g1.k, nrows |-> g1.nrows, q |-> g1.a0, l1 |-> g1.l1,
        shape |-> u1[1], rate |-> u1[2],
        P |-> IF k.fam = "gmrf" THEN Prec(DC(k)) ELSE <<>>,
        init |-> InitCur, chain |-> chain, draws |-> draws,
        via |-> via, bsteps |-> bsteps, basedraw |-> BaseDraw, base |-> BaseRec(BaseInst(k))]

EmitCases ==
    (Emit /\ (pc = "rejected" \/ pc = "done")) => PrintT("@@CASE " \o ToJson(CaseRec) \o " @@END")
=============================================================================
