----------------------------- MODULE TraceGibbs -----------------------------
(***************************************************************************)
(* Trace validation for Gibbs.tla: recorded executions of HybridGibbs and  *)
(* of cuqi.sampler.Gibbs (harness/cuqiverif/record_gibbs.py) must be       *)
(* behaviours of the specification.  All traces of one TLC run share the   *)
(* visiting order (cfg: Order <- TraceOrder).                              *)
(*                                                                         *)
(* Logged events and the specification actions they are bound to:          *)
(*   init(order, kinds, steps, vals)  -> TraceInit (values are value ids)  *)
(*   set_target(others)               -> SetTarget, ctx' bound to the ids  *)
(*                                       actually passed to the joint      *)
(*   block_step(block, start, pid, cache_ok, tgt_ok) -> BlockStep          *)
(*   sweep_end(vals)                  -> (all blocks extracted) vals = val *)
(*   store(vals)                      -> Store, stored tuple bound         *)
(*   call(op, n)                      -> NewCall after the first call      *)
(*   sweep_begin                      -> no state change                   *)
(* SaveReinit, Restore and Extract are not observable from outside: they   *)
(* are composed in as silent steps (each enabled in exactly one phase, so  *)
(* at most three silent steps occur between two events).                   *)
(* The invariants of Gibbs.tla are evaluated in every state of the trace:  *)
(* they guard every event action (a violated invariant rejects the trace   *)
(* at that event instead of stopping TLC for all traces of the batch).     *)
(***************************************************************************)
EXTENDS Gibbs, IOUtils

Traces == JsonDeserialize(IOEnv.TRACE_FILE)
TraceOrder == Traces[1].events[1].order
AnySteps == 1..1000
AnyKinds == {"Exact", "Cached", "Reinit"}

VARIABLES tid, l
tvars == <<vars, tid, l>>

Ev == Traces[tid].events
IsEvent(e) == l <= Len(Ev) /\ Ev[l].e = e /\ l' = l + 1 /\ UNCHANGED tid
Pos(b) == CHOOSE i \in 1..Len(Order) : Order[i] = b

TraceInit ==
    /\ tid \in 1..Len(Traces) /\ l = 2
    /\ Ev[1].e = "init" /\ Ev[1].order = Order
    /\ kind = [b \in Blocks |-> Ev[1].kinds[b]]
    /\ steps = [b \in Blocks |-> Ev[1].steps[b]]       \* as CONFIGURED by the caller (default 1), not as the sampler reports
    /\ \A b \in Blocks : steps[b] \in StepChoices   \* at least one transition per block and sweep
    /\ val = [b \in Blocks |-> Ev[1].vals[b]]
    /\ ctx = [b \in Blocks |-> CondOn(b, val)]
    /\ cachectx = ctx
    /\ spoint = val
    /\ saved = <<0, <<>>>>
    /\ pc = <<"settarget", 1>> /\ inner = 0 /\ first = 0
    /\ sweep = 0 /\ sweepstart = val /\ visited = {} /\ stored = <<>> /\ nextid = 1 /\ call = 0

TCall == /\ IsEvent("call")
         /\ IF call = 0 \/ sweep = 0 THEN call' = call + 1 /\ UNCHANGED <<kind, steps, val, ctx, cachectx, spoint, saved, pc, inner, first,
                                                       sweep, sweepstart, visited, stored, nextid>>
                        ELSE NewCall

TSweepBegin == IsEvent("sweep_begin") /\ pc = <<"settarget", 1>> /\ UNCHANGED vars

\* the target handed to the block's sampler is conditioned on exactly the logged values
TSetTarget ==
    /\ IsEvent("set_target")
    /\ SetTarget
    /\ DOMAIN Ev[l].others = Others(Cur)
    /\ ctx'[Cur] = [o \in Others(Cur) |-> Ev[l].others[o]]

TBlockStep ==
    /\ IsEvent("block_step")
    /\ pc[1] = "step" /\ Ev[l].block = Cur
    /\ Ev[l].start = spoint[Cur]                                   \* the sampler continues from its own last point
    /\ (~Ev[l].cache_ok => cachectx[Cur] # ctx[Cur])               \* a stale cache must be explained by the specification
    /\ Ev[l].tgt_ok              \* the target the sampler HOLDS is the joint conditioned on val (ctx is what was handed over)
    /\ BlockStep(Ev[l].pid, Ev[l].pid # Ev[l].start)

TSweepEnd ==
    /\ IsEvent("sweep_end")
    /\ pc[1] = "store"
    /\ \A b \in Blocks : Ev[l].vals[b] = val[b]
    /\ UNCHANGED vars

TStore ==
    /\ IsEvent("store")
    /\ Store
    /\ \A b \in Blocks : Ev[l].vals[b] = stored'[Len(stored')][b]

TSilent == (SaveReinit \/ Restore \/ Extract) /\ UNCHANGED <<tid, l>>

\* invariants of the specification, required in the state in which an event is consumed
Guard == /\ Fresh /\ StartsFromCurrent /\ StepsAsConfigured /\ AllVisited
         /\ (RestoreKeepsOldCache \/ CacheFresh)

TraceNext0 == TCall \/ TSweepBegin \/ TSetTarget \/ TBlockStep \/ TSweepEnd \/ TStore \/ TSilent
TraceNext == Guard /\ TraceNext0

Accepted == (l = Len(Ev) + 1) => PrintT("@@CASE " \o ToJson([acc |-> tid]) \o " @@END")
Progress == PrintT("@@CASE " \o ToJson([tid |-> tid, l |-> l]) \o " @@END")
=============================================================================
