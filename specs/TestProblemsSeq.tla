------------------------- MODULE TestProblemsSeq -------------------------
(***************************************************************************)
(* Property C17, sequences of public operations on ONE test-problem object *)
(* (the machine of TestProblems.tla, Part B, continued after Assemble).    *)
(*                                                                         *)
(* TestProblems.tla constructs a fresh problem per option combination and  *)
(* hands its components out once.  Here the assembled object LIVES ON:     *)
(*   Fetch     - get_components(), .posterior, .likelihood, .prior, .data, *)
(*               .model are handed out and posterior.logd is evaluated     *)
(*               (whatever the object derives lazily is derived now)       *)
(*   SetData   - the data are replaced by a second version through the     *)
(*               public interface; three routes                            *)
(*                 "newlik"  problem.likelihood = ddist.to_likelihood(d)   *)
(*                 "likdata" problem.likelihood.data = d      (in place)   *)
(*                 "setdata" BayesianProblem(ddist, prior).set_data(y=d):  *)
(*                           the generic problem built from the densities  *)
(*                           of the test problem; nothing can be fetched   *)
(*                           and no prior can be assigned before the data  *)
(*                           are set, and they can be set once             *)
(*   SetPrior  - problem.prior = second prior                              *)
(*   Refused   - an assignment the interface refuses (set_data on a problem*)
(*               whose data are set, the read-only `data` attribute): the  *)
(*               object must stay as it was                                *)
(* in every order (reassign BEFORE the first Fetch = cold, AFTER = warm,   *)
(* there and back) with at most MaxRe (attempted) reassignments and no two *)
(* consecutive Fetches.  Two versions of the data (the second one: exact   *)
(* data + scale .* Z2 with a second scripted draw, WangCubic: data + 2)    *)
(* and two priors (the second one: Gaussian((i mod 3) - 1, 9/4) on the     *)
(* model's domain geometry).                                               *)
(*                                                                         *)
(* Invariants = the invariants of TestProblems.tla re-stated over the      *)
(* state after EVERY action: the problem object refers to the CURRENT data *)
(* and prior and the same model (SeqProblemIsCurrent); everything handed   *)
(* out by a Fetch refers to the current data / prior / the same model and  *)
(* compatible geometries (SeqSameData, SeqSamePrior, SeqSameModel,         *)
(* SeqSameGeometries) and the posterior handed out is Gaussian             *)
(* log-likelihood of the stated noise at the CURRENT data + log-density of *)
(* the CURRENT prior (SeqPosteriorIsLikPlusPrior, standardised residual    *)
(* vectors and prior quadratic forms computed from the arguments alone).   *)
(* Named deviations (off in the deciding configurations):                  *)
(*   StaleCacheAfterSetData  - what the first Fetch derived (likelihood,   *)
(*                             data) is kept and handed out again after    *)
(*                             SetData                                     *)
(*   StaleCacheAfterSetPrior - the same for the prior                      *)
(* Every maximal behaviour is emitted with the expected consistency record *)
(* after every action and the tables of expected numbers per version.      *)
(***************************************************************************)
EXTENDS TestProblems

CONSTANT MaxRe          \* (attempted) reassignments per behaviour

VARIABLES route,        \* how the data are reassigned in this behaviour
          hist,         \* actions taken on the assembled object: [a |-> "F" | "D" | "P" | "X", v |-> version]
          cur,          \* [dver, pver]: current version of data (0 = not set) and prior
          handed,       \* references handed out by the last Fetch
          cache,        \* what the first Fetch derived (only the deviations read it)
          recs,         \* expected consistency record after every action
          stated        \* expected numbers per version, computed ONCE from the arguments of the calls alone
svars   == <<route, hist, cur, handed, cache, recs, stated>>
allvars == <<opt, pc, heap, prob, comps, route, hist, cur, handed, cache, recs, stated>>

MaxLen == 2 * MaxRe + 1
Routes == {"newlik", "likdata", "setdata"}

\* ---- the lean lattice: a few option combinations per test problem ---------------------------------
HeatLike(p, lv, z, e) == [Base EXCEPT !.problem = p, !.n = 4, !.noise = "snr", !.level = lv, !.zpat = z, !.exsol = e]
Wang(lv, pr, w, wf)   == [Base EXCEPT !.problem = "WangCubic", !.n = 2, !.noise = "gaussian", !.level = lv, !.prior = pr,
                                      !.wdata = w, !.wform = wf]
SeqTiny  == { D1(<<4, 4, "ramp">>, "zero", Giv("ramp"), "gaussian", Giv(Q(2, 1)), NotGivenS, "alt") }
SeqQuick == SeqTiny \cup
    { D1(<<5, 3, "sym">>, "periodic", Giv("sq"), "scaledgaussian", Giv(Q(1, 2)), Giv("ones4"), "ed"),
      DL(<<4, 4, "ramp">>, Giv("ramp"), "gaussian", Giv(Q(1, 2)), NotGivenS, "alt"),
      DL(<<4, 4, "sym">>, Giv("sq"), "gaussian", Giv(Q(1, 2)), NotGivenS, "ed"),
      D2(<<3, 2, "ramp">>, "neumann", Giv("sq"), "gaussian", Giv(Q(1, 2)), NotGivenS, "alt"),
      HeatLike("Heat1D", Giv(R(10)), "alt", NotGivenS),
      HeatLike("Poisson1D", Giv(R(10)), "ed", Giv("sq")),
      HeatLike("Abel1D", Giv(R(2)), "alt", NotGivenS),
      Wang(Giv(Q(2, 1)), Giv("ones4"), Giv(R(3)), "int"),
      Wang(NotGivenQ, NotGivenS, NotGivenQ, "na") }
SeqThorough == SeqQuick \cup
    { D1(<<5, 3, "ramp">>, "reflect", Giv("ramp"), "scaledgaussian", Giv(Q(2, 1)), NotGivenS, "alt"),
      D1(<<4, 4, "ramp">>, "mirror", Giv("sq"), "gaussian", Giv(Q(1, 10)), Giv("ones4"), "ones"),
      D1(<<3, 5, "ramp">>, "nearest", Giv("sq"), "gaussian", NotGivenQ, NotGivenS, "e1"),
      DL(<<6, 6, "ramp">>, Giv("sq"), "scaledgaussian", Giv(Q(1, 2)), Giv("ones4"), "ed"),
      DL(<<6, 6, "oneside">>, Giv("ramp"), "gaussian", Giv(Q(2, 1)), NotGivenS, "alt"),
      D2(<<3, 2, "ramp">>, "periodic", Giv("ramp"), "scaledgaussian", Giv(Q(2, 1)), Giv("ones4"), "ed"),
      D2(<<2, 3, "quad">>, "mirror", Giv("sq"), "gaussian", Giv(Q(1, 2)), NotGivenS, "ones"),
      HeatLike("Heat1D", Giv(R(2)), "ed", Giv("sq")),
      HeatLike("Poisson1D", NotGivenQ, "alt", NotGivenS),
      HeatLike("Abel1D", NotGivenQ, "ed", NotGivenS),
      Wang(Giv(Q(1, 2)), NotGivenS, Giv(Zero), "float"),
      Wang(NotGivenQ, Giv("ones4"), Giv(R(-2)), "vec") }
SeqOpts == IF Size = 0 THEN SeqTiny ELSE IF Size = 1 THEN SeqQuick ELSE SeqThorough
ASSUME \A o \in SeqOpts : ValidOpt(o)

\* ---- the two versions ----------------------------------------------------------------------------
Z2Pat        == IF opt.zpat = "alt" THEN "ed" ELSE "alt"
ZPatV(v)     == IF v = 1 THEN opt.zpat ELSE Z2Pat
WDataV(e, v) == IF v = 1 THEN e.wdata ELSE RAdd(e.wdata, R(2))
Prior2       == [mean |-> [i \in 1..DomDim(opt) |-> (i % 3) - 1], var |-> Q(9, 4), geom |-> heap.model.dgeom]
PriorV(v)    == IF v = 1 THEN PriorOf(opt, D) ELSE Prior2
DName(v)     == IF v = 1 THEN "data" ELSE "data2"
PName(v)     == IF v = 1 THEN "prior" ELSE "prior2"
\* the second data object as the caller makes it (implementation side: from the objects of the heap).  A CUQIarray on the
\* model's range geometry on the route "newlik", a plain array (no geometry) on the other routes
Data2Obj ==
    LET Z  == IF IsWang(opt) THEN <<>> ELSE ZVec(Z2Pat, RngDim(opt))
        mu == IF DK THEN IMV(heap[heap.ddist.model].A, heap.xex.vals) ELSE <<>>
    IN [vals   |-> IF DK THEN F([i \in 1..Len(mu) |-> RAdd(R(mu[i]), RMul(heap.ddist.svec[i], R(Z[i])))])
                   ELSE IF IsWang(opt) THEN <<WDataV(U, 2)>> ELSE <<>>,
        base   |-> IF IsWang(opt) THEN "given" ELSE "yex", scale |-> heap.ddist.scale, Z |-> Z, ndraws |-> 0,
        geom   |-> IF route = "newlik" THEN "grng" ELSE "default"]

\* ---- the expected numbers, from the arguments of the calls alone, per version -----------------------------
StatedTab(pts) ==
    IF IsWang(opt)
    THEN F([v \in 1..2 |-> [i \in 1..Len(pts) |-> <<RDiv(RSub(WDataV(D, v), R(WangF(pts[i][1], pts[i][2]))), D.level)>>]])
    ELSE LET A == DeconvMat(opt, D, opt.bc)  y == IMV(A, XVec(opt, D))  s == ScaleVec(Stated(opt, D), y)
         IN F([v \in 1..2 |->
                LET Z == ZVec(ZPatV(v), RngDim(opt))
                IN [i \in 1..Len(pts) |->
                      LET mu == IMV(A, pts[i])
                      IN [j \in 1..Len(y) |-> RDiv(RSub(RAdd(R(y[j]), RMul(s[j], R(Z[j]))), R(mu[j])), s[j])]]])
PriorTab(pts) == F([v \in 1..2 |-> [i \in 1..Len(pts) |-> QuadOf(PriorV(v), pts[i])]])
StatedAll == LET pts == SeqOfSet(TestPts)
             IN [pts |-> pts, lik |-> IF DK \/ IsWang(opt) THEN StatedTab(pts) ELSE <<>>, prior |-> PriorTab(pts)]

\* ---- actions ---------------------------------------------------------------------------------------
SInit == /\ opt \in SeqOpts
         /\ pc = "start" /\ heap = Null /\ prob = Null /\ comps = Null
         /\ route \in Routes
         /\ hist = <<>> /\ recs = <<>> /\ cur = [dver |-> 1, pver |-> 1] /\ handed = Null /\ cache = Null /\ stated = Null

Construct == ResolveOptions \/ SelectGeometry \/ BuildModel \/ MakeExact \/ MakeDataDist \/ SampleData \/ MakeLikelihood \/ Assemble

\* the caller prepares the second versions; on the route "setdata" the object under test is the generic problem built
\* from the data distribution and the prior of the test problem, WITHOUT data
Start ==
    /\ pc = "assembled"
    /\ heap' = [k \in DOMAIN heap \cup {"data2", "prior2", "joint"} |->
                  IF k = "data2" THEN Data2Obj
                  ELSE IF k = "prior2" THEN Prior2
                  ELSE IF k = "joint" THEN [ddist |-> "ddist", prior |-> "prior"]
                  ELSE heap[k]]
    /\ prob' = IF route = "setdata" THEN [target |-> "joint", exactSolution |-> "none", exactData |-> "none", infoString |-> FALSE]
               ELSE prob
    /\ cur' = [dver |-> IF route = "setdata" THEN 0 ELSE 1, pver |-> 1]
    /\ stated' = F(StatedAll)
    /\ pc' = "seq" /\ UNCHANGED <<opt, comps, route, hist, handed, cache, recs>>

Last    == hist[Len(hist)]
NRe     == Cardinality({i \in 1..Len(hist) : hist[i].a # "F"})
CanRe   == pc = "seq" /\ NRe < MaxRe /\ Len(hist) < MaxLen
HasData == cur.dver # 0
Log(a, v, c) ==
    /\ hist' = Append(hist, [a |-> a, v |-> v])
    /\ recs' = Append(recs, [dver |-> c.dver, pver |-> c.pver,
                             data |-> IF c.dver = 0 THEN "none" ELSE DName(c.dver), prior |-> PName(c.pver)])
    /\ cur' = c

\* everything is handed out; what the object derives at first use is derived now
Fetch ==
    /\ pc = "seq" /\ HasData /\ Len(hist) < MaxLen /\ (IF hist = <<>> THEN TRUE ELSE Last.a # "F")
    /\ LET staleD == Deviation = "StaleCacheAfterSetData" /\ cache # Null
           staleP == Deviation = "StaleCacheAfterSetPrior" /\ cache # Null
           lk == IF staleD THEN cache.lik ELSE heap[PPost].lik
           dt == IF staleD THEN cache.data ELSE heap[lk].data
           pr == IF staleP THEN cache.prior ELSE heap[PPost].prior
       IN /\ handed' = [post |-> PPost, lik |-> lk, prior |-> pr, model |-> heap[lk].model, data |-> dt,
                        cmodel |-> heap[lk].model, cdata |-> dt, cx |-> prob.exactSolution, cy |-> prob.exactData]
          /\ comps' = [model |-> heap[lk].model, data |-> dt, exactSolution |-> prob.exactSolution, exactData |-> prob.exactData]
          /\ cache' = IF cache = Null THEN [lik |-> lk, data |-> dt, prior |-> pr] ELSE cache
    /\ Log("F", 0, cur)
    /\ UNCHANGED <<opt, pc, heap, prob, route, stated>>

NewLik(v) == [model |-> heap[PLik].model, data |-> DName(v), scale |-> heap[PLik].scale, svec |-> heap[PLik].svec]
SetData(v) ==
    /\ CanRe /\ v # cur.dver
    /\ \/ /\ route = "newlik"
          /\ LET nm == IF v = 1 THEN "lik_n1" ELSE "lik_n2"
             IN heap' = [k \in DOMAIN heap \cup {nm} |->
                           IF k = nm THEN NewLik(v) ELSE IF k = PPost THEN [heap[PPost] EXCEPT !.lik = nm] ELSE heap[k]]
          /\ UNCHANGED prob
       \/ /\ route = "likdata"
          /\ heap' = [heap EXCEPT ![PLik].data = DName(v)]
          /\ UNCHANGED prob
       \/ /\ route = "setdata" /\ ~HasData
          /\ heap' = [k \in DOMAIN heap \cup {"lik_s", "post_s"} |->
                        IF k = "lik_s" THEN [model |-> heap.ddist.model, data |-> DName(v), scale |-> heap.ddist.scale,
                                             svec |-> heap.ddist.svec]
                        ELSE IF k = "post_s" THEN [lik |-> "lik_s", prior |-> heap.joint.prior, geom |-> heap[heap.ddist.model].dgeom]
                        ELSE heap[k]]
          /\ prob' = [prob EXCEPT !.target = "post_s"]
    /\ Log("D", v, [cur EXCEPT !.dver = v])
    /\ UNCHANGED <<opt, pc, comps, route, handed, cache, stated>>

SetPrior(v) ==
    /\ CanRe /\ HasData /\ v # cur.pver
    /\ heap' = [heap EXCEPT ![PPost].prior = PName(v)]
    /\ Log("P", v, [cur EXCEPT !.pver = v])
    /\ UNCHANGED <<opt, pc, prob, comps, route, handed, cache, stated>>

\* an assignment of the other data version through a form the interface refuses: nothing changes
Refused(v) ==
    /\ CanRe /\ HasData /\ v # cur.dver
    /\ Log("X", v, cur)
    /\ UNCHANGED <<opt, pc, heap, prob, comps, route, handed, cache, stated>>

SNext == \/ (Construct /\ UNCHANGED svars)
         \/ Start \/ Fetch
         \/ \E v \in 1..2 : SetData(v) \/ SetPrior(v) \/ Refused(v)
SSpec == SInit /\ [][SNext]_allvars

\* ---- invariants ----------------------------------------------------------------------------------------
InSeq   == pc = "seq"
Fetched == InSeq /\ hist # <<>> /\ Last.a = "F"
Maximal == Fetched /\ NRe = MaxRe

\* after EVERY action the problem object itself refers to the current data, the current prior and the one model
SeqProblemIsCurrent ==
    (InSeq /\ HasData) => /\ PData = DName(cur.dver)
                          /\ PPrior = PName(cur.pver)
                          /\ PModel = "model" /\ heap.ddist.model = "model"
                          /\ Len(recs) = Len(hist)
\* everything handed out by a Fetch: one model ...
SeqSameModel ==
    Fetched => /\ handed.model = "model" /\ handed.cmodel = "model"
               /\ heap[handed.lik].model = "model" /\ heap[heap[handed.post].lik].model = "model"
               /\ (~IsWang(opt) => heap.yex.model = "model")
\* ... the CURRENT data, in the problem, the likelihood, the posterior and the components ...
SeqSameData ==
    Fetched => LET d == DName(cur.dver)
               IN /\ handed.data = d /\ handed.cdata = d
                  /\ heap[handed.lik].data = d /\ heap[heap[handed.post].lik].data = d
\* ... the CURRENT prior ...
SeqSamePrior ==
    Fetched => handed.prior = PName(cur.pver) /\ heap[handed.post].prior = PName(cur.pver)
\* ... compatible geometries ...
SeqSameGeometries ==
    Fetched => /\ Compat(heap[handed.prior].geom, heap[handed.model].dgeom)
               /\ heap[handed.post].geom = heap[handed.model].dgeom
               /\ Compat(heap[handed.data].geom, heap[handed.model].rgeom)
               /\ (handed.cx # "none" => heap[handed.cx].geom = heap[handed.model].dgeom)
               /\ (handed.cy # "none" => heap[handed.cy].geom = heap[handed.model].rgeom)
\* ... exact values untouched (a Fetch changes nothing: it has UNCHANGED <<heap, prob>>) ...
SeqExactUntouched ==
    (Fetched /\ route # "setdata" /\ ~IsWang(opt)) =>
        /\ handed.cx = "xex" /\ handed.cy = "yex"
        /\ (XK => heap.xex.vals = XVec(opt, D))
        /\ (DK => heap.yex.vals = IMV(heap.model.A, heap.xex.vals))

\* ... and the numbers (stated: computed at Start from the arguments of the calls alone, per version)
SeqPosteriorIsLikPlusPrior ==
    (Fetched /\ (DK \/ IsWang(opt))) =>
        LET pts == stated.pts  st == stated.lik  pt == stated.prior
        IN \A i \in 1..Len(pts) : /\ QuadLik(heap[handed.post].lik, pts[i]) = st[cur.dver][i]
                                  /\ QuadLik(handed.lik, pts[i]) = st[cur.dver][i]
                                  /\ QuadPrior(handed.prior, pts[i]) = pt[cur.pver][i]
                                  /\ QuadPrior(heap[handed.post].prior, pts[i]) = pt[cur.pver][i]

\* ---- emission: every maximal behaviour with the expected record after every action -----------------------
EmitSeq ==
    (Emit /\ Maximal) =>
      LET pts   == stated.pts
          known == DK \/ IsWang(opt)
          st    == stated.lik
          pt    == stated.prior
      IN PrintT("@@CASE " \o ToJson(
        [kind |-> "seq", problem |-> opt.problem, n |-> opt.n, m |-> opt.m, bc |-> opt.bc, orient |-> opt.orient,
         noise |-> opt.noise, zpat |-> opt.zpat, wform |-> opt.wform,
         args |-> [k \in OptNames |-> opt[k]], used |-> D, falsy |-> SeqOfSet({k \in OptNames : IsFalsy(opt, k)}),
         domdim |-> DomDim(opt), rngdim |-> RngDim(opt),
         numeric |-> AK, xknown |-> XK, yknown |-> YK, dknown |-> DK,
         psf |-> IF AK THEN PsfArr(opt, D) ELSE <<>>,
         A |-> heap.model.A,
         x |-> IF XK THEN heap.xex.vals ELSE <<>>,
         y |-> IF YK THEN heap.yex.vals ELSE <<>>,
         Z |-> heap.data.Z, scale |-> heap.ddist.scale, svec |-> heap.ddist.svec, data |-> heap.data.vals,
         prior_mean |-> heap.prior.mean, prior_var |-> heap.prior.var,
         route |-> route, ops |-> hist, steps |-> recs, pts |-> pts,
         info |-> [exactSolution |-> prob.exactSolution # "none", exactData |-> prob.exactData # "none"],
         dtab |-> [v \in 1..2 |-> [name |-> DName(v), vals |-> heap[DName(v)].vals, Z |-> heap[DName(v)].Z,
                                   res |-> IF known THEN st[v] ELSE <<>>]],
         ptab |-> [v \in 1..2 |-> [name |-> PName(v), mean |-> PriorV(v).mean, var |-> PriorV(v).var, priorq |-> pt[v]]],
         same |-> <<<<"components.model", "problem.model">>, <<"problem.model", "likelihood.model">>,
                    <<"posterior.likelihood", "problem.likelihood">>, <<"posterior.prior", "problem.prior">>,
                    <<"components.data", "problem.data">>, <<"problem.data", "likelihood.data">>, <<"posterior.data", "problem.data">>,
                    <<"posterior.model", "problem.model">>>>]) \o " @@END")
=============================================================================
